"""C37 - Compliant contact forces follow their documented laws (HuntCrossleyForce only).
Part A (CBMC contracts, part_c37_loop): contact loop structure for any number of contacts.
Part B (route M3): the per-contact Hunt-Crossley / Hollars law of the real calcForce body,
transliterated each run, on symbolic contacts, materials, poses and velocities."""
import os, re, json, z3
from vlib import *
from extract import *
import symlib as S
from symlib import *
import forcelib as FL
import part_c37_loop

PID = "C37"
META = dict(
    category="proof",
    text=("HuntCrossleyForceImpl::calcForce: (A) loop contract with ghost contact index on the control slice cut from the real source: every point contact with positive force gets "
          "its (-force on body1, +force on body2) pair exactly once whatever the other contacts do, nothing for f<=0 or non-point contacts, any number of contacts; "
          "(B) per-contact law on the transliterated body, every branch: normal component N>0 (never attractive) with N^2 == (16/9) R k^3 x^3 (1+3/2 c xdot)^2 i.e. the documented "
          "Hertz/Hunt-Crossley law with k=E^(2/3) combination s1=k2/(k1+k2), c=c1 s1+c2 s2; friction in the tangent plane, opposing slip on each body, magnitude == documented "
          "Hollars formula with u=2u1u2/(u1+u2); forces on the two bodies equal and opposite at one ground point; pe == 2/5 fH x. "
          "(C) CompliantContactSubsystem's calcHertzContactForce (shared by the HertzCircular and HertzElliptical generators) with stribeck()/step5(), every branch: cleared result only for depth<=0; "
          "contact point == origin + x(1/2-s1) n; the penetration rate is that of surface 2's material point AT THE CONTACT POINT; fH^2 == e^2 (16/9) R k^3 x^3, fHC == 3/2 c xdot fH, "
          "N == fH+fHC > 0, zero force only when 1+3/2 c xdot <= 0; friction tangent, == -(N mu/vslip) * slip velocity (opposes slip, magnitude mu N), none below the slip threshold; no moment at the contact point; "
          "pe == 2/5 fH x; power dissipation >= 0; stribeck: 0 <= mu_dry <= us on every segment, 0 at v=0, continuous at the segment ends. Other contact models are not covered."),
    note="Assumes real arithmetic and the mocked contact/matter API contracts listed; trusts CBMC, z3/cvc5, extractor/transliterator rules.",
    technique="CBMC loop contract on extracted control slice + symbolic execution of transliterated real code over the reals with SMT (z3 QF_NRA)",
    design_ref="4 C37")


def plain(x): return S.vmap(lambda e: D(val(e)), x)


class SizedList(list):
    def size(self): return len(self)


def make_contact(i, b1, b2):
    class Ct: pass
    c = Ct(); c.isPoint = True
    c.depth = D(z3.Real("x%d" % i)); c.n = Vec(*[z3.Real("n%d_%d" % (i, k)) for k in range(3)])
    c.loc = Vec(*[z3.Real("l%d_%d" % (i, k)) for k in range(3)]); c.rad = D(z3.Real("R%d" % i))
    c.getDepth = lambda: c.depth; c.getNormal = lambda: c.n; c.getLocation = lambda: c.loc
    c.getEffectiveRadiusOfCurvature = lambda: c.rad
    c.getSurface1 = lambda: b1; c.getSurface2 = lambda: b2
    c.side = [val(c.n.normSqr()) == 1, val(c.depth) > 0, val(c.rad) > 0]
    return c


class LiteBody:
    """matter API contract reduced to what the Hunt-Crossley law needs: a body origin p, and the
    ground-frame velocity of the body point that coincides with a given ground point (fresh symbols)"""
    def __init__(self, ix, applied):
        self.ix, self.applied = ix, applied
        self.p = Vec(*[z3.Real("p%d_%d" % (ix, k)) for k in range(3)])
        self.v0 = Vec(*[z3.Real("v0%d_%d" % (ix, k)) for k in range(3)])      # velocity of the body origin
        self.w = Vec(*[z3.Real("w%d_%d" % (ix, k)) for k in range(3)])        # angular velocity
    def findStationAtGroundPoint(self, state, x): return FL.GroundStation(x - self.p)
    def findStationVelocityInGround(self, state, st):
        assert isinstance(st, FL.GroundStation)
        return self.v0 + cross(self.w, st.vecG)        # rigid-body velocity field: depends on WHICH station is passed
    def velocity_at_ground_point(self, x):
        return self.v0 + cross(self.w, x - self.p)
    def applyForceToBodyPoint(self, state, st, force, bodyForces):
        assert isinstance(st, FL.GroundStation)
        self.applied.append((self.ix, st.vecG + self.p, force))


def law(ctx, only_reaction=False, U="huntcrossley.law"):
    B, C = FL.build(ctx, want=("huntcrossley",))
    st = object()
    applied = []
    bodies = {1: LiteBody(1, applied), 2: LiteBody(2, applied)}
    class Prm: pass
    prm = {}
    pside = []
    for s_ in (1, 2):
        p = Prm()
        for nm in ("stiffness", "dissipation", "staticFriction", "dynamicFriction", "viscousFriction"):
            v = z3.Real("%s%d" % (nm, s_)); setattr(p, nm, D(v))
            pside.append(v > 0 if nm == "stiffness" else v >= 0)
        prm[s_] = p
    vt = z3.Real("vt"); pside.append(vt > 0)
    class Sub: pass
    sub = Sub()
    sub.getBody = lambda set_, surf: bodies[surf]
    sub.getMySubsystemIndex = lambda: 0
    class Cell: pass
    e = C["HuntCrossley"](); e.subsystem, e.set, e.transitionVelocity = sub, 0, D(vt)
    e.getParameters = lambda surf: prm[surf]; e.getTransitionVelocity = lambda: D(vt)
    c0 = make_contact(0, 1, 2)
    sub.getContacts = lambda state, set_: SizedList([c0])
    def runit():
        S.reset_env()
        S.ENV.abstract_scalars = True          # opaque scalar factors of vectors; definitions in ENV.defs
        del applied[:]
        cell = Cell(); cell.v = D(0); e.peCell = cell
        e.calcForce(st, None, None, None)
        S.ENV.abstract_scalars = False
        return cell, list(applied), (list(S.ENV.side), list(S.ENV.defs))
    k1, k2 = prm[1].stiffness, prm[2].stiffness
    s1 = k2 / (k1 + k2); kk = k1 * s1
    cc = prm[1].dissipation * s1 + prm[2].dissipation * (1 - s1)
    x, n, Rr = c0.depth, c0.n, c0.rad
    loc = c0.loc + (x * (Q("0.5") - s1)) * n                     # contact point shifted by relative stiffness
    v = bodies[1].velocity_at_ground_point(loc) - bodies[2].velocity_at_ground_point(loc); vn = dot(v, n); vtg = v - vn * n
    growth = 1 + Q("1.5") * cc * vn
    def comb(a, b):
        return S.ITE(z3.And(val(a) == 0, val(b) == 0), D(0), 2 * a * b / (a + b))
    seen = set(); npaths = 0
    for path, script, (cell, app, (envside, defs)) in B.run_paths(runit, 6):
        key = tuple(str(c_) for c_ in path)
        if key in seen: continue
        seen.add(key)
        alld = [d_[2] for d_ in defs]
        lets_ = [d_ for d_ in defs if d_[0] == "let"]
        cond = pside + c0.side + envside + path + alld
        s_ = z3.Solver(); s_.set("timeout", 10000); s_.add(*cond)
        if s_.check() == z3.unsat: continue
        npaths += 1
        tag = "path%d" % npaths
        T = 30000
        FN = "HuntCrossleyForceImpl::calcForce"
        if not app:
            B.prove_bool("%s: no force applied only if 1 + 3/2 c xdot <= 0 (documented force not positive)" % tag, val(growth) <= 0, cond, U, FN, timeout_ms=T)
            continue
        B.prove_bool("%s: exactly one pair of applications" % tag, z3.BoolVal(len(app) == 2 and sorted(a_[0] for a_ in app) == [1, 2]), cond, U, FN)
        (i1, pt1, f1), (i2, pt2, f2) = sorted(app, key=lambda a_: a_[0])
        B.prove_eq("%s: force on body2 == -force on body1" % tag, f2, -f1, cond, U, FN, timeout_ms=T)
        B.prove_eq("%s: both forces act at the documented contact point (body1)" % tag, pt1, loc, cond, U, FN, timeout_ms=T)
        B.prove_eq("%s: both forces act at the documented contact point (body2)" % tag, pt2, loc, cond, U, FN, timeout_ms=T)
        if only_reaction:
            continue
        force = f2
        N = dot(force, n)
        fr = force - N * n
        # let-abstracted scalars, in order of creation: location shift, vnormal, f [, ffriction]
        lets = [d_[1] for d_ in lets_]
        friction = len(lets_) == 4
        if len(lets_) not in (3, 4):
            ctx.undecide("HuntCrossley law %s: unexpected number of let-abstracted scalars (%d)" % (tag, len(lets_)))
            continue
        recips = [d_[2] for d_ in defs if d_[0] == "recip"]
        defs = [d_[2] for d_ in lets_]
        tsh, tvn, tN = D(lets[0]), D(lets[1]), D(lets[2])
        # minimal hypothesis sets (opaque / reveal): each goal gets only the definitions it needs
        unitn = [val(n.normSqr()) == 1]
        loc_c = c0.loc + tsh * n                            # the code's contact point in terms of its own shift scalar
        v_c = bodies[1].velocity_at_ground_point(loc_c) - bodies[2].velocity_at_ground_point(loc_c)
        vtc = v_c - tvn * n                                 # the code's vtangent in terms of its own vnormal scalar
        growth_c = 1 + Q("1.5") * cc * tvn
        B.prove_eq("%s: the code's relative velocity is v1-v2 of the two body points at the code's contact point (body1's and body2's OWN points)" % tag,
                   D(val(tvn)), dot(v_c, n), [defs[1]], U, FN, timeout_ms=T, minimal=True)
        B.prove_eq("%s: the code's contact point == documented point (location + depth*(1/2 - s1)*normal)" % tag, loc_c, loc, [defs[0]] + recips + pside, U, FN, timeout_ms=T, minimal=True)
        H_struct = unitn + [val(tvn) == val(dot(v_c, n))]    # n.n == 1, vnormal == v.n (proved just below from its definition)
        # hypotheses about f: its definition and the path condition f > 0, with the (heavy) penetration-rate term rewritten to the
        # code's own scalar tvn using the hypothesis defs[1]: tvn == <term> (rewriting one hypothesis with another equality is sound)
        rw = lambda h_: z3.substitute(h_, (defs[1].arg(1), defs[1].arg(0)))
        H_f = pside + c0.side + envside + [rw(h_) for h_ in path] + [rw(defs[2])] + recips
        if friction:
            tG = D(lets[3])
            vs = vtc.norm()                                 # same radicand term as the code's vslip -> same root variable
            H_vs = [val(vs) >= 0, val(vs) * val(vs) == val(vtc.normSqr()), val(vs) != 0] + recips
        else:
            H_vs = []
        B.prove_eq("%s: normal component of the applied force == f (the Hunt-Crossley scalar)" % tag, N, tN, H_struct + H_vs, U, FN, timeout_ms=T, minimal=True)
        NisF = [val(N) == val(tN)]
        B.prove_bool("%s: normal component N > 0 (never attractive)" % tag, val(N) > 0, H_f + NisF, U, FN, timeout_ms=T, minimal=True)
        B.prove_eq("%s: f^2 == (16/9) R k^3 x^3 (1 + 3/2 c xdot)^2 (Hertz/Hunt-Crossley)" % tag, tN * tN,
                   (Q("16.0") / Q("9.0")) * Rr * kk * kk * kk * x * x * x * growth_c * growth_c, H_f, U, FN, timeout_ms=T, minimal=True)
        B.prove_eq("%s: friction lies in the tangent plane" % tag, dot(fr, n), 0, unitn, U, FN, timeout_ms=T, minimal=True)
        B.prove_eq("%s: friction is parallel to the code's slip velocity" % tag, cross(fr, vtc), Vec(0, 0, 0), NisF + H_vs, U, FN, timeout_ms=T, minimal=True)
        B.prove_eq("%s: the code's slip velocity is the tangential part of v1-v2 (at the code's contact point)" % tag, vtc, v_c - dot(v_c, n) * n, H_struct, U, FN, timeout_ms=T, minimal=True)
        if friction:
            us, ud, uv = comb(prm[1].staticFriction, prm[2].staticFriction), comb(prm[1].dynamicFriction, prm[2].dynamicFriction), comb(prm[1].viscousFriction, prm[2].viscousFriction)
            vr = vs / D(vt)
            mu = S.ITE(val(vr) < 1, vr, D(1)) * (ud + 2 * (us - ud) / (1 + vr * vr)) + uv * vs
            # friction == ffriction * (unit slip): lemma chain (each step small enough for nlsat)
            rv = None
            for d_ in recips:
                if str(d_.arg(0).arg(1)) == str(val(vs)) or str(d_.arg(0).arg(0)) == str(val(vs)):
                    rv = d_.arg(0).arg(0) if str(d_.arg(0).arg(1)) == str(val(vs)) else d_.arg(0).arg(1)
            if rv is None:
                ctx.undecide("HuntCrossley law %s: reciprocal of vslip not found among the let-definitions" % tag)
                continue
            coef = tG * D(rv)
            B.prove_eq("%s: friction == (ffriction / vslip) * slip velocity" % tag, fr, coef * vtc, NisF, U, FN, timeout_ms=T, minimal=True)
            B.prove_eq("%s: ((ffriction/vslip) slip) . slip == (ffriction/vslip) |slip|^2 (identity)" % tag, dot(coef * vtc, vtc), coef * vtc.normSqr(), [], U, FN, timeout_ms=T, minimal=True)
            s_gen = z3.Real("slip_sq_generalised")
            B.prove_eq("%s: (ffriction/vslip) s == ffriction vslip whenever vslip^2 == s and vslip*(1/vslip) == 1 (generalised)" % tag, coef * D(s_gen), tG * vs,
                       [val(vs) * val(vs) == s_gen, rv * val(vs) == 1], U, FN, timeout_ms=T, minimal=True)
            scal = pside + path + [defs[2], defs[3]] + H_vs[:1] + [vt > 0] + recips
            B.prove_eq("%s: ffriction == f * [min(vs/vt,1)(ud+2(us-ud)/(1+(vs/vt)^2)) + uv vs], u=2u1u2/(u1+u2) (Hollars)" % tag, tG, tN * mu, scal, U, FN, timeout_ms=T, minimal=True)
            B.prove_bool("%s: ffriction >= 0 when us >= ud (friction on body1 opposes its slip)" % tag, val(tG) >= 0,
                         H_f + [val(tG) == val(tN * mu), val(us) >= val(ud), vt > 0] + H_vs, U, FN, timeout_ms=T, minimal=True)
        else:
            B.prove_eq("%s: no friction force without slip" % tag, fr, Vec(0, 0, 0), NisF + unitn, U, FN, timeout_ms=T, minimal=True)
        light = H_f
        B.prove_eq("%s: pe^2 == (4/25) x^2 (16/9) R k^3 x^3  (pe = 2/5 fH x)" % tag, D(val(cell.v)) * D(val(cell.v)), (Q("4.0") / Q("25.0")) * x * x * (Q("16.0") / Q("9.0")) * Rr * kk * kk * kk * x * x * x, light, U, FN, timeout_ms=T)
        B.prove_bool("%s: pe >= 0" % tag, val(cell.v) >= 0, light, U, FN, timeout_ms=T)
    if npaths < 3:
        ctx.undecide("HuntCrossley law: only %d feasible paths explored" % npaths)
    s_ = z3.Solver(); s_.add(*(pside + c0.side))
    ctx.add(Obligation("guard:contact side conditions satisfiable", "guards", "z3", "discharged" if s_.check() == z3.sat else "undecided", 0, "reachability guard"))


CCS_CPP = os.path.join(REPO, "Simbody/src/CompliantContactSubsystem.cpp")


def hertz_law(ctx):
    """CompliantContactSubsystem: calcHertzContactForce (shared by the circular and elliptical Hertz generators) and the
    stribeck()/step5() friction-coefficient helpers, transliterated; same opaque/reveal lemma chains as law()."""
    from blib import BUnit
    B = BUnit(ctx); ns = B.ns
    U = "hertz.law"; FN = "calcHertzContactForce"
    ns["SpatialVec"] = lambda a, b=None: S.SpatialVec(a, a if b is None else b)      # Vec<2,Vec3>(e) fills both elements with e
    sig = z3.Real("SignificantReal"); ns["SignificantReal"] = D(sig)
    def pre(b):
        b = b.replace("if (details) details->clear();", "")
        b = re.sub(r"if \(details\) \{.*\}\s*$", "", b, flags=re.S)       # the optional ContactDetail record (details == null here)
        return b
    f = B.add_function(CCS_CPP, r"static void calcHertzContactForce\s*\([^)]*\)\s*", pyname="calcHertzContactForce", pre=pre, cxxname="calcHertzContactForce (CompliantContactSubsystem.cpp)")
    step5 = B.add_function(CCS_CPP, r"inline static Real step5\(Real x\)\s*", pyname="step5", cxxname="step5")
    strib = B.add_function(CCS_CPP, r"inline static Real stribeck\(Real us, Real ud, Real uv, Real v\)\s*", pyname="stribeck_real", cxxname="stribeck")
    B.dump_sources()
    # ---- stribeck: 0 <= mu_dry <= us and mu == mu_dry + uv v, on every segment (friction limit) ----
    us_, ud_, uv_, v_ = z3.Reals("us ud uv v")
    base = [us_ >= ud_, ud_ >= 0, uv_ >= 0, v_ >= 0]
    seen = set()
    for path, script, mu in B.run_paths(lambda: strib(D(us_), D(ud_), D(uv_), D(v_)), 2):
        key = tuple(str(c_) for c_ in path)
        if key in seen: continue
        seen.add(key)
        cond = base + path
        s_ = z3.Solver(); s_.add(*cond)
        if s_.check() != z3.sat: continue
        dry = val(mu) - uv_ * v_
        B.prove_bool("stribeck segment %d: 0 <= mu_dry <= us (friction never exceeds the static limit plus the viscous term)" % len(seen), z3.And(dry >= 0, dry <= us_), cond, "hertz.stribeck", "stribeck", timeout_ms=30000)
        B.prove_bool("stribeck segment %d: mu >= 0" % len(seen), val(mu) >= 0, cond, "hertz.stribeck", "stribeck", timeout_ms=30000)
    for nm_, v0, want in (("stribeck(v=0) == 0 (no friction without slip)", 0, lambda: D(0)),
                          ("stribeck continuous at v=1 (value us + uv)", 1, lambda: D(us_) + D(uv_)),
                          ("stribeck continuous at v=3 (value ud + 3 uv)", 3, lambda: D(ud_) + 3 * D(uv_))):
        for path, script, mu in B.run_paths(lambda: strib(D(us_), D(ud_), D(uv_), D(z3.RealVal(v0))), 2):
            s_ = z3.Solver(); s_.add(*(base + path))
            if s_.check() != z3.sat: continue
            B.prove_eq(nm_, mu, want(), base + path, "hertz.stribeck", "stribeck")
    # continuity across the segment boundaries: both neighbouring branch expressions agree at v=1 and v=3
    B.prove_eq("stribeck: branch v<1 at v=1 equals branch 1<=v<3 at v=1", D(us_) * step5(D(z3.RealVal(1))), D(us_) - (D(us_) - D(ud_)) * step5(D(z3.RealVal(0))), base, "hertz.stribeck", "stribeck")
    B.prove_eq("stribeck: branch 1<=v<3 at v=3 equals ud", D(us_) - (D(us_) - D(ud_)) * step5(D(z3.RealVal(1))), D(ud_), base, "hertz.stribeck", "stribeck")
    # ---- the contact law; stribeck enters through a generalised value mu >= 0 (its properties are proved above) ----
    mu_var = z3.Real("mu_generalised")
    ns["stribeck"] = lambda *a: D(mu_var)
    class Mat_: pass
    mats = {}; pside = [mu_var >= 0, sig > 0]
    for k_ in (1, 2):
        m = Mat_()
        vals = {}
        for nm in ("Stiffness23", "Dissipation", "StaticFriction", "DynamicFriction", "ViscousFriction"):
            v = z3.Real("%s%d" % (nm, k_)); vals[nm] = v
            pside.append(v > 0 if nm == "Stiffness23" else v >= 0)
            setattr(m, "get" + nm, (lambda v=v: D(v)))
        m.vals = vals; mats[k_] = m
    class Surf:
        def __init__(s_, m): s_.m = m
        def getMaterial(s_): return s_.m
    class Tracker:
        def getContactSurface(s_, ix): return Surf(mats[ix])
    vt = z3.Real("vtrans"); pside.append(vt > 0)
    class Subsys:
        def getTransitionVelocity(s_): return D(vt)
        def getOOTransitionVelocity(s_): return 1 / D(vt)
    p12 = Vec(*[z3.Real("p12_%d" % i) for i in range(3)]); w12 = Vec(*[z3.Real("w12_%d" % i) for i in range(3)]); v12 = Vec(*[z3.Real("v12_%d" % i) for i in range(3)])
    class Contact_:
        def getSurface1(s_): return 1
        def getSurface2(s_): return 2
        def getTransform(s_): return S.Transform(eye(3), p12)          # R12 is not used by the law
        def getContactId(s_): return 7
    n = Vec(*[z3.Real("n%d" % i) for i in range(3)]); org = Vec(*[z3.Real("o%d" % i) for i in range(3)])
    x, Rr, ee = z3.Reals("x R e")
    geo = [val(n.normSqr()) == 1, Rr > 0, ee > 0]
    class CF:
        def __init__(s_): s_.rec = {}
        def clear(s_): s_.rec["cleared"] = True
        def setContactId(s_, i): s_.rec["id"] = i
        def setContactPoint(s_, p): s_.rec["pt"] = p
        def setForceOnSurface2(s_, F): s_.rec["F"] = F
        def setPotentialEnergy(s_, e_): s_.rec["pe"] = e_
        def setPowerDissipation(s_, p): s_.rec["pd"] = p
    def peel(e_):
        sg = 1
        while z3.is_app_of(e_, z3.Z3_OP_UMINUS):
            e_ = e_.arg(0); sg = -sg
        return sg, e_
    def fvars(e_, acc=None):
        acc = set() if acc is None else acc
        if z3.is_const(e_) and e_.decl().kind() == z3.Z3_OP_UNINTERPRETED:
            acc.add(str(e_))
        for c_ in e_.children():
            fvars(c_, acc)
        return acc
    def runit():
        S.reset_env(); S.ENV.abstract_scalars = True
        cf = CF()
        f(Subsys(), Tracker(), None, Contact_(), n, org, D(x), S.SpatialVec(w12, v12), D(Rr), D(ee), cf, None)
        S.ENV.abstract_scalars = False
        return cf.rec, (list(S.ENV.side), list(S.ENV.defs))
    seen = set(); npaths = 0
    T = 30000
    for path, script, (rec, (envside, defs)) in B.run_paths(runit, 6):
        key = tuple(str(c_) for c_ in path)
        if key in seen: continue
        seen.add(key)
        alld = [d_[2] for d_ in defs]
        cond = pside + geo + envside + path + alld
        s_ = z3.Solver(); s_.set("timeout", 10000); s_.add(*cond)
        if s_.check() == z3.unsat: continue
        npaths += 1
        tag = "path%d" % npaths
        if rec.get("cleared"):
            B.prove_bool("%s: result cleared only without penetration (depth <= 0)" % tag, x <= 0, cond, U, FN, timeout_ms=T)
            continue
        F = rec["F"]; force = F[1]
        B.prove_eq("%s: no moment in the reported contact force (it acts at the contact point)" % tag, F[0], Vec(0, 0, 0), cond, U, FN, timeout_ms=T)
        lets_ = [d_ for d_ in defs if d_[0] == "let"]
        ld = [d_[2] for d_ in lets_]; lv = [D(d_[1]) for d_ in lets_]
        if len(lets_) not in (2, 4, 5):
            ctx.undecide("Hertz law %s: unexpected number of let-abstracted scalars (%d)" % (tag, len(lets_))); continue
        # ---- the documented quantities, built in the environment the code's run left behind (same reciprocal / root variables) ----
        S.ENV.abstract_scalars = True; nd0 = len(S.ENV.defs); ns0 = len(S.ENV.side)
        k1, k2 = D(mats[1].vals["Stiffness23"]), D(mats[2].vals["Stiffness23"])
        s1 = k2 / (k1 + k2); kk = k1 * s1
        cc = D(mats[1].vals["Dissipation"]) * s1 + D(mats[2].vals["Dissipation"]) * (1 - s1)
        shift_doc = D(x) * (Q("0.5") - s1)
        fH_o = D(ee) * (Q("4.0") / Q("3.0")) * kk * D(x) * S.sqrt(D(Rr) * kk * D(x))
        S.ENV.abstract_scalars = False
        odefs = [d_[2] for d_ in S.ENV.defs[nd0:]] + list(S.ENV.side[ns0:])        # definitions the oracle itself introduced (none when its terms coincide with the code's)
        recips = [d_[2] for d_ in S.ENV.defs if d_[0] == "recip"]
        sides = list(S.ENV.side)
        tsh, tnx = lv[0], lv[1]                              # contact point shift; the code's (-xdot) = vel . normal
        pt_c = org + tsh * n
        pt_doc = org + shift_doc * n
        B.prove_eq("%s: reported contact point == the code's contact point" % tag, rec["pt"], pt_c, [], U, FN, timeout_ms=T, minimal=True)
        B.prove_eq("%s: contact point == origin + depth*(1/2 - s1)*normal, s1 = k2/(k1+k2) (documented)" % tag, pt_c, pt_doc, [ld[0]] + recips + odefs, U, FN, timeout_ms=T, minimal=True)
        vel_c = v12 + cross(w12, pt_c - p12)                 # velocity of S2's material point at the contact point, in S1
        vn_c = dot(vel_c, n)
        B.prove_eq("%s: the code's -xdot == (velocity of surface 2's point AT THE CONTACT POINT) . normal" % tag, tnx, vn_c, [ld[1]], U, FN, timeout_ms=T, minimal=True)
        # rewriting hypotheses with already established equalities (opaque / reveal): heavy raw terms -> the code's own scalars or fresh generalised variables
        hv, Cv, Pv = z3.Real("fH_generalised"), z3.Real("c_generalised"), z3.Real("fNormal_generalised")
        sg, core = peel(ld[1].arg(1))
        def RW(h_, fH_to):
            pairs = [(val(fH_o), fH_to), (val(cc), Cv), (core, (val(tnx) if sg > 0 else -val(tnx))), (val(vn_c), val(tnx))]
            for a_, b_ in pairs:
                h_ = z3.substitute(h_, (a_, b_))
            return h_
        def RWH(hs, fH_to, allowed):
            """rewritten hypotheses; if a rewrite did not fire (heavy variables remain) the defining equalities are added instead (sound, slower)"""
            out = [RW(h_, fH_to) for h_ in hs]
            extra = set()
            for h_ in out:
                extra |= fvars(h_) - allowed
            if extra:
                out += [fH_to == val(fH_o), Cv == val(cc), ld[1]] + recips + sides
            return out
        posfacts = pside + geo + [x > 0] + recips + sides + odefs
        B.guard_sat("%s positivity facts" % tag, posfacts, U)
        B.prove_bool("%s: lemma fH > 0 for depth > 0 (e, R, k > 0)" % tag, val(fH_o) > 0, posfacts, U, FN, timeout_ms=T, minimal=True)
        B.prove_bool("%s: lemma combined dissipation c = c1 s1 + c2 s2 >= 0" % tag, val(cc) >= 0, pside + recips + odefs, U, FN, timeout_ms=T, minimal=True)
        B.prove_eq("%s: lemma fH^2 == e^2 (16/9) R k^3 x^3 (Hertz), k = k1 k2/(k1+k2)" % tag, fH_o * fH_o, D(ee) * D(ee) * (Q("16.0") / Q("9.0")) * D(Rr) * kk * kk * kk * D(x) * D(x) * D(x), recips + sides + odefs, U, FN, timeout_ms=T, minimal=True)
        basev = {"fH_generalised", "c_generalised", str(val(tnx)), "mu_generalised", "x"}
        if len(lets_) == 2:
            B.prove_eq("%s: zero force reported" % tag, force, Vec(0, 0, 0), cond, U, FN, timeout_ms=T)
            hy = RWH(path, hv, basev)
            B.guard_sat("%s rewritten path condition" % tag, hy + [hv > 0, Cv >= 0], U)
            B.prove_bool("%s: zero force only if depth > 0 and 1 + 3/2 c xdot <= 0 (documented force not positive)" % tag, z3.And(x > 0, 1 + z3.RealVal("1.5") * Cv * (-val(tnx)) <= 0),
                         hy + [hv > 0, Cv >= 0], U, FN, timeout_ms=T, minimal=True)
            continue
        tH, tHC = lv[2], lv[3]
        friction = len(lets_) == 5
        unitn = [val(n.normSqr()) == 1]
        velT = vel_c - tnx * n
        Hn = unitn + [val(tnx) == val(vn_c)]
        N = dot(force, n)
        fr = force - N * n
        B.prove_eq("%s: the code's fH scalar == documented Hertz force" % tag, tH, fH_o, [ld[2]] + odefs, U, FN, timeout_ms=T, minimal=True)
        B.prove_eq("%s: fHC == fH * 3/2 c xdot with xdot = -(vel . n) (Hunt-Crossley dissipation)" % tag, tHC, tH * Q("1.5") * D(Cv) * (-tnx), RWH([ld[3]], val(tH), basev | {str(val(tH)), str(val(tHC))}), U, FN, timeout_ms=T, minimal=True)
        B.prove_eq("%s: normal component == fH + fHC" % tag, N, tH + tHC, Hn + recips, U, FN, timeout_ms=T, minimal=True)
        NisF = [val(N) == val(tH + tHC), val(tHC) == val(tH * Q("1.5") * D(Cv) * (-tnx))]
        allowed = basev | {str(val(tH)), str(val(tHC))}
        B.guard_sat("%s rewritten path condition" % tag, RWH(path[:2], val(tH), allowed) + NisF + [val(tH) > 0, Cv >= 0], U)
        B.prove_bool("%s: normal component N > 0 (never attractive)" % tag, val(N) > 0, RWH(path[:2], val(tH), allowed) + NisF, U, FN, timeout_ms=T, minimal=True)
        B.prove_eq("%s: friction lies in the tangent plane" % tag, dot(fr, n), 0, unitn, U, FN, timeout_ms=T, minimal=True)
        if friction:
            tF = lv[4]
            B.prove_eq("%s: friction == (-fFriction/vslip) * tangential slip velocity of surface 2 at the contact point" % tag, fr, tF * velT, NisF[:1] + Hn, U, FN, timeout_ms=T, minimal=True)
            vs = S.sqrt(velT.normSqr())                     # same radicand as the code's vslip -> same root variable (else its own definition is in `sides` below)
            sides = list(S.ENV.side)
            rv = None
            for d_ in S.ENV.defs:
                if d_[0] == "recip" and str(val(vs)) in (str(d_[2].arg(0).arg(0)), str(d_[2].arg(0).arg(1))):
                    rv = d_[1]
            if rv is None:
                ctx.undecide("Hertz law %s: reciprocal of vslip not found among the let-definitions" % tag); continue
            fN_t = val(tH + tH * Q("1.5") * D(Cv) * (-tnx))
            d4 = RW(ld[4], val(tH))
            d4 = z3.substitute(d4, (fN_t, Pv))
            al4 = {"fNormal_generalised", "mu_generalised", str(rv), str(val(tF))}
            h4 = [d4] if not (fvars(d4) - al4) else [ld[4], Pv == val(tH) + val(tHC), NisF[1], val(tH) == val(fH_o), Cv == val(cc), ld[1]] + recips + sides
            B.guard_sat("%s friction definitions" % tag, h4 + [Pv > 0, mu_var >= 0, val(vs) >= 0, rv * val(vs) == 1], U)
            B.prove_eq("%s: friction coefficient factor == -(fNormal * mu) / vslip" % tag, tF, -(D(Pv) * D(mu_var)) * D(rv), h4, U, FN, timeout_ms=T, minimal=True)
            vsfacts = [val(vs) >= 0, rv * val(vs) == 1]
            B.prove_bool("%s: friction coefficient factor <= 0 (friction on surface 2 opposes its slip relative to surface 1)" % tag, val(tF) <= 0,
                         [val(tF) == val(-(D(Pv) * D(mu_var)) * D(rv)), Pv > 0, mu_var >= 0] + vsfacts, U, FN, timeout_ms=T, minimal=True)
            B.prove_eq("%s: |t v|^2 == t^2 |v|^2 for the friction vector (identity)" % tag, dot(tF * velT, tF * velT), tF * tF * velT.normSqr(), [], U, FN, timeout_ms=T, minimal=True)
            s_gen = z3.Real("slip_sq_generalised")
            B.prove_eq("%s: t^2 s == (mu fNormal)^2 whenever vslip^2 == s, vslip*(1/vslip) == 1, t == -(fNormal mu)/vslip (friction magnitude == mu * normal force)" % tag,
                       tF * tF * D(s_gen), (D(Pv) * D(mu_var)) * (D(Pv) * D(mu_var)), [val(tF) == val(-(D(Pv) * D(mu_var)) * D(rv)), val(vs) * val(vs) == s_gen, rv * val(vs) == 1], U, FN, timeout_ms=T, minimal=True)
        else:
            B.prove_eq("%s: no friction below the slip threshold" % tag, fr, Vec(0, 0, 0), NisF[:1] + unitn, U, FN, timeout_ms=T, minimal=True)
        B.prove_eq("%s: potential energy == 2/5 fH x" % tag, D(val(rec["pe"])), Q("0.4") * tH * D(x), [ld[2]], U, FN, timeout_ms=T, minimal=True)
        pd = RW(val(rec["pd"]), hv)
        if friction:
            pd = z3.substitute(pd, (z3.substitute(fN_t, (val(tH), hv)), Pv))
        alp = {"fH_generalised", "c_generalised", str(val(tnx)), "mu_generalised", "fNormal_generalised"} | ({str(val(vs))} if friction else set())
        hp = [hv > 0, Cv >= 0, mu_var >= 0, Pv > 0] + ([val(vs) >= 0] if friction else [])
        if fvars(pd) - alp:
            hp += [hv == val(fH_o), Cv == val(cc), ld[1], Pv == hv + hv * z3.RealVal("1.5") * Cv * (-val(tnx))] + recips + sides
        B.guard_sat("%s power hypotheses" % tag, hp, U)
        B.prove_bool("%s: power dissipation >= 0 (fH > 0, c >= 0, fNormal > 0, mu >= 0)" % tag, pd >= 0, hp, U, FN, timeout_ms=T, minimal=True)
    if npaths < 4:
        ctx.undecide("Hertz law: only %d feasible paths explored" % npaths)


def main(ctx):
    ctx.level = "proof"
    rep_loop = None
    try:
        rep_loop = part_c37_loop.run(ctx)
    except ExtractionError as e:
        ctx.undecide("extraction (loop slice): %s" % e)
    try:
        law(ctx)
    except ExtractionError as e:
        ctx.undecide("extraction (law): %s" % e)
    try:
        hertz_law(ctx)
    except ExtractionError as e:
        ctx.undecide("extraction (Hertz law): %s" % e)
    ctx.trust("cbmc/goto-cc/goto-instrument 6.11.0 (C front end), MiniSat"); ctx.trust("z3 4.x / cvc5 1.0 (QF_NRA)")
    ctx.trust("tools/extract.py + tools/translit.py rule tables (logged) and tools/symlib.py shim")
    ctx.assume("machine arithmetic treated as mathematical (reals) in part B")
    for a in FL.world_assumptions(): ctx.assume(a)
    ctx.assume("contact geometry by contract: PointContact getters return depth>0, unit normal (from surface1 towards surface2), location, effective radius>0; materials: stiffness>0, other coefficients>=0, transition velocity>0")
    ctx.assume("findStationAtGroundPoint followed by findStationVelocityInGround/applyForceToBodyPoint acts at the given ground point (R*~R == 1)")
    ctx.not_decided += ["ElasticFoundationForce, CompliantContactSubsystem's elastic-foundation / brick generators and its force application (calcForce loop), SmoothSphereHalfSpaceForce, ExponentialSpringForce", "'vanish without penetration' (depends on the contact tracker producing contacts only when depth>0)",
                        "friction limit as an inequality (the exact documented coefficient is proved instead)"]
    ctx.explanation = "%d functions under contract; %d obligations." % (len(ctx.functions), len(ctx.obligations))
    def rp(ob):
        if ob.unit.startswith("huntcrossley.calcForce") and rep_loop:
            return rep_loop(ob)
        if ob.unit.startswith("hertz."):
            return replay_hertz(ctx, ob)
        return replay(ctx, ob)
    return ctx.finish(replayer=rp)


_EXE = {}


def replay(ctx, ob):
    if "exe" not in _EXE:
        src = os.path.join(REPO, "Simbody/src")
        _EXE["exe"] = native_build(ctx, "c37_law_replay", os.path.join(VERIF, "replay/c37_law_replay.cpp"), libs=True,
                                   extra_srcs=[os.path.join(src, "HuntCrossleyForce.cpp")], extra_inc=[src])
    rc, o, e, t = run([_EXE["exe"], str(ctx.seed)], 300)
    return dict(cmd="c37_law_replay %d" % ctx.seed, output=o[-3000:]), "REPRODUCED:" in o


def replay_hertz(ctx, ob):
    if "hertz" not in _EXE:
        src = os.path.join(REPO, "Simbody/src")
        _EXE["hertz"] = native_build(ctx, "c37_hertz_replay", os.path.join(VERIF, "replay/c37_hertz_replay.cpp"), libs=True,
                                     extra_srcs=[os.path.join(src, "CompliantContactSubsystem.cpp")], extra_inc=[src])
    rc, o, e, t = run([_EXE["hertz"], str(ctx.seed)], 300)
    return dict(cmd="c37_hertz_replay %d" % ctx.seed, output=o[-3000:]), "REPRODUCED:" in o
