"""C37 - Compliant contact forces follow their documented laws (HuntCrossleyForce only).
Part A (CBMC contracts, part_c37_loop): contact loop structure for any number of contacts.
Part B (route M3): the per-contact Hunt-Crossley / Hollars law of the real calcForce body,
transliterated each run, on symbolic contacts, materials, poses and velocities."""
import os, re, json, z3
from vlib import *
from extract import *
import symlib as S
from symlib import *
import forcelib as FL
import part_c37_loop

PID = "C37"
META = dict(
    category="proof",
    text=("HuntCrossleyForceImpl::calcForce: (A) loop contract with ghost contact index on the control slice cut from the real source: every point contact with positive force gets "
          "its (-force on body1, +force on body2) pair exactly once whatever the other contacts do, nothing for f<=0 or non-point contacts, any number of contacts; "
          "(B) per-contact law on the transliterated body, every branch: normal component N>0 (never attractive) with N^2 == (16/9) R k^3 x^3 (1+3/2 c xdot)^2 i.e. the documented "
          "Hertz/Hunt-Crossley law with k=E^(2/3) combination s1=k2/(k1+k2), c=c1 s1+c2 s2; friction in the tangent plane, opposing slip on each body, magnitude == documented "
          "Hollars formula with u=2u1u2/(u1+u2); forces on the two bodies equal and opposite at one ground point; pe == 2/5 fH x. Other contact models are not covered."),
    note="Assumes real arithmetic and the mocked contact/matter API contracts listed; trusts CBMC, z3/cvc5, extractor/transliterator rules.",
    technique="CBMC loop contract on extracted control slice + symbolic execution of transliterated real code over the reals with SMT (z3 QF_NRA)",
    design_ref="4 C37")


def plain(x): return S.vmap(lambda e: D(val(e)), x)


class SizedList(list):
    def size(self): return len(self)


def make_contact(i, b1, b2):
    class Ct: pass
    c = Ct(); c.isPoint = True
    c.depth = D(z3.Real("x%d" % i)); c.n = Vec(*[z3.Real("n%d_%d" % (i, k)) for k in range(3)])
    c.loc = Vec(*[z3.Real("l%d_%d" % (i, k)) for k in range(3)]); c.rad = D(z3.Real("R%d" % i))
    c.getDepth = lambda: c.depth; c.getNormal = lambda: c.n; c.getLocation = lambda: c.loc
    c.getEffectiveRadiusOfCurvature = lambda: c.rad
    c.getSurface1 = lambda: b1; c.getSurface2 = lambda: b2
    c.side = [val(c.n.normSqr()) == 1, val(c.depth) > 0, val(c.rad) > 0]
    return c


class LiteBody:
    """matter API contract reduced to what the Hunt-Crossley law needs: a body origin p, and the
    ground-frame velocity of the body point that coincides with a given ground point (fresh symbols)"""
    def __init__(self, ix, applied):
        self.ix, self.applied = ix, applied
        self.p = Vec(*[z3.Real("p%d_%d" % (ix, k)) for k in range(3)])
        self.v0 = Vec(*[z3.Real("v0%d_%d" % (ix, k)) for k in range(3)])      # velocity of the body origin
        self.w = Vec(*[z3.Real("w%d_%d" % (ix, k)) for k in range(3)])        # angular velocity
    def findStationAtGroundPoint(self, state, x): return FL.GroundStation(x - self.p)
    def findStationVelocityInGround(self, state, st):
        assert isinstance(st, FL.GroundStation)
        return self.v0 + cross(self.w, st.vecG)        # rigid-body velocity field: depends on WHICH station is passed
    def velocity_at_ground_point(self, x):
        return self.v0 + cross(self.w, x - self.p)
    def applyForceToBodyPoint(self, state, st, force, bodyForces):
        assert isinstance(st, FL.GroundStation)
        self.applied.append((self.ix, st.vecG + self.p, force))


def law(ctx, only_reaction=False, U="huntcrossley.law"):
    B, C = FL.build(ctx, want=("huntcrossley",))
    st = object()
    applied = []
    bodies = {1: LiteBody(1, applied), 2: LiteBody(2, applied)}
    class Prm: pass
    prm = {}
    pside = []
    for s_ in (1, 2):
        p = Prm()
        for nm in ("stiffness", "dissipation", "staticFriction", "dynamicFriction", "viscousFriction"):
            v = z3.Real("%s%d" % (nm, s_)); setattr(p, nm, D(v))
            pside.append(v > 0 if nm == "stiffness" else v >= 0)
        prm[s_] = p
    vt = z3.Real("vt"); pside.append(vt > 0)
    class Sub: pass
    sub = Sub()
    sub.getBody = lambda set_, surf: bodies[surf]
    sub.getMySubsystemIndex = lambda: 0
    class Cell: pass
    e = C["HuntCrossley"](); e.subsystem, e.set, e.transitionVelocity = sub, 0, D(vt)
    e.getParameters = lambda surf: prm[surf]; e.getTransitionVelocity = lambda: D(vt)
    c0 = make_contact(0, 1, 2)
    sub.getContacts = lambda state, set_: SizedList([c0])
    def runit():
        S.reset_env()
        S.ENV.abstract_scalars = True          # opaque scalar factors of vectors; definitions in ENV.defs
        del applied[:]
        cell = Cell(); cell.v = D(0); e.peCell = cell
        e.calcForce(st, None, None, None)
        S.ENV.abstract_scalars = False
        return cell, list(applied), (list(S.ENV.side), list(S.ENV.defs))
    k1, k2 = prm[1].stiffness, prm[2].stiffness
    s1 = k2 / (k1 + k2); kk = k1 * s1
    cc = prm[1].dissipation * s1 + prm[2].dissipation * (1 - s1)
    x, n, Rr = c0.depth, c0.n, c0.rad
    loc = c0.loc + (x * (Q("0.5") - s1)) * n                     # contact point shifted by relative stiffness
    v = bodies[1].velocity_at_ground_point(loc) - bodies[2].velocity_at_ground_point(loc); vn = dot(v, n); vtg = v - vn * n
    growth = 1 + Q("1.5") * cc * vn
    def comb(a, b):
        return S.ITE(z3.And(val(a) == 0, val(b) == 0), D(0), 2 * a * b / (a + b))
    seen = set(); npaths = 0
    for path, script, (cell, app, (envside, defs)) in B.run_paths(runit, 6):
        key = tuple(str(c_) for c_ in path)
        if key in seen: continue
        seen.add(key)
        alld = [d_[2] for d_ in defs]
        lets_ = [d_ for d_ in defs if d_[0] == "let"]
        cond = pside + c0.side + envside + path + alld
        s_ = z3.Solver(); s_.set("timeout", 10000); s_.add(*cond)
        if s_.check() == z3.unsat: continue
        npaths += 1
        tag = "path%d" % npaths
        T = 30000
        FN = "HuntCrossleyForceImpl::calcForce"
        if not app:
            B.prove_bool("%s: no force applied only if 1 + 3/2 c xdot <= 0 (documented force not positive)" % tag, val(growth) <= 0, cond, U, FN, timeout_ms=T)
            continue
        B.prove_bool("%s: exactly one pair of applications" % tag, z3.BoolVal(len(app) == 2 and sorted(a_[0] for a_ in app) == [1, 2]), cond, U, FN)
        (i1, pt1, f1), (i2, pt2, f2) = sorted(app, key=lambda a_: a_[0])
        B.prove_eq("%s: force on body2 == -force on body1" % tag, f2, -f1, cond, U, FN, timeout_ms=T)
        B.prove_eq("%s: both forces act at the documented contact point (body1)" % tag, pt1, loc, cond, U, FN, timeout_ms=T)
        B.prove_eq("%s: both forces act at the documented contact point (body2)" % tag, pt2, loc, cond, U, FN, timeout_ms=T)
        if only_reaction:
            continue
        force = f2
        N = dot(force, n)
        fr = force - N * n
        # let-abstracted scalars, in order of creation: location shift, vnormal, f [, ffriction]
        lets = [d_[1] for d_ in lets_]
        friction = len(lets_) == 4
        if len(lets_) not in (3, 4):
            ctx.undecide("HuntCrossley law %s: unexpected number of let-abstracted scalars (%d)" % (tag, len(lets_)))
            continue
        recips = [d_[2] for d_ in defs if d_[0] == "recip"]
        defs = [d_[2] for d_ in lets_]
        tsh, tvn, tN = D(lets[0]), D(lets[1]), D(lets[2])
        # minimal hypothesis sets (opaque / reveal): each goal gets only the definitions it needs
        unitn = [val(n.normSqr()) == 1]
        loc_c = c0.loc + tsh * n                            # the code's contact point in terms of its own shift scalar
        v_c = bodies[1].velocity_at_ground_point(loc_c) - bodies[2].velocity_at_ground_point(loc_c)
        vtc = v_c - tvn * n                                 # the code's vtangent in terms of its own vnormal scalar
        growth_c = 1 + Q("1.5") * cc * tvn
        B.prove_eq("%s: the code's relative velocity is v1-v2 of the two body points at the code's contact point (body1's and body2's OWN points)" % tag,
                   D(val(tvn)), dot(v_c, n), [defs[1]], U, FN, timeout_ms=T, minimal=True)
        B.prove_eq("%s: the code's contact point == documented point (location + depth*(1/2 - s1)*normal)" % tag, loc_c, loc, [defs[0]] + recips + pside, U, FN, timeout_ms=T, minimal=True)
        H_struct = unitn + [val(tvn) == val(dot(v_c, n))]    # n.n == 1, vnormal == v.n (proved just below from its definition)
        # hypotheses about f: its definition and the path condition f > 0, with the (heavy) penetration-rate term rewritten to the
        # code's own scalar tvn using the hypothesis defs[1]: tvn == <term> (rewriting one hypothesis with another equality is sound)
        rw = lambda h_: z3.substitute(h_, (defs[1].arg(1), defs[1].arg(0)))
        H_f = pside + c0.side + envside + [rw(h_) for h_ in path] + [rw(defs[2])] + recips
        if friction:
            tG = D(lets[3])
            vs = vtc.norm()                                 # same radicand term as the code's vslip -> same root variable
            H_vs = [val(vs) >= 0, val(vs) * val(vs) == val(vtc.normSqr()), val(vs) != 0] + recips
        else:
            H_vs = []
        B.prove_eq("%s: normal component of the applied force == f (the Hunt-Crossley scalar)" % tag, N, tN, H_struct + H_vs, U, FN, timeout_ms=T, minimal=True)
        NisF = [val(N) == val(tN)]
        B.prove_bool("%s: normal component N > 0 (never attractive)" % tag, val(N) > 0, H_f + NisF, U, FN, timeout_ms=T, minimal=True)
        B.prove_eq("%s: f^2 == (16/9) R k^3 x^3 (1 + 3/2 c xdot)^2 (Hertz/Hunt-Crossley)" % tag, tN * tN,
                   (Q("16.0") / Q("9.0")) * Rr * kk * kk * kk * x * x * x * growth_c * growth_c, H_f, U, FN, timeout_ms=T, minimal=True)
        B.prove_eq("%s: friction lies in the tangent plane" % tag, dot(fr, n), 0, unitn, U, FN, timeout_ms=T, minimal=True)
        B.prove_eq("%s: friction is parallel to the code's slip velocity" % tag, cross(fr, vtc), Vec(0, 0, 0), NisF + H_vs, U, FN, timeout_ms=T, minimal=True)
        B.prove_eq("%s: the code's slip velocity is the tangential part of v1-v2 (at the code's contact point)" % tag, vtc, v_c - dot(v_c, n) * n, H_struct, U, FN, timeout_ms=T, minimal=True)
        if friction:
            us, ud, uv = comb(prm[1].staticFriction, prm[2].staticFriction), comb(prm[1].dynamicFriction, prm[2].dynamicFriction), comb(prm[1].viscousFriction, prm[2].viscousFriction)
            vr = vs / D(vt)
            mu = S.ITE(val(vr) < 1, vr, D(1)) * (ud + 2 * (us - ud) / (1 + vr * vr)) + uv * vs
            # friction == ffriction * (unit slip): lemma chain (each step small enough for nlsat)
            rv = None
            for d_ in recips:
                if str(d_.arg(0).arg(1)) == str(val(vs)) or str(d_.arg(0).arg(0)) == str(val(vs)):
                    rv = d_.arg(0).arg(0) if str(d_.arg(0).arg(1)) == str(val(vs)) else d_.arg(0).arg(1)
            if rv is None:
                ctx.undecide("HuntCrossley law %s: reciprocal of vslip not found among the let-definitions" % tag)
                continue
            coef = tG * D(rv)
            B.prove_eq("%s: friction == (ffriction / vslip) * slip velocity" % tag, fr, coef * vtc, NisF, U, FN, timeout_ms=T, minimal=True)
            B.prove_eq("%s: ((ffriction/vslip) slip) . slip == (ffriction/vslip) |slip|^2 (identity)" % tag, dot(coef * vtc, vtc), coef * vtc.normSqr(), [], U, FN, timeout_ms=T, minimal=True)
            s_gen = z3.Real("slip_sq_generalised")
            B.prove_eq("%s: (ffriction/vslip) s == ffriction vslip whenever vslip^2 == s and vslip*(1/vslip) == 1 (generalised)" % tag, coef * D(s_gen), tG * vs,
                       [val(vs) * val(vs) == s_gen, rv * val(vs) == 1], U, FN, timeout_ms=T, minimal=True)
            scal = pside + path + [defs[2], defs[3]] + H_vs[:1] + [vt > 0] + recips
            B.prove_eq("%s: ffriction == f * [min(vs/vt,1)(ud+2(us-ud)/(1+(vs/vt)^2)) + uv vs], u=2u1u2/(u1+u2) (Hollars)" % tag, tG, tN * mu, scal, U, FN, timeout_ms=T, minimal=True)
            B.prove_bool("%s: ffriction >= 0 when us >= ud (friction on body1 opposes its slip)" % tag, val(tG) >= 0,
                         H_f + [val(tG) == val(tN * mu), val(us) >= val(ud), vt > 0] + H_vs, U, FN, timeout_ms=T, minimal=True)
        else:
            B.prove_eq("%s: no friction force without slip" % tag, fr, Vec(0, 0, 0), NisF + unitn, U, FN, timeout_ms=T, minimal=True)
        light = H_f
        B.prove_eq("%s: pe^2 == (4/25) x^2 (16/9) R k^3 x^3  (pe = 2/5 fH x)" % tag, D(val(cell.v)) * D(val(cell.v)), (Q("4.0") / Q("25.0")) * x * x * (Q("16.0") / Q("9.0")) * Rr * kk * kk * kk * x * x * x, light, U, FN, timeout_ms=T)
        B.prove_bool("%s: pe >= 0" % tag, val(cell.v) >= 0, light, U, FN, timeout_ms=T)
    if npaths < 3:
        ctx.undecide("HuntCrossley law: only %d feasible paths explored" % npaths)
    s_ = z3.Solver(); s_.add(*(pside + c0.side))
    ctx.add(Obligation("guard:contact side conditions satisfiable", "guards", "z3", "discharged" if s_.check() == z3.sat else "undecided", 0, "reachability guard"))


def main(ctx):
    ctx.level = "proof"
    rep_loop = None
    try:
        rep_loop = part_c37_loop.run(ctx)
    except ExtractionError as e:
        ctx.undecide("extraction (loop slice): %s" % e)
    try:
        law(ctx)
    except ExtractionError as e:
        ctx.undecide("extraction (law): %s" % e)
    ctx.trust("cbmc/goto-cc/goto-instrument 6.11.0 (C front end), MiniSat"); ctx.trust("z3 4.x / cvc5 1.0 (QF_NRA)")
    ctx.trust("tools/extract.py + tools/translit.py rule tables (logged) and tools/symlib.py shim")
    ctx.assume("machine arithmetic treated as mathematical (reals) in part B")
    for a in FL.world_assumptions(): ctx.assume(a)
    ctx.assume("contact geometry by contract: PointContact getters return depth>0, unit normal (from surface1 towards surface2), location, effective radius>0; materials: stiffness>0, other coefficients>=0, transition velocity>0")
    ctx.assume("findStationAtGroundPoint followed by findStationVelocityInGround/applyForceToBodyPoint acts at the given ground point (R*~R == 1)")
    ctx.not_decided += ["ElasticFoundationForce, CompliantContactSubsystem generators, SmoothSphereHalfSpaceForce, ExponentialSpringForce", "'vanish without penetration' (depends on the contact tracker producing contacts only when depth>0)",
                        "friction limit as an inequality (the exact documented coefficient is proved instead)"]
    ctx.explanation = "%d functions under contract; %d obligations." % (len(ctx.functions), len(ctx.obligations))
    def rp(ob):
        if ob.unit.startswith("huntcrossley.calcForce") and rep_loop:
            return rep_loop(ob)
        return replay(ctx, ob)
    return ctx.finish(replayer=rp)


_EXE = {}


def replay(ctx, ob):
    if "exe" not in _EXE:
        src = os.path.join(REPO, "Simbody/src")
        _EXE["exe"] = native_build(ctx, "c37_law_replay", os.path.join(VERIF, "replay/c37_law_replay.cpp"), libs=True,
                                   extra_srcs=[os.path.join(src, "HuntCrossleyForce.cpp")], extra_inc=[src])
    rc, o, e, t = run([_EXE["exe"], str(ctx.seed)], 300)
    return dict(cmd="c37_law_replay %d" % ctx.seed, output=o[-3000:]), "REPRODUCED:" in o
