"""C37 - compliant contact forces follow their documented laws (thin wrapper; extended by the coordinator).
Currently runs the HuntCrossley contact-loop control slice (checks/part_c37_loop.py)."""
import os
from vlib import *
from extract import *
import part_c37_loop

PID = "C37"
META = dict(
    category="other",
    text=("CBMC contract with loop invariant and ghost contact index on the control slice of HuntCrossleyForceImpl::calcForce cut from the real "
          "source: every point contact with positive Hunt-Crossley force gets its pair of body forces (-force on body1, +force on body2) applied "
          "exactly once, nothing is applied for f <= 0 or non-point contacts, whatever the other contacts of the set do."),
    note="Assumed: container/contact-geometry stubs; the float law is abstracted in this part (decided by back end B elsewhere).",
    technique="CBMC function + loop contracts (dfcc) on a mechanically extracted control slice",
    design_ref="4 C37")


def main(ctx):
    ctx.level = "other"
    rep = part_c37_loop.run(ctx)
    ctx.trust("cbmc/goto-cc/goto-instrument 6.11.0 (C front end), MiniSat")
    ctx.explanation = "HuntCrossley contact loop: per-contact force application proved for an arbitrary number of contacts (loop contract, unbounded)."
    return ctx.finish(replayer=rep)
