"""Part of C41: the GCVSPL evaluation side (SimTKmath/Geometry/src/gcvspl.cpp, f2c-style C) under contract.

Back end A, route M2.  The functions are cut from /repo on each run (tools/extract.py), together with the file's own abs/min/max
macros, and compiled as C (SimTK_Real = double).

  spline.search        : search_ (knot-interval search), UNBOUNDED: function contract (goto-instrument --dfcc) for any n in [1, 2^30),
                         any knot array, any non-NaN t, any initial guess *l.  The bisection is a goto loop (labels L3/L4), for which
                         CBMC has no loop-contract syntax: textual loop-contract transformation at the unique loop head L4
                         (base / havoc {il, iu, *l} / assume invariant / body / step + decreases / cut), specs/C41spline/spline_pre.h.
  spline.cover[.cut]   : reachability guards (every exit class of search_ reachable; the step obligations reachable).
  spline.bounded.splder.m<M>n<N>: BOUNDED stand-ins (never counted as proved; SPLDER_CASES, one unit per half order m and knot count n, any ider <= 2m,
                         stride <= 2, any interval L allowed by the contract of search_, loops unwound with --unwinding-assertions) for the INDEX / LOOP
                         SKELETON of SimTK_splder_: every array access of the real code stays (q has exactly 2m, x exactly n, c exactly coffset*(n-1)+1
                         entries: an index off by one is a bounds failure), the five arithmetic right-hand sides are replaced by pure stubs with an
                         arbitrary result, search_ is used BY CONTRACT.  Ghost hooks count the derivative sweeps and record, for an arbitrary
                         (sweep i, knot j), whether / over which knot pair entry j is differenced; the specification (spline_harness.h) is written from
                         the B-spline derivative recurrence: differenced exactly once iff L-2m+i < j <= L and X(j), X(j+2m-i) both exist.
                         NOT a value-level comparison with de Boor: the floating-point content is exercised natively only (replay driver).
  spline.cover.splder  : reachability guard of that harness.

add_jobs(ctx, J) appends the units; replay(ctx, ob) is the replayer for units `spline.*`."""
import os, re
import vlib
from vlib import *
from extract import *

SPEC = os.path.join(VERIF, "specs", "C41spline")
GCVSPL_CPP = os.path.join(REPO, "SimTKmath/Geometry/src/gcvspl.cpp")
GCVSPLUTIL_CPP = os.path.join(REPO, "SimTKmath/Geometry/src/GCVSPLUtil.cpp")

SEARCH_ANCHOR = r"int search_\(int \*n, const SimTK_Real \*x, SimTK_Real \*t,\s*int \*l\)\s*"
SPLDER_ANCHOR = (r"SimTK_Real SimTK_splder_\(int \*ider, int \*m, int \*n, SimTK_Real \*t,\s*const SimTK_Real \*x, const SimTK_Real \*c, "
                 r"int \*l, SimTK_Real \*q, int coffset\)\s*")


def macros_text(ctx):
    """#define abs / min / max of gcvspl.cpp, verbatim"""
    src = open(GCVSPL_CPP).read()
    blank = blank_comments(src)
    out = []
    for nm in ("abs", "min", "max"):
        ms = list(re.finditer(r"^#define %s\([^)]*\)[^\n]*$" % nm, blank, re.M))
        if len(ms) != 1:
            raise ExtractionError("gcvspl.cpp: #define %s(...) found %d times, expected 1" % (nm, len(ms)))
        m = ms[0]
        line = src.count("\n", 0, m.start()) + 1
        ctx.add_function(GCVSPL_CPP, "#define %s (macro, verbatim)" % nm, line, line, src[m.start():m.end()], "M2 (verbatim macro)")
        out.append(src[m.start():m.end()])
    return "\n".join(out) + "\n"


def hook_after(r, rule, pattern, hook, expect):
    r.sub(rule, pattern, lambda m: m.group(0) + " " + hook, expect, strict=True)


def search_text(ctx):
    c = cut_function(GCVSPL_CPP, SEARCH_ANCHOR, "search_", expect_total=1)
    r = Rewriter("{" + c.body + "}", "search_")
    nloops = len(re.findall(r"\b(while|for|do)\b", r.text))
    if nloops:
        raise ExtractionError("search_: expected a pure goto loop, found %d structured loops (no loop contract prepared for them)" % nloops)
    labels = re.findall(r"^\s*(L\d+):", r.text, re.M)
    backs = re.findall(r"\bgoto\s+(L\d+)\s*;", r.text)
    if "L4" not in labels or any(b not in ("L3", "L4", "L5") for b in backs):
        raise ExtractionError("search_: label/goto structure changed (labels %s, gotos %s): the loop head of the transformation is L4" % (labels, backs))
    # L3 must fall through into L4 (so that L4 is the unique loop head): only `iu = ...;` between the two labels
    m = re.search(r"L3:\s*(.*?)\s*L4:", r.text, re.S)
    if not m or not re.fullmatch(r"iu = [^;]*;", m.group(1).strip()):
        raise ExtractionError("search_: the text between L3 and L4 is not a single assignment to iu: %r" % (m.group(1) if m else None))
    r.text = "{ SEARCH_FN_BEGIN\n" + r.text[1:]
    r.log.append(dict(rule="ghost hook at function entry (declares ghost locals only)", pattern="{", replacement="{ SEARCH_FN_BEGIN", hits=1))
    hook_after(r, "textual loop-contract transformation at the loop head L4 (base/havoc{il,iu,*l}/assume/step/decreases/cut; see spline_pre.h)",
               r"\bL4:", "SEARCH_BISECT_HEAD", 1)
    ctx.add_function(GCVSPL_CPP, "search_", c.start, c.end, c.text, "M2 (C as is; induction cut at the goto-loop head)", r.dropped, r.log)
    return ("#if defined(SPL_BOUNDED)\n#define search_ search_body_unused_   /* SimTK_splder_ is verified against the CONTRACT of search_ (spline_contracts.h) */\n#endif\n"
            + " ".join(c.header.split()) + "\n" + r.text + "\n#if defined(SPL_BOUNDED)\n#undef search_\nSEARCH_BY_CONTRACT\n#endif\n")


FLOAT_RULE = "symbolic float product/quotient -> body-less pure stub (result arbitrary; the array reads and the written slot stay in the code): "


def splder_text(ctx):
    """SimTK_splder_: index / loop skeleton.  Every array access stays as it is; the five arithmetic right-hand sides are replaced by
    body-less pure stubs (arbitrary result); ghost hooks count the differencing sweeps and record which q entry is differenced with which knot pair."""
    c = cut_function(GCVSPL_CPP, SPLDER_ANCHOR, "SimTK_splder_", expect_total=1)
    r = Rewriter("{" + c.body + "}", "SimTK_splder_")
    S = r.sub
    S(FLOAT_RULE + "divided difference of the derivative sweep (+ ghost hook recording i, j, j + mi; assigns ghost variables only)",
      r"q\[jm\] = \(q\[jm\] - q\[jm - 1\]\) / \(x\[j \+ mi\] - x\[j\]\);",
      "q[jm] = vf_divdiff(q[jm], q[jm - 1], x[j + mi], x[j]); SPLDER_DIFF_HOOK", 1)
    S(FLOAT_RULE + "de Boor step, right end", r"q\[ir\] = q\[ir - 1\] \+ \(tt - x\[jj\]\) \* q\[ir\];", "q[ir] = vf_deboor_r(q[ir - 1], tt, x[jj], q[ir]);", 1)
    S(FLOAT_RULE + "de Boor step, interior", r"q\[ir\] = z \+ \(xjki - tt\) \* \(q\[ir - 1\] - z\) / \(xjki - x\[jj\]\)\s*;", "q[ir] = vf_deboor(z, xjki, tt, q[ir - 1], x[jj]);", 1)
    S(FLOAT_RULE + "de Boor step, left end", r"q\[ir\] \+= \(x\[jj\] - tt\) \* q\[ir - 1\];", "q[ir] = vf_deboor_l(q[ir], x[jj], tt, q[ir - 1]);", 1)
    S(FLOAT_RULE + "factorial factor", r"z \*= j;", "z = vf_mul_int(z, j);", 1)
    left = [l.strip() for l in r.text.splitlines() if re.search(r"[\w\]\)]\s*[*/]\s*[\w\(]", l.replace("coffset*(", "coffset_times("))]
    if left:
        raise ExtractionError("SimTK_splder_: multiplication/division left after the abstraction rules (tree differs): %s" % left[:3])
    hook_after(r, "ghost hook at the start of the body of the derivative-sweep loop (assigns ghost variables only)",
               r"i__1 = \*ider;[^{}]*?for \(i = 1; i <= i__1; \+\+i\) \{", "SPLDER_SWEEP_HOOK", 1)
    ctx.add_function(GCVSPL_CPP, "SimTK_splder_", c.start, c.end, c.text, "M2 (C as is; arithmetic right-hand sides abstracted; ghost hooks)", r.dropped, r.log)
    return " ".join(c.header.split()) + "\n" + r.text + "\n"


def build_unit(ctx):
    parts = ['#include "%s/spline_pre.h"' % SPEC, macros_text(ctx), '#include "%s/spline_contracts.h"' % SPEC, search_text(ctx)]
    has_splder = False
    try:
        parts.append(splder_text(ctx))
        has_splder = True
    except ExtractionError as e:
        ctx.undecide("extraction (SimTK_splder_ skeleton; the search_ unit is not affected): %s" % e)
    parts.append('#include "%s/spline_harness.h"' % SPEC)
    path = os.path.join(ctx.out, "spline_unit.c")
    open(path, "w").write("\n".join(parts))
    return path, has_splder


SPLDER_BOUND = ("half order m = %d (degree %d), n = %d knots, derivative order 0 <= ider <= 2m, stride coffset <= 2, arbitrary interval L from the contract of search_, loops unwound "
                "with --unwinding-assertions; floating-point right-hand sides arbitrary (index / loop skeleton only)")
SPLDER_CASES = [(1, 2), (1, 4), (2, 4), (2, 6), (3, 6)]      # quick tier; the thorough tier adds (3, 8) (about 150 s)
ARGS = ["--bounds-check", "--pointer-check", "--signed-overflow-check", "--div-by-zero-check", "--object-bits", "8"]
CEX = ("n", "t", "l", "gj", "il", "iu", "x")


def add_jobs(ctx, J):
    """J(f, *a, **k) queues f(ctx, *a, **k)"""
    unit_c, has_splder = build_unit(ctx)
    J(cbmc_unit, "spline.search", [unit_c], "h_search", enforce="search_", replace=[],
      cbmc_args=ARGS + ["--unwind", "3", "--unwinding-assertions"],
      require_props=[r"postcondition\.9$", r"search_\.assertion\.3$", r"pointer_dereference", r"overflow"], min_obligations=30,
      function="search_", timeout=300, cex_vars=CEX)
    J(cover_unit, "spline.cover", [unit_c], "h_search_cover", cc_args=["-DSPL_COVER"], cbmc_args=["--unwind", "8"], expect_min=5, function="search_ (reachability of every exit class)")
    J(cover_unit, "spline.cover.cut", [unit_c], "h_search_cover", cc_args=["-DSPL_COVER_CUT"], cbmc_args=["--unwind", "8"], expect_min=4,
      function="search_ (reachability of the induction step)")
    if has_splder:
        cases = SPLDER_CASES + ([(3, 8)] if ctx.tier == "thorough" else [])
        for (m, n) in cases:
            cc = ["-DSPL_BOUNDED", "-DSPL_M=%d" % m, "-DSPL_N=%d" % n]
            uw = str(max(n, 2 * m) + 2)
            J(cbmc_unit, "spline.bounded.splder.m%dn%d" % (m, n), [unit_c], "h_splder_bounded", no_dfcc=True, cc_args=cc,
              cbmc_args=ARGS + ["--unwind", uw, "--unwinding-assertions"], bounded=SPLDER_BOUND % (m, 2 * m - 1, n),
              require_props=[r"h_splder_bounded\.assertion\.6$", r"SimTK_splder_\.pointer_dereference", r"search_\.assertion\.1$"], min_obligations=40,
              function="SimTK_splder_", timeout=600, cex_vars=("m", "n", "ider", "coffset", "t", "L", "g_i", "g_j", "g_hits", "g_sweeps", "g_hi_knot"))
        m, n = 2, 6
        J(cover_unit, "spline.cover.splder", [unit_c], "h_splder_bounded", cc_args=["-DSPL_BOUNDED", "-DSPL_BOUNDED_COVER", "-DSPL_M=%d" % m, "-DSPL_N=%d" % n],
          cbmc_args=["--unwind", str(max(n, 2 * m) + 2)], expect_min=5, function="SimTK_splder_ (reachability: interior, both ends, maximal order)")
    ctx.extra["spline_part"] = dict(search_loop="goto loop L3/L4, induction cut at L4", splder_skeleton=has_splder)
    ctx.assume("spline unit: SimTK_Real is double (default precision); the knot array x[0..n-1], *n, *t, *l are separate objects; 1 <= n < 2^30 "
               "(beyond that `(il + iu) / 2` in search_ may overflow int); t is not NaN; x[0], x[n-1] are not NaN (a NaN there, or a NaN t, makes search_ read x[-1] or x[n])")
    ctx.assume("spline unit: knot type invariant in ghost-index form: for an arbitrary gj, x[gj] is not NaN and x[gj] < x[gj+1], and x[0] <= x[n-1]; the postcondition X(L) <= t < X(L+1) is proved in "
               "the comparison form not(t < X(L)) and not(t >= X(L+1)) for every array and in the documented form for the arbitrary NaN-free element gj")
    if has_splder:
        ctx.assume("spline unit (bounded SimTK_splder_ skeleton): q, x, c are separate arrays of exactly 2m, n, coffset*(n-1)+1 doubles; knots strictly increasing and not NaN; "
                   "the arithmetic right-hand sides (divided difference, three de Boor steps, factorial factor) return arbitrary values; search_ is replaced by its contract")
    ctx.trust("spline unit: the textual loop-contract transformation at the goto-loop head L4 of search_ (specs/C41spline/spline_pre.h; the extractor checks that L3 falls "
              "through into L4 by a single assignment to iu, so that L4 is the unique loop head) and the rewrite log in extraction_report.json")
    ctx.not_decided += ["splines: the floating-point content of SimTK_splder_ (de Boor recurrence, divided differences), SimTK_gcvspl_ (fit: basis_, prep_, bandet_, bansol_, "
                        "splc_, trinv_) and GCVSPLUtil/Spline_/SplineFitter: exercised natively only (replay driver: derivative order k against a central difference of order k-1, "
                        "degree-1 interpolation)",
                        "splines: uniqueness of the interval found by search_ (needs the quantified monotonicity of the knots); n >= 2^30; NaN arguments"]


# ----------------------------------------------------------------------
_exe = {}


def replay_exe(ctx):
    if "exe" not in _exe:
        _exe["exe"] = native_build(ctx, "c41_spline_replay", os.path.join(VERIF, "replay/c41_spline_replay.cpp"), libs=True,
                                   extra_srcs=[GCVSPL_CPP, GCVSPLUTIL_CPP])
    return _exe["exe"]


def replay(ctx, ob):
    if not ob.unit.startswith("spline."):
        return {}, None
    exe = replay_exe(ctx)
    mode = "splder" if "splder" in ob.unit else "search"
    tries = []

    def go(md):
        rc, o, e, t = vlib.run([exe, str(ctx.seed), md], 300)
        lines = [l[:400] for l in o.splitlines() if l.startswith(("MISMATCH", "REPRODUCED", "NOT-REPRODUCED"))]
        tries.append(dict(cmd="c41_spline_replay %d %s" % (ctx.seed, md), output="\n".join(lines[:6] + lines[-1:])))
        return re.search(r"^REPRODUCED:", o, re.M) is not None
    order = [mode, "splder" if mode == "search" else "search"]
    for md in order:
        if go(md):
            wc = "search_-returns-wrong-knot-interval" if md == "search" else "spline-derivative-inconsistent-with-lower-order"
            return dict(tries=tries, witness_class=wc), True
    return dict(tries=tries), False
