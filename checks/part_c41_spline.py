"""Part of C41: the GCVSPL evaluation side (SimTKmath/Geometry/src/gcvspl.cpp, f2c-style C) under contract.

Back end A, route M2.  The functions are cut from /repo on each run (tools/extract.py), together with the file's own abs/min/max
macros, and compiled as C (SimTK_Real = double).

  spline.search        : search_ (knot-interval search), UNBOUNDED: function contract (goto-instrument --dfcc) for any n in [1, 2^30),
                         any knot array, any non-NaN t, any initial guess *l.  The bisection is a goto loop (labels L3/L4), for which
                         CBMC has no loop-contract syntax: textual loop-contract transformation at the unique loop head L4
                         (base / havoc {il, iu, *l} / assume invariant / body / step + decreases / cut), specs/C41spline/spline_pre.h.
  spline.cover[.cut]   : reachability guards (every exit class of search_ reachable; the step obligations reachable).
  spline.bounded.splder: BOUNDED stand-in (see SPLDER_BOUND) for the index / loop skeleton of SimTK_splder_ with the floating-point
                         arithmetic abstracted (built only if the cut succeeds; never counted as proved).

add_jobs(ctx, J) appends the units; replay(ctx, ob) is the replayer for units `spline.*`."""
import os, re
import vlib
from vlib import *
from extract import *

SPEC = os.path.join(VERIF, "specs", "C41spline")
GCVSPL_CPP = os.path.join(REPO, "SimTKmath/Geometry/src/gcvspl.cpp")
GCVSPLUTIL_CPP = os.path.join(REPO, "SimTKmath/Geometry/src/GCVSPLUtil.cpp")

SEARCH_ANCHOR = r"int search_\(int \*n, const SimTK_Real \*x, SimTK_Real \*t,\s*int \*l\)\s*"
SPLDER_ANCHOR = (r"SimTK_Real SimTK_splder_\(int \*ider, int \*m, int \*n, SimTK_Real \*t,\s*const SimTK_Real \*x, const SimTK_Real \*c, "
                 r"int \*l, SimTK_Real \*q, int coffset\)\s*")


def macros_text(ctx):
    """#define abs / min / max of gcvspl.cpp, verbatim"""
    src = open(GCVSPL_CPP).read()
    blank = blank_comments(src)
    out = []
    for nm in ("abs", "min", "max"):
        ms = list(re.finditer(r"^#define %s\([^)]*\)[^\n]*$" % nm, blank, re.M))
        if len(ms) != 1:
            raise ExtractionError("gcvspl.cpp: #define %s(...) found %d times, expected 1" % (nm, len(ms)))
        m = ms[0]
        line = src.count("\n", 0, m.start()) + 1
        ctx.add_function(GCVSPL_CPP, "#define %s (macro, verbatim)" % nm, line, line, src[m.start():m.end()], "M2 (verbatim macro)")
        out.append(src[m.start():m.end()])
    return "\n".join(out) + "\n"


def hook_after(r, rule, pattern, hook, expect):
    r.sub(rule, pattern, lambda m: m.group(0) + " " + hook, expect, strict=True)


def search_text(ctx):
    c = cut_function(GCVSPL_CPP, SEARCH_ANCHOR, "search_", expect_total=1)
    r = Rewriter("{" + c.body + "}", "search_")
    nloops = len(re.findall(r"\b(while|for|do)\b", r.text))
    if nloops:
        raise ExtractionError("search_: expected a pure goto loop, found %d structured loops (no loop contract prepared for them)" % nloops)
    labels = re.findall(r"^\s*(L\d+):", r.text, re.M)
    backs = re.findall(r"\bgoto\s+(L\d+)\s*;", r.text)
    if "L4" not in labels or any(b not in ("L3", "L4", "L5") for b in backs):
        raise ExtractionError("search_: label/goto structure changed (labels %s, gotos %s): the loop head of the transformation is L4" % (labels, backs))
    # L3 must fall through into L4 (so that L4 is the unique loop head): only `iu = ...;` between the two labels
    m = re.search(r"L3:\s*(.*?)\s*L4:", r.text, re.S)
    if not m or not re.fullmatch(r"iu = [^;]*;", m.group(1).strip()):
        raise ExtractionError("search_: the text between L3 and L4 is not a single assignment to iu: %r" % (m.group(1) if m else None))
    r.text = "{ SEARCH_FN_BEGIN\n" + r.text[1:]
    r.log.append(dict(rule="ghost hook at function entry (declares ghost locals only)", pattern="{", replacement="{ SEARCH_FN_BEGIN", hits=1))
    hook_after(r, "textual loop-contract transformation at the loop head L4 (base/havoc{il,iu,*l}/assume/step/decreases/cut; see spline_pre.h)",
               r"\bL4:", "SEARCH_BISECT_HEAD", 1)
    ctx.add_function(GCVSPL_CPP, "search_", c.start, c.end, c.text, "M2 (C as is; induction cut at the goto-loop head)", r.dropped, r.log)
    return " ".join(c.header.split()) + "\n" + r.text + "\n"


def build_unit(ctx):
    parts = ['#include "%s/spline_pre.h"' % SPEC, macros_text(ctx), '#include "%s/spline_contracts.h"' % SPEC, search_text(ctx)]
    has_splder = False
    try:
        import part_c41_splder as PS          # optional second part (bounded index skeleton of SimTK_splder_)
        parts.append(PS.splder_text(ctx))
        has_splder = True
    except ImportError:
        pass
    parts.append('#include "%s/spline_harness.h"' % SPEC)
    path = os.path.join(ctx.out, "spline_unit.c")
    open(path, "w").write("\n".join(parts))
    return path, has_splder


ARGS = ["--bounds-check", "--pointer-check", "--signed-overflow-check", "--div-by-zero-check", "--object-bits", "8"]
CEX = ("n", "t", "l", "gj", "il", "iu", "x")


def add_jobs(ctx, J):
    """J(f, *a, **k) queues f(ctx, *a, **k)"""
    unit_c, has_splder = build_unit(ctx)
    J(cbmc_unit, "spline.search", [unit_c], "h_search", enforce="search_", replace=[],
      cbmc_args=ARGS + ["--unwind", "3", "--unwinding-assertions"],
      require_props=[r"postcondition\.9$", r"search_\.assertion\.3$", r"pointer_dereference", r"overflow"], min_obligations=30,
      function="search_", timeout=300, cex_vars=CEX)
    J(cover_unit, "spline.cover", [unit_c], "h_search_cover", cc_args=["-DSPL_COVER"], cbmc_args=["--unwind", "8"], expect_min=5, function="search_ (reachability of every exit class)")
    J(cover_unit, "spline.cover.cut", [unit_c], "h_search_cover", cc_args=["-DSPL_COVER_CUT"], cbmc_args=["--unwind", "8"], expect_min=4,
      function="search_ (reachability of the induction step)")
    ctx.extra["spline_part"] = dict(search_loop="goto loop L3/L4, induction cut at L4", splder_skeleton=has_splder)
    ctx.assume("spline unit: SimTK_Real is double (default precision); the knot array x[0..n-1], *n, *t, *l are separate objects; 1 <= n < 2^30 "
               "(beyond that `(il + iu) / 2` in search_ may overflow int); t is not NaN; x[0], x[n-1] are not NaN (a NaN there, or a NaN t, makes search_ read x[-1] or x[n])")
    ctx.assume("spline unit: knot type invariant in ghost-index form: for an arbitrary gj, x[gj] is not NaN and x[gj] < x[gj+1], and x[0] <= x[n-1]; the postcondition X(L) <= t < X(L+1) is proved in "
               "the comparison form not(t < X(L)) and not(t >= X(L+1)) for every array and in the documented form for the arbitrary NaN-free element gj")
    ctx.trust("spline unit: the textual loop-contract transformation at the goto-loop head L4 of search_ (specs/C41spline/spline_pre.h; the extractor checks that L3 falls "
              "through into L4 by a single assignment to iu, so that L4 is the unique loop head) and the rewrite log in extraction_report.json")
    ctx.not_decided += ["splines: the floating-point content of SimTK_splder_ (de Boor recurrence, divided differences), SimTK_gcvspl_ (fit: basis_, prep_, bandet_, bansol_, "
                        "splc_, trinv_) and GCVSPLUtil/Spline_/SplineFitter: exercised natively only (replay driver: derivative order k against a central difference of order k-1, "
                        "degree-1 interpolation)",
                        "splines: uniqueness of the interval found by search_ (needs the quantified monotonicity of the knots); n >= 2^30; NaN arguments"]


# ----------------------------------------------------------------------
_exe = {}


def replay_exe(ctx):
    if "exe" not in _exe:
        _exe["exe"] = native_build(ctx, "c41_spline_replay", os.path.join(VERIF, "replay/c41_spline_replay.cpp"), libs=True,
                                   extra_srcs=[GCVSPL_CPP, GCVSPLUTIL_CPP])
    return _exe["exe"]


def replay(ctx, ob):
    if not ob.unit.startswith("spline."):
        return {}, None
    exe = replay_exe(ctx)
    mode = "splder" if "splder" in ob.unit else "search"
    tries = []

    def go(md):
        rc, o, e, t = vlib.run([exe, str(ctx.seed), md], 300)
        lines = [l[:400] for l in o.splitlines() if l.startswith(("MISMATCH", "REPRODUCED", "NOT-REPRODUCED"))]
        tries.append(dict(cmd="c41_spline_replay %d %s" % (ctx.seed, md), output="\n".join(lines[:6] + lines[-1:])))
        return re.search(r"^REPRODUCED:", o, re.M) is not None
    order = [mode, "splder" if mode == "search" else "search"]
    for md in order:
        if go(md):
            wc = "search_-returns-wrong-knot-interval" if md == "search" else "spline-derivative-inconsistent-with-lower-order"
            return dict(tries=tries, witness_class=wc), True
    return dict(tries=tries), False
