"""C38 - non-contact force elements follow their documented laws (thin wrapper; extended by the coordinator).
Currently runs the force-caching class invariant part (checks/part_c38_cache.py)."""
import os
from vlib import *
from extract import *
import part_c38_cache

PID = "C38"
META = dict(
    category="other",
    text=("CBMC contracts: class invariant of every ForceImpl subclass (enumerated from the sources each run): "
          "dependsOnlyOnPositions() implies every state variable allocated in realizeTopology()/realizeModel() invalidates a "
          "stage <= Stage::Position, so that parameter changes of cached elements take effect at the next realization."),
    note="Assumed: State allocation API contract, GeneralForceSubsystem cache reset at Position (C18 lemma), user Custom implementations.",
    technique="CBMC function contracts (dfcc) on control slices cut from the real realizeTopology()/realizeModel() bodies",
    design_ref="4 C16 / C38")


def main(ctx):
    ctx.level = "other"
    rep = part_c38_cache.run(ctx)
    ctx.trust("cbmc/goto-cc/goto-instrument 6.11.0 (C front end), MiniSat")
    ctx.explanation = "Force-caching class invariant proved per ForceImpl subclass (unbounded; loop-free slices)."
    return ctx.finish(replayer=rep)
