"""C38 - Non-contact force elements follow their documented laws.
Part B (route M3): calcForce/calcPotentialEnergy of the built-in elements, transliterated each run
and executed against a symbolic world; Part A: force-caching class invariant (part_c38_cache)."""
import os, re, json, z3, importlib
from vlib import *
from extract import *
import symlib as S
from symlib import *
import forcelib as FL

PID = "C38"
META = dict(
    category="proof",
    text=("Documented force laws proved for all real states/parameters on the transliterated calcForce/calcPotentialEnergy of TwoPointLinearSpring, "
          "TwoPointLinearDamper, TwoPointConstantForce, ConstantForce, ConstantTorque, MobilityLinearSpring/Damper/ConstantForce/LinearStop (piecewise law, "
          "every region), UniformGravity and Gravity (incl. immune bodies), with the matter API replaced by its kinematic contract; plus the class invariant "
          "'an element whose force is cached until Position is invalidated keeps its parameters in variables that invalidate Position or earlier' on every "
          "ForceImpl subclass (CBMC contracts), which is what makes parameter changes take effect at the next realization for cached elements. "
          "Force::Gravity, which does its own lazy caching with manual invalidation and precalculated zeroes, has that protocol under CBMC function/loop contracts "
          "for any number of bodies: realizeTopology establishes, every State-based setter preserves, and ensureForceCacheValid/getBodyForces/getPotentialEnergy/calcForce "
          "rely on the invariant 'excluded bodies and g==0 hold exact zeroes; a valid cache holds the documented value of the current g, d, z, exclusions' "
          "(force values abstracted by tags). Force::LinearBushing (agent-built part_bushing): the whole documented law (q, qdot, f = -(kq + c qdot), PE, dissipation, "
          "F_GM/F_GF/F_GB1/F_GB2) and its four lazy cache entries: allocation table, early returns, each ensure* marks exactly its own entry, and each State-based setter "
          "(setStiffness/setDamping/setFrameOnBody1/2) writes only through the Instance-stage variable so that the next evaluation equals that of a fresh element with the new parameter."),
    note=("Assumes real arithmetic and the mocked matter/State API contracts listed in the evidence; trusts z3/cvc5, CBMC, transliterator/extractor rules. "
          "Thermostat, DiscreteForces, Custom, CableSpring and enable flags are not covered."),
    technique="symbolic execution of transliterated real code over the reals + SMT (z3 QF_NRA); CBMC contracts for the caching class invariant",
    design_ref="4 C16/C38")


def main(ctx, only_b=False):
    ctx.level = "proof"
    try:
        B, C = FL.build(ctx, want=("springs", "mobility", "gravity"))
    except ExtractionError as e:
        ctx.undecide("extraction: %s" % e)
        return ctx.finish()
    laws(ctx, B, C)
    replayers = []
    if not only_b:
        try:
            part = importlib.import_module("part_c38_cache")
            r = part.run(ctx)
            if r:
                replayers.append(r)
        except ImportError:
            ctx.not_decided.append("force-caching class invariant (part_c38_cache module not present)")
        except ExtractionError as e:
            ctx.undecide("extraction (cache invariant): %s" % e)
        try:
            part = importlib.import_module("part_c38_gravity")
            r = part.run(ctx)
            if r:
                replayers.append(r)
                # the clause part_c38_cache leaves open is what this part decides
                ctx.not_decided = [x for x in ctx.not_decided if "manage their own lazy cache" not in x]
        except ImportError:
            ctx.not_decided.append("Force::Gravity own lazy caching (part_c38_gravity module not present)")
        except ExtractionError as e:
            ctx.undecide("extraction (gravity caching): %s" % e)
    ctx.checker_cmds.append("z3 (python API, QF_NRA); SMT-LIB files in out/C38/smt2")
    ctx.trust("z3 4.x / cvc5 1.0 (QF_NRA)"); ctx.trust("tools/translit.py rule table (logged) and tools/symlib.py shim")
    ctx.assume("machine arithmetic treated as mathematical (reals)")
    for a in FL.world_assumptions():
        ctx.assume(a)
    import part_bushing
    part_bushing.c38_part(ctx)
    ctx.not_decided += ["Thermostat, DiscreteForces, MobilityDiscreteForce, Custom, CableSpring",
                        "enable/disable flags (Force::setDisabled) between realizations"]
    ctx.explanation = "%d functions under contract; %d obligations." % (len(ctx.functions), len(ctx.obligations))
    def rp(ob):
        if (ob.unit or "").startswith("bushing."):
            return part_bushing.replay(ctx, ob)
        if ob.unit.startswith("forcecache") or ob.unit.startswith("gravity."):
            for r in replayers:          # each part's replayer answers ({}, None) for units that are not its own
                rep, ok = r(ob)
                if rep or ok is not None:
                    return rep, ok
        return replay(ctx, ob)
    return ctx.finish(replayer=rp)


def plain(x):
    return S.vmap(lambda e: D(val(e)), x)


def laws(ctx, B, C):
    W = FL.World(3)
    side = list(W.side)
    st = object()
    U = "forcelaw"
    b1, b2 = W.bodies[1], W.bodies[2]
    s1 = Vec(*[z3.Real("s1_%d" % i) for i in range(3)]); s2 = Vec(*[z3.Real("s2_%d" % i) for i in range(3)])
    R1, R2, p1o, p2o = plain(b1.R), plain(b2.R), plain(b1.p), plain(b2.p)
    a1, a2 = R1 * s1, R2 * s2                       # station vectors in G
    P1, P2 = p1o + a1, p2o + a2
    r = P2 - P1
    # ---- TwoPointLinearSpring ----
    S.reset_env()
    k, x0 = z3.Reals("k x0")
    e = C["TwoPointLinearSpring"](); e.matter, e.body1, e.body2, e.station1, e.station2, e.k, e.x0 = W, 1, 2, s1, s2, D(k), D(x0)
    bf, pf, mf = W.fresh_forces()
    e.calcForce(st, bf, pf, mf)
    sd = side + list(S.ENV.side)
    d = r.norm(); sd = side + list(S.ENV.side) + [val(d) > 0]
    f1 = (D(k) * (d - D(x0)) / d) * r                # k (length - rest length) along the line, pulling 1 toward 2
    B.prove_eq("TwoPointLinearSpring: force on body1 == k(d-x0) * unit(p2-p1)", plain(bf[1][1]), f1, sd, U, "TwoPointLinearSpring::calcForce")
    B.prove_eq("TwoPointLinearSpring: torque on body1 == station1_G x f", plain(bf[1][0]), cross(a1, f1), sd, U, "TwoPointLinearSpring::calcForce")
    B.prove_eq("TwoPointLinearSpring: force on body2 == -force on body1", plain(bf[2][1]), -f1, sd, U, "TwoPointLinearSpring::calcForce")
    B.prove_eq("TwoPointLinearSpring: torque on body2 == -station2_G x f", plain(bf[2][0]), -cross(a2, f1), sd, U, "TwoPointLinearSpring::calcForce")
    B.prove_eq("TwoPointLinearSpring: ground untouched", plain(bf[0][1]), Vec(0, 0, 0), sd, U, "TwoPointLinearSpring::calcForce")
    pe = e.calcPotentialEnergy(st)
    sd2 = side + list(S.ENV.side)
    B.prove_eq("TwoPointLinearSpring: PE == k (d-x0)^2 / 2", D(val(pe)), D(k) * (d - D(x0)) * (d - D(x0)) / 2, sd2 + [val(d) > 0], U, "TwoPointLinearSpring::calcPotentialEnergy")
    # ---- TwoPointLinearDamper ----
    S.reset_env()
    c = z3.Real("c")
    e = C["TwoPointLinearDamper"](); e.matter, e.body1, e.body2, e.station1, e.station2, e.damping = W, 1, 2, s1, s2, D(c)
    bf, pf, mf = W.fresh_forces(); e.calcForce(st, bf, pf, mf)
    d = r.norm(); sd = side + list(S.ENV.side) + [val(d) > 0]
    u = r / d
    vrel = (b2.v + cross(b2.w, a2)) - (b1.v + cross(b1.w, a1))
    fd = (D(c) * dot(vrel, u)) * u
    B.prove_eq("TwoPointLinearDamper: force on body1 == c (vrel.u) u", plain(bf[1][1]), fd, sd, U, "TwoPointLinearDamper::calcForce")
    B.prove_eq("TwoPointLinearDamper: force on body2 opposite", plain(bf[2][1]), -fd, sd, U, "TwoPointLinearDamper::calcForce")
    B.prove_eq("TwoPointLinearDamper: torque on body1 == station1_G x (its force)", plain(bf[1][0]), cross(a1, plain(bf[1][1])), sd, U, "TwoPointLinearDamper::calcForce")
    B.prove_eq("TwoPointLinearDamper: torque on body2 == station2_G x (its force)", plain(bf[2][0]), cross(a2, plain(bf[2][1])), sd, U, "TwoPointLinearDamper::calcForce")
    B.prove_eq("TwoPointLinearDamper: PE == 0", D(val(D.lift(e.calcPotentialEnergy(st)))), 0, sd, U, "TwoPointLinearDamper::calcPotentialEnergy")
    # ---- TwoPointConstantForce ----
    S.reset_env()
    F0 = z3.Real("F0")
    e = C["TwoPointConstantForce"](); e.matter, e.body1, e.body2, e.station1, e.station2, e.force = W, 1, 2, s1, s2, D(F0)
    bf, pf, mf = W.fresh_forces(); e.calcForce(st, bf, pf, mf)
    d = r.norm(); sd = side + list(S.ENV.side) + [val(d) > 0]
    f2 = (D(F0) / d) * r                              # positive force separates the points
    B.prove_eq("TwoPointConstantForce: force on body2 == F u (separating)", plain(bf[2][1]), f2, sd, U, "TwoPointConstantForce::calcForce")
    B.prove_eq("TwoPointConstantForce: force on body1 == -F u", plain(bf[1][1]), -f2, sd, U, "TwoPointConstantForce::calcForce")
    B.prove_eq("TwoPointConstantForce: torque on body1 == station1_G x (its force)", plain(bf[1][0]), cross(a1, plain(bf[1][1])), sd, U, "TwoPointConstantForce::calcForce")
    B.prove_eq("TwoPointConstantForce: torque on body2 == station2_G x (its force)", plain(bf[2][0]), cross(a2, plain(bf[2][1])), sd, U, "TwoPointConstantForce::calcForce")
    # ---- ConstantForce / ConstantTorque ----
    S.reset_env()
    fv = Vec(*[z3.Real("cf%d" % i) for i in range(3)])
    e = C["ConstantForce"](); e.matter, e.body, e.station, e.force = W, 1, s1, fv
    bf, pf, mf = W.fresh_forces(); e.calcForce(st, bf, pf, mf)
    B.prove_eq("ConstantForce: (station_G x f, f) on its body", plain(bf[1]), S.SpatialVec(cross(a1, fv), fv), side, U, "ConstantForce::calcForce")
    B.prove_eq("ConstantForce: other body untouched", plain(bf[2]), S.SpatialVec(Vec(0, 0, 0), Vec(0, 0, 0)), side, U, "ConstantForce::calcForce")
    e = C["ConstantTorque"](); e.matter, e.body, e.torque = W, 2, fv
    bf, pf, mf = W.fresh_forces(); e.calcForce(st, bf, pf, mf)
    B.prove_eq("ConstantTorque: (t, 0) on its body", plain(bf[2]), S.SpatialVec(fv, Vec(0, 0, 0)), side, U, "ConstantTorque::calcForce")
    # ---- mobility elements ----
    S.reset_env()
    kq, q0, cq, fq = z3.Reals("kq q0 cq fq")
    class Pair: pass
    e = C["MobilityLinearSpring"](); e.m_matter, e.m_mobodIx, e.m_whichQ = W, 1, 0
    pr = Pair(); pr.first, pr.second = D(kq), D(q0); e.getParams = lambda s_: pr
    bf, pf, mf = W.fresh_forces(); e.calcForce(st, bf, pf, mf)
    q, qd = b1._coord(0)
    B.prove_eq("MobilityLinearSpring: f == -k (q - q0)", D(val(mf.f[(1, 0)])), -D(kq) * (D(val(q)) - D(q0)), [], U, "MobilityLinearSpring::calcForce")
    B.prove_eq("MobilityLinearSpring: PE == k (q-q0)^2 / 2", D(val(e.calcPotentialEnergy(st))), D(kq) * (D(val(q)) - D(q0)) * (D(val(q)) - D(q0)) / 2, [], U, "MobilityLinearSpring::calcPotentialEnergy")
    B.prove_bool("MobilityLinearSpring: exactly one mobility touched", z3.BoolVal(len(mf.f) == 1), [], U, "MobilityLinearSpring::calcForce")
    e = C["MobilityLinearDamper"](); e.m_matter, e.m_mobodIx, e.m_whichU = W, 1, 0; e.getDamping = lambda s_: D(cq)
    bf, pf, mf = W.fresh_forces(); e.calcForce(st, bf, pf, mf)
    B.prove_eq("MobilityLinearDamper: f == -c u", D(val(mf.f[(1, 0)])), -D(cq) * D(val(qd)), [], U, "MobilityLinearDamper::calcForce")
    e = C["MobilityConstantForce"](); e.m_matter, e.m_mobodIx, e.m_whichU = W, 1, 0; e.getForce = lambda s_: D(fq)
    bf, pf, mf = W.fresh_forces(); e.calcForce(st, bf, pf, mf)
    B.prove_eq("MobilityConstantForce: f == force", D(val(mf.f[(1, 0)])), D(fq), [], U, "MobilityConstantForce::calcForce")
    # ---- MobilityLinearStop: piecewise law, every region ----
    ks, ds, qlo, qhi = z3.Reals("ks ds qlo qhi")
    class Par: pass
    par = Par(); par.k, par.d, par.qLow, par.qHigh = D(ks), D(ds), D(qlo), D(qhi)
    e = C["MobilityLinearStop"](); e.m_matter, e.m_mobodIx, e.m_whichQ = W, 1, 0; e.getParameters = lambda s_: par
    qv, qdv = val(q), val(qd)
    base = [qlo <= qhi, ks >= 0, ds >= 0]
    seen = set()
    def runf():
        bf, pf, mf = W.fresh_forces(); e.calcForce(st, bf, pf, mf); return mf
    for path, script, mf in B.run_paths(runf, 4):
        key = tuple(str(x) for x in path)
        if key in seen: continue
        seen.add(key)
        for region, rc in (("above qHigh", [qv > qhi]), ("below qLow", [qv < qlo]), ("inside", [qv >= qlo, qv <= qhi])):
            for kz, kc in (("k>0", [ks > 0]), ("k==0", [ks == 0])):
                cond = base + rc + kc + path
                s_ = z3.Solver(); s_.add(*cond)
                if s_.check() != z3.sat: continue
                got = mf.f.get((1, 0), D(0))
                x_hi, x_lo = qv - qhi, qv - qlo
                if kz == "k==0" or region == "inside":
                    want = z3.RealVal(0)
                elif region == "above qHigh":
                    raw = -(ks * x_hi * (1 + ds * qdv)); want = z3.If(raw < 0, raw, 0)
                else:
                    raw = -(ks * x_lo * (1 - ds * qdv)); want = z3.If(raw > 0, raw, 0)
                B.prove_eq("MobilityLinearStop %s, %s: documented piecewise force" % (region, kz), D(val(got)), D(want), cond, U, "MobilityLinearStop::calcForce")
    seen = set()
    for path, script, pe in B.run_paths(lambda: e.calcPotentialEnergy(st), 3):
        key = tuple(str(x) for x in path)
        if key in seen: continue
        seen.add(key)
        for region, rc, x in (("above qHigh", [qv > qhi], qv - qhi), ("below qLow", [qv < qlo], qv - qlo), ("inside", [qv >= qlo, qv <= qhi], z3.RealVal(0))):
            cond = base + rc + path
            s_ = z3.Solver(); s_.add(*cond)
            if s_.check() != z3.sat: continue
            B.prove_eq("MobilityLinearStop %s: PE == k x^2 / 2" % region, D(val(D.lift(pe))), D(ks * x * x / 2), cond, U, "MobilityLinearStop::calcPotentialEnergy")
    # ---- UniformGravity ----
    S.reset_env()
    g = Vec(*[z3.Real("g%d" % i) for i in range(3)]); zh = z3.Real("zh")
    e = C["UniformGravity"](); e.matter, e.g, e.zeroHeight = W, g, D(zh)
    bf, pf, mf = W.fresh_forces(); e.calcForce(st, bf, pf, mf)
    tot_pe = D(0)
    for b in (b1, b2):
        Rp = plain(b.R); cG = Rp * b.com
        B.prove_eq("UniformGravity: body %d gets (com_G x m g, m g)" % b.ix, plain(bf[b.ix]), S.SpatialVec(cross(cG, b.mass * g), b.mass * g), side, U, "UniformGravity::calcForce")
        tot_pe = tot_pe - b.mass * (dot(g, plain(b.p) + cG) + D(zh))
    B.prove_eq("UniformGravity: nothing applied to Ground", plain(bf[0]), S.SpatialVec(Vec(0, 0, 0), Vec(0, 0, 0)), side, U, "UniformGravity::calcForce")
    B.prove_eq("UniformGravity: PE == -sum m (g.com_G + zeroHeight)", D(val(e.calcPotentialEnergy(st))), tot_pe, side, U, "UniformGravity::calcPotentialEnergy")
    # ---- Gravity (magnitude g, direction d, zero height z, immune bodies) ----
    for immune in ([False, False, False], [False, True, False], [False, False, True]):
        S.reset_env()
        gm, zz = z3.Reals("gm zz"); dv = Vec(*[z3.Real("d%d" % i) for i in range(3)])
        class P: pass
        p_ = P(); p_.g, p_.d, p_.z, p_.mobodIsImmune = D(gm), dv, D(zz), immune
        class FC: pass
        fc = FC(); fc.pe = D(0); fc.F_GB = [S.SpatialVec(Vec(0, 0, 0), Vec(0, 0, 0)) for _ in W.bodies]; fc.f_GP = []
        e = C["Gravity"](); e.matter, e.numEvaluations = W, 0
        e.isForceCacheValid = lambda s_: False; e.getParameters = lambda s_: p_; e.markForceCacheValid = lambda s_: None; e.updForceCache = lambda s_: fc
        for path, script, _ in B.run_paths(lambda: e.ensureForceCacheValid(st), 1):
            cond = side + path
            s_ = z3.Solver(); s_.add(*cond)
            if s_.check() != z3.sat: continue
            tag = "immune=%s, %s" % ("".join("1" if x else "0" for x in immune), "g==0" if any("==" in str(c_) and "Not" not in str(c_) for c_ in path) else "g!=0")
            pe_or = D(0)
            for b in (b1, b2):
                Rp = plain(b.R); cG = Rp * b.com
                if immune[b.ix] or "g==0" in tag:
                    wantF = S.SpatialVec(Vec(0, 0, 0), Vec(0, 0, 0))
                else:
                    grav = D(gm) * dv
                    wantF = S.SpatialVec(cross(cG, b.mass * grav), b.mass * grav)
                    pe_or = pe_or - b.mass * (dot(grav, plain(b.p) + cG) + D(gm) * D(zz))
                B.prove_eq("Gravity (%s): body %d force == m g d at mass centre (0 if immune)" % (tag, b.ix), plain(fc.F_GB[b.ix]), wantF, cond, U, "Gravity::ensureForceCacheValid")
            B.prove_eq("Gravity (%s): PE == -sum m (g d . com_G + g z)" % tag, D(val(fc.pe)), pe_or, cond, U, "Gravity::ensureForceCacheValid")
            fc.pe = D(0); fc.F_GB = [S.SpatialVec(Vec(0, 0, 0), Vec(0, 0, 0)) for _ in W.bodies]
    s_ = z3.Solver(); s_.add(*side)
    ctx.add(Obligation("guard:world side conditions satisfiable", "guards", "z3", "discharged" if s_.check() == z3.sat else "undecided", 0, "reachability guard"))


_EXE = {}


def replay(ctx, ob):
    if "exe" not in _EXE:
        src = os.path.join(REPO, "Simbody/src")
        _EXE["exe"] = native_build(ctx, "c38_replay", os.path.join(VERIF, "replay/c38_replay.cpp"), libs=True,
                                   extra_srcs=[os.path.join(src, "Force.cpp"), os.path.join(src, "Force_Gravity.cpp")], extra_inc=[src])
    rc, o, e, t = run([_EXE["exe"], str(ctx.seed)], 300)
    return dict(cmd="c38_replay %d (random states on the real elements against the documented formulas)" % ctx.seed, output=o[-3000:]), "REPRODUCED:" in o
