"""Shared builder for the force-element checks (C38, C12, C13, C37): transliterates the real
calcForce / calcPotentialEnergy bodies (route M3) and runs them against a symbolic 'world'
of mobilized bodies. The matter/State API is mocked by its textbook kinematic meaning
(ASSUMED contracts on the matter API, listed by world_assumptions())."""
import os, re, z3
import symlib as S
from symlib import *
from blib import BUnit
from vlib import REPO
from extract import ExtractionError

FORCE_CPP = os.path.join(REPO, "Simbody/src/Force.cpp")
GRAV_CPP = os.path.join(REPO, "Simbody/src/Force_Gravity.cpp")
HC_CPP = os.path.join(REPO, "Simbody/src/HuntCrossleyForce.cpp")


def world_assumptions():
    return ["matter API by contract (mock): getBodyTransform = (R(unit quaternion), p); findStationVelocityInGround(s) = v_O + w x (R s); "
            "findStationAtGroundPoint(x) = ~R (x - p); applyForceToBodyPoint(s,f) adds ((R s) x f, f) to the body's spatial force; "
            "applyOneMobilityForce adds f to that mobility; getOneQ/getOneU/getOneQDot return the coordinate / speed (qdot == u assumed, as the source comments do)",
            "time derivatives: d/dt R = [w]x R, d/dt p = v_O, d/dt q = qdot (dual numbers)",
            "parameter accessors (getParams/getParameters/getDamping/getForce) return the current parameter values"]


def Rquat(q):
    q0, q1, q2, q3 = q[0], q[1], q[2], q[3]
    return Mat([[1 - 2*(q2*q2+q3*q3), 2*(q1*q2-q0*q3), 2*(q1*q3+q0*q2)],
                [2*(q1*q2+q0*q3), 1 - 2*(q1*q1+q3*q3), 2*(q2*q3-q0*q1)],
                [2*(q1*q3-q0*q2), 2*(q2*q3+q0*q1), 1 - 2*(q1*q1+q2*q2)]])


class GroundStation:
    """a body station identified by the ground-frame vector from the body origin to the point
    (what findStationAtGroundPoint returns); encodes R * ~R == 1 (rotations are orthonormal, C27)"""
    def __init__(self, vecG): self.vecG = vecG


class MockBody:
    def __init__(self, world, ix, ground=False):
        self.world, self.ix = world, ix
        n = "b%d" % ix
        if ground:
            self.q = None
            Rv = eye(3); self.w = Vec(0, 0, 0); self.v = Vec(0, 0, 0); pv = Vec(0, 0, 0)
        else:
            if world.rot == "free":
                # orientation as 9 free reals: identities that do not need orthonormality are proved
                # for ALL matrices, which includes all rotations (and keeps the polynomial degree low)
                self.q = None
                Rv = Mat([[z3.Real("%sR%d%d" % (n, i, j)) for j in range(3)] for i in range(3)])
            else:
                self.q = Vec(*[z3.Real("%sq%d" % (n, i)) for i in range(4)])
                world.side.append(val(self.q.normSqr()) == 1)
                Rv = Rquat(self.q)
            self.w = Vec(*[z3.Real("%sw%d" % (n, i)) for i in range(3)])
            self.v = Vec(*[z3.Real("%sv%d" % (n, i)) for i in range(3)])
            pv = Vec(*[z3.Real("%sp%d" % (n, i)) for i in range(3)])
        Rd = crossMat(self.w) * Rv
        self.R = Mat([[D(val(Rv.m[i][j]), val(Rd.m[i][j])) for j in range(3)] for i in range(3)])
        self.p = Vec(*[D(val(pv[i]), val(self.v[i])) for i in range(3)])
        self.mass = D(z3.Real(n + "m")); world.side.append(val(self.mass) > 0)
        self.com = Vec(*[z3.Real("%sc%d" % (n, i)) for i in range(3)])
        self.qs = {}
    # --- matter API (assumed contracts) ---
    def getMobilizedBodyIndex(self): return self.ix
    def getBodyTransform(self, state): return S.Transform(self.R, self.p)
    def getBodyRotation(self, state): return self.R
    def getBodyOriginLocation(self, state): return self.p
    def findStationVelocityInGround(self, state, s):
        Rs = s.vecG if isinstance(s, GroundStation) else S.vmap(lambda x: D(val(x)), self.R * s)
        return self.v + cross(self.w, Rs)
    def findStationLocationInGround(self, state, s): return self.p + self.R * s
    def findStationAtGroundPoint(self, state, x):
        return GroundStation(x - S.vmap(lambda e: D(val(e)), self.p))
    def getBodyMassProperties(self, state):
        b = self
        class MP:
            def getMass(s_): return b.mass
            def getMassCenter(s_): return b.com
        return MP()
    def _coord(self, which):
        if which not in self.qs:
            n = "b%dq_%d" % (self.ix, int(which))
            qd = z3.Real(n + "dot")
            self.qs[which] = (D(z3.Real(n), qd), D(qd))
        return self.qs[which]
    def getOneQ(self, state, which): return self._coord(which)[0]
    def getOneU(self, state, which): return self._coord(which)[1]
    def getOneQDot(self, state, which): return self._coord(which)[1]
    def applyOneMobilityForce(self, state, which, f, mobilityForces):
        mobilityForces.add(self.ix, int(which), f)
    def applyForceToBodyPoint(self, state, station, force, bodyForces):
        Rs = station.vecG if isinstance(station, GroundStation) else S.vmap(lambda x: D(val(x)), self.R * station)
        bodyForces[self.ix] = bodyForces[self.ix] + S.SpatialVec(cross(Rs, force), force)
        self.world.applied.append((self.ix, station, force))
    def applyBodyTorque(self, state, torque, bodyForces):
        bodyForces[self.ix] = bodyForces[self.ix] + S.SpatialVec(torque, Vec(0, 0, 0))


class MobForces:
    def __init__(self): self.f = {}
    def add(self, b, which, f): self.f[(b, which)] = self.f.get((b, which), D(0)) + f
    def __isub__(self, other):                  # mobilityForces -= damping*u  (GlobalDamper)
        for k, v in other.items():
            self.f[k] = self.f.get(k, D(0)) - v
        return self


class World:
    def __init__(self, nbodies=3, rot="quaternion"):
        self.rot = rot
        self.side = []
        self.applied = []
        self.bodies = [MockBody(self, i, ground=(i == 0)) for i in range(nbodies)]
    def fresh_forces(self):
        z = lambda: S.SpatialVec(Vec(0, 0, 0), Vec(0, 0, 0))
        return [z() for _ in self.bodies], [], MobForces()
    # SimbodyMatterSubsystem mock
    def getMobilizedBody(self, ix): return self.bodies[int(ix)]
    def getNumBodies(self): return len(self.bodies)
    def getNumParticles(self): return 0
    def power(self, bodyForces, mob):
        """sum_b (tau_b . w_b + f_b . v_b) + sum_i f_i u_i  as a z3 term"""
        tot = D(0)
        for b, F in zip(self.bodies, bodyForces):
            tot = tot + dot(S.vmap(lambda x: D(val(x)), F[0]), b.w) + dot(S.vmap(lambda x: D(val(x)), F[1]), b.v)
        for (bi, which), f in mob.f.items():
            tot = tot + D(val(f)) * self.bodies[bi]._coord(which)[1]
        return val(tot)
    def net_force_and_moment_about_ground_origin(self, bodyForces):
        f = Vec(0, 0, 0); m = Vec(0, 0, 0)
        for b, F in zip(self.bodies, bodyForces):
            Fv = [S.vmap(lambda x: D(val(x)), F[k]) for k in range(2)]
            pv = S.vmap(lambda x: D(val(x)), b.p)
            f = f + Fv[1]; m = m + Fv[0] + cross(pv, Fv[1])
        return f, m


class Obj:
    pass


def UnitVec3(v, trusted=False):
    if trusted:
        return v
    return v / v.norm()


def build(ctx, want=("springs", "mobility", "gravity", "huntcrossley")):
    B = BUnit(ctx)
    ns = B.ns
    ns["UnitVec3"] = UnitVec3
    ns["SpatialVec"] = S.SpatialVec
    ns["MobilizerUIndex"] = ns["MobilizerQIndex"] = lambda x: x
    ns["min_"] = lambda a, b: S.ITE(val(a) < val(b), a, b) if not (isinstance(a, (int,)) and isinstance(b, int)) else min(a, b)
    ns["max_"] = lambda a, b: S.ITE(val(a) > val(b), a, b) if not (isinstance(a, (int,)) and isinstance(b, int)) else max(a, b)
    classes = {}
    def cls(name):
        classes[name] = type(name, (Obj,), {})
        return classes[name]
    CF = r"(?:void\s+)?Force::%sImpl::\s*calcForce\(\s*const State&\s+state,\s*Vector_<SpatialVec>&\s+bodyForces,\s*Vector_<Vec3>&\s+particleForces,\s*Vector&\s+mobilityForces\)\s*const\s*"
    PE = r"(?:Real\s+)?Force::%sImpl::\s*calcPotentialEnergy\(const State& state\) const\s*"
    def impl(name, members, methods=(), pe=True, path=FORCE_CPP):
        c = cls(name)
        B.add_method(c, path, CF % name, "calcForce", members=members, methods=list(methods), cxxname="Force::%sImpl::calcForce" % name)
        if pe:
            B.add_method(c, path, PE % name, "calcPotentialEnergy", members=members, methods=list(methods), cxxname="Force::%sImpl::calcPotentialEnergy" % name)
        return c
    if "springs" in want:
        tp = ["matter", "body1", "body2", "station1", "station2"]
        impl("TwoPointLinearSpring", tp + ["k", "x0"])
        impl("TwoPointLinearDamper", tp + ["damping"])
        impl("TwoPointConstantForce", tp + ["force"])
        impl("ConstantForce", ["matter", "body", "station", "force"])
        impl("ConstantTorque", ["matter", "body", "torque"])
    if "mobility" in want:
        mm = ["m_matter", "m_mobodIx", "m_whichQ", "m_whichU"]
        impl("MobilityLinearSpring", mm, methods=["getParams"])
        impl("MobilityLinearDamper", mm, methods=["getDamping"])
        impl("MobilityConstantForce", mm, methods=["getForce"], pe=False)
        impl("MobilityLinearStop", mm, methods=["getParameters"])
    if "gravity" in want:
        impl("UniformGravity", ["matter", "g", "zeroHeight"])
        g = cls("Gravity")
        B.add_method(g, GRAV_CPP, r"void Force::GravityImpl::\s*ensureForceCacheValid\(const State& state\) const\s*", "ensureForceCacheValid",
                     members=["matter", "numEvaluations"], methods=["isForceCacheValid", "getParameters", "markForceCacheValid", "updForceCache"], cxxname="Force::GravityImpl::ensureForceCacheValid")
    if "huntcrossley" in want:
        h = cls("HuntCrossley")
        def pre(b):
            b = b.replace("Value<Real>::updDowncast(state.updCacheEntry(subsystem.getMySubsystemIndex(), energyCacheIndex)).upd()", "self.peCell")
            b = b.replace("Real& pe = self.peCell;", "pe = self.peCell;")
            b = b.replace("static_cast<const PointContact&>(contacts[i])", "contacts[i]")
            b = b.replace("PointContact::isInstance(", "PointContact_isInstance(")
            b = re.sub(r"\bpe \+=", "pe.v +=", b); b = re.sub(r"\bpe = 0\.0;", "pe.v = 0.0;", b)
            return b
        B.add_method(h, HC_CPP, r"void HuntCrossleyForceImpl::calcForce\(const State& state, Vector_<SpatialVec>& bodyForces,\s*Vector_<Vec3>& particleForces, Vector& mobilityForces\) const\s*",
                     "calcForce", members=["subsystem", "set", "transitionVelocity"], methods=["getParameters", "getTransitionVelocity"], extra_pre=pre, cxxname="HuntCrossleyForceImpl::calcForce")
        ns["PointContact_isInstance"] = lambda c: c.isPoint
    B.dump_sources()
    return B, classes
