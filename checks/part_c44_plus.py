"""Part of C44: HISTORY-INDEPENDENCE / DEFINITE INITIALISATION of the `mutable` work members of PLUSImpulseSolver
(Simbody/src/PLUSImpulseSolver.cpp).

Property clause: the result of PLUSImpulseSolver::solve() is a function of the ARGUMENTS of this call only.  Decided form:
within one call, every READ of a mutable work member (element, whole vector/matrix as an operand, size query) is preceded on
every path by a WRITE in the same call that defines what is read.  Equivalently: all work members are havocked at entry
(any size, contents flagged stale) and no stale datum is ever read.

Back end A, route M2.  solve(), solveBilateral(), the private helpers and the three file-local utilities are cut from /repo on
every run and SLICED by a statement-level slicer (below) to a C unit over an abstract container model

    struct TV { int n; bool sdef /* size set in this call */; bool edef /* element gj written in this call */; }

(ghost element index gj, ghost matrix element (gr,gc); specs/C44plus/plus_model.h).  Function contracts and loop invariants live in
specs/C44plus/plus_contracts.h.  The seven helpers and solveBilateral() are discharged with goto-instrument --dfcc
--apply-loop-contracts + cbmc (contract ENFORCED on the sliced body).  solve() itself is a plain cbmc unit (dfcc on it costs
minutes): the slicer emits its 14 loops in base/havoc/step form with a havoc set COMPUTED from the sliced loop body, and its helper
calls as contract models CALL_x (assert PRE_x; havoc frame; assume POST_x) that share PRE_x/POST_x with the enforced contracts.

SLICER (closed rule list, every decision is logged per function in extraction_report.json):
 K1 statement tree: { } / if-else / for / while / break / continue / return / simple statements.  do-while, switch, goto,
    try and preprocessor directives other than `#ifndef NDEBUG ... #endif` abort the extraction.
 K2 `#ifndef NDEBUG` blocks, assert(...) and SimTK_DEBUGn(...) are dropped (release configuration, NDEBUG defined).
 K3 a simple statement is KEPT iff it mentions a tracked container (a `mutable` Vector/Matrix/Array_ member read from the header,
    or a reference parameter declared as an alias in the function table) or calls one of the cut functions.  It is replaced by the
    sequence of its container accesses in evaluation order (reads of the right-hand side and of index expressions, then the
    write): element / matrix element / row / whole-operand / size reads, element / row / whole writes, resize, setToZero,
    fill, eraseFast, FactorQTZ construction and FactorQTZ::solve(b, x), calls of cut functions (tracked arguments by pointer).
    A kept statement whose accesses do not match one of these shapes ABORTS the extraction (nothing touching a member is
    dropped silently).  Any other identifier m_xxx (not behind . or ->) must be a configuration member (read only) or a
    statistics counter (`++m_nSolves[phase]`: history by design, dropped and logged); unknown ones abort.
 K4 `const` locals of integer/index/bool type and for-loop counters are kept (PURE names).  An expression is PURE when it is built
    from pure names, integer literals, arithmetic/comparison operators and size queries of tracked containers; it is kept
    verbatim (size query -> checked model read).  Every other condition / index / initialiser is OPAQUE: conditions become
    nondet_bool() (evaluated anew each time: superset of the paths), opaque read indices become the ghost index (worst case,
    assumed in range), opaque write indices a fresh nondeterministic index, opaque initialisers a nondeterministic constant.
 K5 all other statements (the numerics on local Vectors/Matrices/Reals, RT-array bookkeeping) are DROPPED and listed.
    if/else and loops that keep nothing and contain no return are dropped as a whole.  `return x;` -> `return;`.
    SimTK_ASSERTn_ALWAYS(...) (throws) -> reads of its arguments + `if (nondet) return;`.
 K6 loops keep their real header when pure; each kept loop gets the loop contract LOOPC_<function>_<ordinal> from the spec
    (dfcc units) resp. is emitted as  { INIT; assert INV; havoc(counter + every model field written by the sliced body or, through
    CALLEE_WRITES, by a callee); assume INV; if (COND) { BODY; cont: INCR; assert INV; assume false } exit: }  with
    break/continue -> goto exit/cont (plain unit solve).  The number of kept loops per function is pinned: a changed loop
    structure aborts the extraction (the invariants are attached by ordinal).
 K7 every other PLUSImpulseSolver member function defined in the file (calcSlidingStepLength*) is cut and checked to mention no
    tracked member, so that dropping calls of it (K5) drops no member access; `this->` prefixes are removed, any other use of
    `this` and any reference/pointer bound to a whole tracked container aborts.

run(ctx) adds units `plus.*` and returns a replayer."""
import os, re, time, json
import vlib
from vlib import *
from extract import *

SPEC = os.path.join(VERIF, "specs", "C44plus")
PLUS_CPP = os.path.join(REPO, "Simbody/src/PLUSImpulseSolver.cpp")
PLUS_H = os.path.join(REPO, "Simbody/include/simbody/internal/PLUSImpulseSolver.h")
IMP_H = os.path.join(REPO, "Simbody/include/simbody/internal/ImpulseSolver.h")
IMP_CPP = os.path.join(REPO, "Simbody/src/ImpulseSolver.cpp")

INT_TYPES = ("int", "unsigned", "bool", "ActiveIndex", "MultiplierIndex", "PLUSImpulseSolver::ActiveIndex")
OTHER_DECL_TYPES = ("Real", "Vec2", "Vec3", "FactorQTZ", "Vector", "Matrix", "RowVectorView")
SIZE_METHODS = ("size", "nrow", "ncol", "nelt")
WHOLE_READ_METHODS = ("norm", "normSqr", "normRMS", "normInf", "sum")


# ----------------------------------------------------------------------
# small text helpers
# ----------------------------------------------------------------------
def split_top(s, sep=","):
    out, dp, cur = [], 0, ""
    for ch in s:
        if ch in "([{":
            dp += 1
        elif ch in ")]}":
            dp -= 1
        if ch == sep and dp == 0:
            out.append(cur); cur = ""
        else:
            cur += ch
    out.append(cur)
    return out


def one_line(s, n=150):
    return " ".join(s.split())[:n]


def find_assign_ops(s):
    """positions of top-level assignment operators in s: list of (pos, op_text)."""
    res, dp, i = [], 0, 0
    while i < len(s):
        ch = s[i]
        if ch in "([{":
            dp += 1
        elif ch in ")]}":
            dp -= 1
        elif ch == "=" and dp == 0:
            prev = s[i - 1] if i > 0 else ""
            nxt = s[i + 1] if i + 1 < len(s) else ""
            if nxt == "=":
                i += 2; continue
            if prev in "=!<>":
                i += 1; continue
            if prev in "+-*/%|&^":
                res.append((i - 1, prev + "="))
            else:
                res.append((i, "="))
        i += 1
    return res


# ----------------------------------------------------------------------
# K1/K2: preprocessor + statement tree
# ----------------------------------------------------------------------
class Node:
    def __init__(self, kind, line, **kw):
        self.kind, self.line = kind, line
        self.__dict__.update(kw)


def preprocess(text, name, log_dropped):
    """K2: remove `#ifndef NDEBUG ... #endif` (newlines kept); any other directive aborts."""
    out, skip = [], 0
    for ln in text.split("\n"):
        s = ln.strip()
        if s.startswith("#"):
            d = " ".join(s[1:].split())
            if d == "ifndef NDEBUG":
                if skip:
                    raise ExtractionError("%s: nested preprocessor conditionals" % name)
                skip = 1; out.append(""); buf = []
                continue
            if d.startswith("endif") and skip:
                skip = 0; out.append("")
                log_dropped.append(dict(rule="K2 #ifndef NDEBUG block (release configuration)", text=one_line(" ".join(buf), 400)))
                continue
            raise ExtractionError("%s: preprocessor directive not handled by the slicer: %s" % (name, s))
        if skip:
            buf.append(ln); out.append("")
        else:
            out.append(ln)
    if skip:
        raise ExtractionError("%s: unterminated #ifndef NDEBUG" % name)
    text = "\n".join(out)
    n = len(re.findall(r"\bthis\s*->\s*", text))
    if n:
        log_dropped.append(dict(rule="K1 explicit `this->` prefix removed (implicit this)", text="%d occurrences" % n))
        text = re.sub(r"\bthis\s*->\s*", "", text)
    if re.search(r"\bthis\b", text):
        raise ExtractionError("%s: `this` used other than as `this->member` (the object could be aliased)" % name)
    return text


class Parser:
    def __init__(self, text, line0, name):
        self.t = text
        self.b = blank_comments(text)
        self.line0 = line0
        self.name = name

    def line(self, pos):
        return self.line0 + self.t.count("\n", 0, pos)

    def ws(self, i):
        while i < len(self.b) and self.b[i].isspace():
            i += 1
        return i

    def kw(self, i, word):
        return self.b.startswith(word, i) and not (i + len(word) < len(self.b) and (self.b[i + len(word)].isalnum() or self.b[i + len(word)] == "_"))

    def paren(self, i):
        i = self.ws(i)
        if i >= len(self.b) or self.b[i] != "(":
            raise ExtractionError("%s: '(' expected near line %d" % (self.name, self.line(i)))
        j = match_brace(self.b, i)
        return self.t[i + 1:j], j + 1

    def block(self, i, end):
        nodes = []
        while True:
            i = self.ws(i)
            if i >= end:
                return nodes
            n, i = self.stmt(i)
            if n is not None:
                nodes.append(n)

    def stmt(self, i):
        i = self.ws(i)
        b, ln = self.b, self.line(i)
        if b[i] == "{":
            j = match_brace(b, i)
            return Node("block", ln, body=self.block(i + 1, j)), j + 1
        if b[i] == ";":
            return None, i + 1
        if self.kw(i, "if"):
            cond, j = self.paren(i + 2)
            th, j = self.stmt(j)
            k = self.ws(j)
            el = None
            if self.kw(k, "else"):
                el, j = self.stmt(k + 4)
            return Node("if", ln, cond=cond, then=th, els=el), j
        if self.kw(i, "for"):
            head, j = self.paren(i + 3)
            parts = split_top(head, ";")
            if len(parts) != 3:
                raise ExtractionError("%s: for header at line %d is not INIT;COND;INCR (range-for?)" % (self.name, ln))
            body, j = self.stmt(j)
            return Node("for", ln, init=parts[0].strip(), cond=parts[1].strip(), incr=parts[2].strip(), body=body, head=one_line(head)), j
        if self.kw(i, "while"):
            cond, j = self.paren(i + 5)
            body, j = self.stmt(j)
            return Node("while", ln, cond=cond.strip(), body=body, head=one_line(cond)), j
        for bad in ("do", "switch", "goto", "try", "throw", "case", "default"):
            if self.kw(i, bad):
                raise ExtractionError("%s: statement kind '%s' at line %d is not handled by the slicer" % (self.name, bad, ln))
        for jk in ("break", "continue", "return"):
            if self.kw(i, jk):
                j = b.find(";", i)
                return Node("jump", ln, jk=jk, expr=self.t[i + len(jk):j].strip()), j + 1
        # simple statement: up to ';' at depth 0
        dp, j = 0, i
        while j < len(b):
            ch = b[j]
            if ch in "([{":
                dp += 1
            elif ch in ")]}":
                dp -= 1
                if dp < 0:
                    raise ExtractionError("%s: unbalanced statement at line %d" % (self.name, ln))
            elif ch == ";" and dp == 0:
                break
            j += 1
        if j >= len(b):
            raise ExtractionError("%s: unterminated statement at line %d" % (self.name, ln))
        return Node("simple", ln, text=self.t[i:j].strip()), j + 1


# ----------------------------------------------------------------------
# K3-K6: the slicer proper
# ----------------------------------------------------------------------
class Slicer:
    def __init__(self, fname, short, tracked, aliases, config, stats, callees, src_rel, mode="dfcc"):
        self.fname, self.short, self.mode = fname, short, mode
        self.wstack = []          # write sets of the open loops (plain mode: the havoc set of each loop is COMPUTED from its sliced body)
        self.lstack = []          # tags of the open loops (plain mode: break/continue -> goto)
        self.tracked = dict(tracked)          # name -> (kind 'TV'|'TM', C pointer expression)
        for a, k in aliases.items():
            self.tracked[a] = (k, a)
        self.config, self.stats, self.callees = config, stats, callees
        self.pure = set()
        self.src_rel = src_rel
        self.kept, self.dropped, self.notes = [], [], []
        self.nloops = 0
        self.loop_heads = []
        self.ntmp = 0
        self.counters = []

    # ---- write sets (plain mode) ----------------------------------------
    FIELDS = {"WR_ELEM": ("edef",), "RESIZE": ("n", "sdef", "edef"), "ASSIGN": ("n", "sdef", "edef"), "SET_ALL": ("edef",), "ERASE_FAST": ("n",),
              "M_WR_ELEM": ("edef",), "M_WR_ROW": ("edef",), "M_RESIZE": ("nr", "nc", "sdef", "edef"), "M_ASSIGN": ("nr", "nc", "sdef", "edef"), "M_SET_ALL": ("edef",)}

    def note(self, ptr, fields):
        if ptr.startswith("&_loc"):
            return              # a local of the loop body (fresh in every iteration)
        for w in self.wstack:
            for f in fields:
                w.add("%s->%s" % (ptr, f))

    def note_lines(self, lines):
        for l in lines:
            m = re.match(r"(M_WR_ELEM|M_WR_ROW|M_RESIZE|M_ASSIGN|M_SET_ALL|WR_ELEM|RESIZE|ASSIGN|SET_ALL|ERASE_FAST)\((\(&\w+\)|\w+)[,)]", l)
            if m:
                self.note(m.group(2), self.FIELDS[m.group(1)])

    # ---- classification ------------------------------------------------
    def tracked_in(self, s):
        return [m for m in re.finditer(r"(?<![\w.>])([A-Za-z_]\w*)\b", s) if m.group(1) in self.tracked]

    def callee_in(self, s):
        return [m for m in re.finditer(r"(?<![\w.>:])([A-Za-z_]\w*)\s*\(", s) if m.group(1) in self.callees]

    def check_m_names(self, s, line):
        for m in re.finditer(r"(?<![\w.>])(m_\w+)\b", s):
            nm = m.group(1)
            if nm in self.tracked or nm in self.config or nm in self.stats:
                continue
            raise ExtractionError("%s line %d: identifier %s is neither a tracked work member, a configuration member nor a statistics counter: %s"
                                  % (self.fname, line, nm, one_line(s)))

    def relevant(self, s):
        return bool(self.tracked_in(s)) or bool(self.callee_in(s)) or bool(re.search(r"(?<![\w.>])\w+\.solve\s*\(", s) and self.tracked_in(s))

    def what(self, desc, line):
        return '"%s  [%s:%d]"' % (desc.replace('"', "'").replace("\\", ""), self.src_rel, line)

    # ---- pure expressions (K4) -----------------------------------------
    def pure_c(self, e, line):
        """C text of a pure expression, or None when the expression is opaque."""
        e = e.strip()
        if not e:
            return None
        holes = []

        def size_sub(m):
            nm, meth = m.group(1), m.group(2)
            if nm not in self.tracked:
                return m.group(0)
            kind, ptr = self.tracked[nm]
            fld = "n" if kind == "TV" else ("nc" if meth == "ncol" else "nr")
            if kind == "TM" and meth in ("size", "nelt"):
                return m.group(0)
            w = self.what("%s.%s()" % (nm, meth), line)
            holes.append("SZ%s(%s, %s, %s)" % ("M" if kind == "TM" else "", ptr, fld, w) if kind == "TM" else "SZ(%s, %s)" % (ptr, w))
            if meth == "empty":
                holes[-1] = "(%s == 0)" % holes[-1]
            return " @%d@ " % (len(holes) - 1)
        t = re.sub(r"(?<![\w.>])([A-Za-z_]\w*)\s*\.\s*(size|nrow|ncol|nelt|empty)\s*\(\s*\)", size_sub, e)
        t = re.sub(r"\((?:int|unsigned)\)", " ", t)                                  # C-style casts of sizes
        t = re.sub(r"\b(?:ActiveIndex|MultiplierIndex|int|unsigned)\s*\(", "(", t)      # functional casts / index constructors
        if re.search(r"[^\w\s+\-*/%<>=!&|()@]", t):
            return None
        for m in re.finditer(r"[A-Za-z_]\w*", t):
            if m.group(0) in ("true", "false"):
                continue
            if m.group(0) not in self.pure:
                return None
        t = re.sub(r"\btrue\b", "1", t); t = re.sub(r"\bfalse\b", "0", t)
        t = re.sub(r"@(\d+)@", lambda m: holes[int(m.group(1))], t)
        return " ".join(t.split())

    # ---- reads of an expression (K3) -------------------------------------
    def idx_c(self, e, line, ghost, for_write=False):
        p = self.pure_c(e, line)
        if p is not None:
            return p
        return "nondet_int()" if for_write else ghost

    def access(self, s, pos):
        """s[pos:] starts with a tracked name: -> (end, name, shape, args)"""
        m = re.match(r"[A-Za-z_]\w*", s[pos:])
        nm = m.group(0)
        i = pos + len(nm)
        j = i
        while j < len(s) and s[j].isspace():
            j += 1
        if j < len(s) and s[j] == "[":
            k = match_brace(s, j)
            return k + 1, nm, "elem", [s[j + 1:k]]
        if j < len(s) and s[j] == "(":
            k = match_brace(s, j)
            return k + 1, nm, "call", [a.strip() for a in split_top(s[j + 1:k])]
        if j < len(s) and s[j] == "." :
            mm = re.match(r"\.\s*([A-Za-z_]\w*)\s*\(", s[j:])
            if not mm:
                raise ExtractionError("%s: member access on %s is not a method call: %s" % (self.fname, nm, one_line(s)))
            op = j + mm.end() - 1
            k = match_brace(s, op)
            args = [a.strip() for a in split_top(s[op + 1:k])] if s[op + 1:k].strip() else []
            return k + 1, nm, "method:" + mm.group(1), args
        return i, nm, "bare", []

    def enclosing_call(self, s, pos):
        """identifier in front of the innermost unmatched '(' or '[' that encloses pos ('' for plain grouping, None if not enclosed)"""
        dp = 0
        for k in range(pos - 1, -1, -1):
            ch = s[k]
            if ch in ")]":
                dp += 1
            elif ch in "([":
                if dp == 0:
                    m = re.search(r"([A-Za-z_][\w:.]*)\s*$", s[:k])
                    return (m.group(1) if m else "") + ch
                dp -= 1
        return None

    def reads(self, e, line, out, top=True):
        """append the model statements for all tracked READS (and calls of cut functions) inside expression e"""
        b = e
        i = 0
        while True:
            m = re.compile(r"(?<![\w.>:])([A-Za-z_]\w*)\b").search(b, i)
            if not m:
                return
            nm = m.group(1)
            if nm in self.callees and re.match(r"\s*\(", b[m.end():]):
                op = b.find("(", m.end())
                cp = match_brace(b, op)
                self.call(nm, [a.strip() for a in split_top(b[op + 1:cp])], line, out)
                i = cp + 1
                continue
            ms = re.match(r"([A-Za-z_]\w*)\s*\.\s*solve\s*\(", b[m.start():])
            if ms and nm not in self.tracked:
                op = m.start() + ms.end() - 1
                cp = match_brace(b, op)
                args = [a.strip() for a in split_top(b[op + 1:cp])]
                if len(args) != 2:
                    raise ExtractionError("%s line %d: X.solve() with %d arguments" % (self.fname, line, len(args)))
                self.factor_solve(nm, args, line, out)
                i = cp + 1
                continue
            if nm not in self.tracked:
                i = m.end()
                continue
            end, nm, shape, args = self.access(b, m.start())
            kind, ptr = self.tracked[nm]
            if shape == "elem":
                self.reads(args[0], line, out)
                if kind == "TV":
                    out.append("RD_ELEM(%s, %s, %s);" % (ptr, self.idx_c(args[0], line, "gj"), self.what("%s[%s]" % (nm, one_line(args[0], 40)), line)))
                else:
                    out.append("M_RD_ROW(%s, %s, %s);" % (ptr, self.idx_c(args[0], line, "gr"), self.what("%s[%s] (row)" % (nm, one_line(args[0], 40)), line)))
            elif shape == "call":
                if kind != "TM" or len(args) != 2:
                    raise ExtractionError("%s line %d: %s(...) is not a matrix element access: %s" % (self.fname, line, nm, one_line(e)))
                for a in args:
                    self.reads(a, line, out)
                out.append("M_RD_ELEM(%s, %s, %s, %s);" % (ptr, self.idx_c(args[0], line, "gr"), self.idx_c(args[1], line, "gc"),
                                                           self.what("%s(%s,%s)" % (nm, one_line(args[0], 30), one_line(args[1], 30)), line)))
            elif shape.startswith("method:"):
                meth = shape[7:]
                if meth in SIZE_METHODS or meth == "empty":
                    out.append("%s(%s, %s);" % ("RD_SIZE" if kind == "TV" else "M_RD_SIZE", ptr, self.what("%s.%s()" % (nm, meth), line)))
                elif meth in WHOLE_READ_METHODS:
                    out.append("%s(%s, %s);" % ("RD_WHOLE" if kind == "TV" else "M_RD_WHOLE", ptr, self.what("%s.%s()" % (nm, meth), line)))
                else:
                    raise ExtractionError("%s line %d: method %s.%s() inside an expression is not a known access shape: %s" % (self.fname, line, nm, meth, one_line(e)))
            else:   # bare name: whole-container operand; must not be an argument of an unknown function
                enc = self.enclosing_call(b, m.start())
                if enc not in (None, "(",):
                    raise ExtractionError("%s line %d: tracked container %s is passed to / indexed into '%s' which the slicer does not know: %s"
                                          % (self.fname, line, nm, enc[:-1], one_line(e)))
                out.append("%s(%s, %s);" % ("RD_WHOLE" if kind == "TV" else "M_RD_WHOLE", ptr, self.what("%s (whole operand)" % nm, line)))
            i = end

    def call(self, nm, args, line, out):
        modes = self.callees[nm]
        if len(args) != len(modes):
            raise ExtractionError("%s line %d: call of %s with %d arguments, table has %d" % (self.fname, line, nm, len(args), len(modes)))
        cargs, pre = [], []
        for a, md in zip(args, modes):
            if md == "-":
                if a in self.tracked:
                    raise ExtractionError("%s line %d: tracked container %s passed to untracked parameter of %s" % (self.fname, line, a, nm))
                self.reads(a, line, out)
            else:
                if a in self.tracked:
                    k, ptr = self.tracked[a]
                    if k != md:
                        raise ExtractionError("%s line %d: %s passed to %s parameter of %s" % (self.fname, line, a, md, nm))
                    cargs.append(ptr)
                elif re.fullmatch(r"[A-Za-z_]\w*", a) and not a.startswith("m_"):
                    self.ntmp += 1
                    t = "_loc%d" % self.ntmp
                    pre.append("struct %s %s; LOCAL_DEFINED_%s(&%s);   /* untracked local `%s`: always defined */" % (md, t, md, t, a))
                    cargs.append("&" + t)
                else:
                    raise ExtractionError("%s line %d: argument `%s` of %s is not a plain container name" % (self.fname, line, a, nm))
        out.extend(pre)
        for tgt, fields in CALLEE_WRITES[nm]:
            self.note(cargs[tgt] if isinstance(tgt, int) else "(&%s)" % tgt, fields)
        if self.mode == "plain":
            out.append("CALL_%s(%s%s);" % (CALLEE_SHORT[nm], "".join(c + ", " for c in cargs), self.what("call of " + nm, line)))
        else:
            out.append("%s(%s);" % (nm, ", ".join(cargs)))

    def factor_solve(self, obj, args, line, out):
        """FactorQTZ::solve(const Vector& b, Vector& x): whole read of b, whole (re)definition of x"""
        b, x = args
        if b in self.tracked:
            out.append("RD_WHOLE(%s, %s);" % (self.tracked[b][1], self.what("%s as right-hand side of %s.solve()" % (b, obj), line)))
        else:
            self.reads(b, line, out)
        if x in self.tracked:
            out.append("ASSIGN(%s, nondet_size());   /* x of %s.solve(b, x): resized and computed */" % (self.tracked[x][1], obj))
        elif self.tracked_in(x):
            raise ExtractionError("%s line %d: output argument `%s` of solve()" % (self.fname, line, x))

    # ---- statements -----------------------------------------------------
    def write_target(self, T, op, rhs, line, out_reads, out_writes):
        """T is one assignment target"""
        T = T.strip()
        ms = self.tracked_in(T)
        if not ms:
            self.reads(T, line, out_reads)       # (cannot contain tracked reads, but may contain cut-function calls)
            return
        if ms[0].start() != 0:
            self.reads(T, line, out_reads)       # tracked access only inside the index of an untracked target
            return
        end, nm, shape, args = self.access(T, 0)
        if T[end:].strip():
            raise ExtractionError("%s line %d: assignment target `%s` is not a known access shape" % (self.fname, line, one_line(T)))
        kind, ptr = self.tracked[nm]
        rmw = op != "="
        if shape == "elem":
            self.reads(args[0], line, out_reads)
            if kind == "TV":
                if rmw:
                    out_reads.append("RD_ELEM(%s, %s, %s);" % (ptr, self.idx_c(args[0], line, "gj"), self.what("%s[%s] %s" % (nm, one_line(args[0], 40), op), line)))
                out_writes.append("WR_ELEM(%s, %s);" % (ptr, self.idx_c(args[0], line, "gj", True)))
            else:
                if rmw:
                    out_reads.append("M_RD_ROW(%s, %s, %s);" % (ptr, self.idx_c(args[0], line, "gr"), self.what("%s[%s] (row) %s" % (nm, one_line(args[0], 40), op), line)))
                out_writes.append("M_WR_ROW(%s, %s);" % (ptr, self.idx_c(args[0], line, "gr", True)))
        elif shape == "call":
            if kind != "TM" or len(args) != 2:
                raise ExtractionError("%s line %d: `%s` is not a matrix element" % (self.fname, line, one_line(T)))
            for a in args:
                self.reads(a, line, out_reads)
            if rmw:
                out_reads.append("M_RD_ELEM(%s, %s, %s, %s);" % (ptr, self.idx_c(args[0], line, "gr"), self.idx_c(args[1], line, "gc"),
                                                                 self.what("%s(%s,%s) %s" % (nm, one_line(args[0], 30), one_line(args[1], 30), op), line)))
            out_writes.append("M_WR_ELEM(%s, %s, %s);" % (ptr, self.idx_c(args[0], line, "gr", True), self.idx_c(args[1], line, "gc", True)))
        elif shape == "bare":
            if rmw:
                out_reads.append("%s(%s, %s);" % ("RD_WHOLE" if kind == "TV" else "M_RD_WHOLE", ptr, self.what("%s %s ... (whole read-modify-write)" % (nm, op), line)))
            else:
                r = rhs.strip()
                if kind == "TV":
                    n = "%s->n" % self.tracked[r][1] if (r in self.tracked and self.tracked[r][0] == "TV") else "nondet_size()"
                    out_writes.append("ASSIGN(%s, %s);" % (ptr, n))
                else:
                    out_writes.append("M_ASSIGN(%s, nondet_size(), nondet_size());" % ptr)
        else:
            raise ExtractionError("%s line %d: assignment target `%s` is not a known access shape" % (self.fname, line, one_line(T)))

    def simple(self, s, line):
        """-> list of C statements (K3); [] when dropped"""
        s = s.strip()
        self.check_m_names(s, line)
        if re.match(r"(assert|SimTK_DEBUG\d?)\s*\(", s) and match_brace(s, s.find("(")) == len(s) - 1:
            self.dropped.append(dict(rule="K2 assert()/SimTK_DEBUG compiled out under NDEBUG", text="%d: %s" % (line, one_line(s))))
            return []
        ms = re.match(r"(\+\+|--)?\s*(m_\w+)\s*(\[[^\]]*\])?\s*(\+\+|--)?$", s)
        if ms and ms.group(2) in self.stats and (ms.group(1) or ms.group(4)):
            self.dropped.append(dict(rule="K3 statistics counter (history by design, not part of the result)", text="%d: %s" % (line, one_line(s))))
            return []
        for nm in self.stats:
            if re.search(r"(?<![\w.>])%s\b" % nm, s):
                raise ExtractionError("%s line %d: statistics counter %s used other than by ++/--: %s" % (self.fname, line, nm, one_line(s)))
        out = []
        is_decl = re.match(r"(const\s+)?((?:PLUSImpulseSolver::)?[A-Za-z_]\w*)\s+(?=[A-Za-z_])", s)
        is_decl = bool(is_decl and is_decl.group(2) in INT_TYPES + OTHER_DECL_TYPES)
        if not is_decl:
            # a kept integer (pure name) must never be modified, whether the statement is kept or dropped
            for nm in self.pure:
                if re.search(r"(?<![\w.>])%s\s*(=(?!=)|[-+*/%%|&^]=|\+\+|--)|(\+\+|--)\s*%s\b" % (nm, nm), s):
                    raise ExtractionError("%s line %d: kept integer `%s` is modified: %s" % (self.fname, line, nm, one_line(s)))
            # a declaration of another type that re-uses a pure name would change its meaning
            mdecl = re.match(r"(?:const\s+)?[\w:<>,\s]+?[&*\s]\s*([A-Za-z_]\w*)\s*(=(?!=)|\(|$)", s)
            if mdecl and mdecl.group(1) in self.pure and not re.match(r"(return|else|goto|delete|new|throw)\b", s):
                raise ExtractionError("%s line %d: local `%s` re-declares a kept integer with another type: %s" % (self.fname, line, mdecl.group(1), one_line(s)))
        # a reference / pointer bound to a whole tracked container would be an alias the slicer cannot follow
        mref = re.match(r"(?:const\s+)?[\w:<>,\s]+?[&*]\s*([A-Za-z_]\w*)\s*(?:=(?!=)|\()(.*)$", s, re.S)
        if mref:
            for mt in self.tracked_in(mref.group(2)):
                if self.access(mref.group(2), mt.start())[2] == "bare":
                    raise ExtractionError("%s line %d: reference/pointer `%s` is bound to the tracked container %s (alias not followed by the slicer): %s"
                                          % (self.fname, line, mref.group(1), mt.group(1), one_line(s)))
        m_always = re.match(r"SimTK_(ASSERT|ERRCHK)\d?_ALWAYS\s*\(", s)
        if m_always:
            self.reads(s[m_always.end() - 1:], line, out)
            out.append("if (nondet_bool()) return;   /* %s throws */" % m_always.group(0)[:-1].strip())
            self.kept.append(dict(line=line, text=one_line(s), model=" ".join(out)))
            return out
        # declarations
        md = re.match(r"(const\s+)?((?:PLUSImpulseSolver::)?[A-Za-z_]\w*)\s+(?=[A-Za-z_])", s)
        if md and md.group(2) in INT_TYPES + OTHER_DECL_TYPES and not re.match(r"(const\s+)?\w+\s+\w+\s*(\+\+|--|[-+*/]=)", s):
            typ, const = md.group(2), bool(md.group(1))
            decls = split_top(s[md.end():])
            keep_any = False
            for d in decls:
                d = d.strip()
                m1 = re.match(r"([A-Za-z_]\w*)\s*=\s*(.*)$", d, re.S)
                m2 = re.match(r"([A-Za-z_]\w*)\s*\((.*)\)$", d, re.S)
                m3 = re.match(r"([A-Za-z_]\w*)$", d)
                if m1:
                    nm, inits = m1.group(1), [m1.group(2)]
                elif m2:
                    nm, inits = m2.group(1), [a for a in split_top(m2.group(2))]
                elif m3:
                    nm, inits = m3.group(1), []
                else:
                    raise ExtractionError("%s line %d: declarator `%s` not understood" % (self.fname, line, one_line(d)))
                if nm in self.tracked:
                    raise ExtractionError("%s line %d: local `%s` shadows a tracked container" % (self.fname, line, nm))
                if typ in INT_TYPES and const:
                    p = self.pure_c(inits[0], line) if len(inits) == 1 else None
                    if p is None:
                        for it in inits:
                            self.reads(it, line, out)
                        p = "nondet_bool()" if typ == "bool" else "nondet_int()"
                    out.append("const int %s = %s;   /*aux*/" % (nm, p))
                    self.pure.add(nm)
                    keep_any = keep_any or self.relevant(d)
                else:
                    n0 = len(out)
                    for it in inits:
                        self.reads(it, line, out)
                    self.pure.discard(nm)       # a non-const or non-integer local of this name is opaque from here on
                    keep_any = keep_any or len(out) > n0
            if keep_any or self.relevant(s):
                self.kept.append(dict(line=line, text=one_line(s), model=" ".join(out)))
            else:
                self.dropped.append(dict(rule="K5 local declaration without tracked access", text="%d: %s" % (line, one_line(s))))
            return out
        if not self.relevant(s):
            self.dropped.append(dict(rule="K5 statement without access to a tracked container", text="%d: %s" % (line, one_line(s))))
            return []
        # mutators as whole statements
        mm = re.match(r"([A-Za-z_]\w*)\s*\.\s*(resize|setToZero|fill|eraseFast|setToNaN|clear)\s*\(", s)
        if mm and mm.group(1) in self.tracked and match_brace(s, mm.end() - 1) == len(s) - 1:
            nm, meth = mm.group(1), mm.group(2)
            kind, ptr = self.tracked[nm]
            argt = s[mm.end():-1]
            args = [a.strip() for a in split_top(argt)] if argt.strip() else []
            if meth == "resize":
                for a in args:
                    self.reads(a, line, out)
                cs = [self.pure_c(a, line) or "nondet_size()" for a in args]
                if kind == "TV" and len(args) == 1:
                    out.append("RESIZE(%s, %s);" % (ptr, cs[0]))
                elif kind == "TM" and len(args) == 2:
                    out.append("M_RESIZE(%s, %s, %s);" % (ptr, cs[0], cs[1]))
                else:
                    raise ExtractionError("%s line %d: resize with %d arguments on a %s" % (self.fname, line, len(args), kind))
            elif meth in ("setToZero", "setToNaN") and not args:
                out.append("%s(%s, %s);" % ("SET_ALL" if kind == "TV" else "M_SET_ALL", ptr, self.what("%s.%s() over the current size" % (nm, meth), line)))
            elif meth == "fill" and len(args) == 1 and kind == "TV":
                self.reads(args[0], line, out)
                out.append("SET_ALL(%s, %s);" % (ptr, self.what("%s.fill() over the current size" % nm, line)))
            elif meth == "eraseFast" and len(args) == 1 and kind == "TV":
                ma = re.match(r"%s\s*\.\s*begin\s*\(\s*\)\s*\+(.*)$" % re.escape(nm), args[0], re.S)
                if not ma:
                    raise ExtractionError("%s line %d: eraseFast argument is not %s.begin()+k" % (self.fname, line, nm))
                self.reads(ma.group(1), line, out)
                out.append("ERASE_FAST(%s, %s);" % (ptr, self.what("%s.eraseFast() (moves the last element, shrinks by one)" % nm, line)))
            else:
                raise ExtractionError("%s line %d: mutator %s.%s(%s) not modelled" % (self.fname, line, nm, meth, one_line(argt, 40)))
            self.kept.append(dict(line=line, text=one_line(s), model=" ".join(out)))
            return out
        ops = find_assign_ops(s)
        if ops:
            if len(ops) > 1 and any(o != "=" for _, o in ops):
                raise ExtractionError("%s line %d: chained compound assignment: %s" % (self.fname, line, one_line(s)))
            pieces, last = [], 0
            for pos, o in ops:
                pieces.append(s[last:pos]); last = pos + len(o)
            rhs = s[last:]
            wr = []
            self.reads(rhs, line, out)
            for T in pieces:
                self.write_target(T, ops[0][1], rhs, line, out, wr)
            out += wr
        else:
            self.reads(s, line, out)
        if not out:
            raise ExtractionError("%s line %d: statement mentions a tracked container but no access was recognised: %s" % (self.fname, line, one_line(s)))
        self.kept.append(dict(line=line, text=one_line(s), model=" ".join(out)))
        return out

    # ---- tree -------------------------------------------------------------
    def has_return(self, n):
        if n is None:
            return False
        if n.kind == "jump":
            return n.jk == "return"
        if n.kind == "block":
            return any(self.has_return(c) for c in n.body)
        if n.kind == "if":
            return self.has_return(n.then) or self.has_return(n.els)
        if n.kind in ("for", "while"):
            return self.has_return(n.body)
        return False

    def emit(self, n, in_loop):
        """-> (list of C lines, has_effect)   has_effect: something kept, or a jump that leaves this subtree"""
        if n is None:
            return [], False
        if n.kind == "block":
            saved = set(self.pure)
            lines, eff = [], False
            for c in n.body:
                l, e = self.emit(c, in_loop)
                lines += l; eff = eff or e
            self.pure = saved | (self.pure & saved)     # names declared in the block leave scope
            self.pure = saved
            return (["{"] + ["  " + x for x in lines] + ["}"]) if eff else [], eff
        if n.kind == "simple":
            l = self.simple(n.text, n.line)
            self.note_lines(l)
            return l, any(not x.endswith("/*aux*/") for x in l)
        if n.kind == "jump":
            if n.jk == "return":
                pre = []
                if n.expr:
                    self.check_m_names(n.expr, n.line)
                    if self.relevant(n.expr):
                        self.reads(n.expr, n.line, pre)
                return pre + ["return;"], True
            if not in_loop:
                raise ExtractionError("%s line %d: %s outside a loop" % (self.fname, n.line, n.jk))
            if self.mode == "plain":
                return ["goto %s_%s;" % (self.lstack[-1], "exit" if n.jk == "break" else "cont")], True
            return [n.jk + ";"], True
        if n.kind == "if":
            self.check_m_names(n.cond, n.line)
            pre = []
            c = self.pure_c(n.cond, n.line)
            if c is None:
                if self.relevant(n.cond):
                    self.reads(n.cond, n.line, pre)
                c = "nondet_bool()"
            saved = set(self.pure)
            tl, te = self.emit(n.then, in_loop)
            self.pure = set(saved)
            el, ee = self.emit(n.els, in_loop)
            self.pure = saved
            if not (te or ee or pre):
                self.dropped.append(dict(rule="K5 if/else keeping nothing", text="%d: if (%s) ..." % (n.line, one_line(n.cond, 80))))
                return [], False
            if not (te or ee):
                self.kept.append(dict(line=n.line, text="if (%s) <nothing kept>" % one_line(n.cond, 80), model=" ".join(pre)))
                return pre, True
            self.kept.append(dict(line=n.line, text="if (%s)" % one_line(n.cond, 80), model=" ".join(pre) + " if (%s)" % c))
            out = pre + ["if (%s) {" % c] + ["  " + x for x in tl] + ["}"]
            if ee:
                out += ["else {"] + ["  " + x for x in el] + ["}"]
            return out, True
        if n.kind in ("for", "while"):
            saved = set(self.pure)
            init_c, cond_c, incr_c, counter = "", "1", "", None
            if n.kind == "for":
                self.check_m_names(n.init + " " + n.cond + " " + n.incr, n.line)
                if n.init:
                    mi = re.match(r"((?:PLUSImpulseSolver::)?[A-Za-z_]\w*)\s+([A-Za-z_]\w*)\s*(?:=\s*(.*)|\((.*)\))$", n.init, re.S)
                    if mi and mi.group(1) in INT_TYPES:
                        counter = mi.group(2)
                        ie = mi.group(3) if mi.group(3) is not None else mi.group(4)
                        if self.tracked_in(ie) and self.pure_c(ie, n.line) is None:
                            raise ExtractionError("%s line %d: loop initialiser reads a tracked container in an opaque expression" % (self.fname, n.line))
                        init_c = "int %s = %s" % (counter, self.pure_c(ie, n.line) or "nondet_int()")
                        self.pure.add(counter)
                    elif self.relevant(n.init):
                        raise ExtractionError("%s line %d: for-initialiser `%s` touches a tracked container" % (self.fname, n.line, one_line(n.init)))
                if n.incr:
                    mc = re.match(r"(?:\+\+\s*(\w+)|(\w+)\s*\+\+)$", n.incr)
                    if mc and (mc.group(1) or mc.group(2)) == counter:
                        incr_c = "++" + counter
                    elif self.relevant(n.incr) or (counter and re.search(r"\b%s\b" % counter, n.incr)):
                        raise ExtractionError("%s line %d: for-increment `%s` not understood" % (self.fname, n.line, one_line(n.incr)))
                    else:
                        self.dropped.append(dict(rule="K5 loop increment of an opaque local", text="%d: %s" % (n.line, one_line(n.incr))))
            else:
                self.check_m_names(n.cond, n.line)
            if n.cond:
                c = self.pure_c(n.cond, n.line)
                if c is None:
                    if self.relevant(n.cond):
                        raise ExtractionError("%s line %d: loop condition reads a tracked container in an opaque expression: %s" % (self.fname, n.line, one_line(n.cond)))
                    c = "nondet_bool()"
                cond_c = c
            if counter:
                self.counters.append(counter)
            self.nloops += 1
            my = self.nloops
            self.loop_heads.append("%d: %s (%s)" % (n.line, n.kind, n.head))
            self.wstack.append(set())
            self.lstack.append("L%s_%d" % (self.short, my))
            bl, be = self.emit(n.body, True)
            wset = self.wstack.pop()
            self.lstack.pop()
            if counter:
                # the counter must only be changed by the header
                self.counters.pop()
            self.pure = saved
            keeps = [x for x in bl if x.strip() not in ("{", "}", "break;", "continue;") and not x.endswith("/*aux*/") and not re.match(r"\s*goto L\w+;$", x)]
            if not keeps and not self.has_return(n.body):
                self.dropped.append(dict(rule="K5 loop keeping nothing", text="%d: %s (%s)" % (n.line, n.kind, n.head)))
                if self.nloops != my:
                    raise ExtractionError("%s: internal: dropped loop with kept inner loop" % self.fname)
                self.nloops -= 1
                self.loop_heads.pop()
                return [], False
            tag = "LOOPC_%s_%d" % (self.short, my)
            head = "for (%s; %s; %s)" % (init_c, cond_c, incr_c) if n.kind == "for" else "while (%s)" % cond_c
            self.kept.append(dict(line=n.line, text="%s (%s)" % (n.kind, n.head), model=head + " " + tag))
            if not (bl and bl[0] == "{"):
                bl = ["{"] + ["  " + x for x in bl] + ["}"]
            if self.mode == "plain":
                # K6': textual loop-contract transformation (base / havoc of the COMPUTED write set / assume / body / step / cut)
                L = "L%s_%d" % (self.short, my)
                inv = "INV_%s_%d" % (self.short, my)
                hv = []
                if counter:
                    hv.append("%s = nondet_int();" % counter)
                for w in sorted(wset):
                    hv.append("%s = %s;" % (w, "nondet_bool()" if w.endswith("def") else "nondet_int()"))
                wh = "loop %d of %s: %s (%s)  [%s:%d]" % (my, self.fname.split("::")[-1], n.kind, n.head.replace('"', "'"), self.src_rel, n.line)
                self.kept[-1]["model"] = "induction form, computed havoc set {%s}, invariant %s" % (", ".join(([counter] if counter else []) + sorted(wset)), inv)
                return (["{", "  %s;" % init_c if init_c else "  ;",
                         '  OBLIGATION(%s, "loop invariant BASE (holds on entry): %s");' % (inv, wh),
                         "  " + " ".join(hv),
                         "  __CPROVER_assume(%s);" % inv,
                         "  if (%s) {" % cond_c] + ["    " + x for x in bl] +
                        ["    %s_cont: ;" % L, "    %s;" % incr_c if incr_c else "    ;",
                         '    OBLIGATION(%s, "loop invariant STEP (preserved by the body): %s");' % (inv, wh),
                         "    __CPROVER_assume(0);", "  }", "  %s_exit: ;" % L, "}"]), True
            return [head, tag] + bl, True
        raise ExtractionError("%s: node kind %s" % (self.fname, n.kind))

    def check_counters(self, text):
        pass


# ----------------------------------------------------------------------
# tables
# ----------------------------------------------------------------------
# cut functions: name -> parameter modes ('-' untracked, 'TV'/'TM' tracked container passed by reference)
CALLEES = {
    "multRowTimesActiveCol": ["-", "-", "TV", "TV"],
    "addInActiveCol": ["TV", "TV", "TV"],
    "fillMult2Active": ["TV", "TV"],
    "classifyFrictionals": ["-"],
    "initializeNewton": ["-", "-", "-", "-"],
    "updateDirectionsAndCalcCurrentError": ["-", "-", "-", "-", "TV", "TV"],
    "updateJacobianForSliding": ["-", "-", "-", "-"],
}

CALLEE_SHORT = {"multRowTimesActiveCol": "mrtac", "addInActiveCol": "aiac", "fillMult2Active": "fm2a", "classifyFrictionals": "cf",
                "initializeNewton": "in", "updateDirectionsAndCalcCurrentError": "ud", "updateJacobianForSliding": "uj"}
ALLF, ALLM = ("n", "sdef", "edef"), ("nr", "nc", "sdef", "edef")
# frame of each cut function as used by the COMPUTED loop havoc sets of the plain-mode unit: (argument position | member, fields);
# it repeats the `assigns` clause of the function's enforced contract in specs/C44plus/plus_contracts.h (checked there by dfcc)
CALLEE_WRITES = {
    "multRowTimesActiveCol": [], "classifyFrictionals": [],
    "addInActiveCol": [(2, ("edef",))], "fillMult2Active": [(1, ("edef",))],
    "initializeNewton": [("m_JacActive", ALLM), ("m_rhsActive", ALLF), ("m_piActive", ALLF), ("m_errActive", ALLF)],
    "updateDirectionsAndCalcCurrentError": [(1, ALLF)],
    "updateJacobianForSliding": [("m_JacActive", ("edef",))],
}

# (short name, real name, anchor, C signature, aliases {param: kind}, expected number of kept loops on the pinned tree)
def functions():
    A = r"const Array_<MultiplierIndex,PLUSImpulseSolver::ActiveIndex>&\s*active"
    return [
        ("mrtac", "multRowTimesActiveCol", r"static Real multRowTimesActiveCol\(const Matrix& A, MultiplierIndex row,\s*%s,\s*const Vector& colActive\)\s*" % A,
         "void multRowTimesActiveCol(struct TV* active, struct TV* colActive)", {"active": "TV", "colActive": "TV"}, 1),
        ("aiac", "addInActiveCol", r"static void addInActiveCol\s*\(%s,\s*const Vector& colActive,\s*Vector& colFull\)\s*" % A,
         "void addInActiveCol(struct TV* active, struct TV* colActive, struct TV* colFull)", {"active": "TV", "colActive": "TV", "colFull": "TV"}, 1),
        ("fm2a", "PLUSImpulseSolver::fillMult2Active", r"void PLUSImpulseSolver::\s*fillMult2Active\(const Array_<MultiplierIndex,ActiveIndex>& active,\s*Array_<ActiveIndex,MultiplierIndex>& mult2active\) const\s*",
         "void fillMult2Active(struct TV* active, struct TV* mult2active)", {"active": "TV", "mult2active": "TV"}, 1),
        ("cf", "PLUSImpulseSolver::classifyFrictionals", r"void PLUSImpulseSolver::\s*classifyFrictionals\(Array_<UniContactRT>& uniContact\) const\s*",
         "void classifyFrictionals(void)", {}, 2),
        ("in", "PLUSImpulseSolver::initializeNewton", r"void PLUSImpulseSolver::\s*initializeNewton\(const Matrix&\s*A,\s*const Vector&\s*pi,\s*const Vector&\s*verrApplied,\s*const Array_<UniContactRT>&\s*uniContact\) const\s*",
         "void initializeNewton(void)", {}, 3),
        ("ud", "PLUSImpulseSolver::updateDirectionsAndCalcCurrentError",
         r"void PLUSImpulseSolver::\s*updateDirectionsAndCalcCurrentError\s*\(const Matrix& A,\s*Array_<UniContactRT>& uniContact,\s*const Vector& piELeft, const Vector& verrAppliedLeft,\s*const Vector& piActive,\s*Vector& errActive\) const\s*",
         "void updateDirectionsAndCalcCurrentError(struct TV* piActive, struct TV* errActive)", {"piActive": "TV", "errActive": "TV"}, 2),
        ("uj", "PLUSImpulseSolver::updateJacobianForSliding",
         r"void PLUSImpulseSolver::\s*updateJacobianForSliding\(const Matrix& A,\s*const Array_<UniContactRT>& uniContact,\s*const Vector& piELeft,\s*const Vector& verrAppliedLeft\) const\s*",
         "void updateJacobianForSliding(void)", {}, 3),
        ("solve", "PLUSImpulseSolver::solve", r"bool PLUSImpulseSolver::\s*solve\(int\s+phase,", "void solve(void)", {}, 14, "plain"),
        ("sb", "PLUSImpulseSolver::solveBilateral", r"bool PLUSImpulseSolver::\s*solveBilateral\s*\(", "void solveBilateral(void)", {}, 3),
    ]


def read_members(ctx):
    """tracked work members = `mutable` Vector/Matrix/Array_ data members of PLUSImpulseSolver; configuration members = the other
    m_ data members of PLUSImpulseSolver / ImpulseSolver; statistics counters = `mutable long long` members of ImpulseSolver."""
    c = cut_region(PLUS_H, r"class SimTK_SIMBODY_EXPORT PLUSImpulseSolver", r"\}\s*;\s*\}\s*//\s*namespace|\}\s*;\s*\n\s*\}", "PLUSImpulseSolver (class)")
    body = strip_comments(c.body)
    tracked = {}
    for m in re.finditer(r"\bmutable\s+(Vector|Matrix|Array_\s*<[^;]*>)\s+(m_\w+)\s*;", body):
        tracked[m.group(2)] = ("TM" if m.group(1) == "Matrix" else "TV", "(&%s)" % m.group(2))
    other_mut = [m.group(1) for m in re.finditer(r"\bmutable\s+[^;]*?\b(m_\w+)\s*(?:\[[^\]]*\])?\s*;", body) if m.group(1) not in tracked]
    if other_mut:
        raise ExtractionError("PLUSImpulseSolver.h: mutable members of a type the model does not know: %s" % other_mut)
    config = set(m.group(1) for m in re.finditer(r"^\s*(?:Real|int|bool)\s+(m_\w+)\s*;", body, re.M))
    ctx.add_function(PLUS_H, "PLUSImpulseSolver (data members)", c.start, c.end, c.text, "M2 (member table read from the class)", [],
                     [dict(rule="tracked work members (mutable Vector/Matrix/Array_)", pattern="mutable T m_x;", hits=len(tracked), examples=sorted(tracked)),
                      dict(rule="configuration members (read only in const methods)", pattern="Real|int m_x;", hits=len(config), examples=sorted(config))])
    c2 = cut_region(IMP_H, r"protected:\s*\n\s*Real m_maxRollingTangVel", r"\}\s*;", "ImpulseSolver (protected data members)")
    b2 = strip_comments(c2.body)
    config |= set(m.group(1) for m in re.finditer(r"^\s*(?:Real|int|bool)\s+(m_\w+)\s*;", b2, re.M))
    stats = set(m.group(1) for m in re.finditer(r"\bmutable\s+long long\s+(m_n\w+)\s*(?:\[[^\]]*\])?\s*;", b2))
    rest = [m.group(1) for m in re.finditer(r"\bmutable\s+[^;]*?\b(m_\w+)\s*(?:\[[^\]]*\])?\s*;", b2) if m.group(1) not in stats]
    if rest:
        raise ExtractionError("ImpulseSolver.h: mutable members other than the long long statistics counters: %s" % rest)
    ctx.add_function(IMP_H, "ImpulseSolver (protected data members)", c2.start, c2.end, c2.text, "M2 (member table read from the class)", [],
                     [dict(rule="statistics counters (mutable long long; history by design, excluded from the property)", pattern="mutable long long m_nX", hits=len(stats), examples=sorted(stats))])
    return tracked, config, stats


def build_unit(ctx):
    tracked, config, stats = read_members(ctx)
    parts = ['#include "%s/plus_model.h"' % SPEC]
    parts.append("/* tracked work members (read from PLUSImpulseSolver.h) */")
    for nm, (k, _) in sorted(tracked.items()):
        parts.append("struct %s %s;" % (k, nm))
    parts.append("#define FOR_ALL_TV(X) " + " ".join("X(%s)" % nm for nm, (k, _) in sorted(tracked.items()) if k == "TV"))
    parts.append("#define FOR_ALL_TM(X) " + " ".join("X(%s)" % nm for nm, (k, _) in sorted(tracked.items()) if k == "TM"))
    parts.append('#include "%s/plus_contracts.h"' % SPEC)
    info = {}
    src_rel = os.path.relpath(PLUS_CPP, REPO)
    for ent in functions():
        short, name, anchor, sig, aliases, nloops = ent[:6]
        mode = ent[6] if len(ent) > 6 else "dfcc"
        c = cut_function(PLUS_CPP, anchor, name, expect_total=1)
        body = strip_comments(c.body)
        head_lines = c.header.count("\n")
        dropped = []
        body = preprocess(body, name, dropped)
        P = Parser(body, c.start + head_lines, name)
        tree = P.block(0, len(body))
        S = Slicer(name, short, tracked, aliases, config, stats, CALLEES, os.path.basename(src_rel), mode)
        S.dropped = dropped
        lines = []
        for n in tree:
            l, e = S.emit(n, False)
            lines += l
        log = [dict(rule="K3 kept statement -> access sequence", pattern=k["text"], replacement=k["model"], hits=1, examples=["line %d" % k["line"]]) for k in S.kept]
        log.append(dict(rule="K6 kept loops (loop contracts LOOPC_%s_<k>)" % short, pattern="for/while", hits=S.nloops, examples=S.loop_heads))
        if S.nloops != nloops:
            # the loop contracts are attached by ordinal: a different loop structure cannot be matched with the contracts of the spec
            raise ExtractionError("%s: %d loops kept by the slicer, the loop contracts of specs/C44plus are written for %d (loop structure changed): %s"
                                  % (name, S.nloops, nloops, S.loop_heads))
        ctx.add_function(PLUS_CPP, name, c.start, c.end, c.text, "M2 (statement-level slice to the container model, rules K1-K6%s)" % ("; loops in textual induction form with computed havoc sets" if mode == "plain" else ""), S.dropped, log)
        info[short] = dict(kept=len(S.kept), dropped=len(S.dropped), loops=S.nloops)
        contract = "CONTRACT_%s" % short if mode == "dfcc" else "/* plain unit: precondition CONTRACT_%s_PRE assumed by the harness, loops in induction form, callees by contract model CALL_x */" % short
        parts.append("/* %s  (%s:%d-%d): %d statements kept, %d dropped */\n%s\n%s\n{\n%s\n}\n"
                     % (name, src_rel, c.start, c.end, len(S.kept), len(S.dropped), sig, contract, "\n".join("  " + x for x in lines)))
    # every OTHER member function defined in the file (calcSlidingStepLength*: called from dropped statements) must be free of
    # tracked members, otherwise dropping its call would drop a member access
    cutnames = set(e[1].split("::")[-1] for e in functions())
    src_blank = blank_comments(open(PLUS_CPP).read())
    others = {}
    for mo in re.finditer(r"\bPLUSImpulseSolver::\s*(~?\w+)\s*\(", src_blank):
        if mo.group(1) not in cutnames:
            others[mo.group(1)] = others.get(mo.group(1), 0) + 1
    for nm, cnt in sorted(others.items()):
        for occ in range(1, cnt + 1):
            try:
                c = cut_function(PLUS_CPP, r"\bPLUSImpulseSolver::\s*%s\s*\([^;{]*\)\s*(?:const\s*)?" % re.escape(nm), "PLUSImpulseSolver::%s #%d" % (nm, occ), occurrence=occ)
            except ExtractionError:
                break
            body = strip_comments(c.body)
            hit = [t for t in tracked if re.search(r"(?<![\w.>])%s\b" % t, body)] + (["this"] if re.search(r"\bthis\b", body) else [])
            if hit:
                raise ExtractionError("PLUSImpulseSolver::%s (lines %d-%d) touches %s but is not one of the sliced functions" % (nm, c.start, c.end, hit))
            ctx.add_function(PLUS_CPP, c.name, c.start, c.end, c.text, "M2 (checked: no access to a tracked member, so calls of it may be dropped by K5)", [],
                             [dict(rule="member-free helper", pattern="|".join(sorted(tracked)), hits=0)])
    parts.append('#include "%s/plus_harness.h"' % SPEC)
    path = os.path.join(ctx.out, "plus_unit.c")
    open(path, "w").write("\n".join(parts))
    ctx.extra["plus_slice"] = info
    return path, tracked


# ----------------------------------------------------------------------
# units
# ----------------------------------------------------------------------
ARGS = ["--bounds-check", "--pointer-check", "--no-signed-overflow-check", "--object-bits", "12"]
UTIL = ["multRowTimesActiveCol", "addInActiveCol"]
HELPERS = UTIL + ["fillMult2Active", "classifyFrictionals", "initializeNewton", "updateDirectionsAndCalcCurrentError", "updateJacobianForSliding"]
CEX_VARS = ("gj", "gr", "gc", "m", "p", "nx", "na", "hasAppliedImpulse", "m_verrLeft", "m_verrExpand", "m_active", "m_mult2active",
            "m_JacActive", "m_rhsActive", "m_piActive", "m_errActive", "m_bilateralActive")


def units():
    """(unit, harness, enforced function, contracts used for callees, required property regexes, min obligations, real function)"""
    return [
        ("plus.multRowTimesActiveCol", "h_mrtac", "multRowTimesActiveCol", [], [r"multRowTimesActiveCol\.assertion", r"loop_invariant_step"], 8, "multRowTimesActiveCol"),
        ("plus.addInActiveCol", "h_aiac", "addInActiveCol", [], [r"addInActiveCol\.assertion", r"postcondition", r"loop_invariant_step"], 8, "addInActiveCol"),
        ("plus.fillMult2Active", "h_fm2a", "fillMult2Active", [], [r"fillMult2Active\.assertion", r"postcondition", r"loop_invariant_step"], 8, "PLUSImpulseSolver::fillMult2Active"),
        ("plus.classifyFrictionals", "h_cf", "classifyFrictionals", [], [r"classifyFrictionals\.assertion\.2", r"loop_invariant_step"], 6, "PLUSImpulseSolver::classifyFrictionals"),
        ("plus.initializeNewton", "h_in", "initializeNewton", [], [r"initializeNewton\.assertion\.7", r"postcondition", r"loop_invariant_step\.3"], 20, "PLUSImpulseSolver::initializeNewton"),
        ("plus.updateDirectionsAndCalcCurrentError", "h_ud", "updateDirectionsAndCalcCurrentError", UTIL,
         [r"updateDirectionsAndCalcCurrentError\.assertion\.12", r"postcondition", r"multRowTimesActiveCol\.precondition", r"loop_invariant_step\.2"], 25, "PLUSImpulseSolver::updateDirectionsAndCalcCurrentError"),
        ("plus.updateJacobianForSliding", "h_uj", "updateJacobianForSliding", [], [r"updateJacobianForSliding\.assertion\.20", r"postcondition", r"loop_invariant_step\.3"], 30, "PLUSImpulseSolver::updateJacobianForSliding"),
        ("plus.solve", "h_solve", None, [], [r"^solve\.assertion\.1$", r"^solve\.assertion\.90$"], 95, "PLUSImpulseSolver::solve"),
        ("plus.solveBilateral", "h_sb", "solveBilateral", [], [r"solveBilateral\.assertion\.5", r"loop_invariant_step\.3"], 15, "PLUSImpulseSolver::solveBilateral"),
    ]


def run(ctx, workers=4):
    try:
        unit_c, tracked = build_unit(ctx)
    except ExtractionError as e:
        ctx.undecide("extraction (PLUS definite initialisation): %s" % e)
        return None
    jobs = []
    U = units()
    order = ["plus.solve", "plus.updateJacobianForSliding", "plus.initializeNewton", "plus.updateDirectionsAndCalcCurrentError"]
    U.sort(key=lambda u: order.index(u[0]) if u[0] in order else len(order))
    for name, h, enf, repl, req, minob, fn in U:
        jobs.append(lambda name=name, h=h, enf=enf, repl=repl, req=req, minob=minob, fn=fn:
                    cbmc_unit(ctx, name, [unit_c], h, enforce=enf, replace=list(repl), loop_contracts=enf is not None, no_dfcc=enf is None,
                              cbmc_args=ARGS + ([] if enf else ["--unwinding-assertions", "--unwind", "1"]),
                              require_props=req, min_obligations=minob, function=fn, timeout=300, cex_vars=CEX_VARS))
    jobs.append(lambda: cover_unit(ctx, "plus.cover", [unit_c], "h_cover", cc_args=["-DCOVER"], cbmc_args=["--unwind", "3"], expect_min=100,
                                   function="PLUSImpulseSolver::solve/solveBilateral + helpers (every read of a tracked member is reached with the ghost element in range and defined)"))
    t0 = time.time()
    parallel(jobs, workers=workers)
    ctx.extra["plus_part"] = dict(units=len(jobs), wall_s=round(time.time() - t0, 1), workers=workers, tracked_members=sorted(tracked))
    ctx.trust("statement-level slicer of checks/part_c44_plus.py (rules K1-K6 in its header; every kept statement with its access sequence and every dropped statement "
              "is listed per function in extraction_report.json)")
    ctx.assume("PLUS definite-initialisation units: container model specs/C44plus/plus_model.h (size / size-defined / ghost-element-defined per tracked member; "
               "SimTK resize() defines nothing, setToZero/fill/assignment/FactorQTZ::solve output define everything, element stores define that element)")
    ctx.assume("PLUS units: element accesses are in range (an opaque index such as m_mult2active[mx] is taken to be the ghost index, restricted to the current size); "
               "bounds themselves are not decided here")
    ctx.assume("PLUS units: release configuration (NDEBUG): `#ifndef NDEBUG` blocks, assert() and SimTK_DEBUG are compiled out; conditions over values the slice does not "
               "follow are nondeterministic (superset of the real paths); reference parameters `active`, `mult2active`, `piActive`, `errActive`, `colActive`, `colFull` are "
               "pairwise distinct objects (they are bound to different members or locals at every call site)")
    ctx.assume("PLUS units: FactorQTZ::solve(b, x) reads b completely and resizes + defines x completely; FactorQTZ(M) reads M completely (SimTKmath, not cut); "
               "local Vectors of solve() (piELeft, piTotal, piGuess, piSave, dpi) are always defined and not part of the property")
    ctx.assume("PLUS units: the statistics counters m_nSolves/m_nIters/m_nFail/m_nBilateral* (mutable long long of ImpulseSolver) are history by design and excluded")
    ctx.not_decided += ["PLUS solver: numerical content of the result (active-set logic, Newton convergence, [A+D]pi=rhs, cone conditions) - only history independence "
                        "(definite initialisation of all mutable work members: %s) is decided" % ", ".join(sorted(tracked)),
                        "PLUS solver: index-in-range of element accesses into the work members; value-level staleness inside locals derived from members "
                        "(a local copied from a defined member is defined); solve() leaving through an exception (SimTK_ASSERT_ALWAYS) is modelled as a plain return"]
    return lambda ob: replay(ctx, ob)


# ----------------------------------------------------------------------
_exe = {}


def replay(ctx, ob):
    """History test on the real code: fresh solver object vs used solver object, bit-for-bit comparison of all outputs."""
    if not ob.unit.startswith("plus."):
        return {}, None
    if "exe" not in _exe:
        srcs = [PLUS_CPP] + ([IMP_CPP] if os.path.exists(IMP_CPP) else [])
        _exe["exe"] = native_build(ctx, "c44_plus_replay", os.path.join(VERIF, "replay/c44_plus_replay.cpp"), libs=True,
                                   extra_srcs=srcs, defines=["NDEBUG"], extra_inc=[os.path.join(REPO, "Simbody/src")])
    mode = "bilateral" if ob.unit == "plus.solveBilateral" else "solve"
    tries = []
    for seed in (ctx.seed, 777):
        rc, o, e, t = vlib.run([_exe["exe"], mode, str(seed)], 120)
        lines = [l for l in o.splitlines() if l.startswith(("MISMATCH", "REPRODUCED", "NOT-REPRODUCED", "exception"))]
        tries.append(dict(cmd="c44_plus_replay %s %d (real PLUSImpulseSolver: fresh object vs used object, outputs compared bit for bit)" % (mode, seed),
                          output="\n".join(l[:400] for l in lines[:8])))
        if re.search(r"^REPRODUCED:", o, re.M):
            return dict(tries=tries, witness_class="history-dependent-result"), True
    return dict(tries=tries), False
