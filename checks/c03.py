"""C03 (PARTIAL, per-mobilizer kernel) - velocity kinematics is the time derivative of position kinematics.
Back end B (route M3): the across-mobilizer members of every built-in node class are transliterated from the
current tree (mobilizerlib) and executed on symbolic reals and dual numbers."""
import os, re, json, math, fractions, z3
from vlib import *
from extract import *
import symlib as S
from symlib import *
import mobilizerlib as M

PID = "C03"
META = dict(
    category="other",
    text=("PARTIAL, per-mobilizer kernel of C03. For Pin, Slider, Screw, Cylinder, Universal, BendStretch, Planar, Translation, Gimbal, Bushing, "
          "SphericalCoords (4 axis/sign conventions, symbolic offsets), Ball, Free, Ellipsoid (quaternion and Euler option) the real performQPrecalculations, "
          "calcX_FM, calcAcrossJointVelocityJacobian[Dot], calcQDot/calcQDotDot, multiplyByN/NInv/NDot (and the RigidBodyNodeSpec defaults, findX_F0M0/"
          "findV_F0M0, the specific and the generic calcReverseMobilizerH[Dot]_FM) are transliterated each run and executed on dual numbers: for ALL q, u, udot "
          "(away from cos(q1)=0 / |quat|=0) the across-joint velocity V_FM = H_FM(q) u is the exact time derivative of X_FM(q(t)) along qdot = N(q) u "
          "(d/dt R_FM = [w]x R_FM, d/dt p_FM = v), HDot_FM = d/dt H_FM, qdotdot = d/dt qdot = N udot + NDot u, NInv N = 1, the transposed multiplications are "
          "adjoint; forward and reversed mobilizers. Proved over the reals (z3 QF_NRA). NOT decided: the recursion over the multibody tree (body velocities "
          "V_GB, station Jacobians, across-tree composition calcJointIndependentKinematicsPos/Vel), frames X_PF/X_BM, LineOrientation/FreeLine/"
          "CantileverFreeBeam/Custom mobilizers, the H formulas of FunctionBased mobilizers, float rounding. ADDED (back end A, CBMC, loop-free full-domain harnesses on "
          "the nine cut member functions of MobilizedBody::FunctionBasedImpl, MobilizedBodyImpl.h): the hand-managed lazy H / HDot cache of FunctionBased mobilizers -- "
          "for nu = 1..6 and every history of one State, realizeTopology/realizePosition/realizeVelocity/updateH/updateHdot/multiplyByH[Dot]Matrix/Transpose keep the "
          "invariant 'a valid H was built from the current q, a valid HDot from the current q and u', so the H used for V_FM = H u at stage >= Position is the one of "
          "the configuration at hand (values abstracted to version tags; buildH/buildHdot abstract)."),
    note=("Assumes real arithmetic; trusts z3/cvc5, the transliterator + plumbing rule table (logged per function), the symlib Vec/Mat shim and the Node/Transform/HType "
          "plumbing shim of checks/mobilizerlib.py (state-cache accessors hand back what the realize sequence stored); for the FunctionBased cache unit the State/Value cache access, "
          "getQ/getU/getMobilizerTransform and Custom's realize sequence are assumed contracts (listed in the evidence). Level 'other': a per-node kernel, the tree induction is not machine checked."),
    technique="symbolic execution of transliterated real code over the reals + SMT (z3 QF_NRA), dual numbers for d/dt, abstract reversal lemma; CBMC 6.11 (SAT) full-domain harnesses with a class invariant on the cut FunctionBasedImpl cache functions",
    design_ref="5 C03 (partial kernel added)")

SCENARIOS = [("Pin", None), ("Slider", None), ("Screw", None), ("Cylinder", None), ("Universal", None), ("BendStretch", None), ("Planar", None),
             ("Translation", None), ("Gimbal", None), ("Bushing", None),
             ("SphericalCoords", "Mz+++"), ("SphericalCoords", "Mx+-+"), ("SphericalCoords", "Mz-+-"), ("SphericalCoords", "Mx--+"),
             ("Ball", "euler"), ("Ball", "quat"), ("Free", "euler"), ("Free", "quat"), ("Ellipsoid", "euler"), ("Ellipsoid", "quat")]
# reversed mobilizers proved directly in the quick tier (the others are covered by the abstract reversal lemma)
REV_DIRECT = {"Pin", "Slider", "Screw", "Cylinder", "Translation", "Universal", "BendStretch", "Planar", "Gimbal", "Ball:euler"}
# additionally direct in the thorough tier (4-9 min each at 120 s budgets). Free:euler and Ellipsoid:* reversed do not discharge directly within the
# budget (each HDot goal runs into it) and rest on the abstract reversal lemma in both tiers.
REV_DIRECT_THOROUGH = REV_DIRECT | {"Bushing", "SphericalCoords:Mz+++", "SphericalCoords:Mx+-+", "SphericalCoords:Mz-+-", "SphericalCoords:Mx--+", "Ball:quat", "Free:quat"}


def kin(B, sc, n0, n1, side, U, tag, cls, timeout_ms=20000):
    """V_FM = H_FM u is the derivative of X_FM along qdot; HDot_FM = d/dt H_FM"""
    R1, p1 = n1.X_FM.R(), n1.X_FM.p()
    w, v = M.vals(n0.V_FM[0]), M.vals(n0.V_FM[1])
    fx = cls + "::calcX_FM + calcAcrossJointVelocityJacobian" + (" (reversed: ~X_MF, calcReverseMobilizerH_FM)" if tag else "")
    B.prove_eq("%s%s: d/dt R_FM(q(t)) == [w_FM]x R_FM with (w_FM,v_FM) = H_FM(q)*u, qdot = N(q)*u" % (sc.label, tag), M.ders(R1), crossMat(w) * M.vals(R1), side, U, fx, timeout_ms=timeout_ms)
    B.prove_eq("%s%s: d/dt p_FM(q(t)) == v_FM" % (sc.label, tag), M.ders(p1), v, side, U, fx, timeout_ms=timeout_ms)
    B.prove_eq("%s%s: HDot_FM == d/dt H_FM(q(t))" % (sc.label, tag), M.hflat(n0.HDot_FM, val), M.hflat(n1.H_FM, der), side, U,
               cls + ("::calcReverseMobilizerHDot_FM" if tag else "::calcAcrossJointVelocityJacobianDot"), timeout_ms=timeout_ms)


def qdot_family(B, sc, n0, n1, side, U, cls):
    nq, nu = n0.nq_in_use(), sc.dof
    L = sc.label
    sbs0, sbs1 = n0.sbs, n1.sbs
    u = [D(x) for x in sc.u]; ud = [D(x) for x in sc.ud]
    def mul(node, fn, right, vin, nout):
        out = [None] * 8
        getattr(node, fn)(node.sbs, right, list(vin) + [0] * (8 - len(vin)), out)
        assert all(x is not None for x in out[:nout]), "%s left output entries unset" % fn
        return Vec(out[:nout])
    qdot0 = Vec(n0.qdot[:nq])
    # N
    Nu = mul(n0, "multiplyByN", False, u, nq)
    B.prove_eq("%s: multiplyByN(u) == calcQDot(u)" % L, Nu, qdot0, side, U, cls + "::multiplyByN/calcQDot")
    x = [D(z3.Real("x%d" % i)) for i in range(nu)]
    y = [D(z3.Real("y%d" % i)) for i in range(nq)]
    Nx = mul(n0, "multiplyByN", False, x, nq)
    unit = list(side) + ([sc.nsq == 1] if sc.quat else [])
    B.prove_eq("%s: multiplyByNInv(multiplyByN(x)) == x%s" % (L, " (|quat|=1)" if sc.quat else ""), mul(n0, "multiplyByNInv", False, list(Nx), nu), Vec(x), unit, U, cls + "::multiplyByNInv")
    # qdotdot
    qdd = [None] * 8
    n0.calcQDotDot(sbs0, ud, qdd)
    B.prove_eq("%s: calcQDotDot(udot) == d/dt calcQDot(u) along the motion" % L, Vec(qdd[:nq]), M.ders(Vec(n1.qdot[:nq])), side, U, cls + "::calcQDotDot")
    NDx = mul(n0, "multiplyByNDot", False, x, nq)
    B.prove_eq("%s: multiplyByNDot(x) == d/dt multiplyByN(x), x constant" % L, NDx, M.ders(mul(n1, "multiplyByN", False, x, nq)), side, U, cls + "::multiplyByNDot")
    B.prove_eq("%s: calcQDotDot(udot) == multiplyByN(udot) + multiplyByNDot(u)" % L, Vec(qdd[:nq]),
               mul(n0, "multiplyByN", False, ud, nq) + mul(n0, "multiplyByNDot", False, u, nq), side, U, cls + "::calcQDotDot")
    # adjoints (matrixOnRight)
    for fn, a, na, b, nb in (("multiplyByN", x, nq, y, nu), ("multiplyByNDot", x, nq, y, nu), ("multiplyByNInv", y, nu, x, nq)):
        lhs = S.dot(list(b), list(mul(n0, fn, False, a, na)))
        rhs = S.dot(list(mul(n0, fn, True, b, nb)), list(a))
        B.prove_eq("%s: %s transposed form is the adjoint: y.(M x) == (y M).x" % (L, fn), lhs, rhs, side, U, cls + "::" + fn)


def reversal_lemma(B, classes, Node):
    """calcReverseMobilizerH_FM / HDot_FM (generic, RigidBodyNodeSpec.cpp) against an ABSTRACT forward mobilizer: any orthonormal R_MF(t),
    any p_MF(t), any forward hinge column h(t) = (hw, hv) with time derivative (hwd, hvd). Hypothesis (forward contract, proved per mobilizer):
    forward velocity V_MF = sum_j h_j u_j is the derivative of X_MF. Conclusion per column (the reversal is linear in the columns):
    reversed column is the derivative map of X_FM = ~X_MF, and HDot_FM is the time derivative of H_FM."""
    U = "reverse.generic"
    for noR in (False, True):
        S.reset_env()
        tagn = "noR_FM=%s" % ("true" if noR else "false")
        ns = B.ns
        def sym(n, k): return [z3.Real("%s%d" % (n, i)) for i in range(k)]
        wM, vM = Vec(*sym("wM", 3)), Vec(*sym("vM", 3))            # forward velocity of F in M (as defined): X_MF moves with (wM, vM)
        if noR:
            Rv = eye(3)
            hyp = [wM[i].v == 0 for i in range(3)]                 # noR_FM nodes never rotate
        else:
            # every proper orthonormal R_MF is R(e) for a unit quaternion e (textbook; the converter round trip is C27's):
            # 9 entries under 6+1 orthonormality constraints do not discharge in QF_NRA, the quaternion chart does
            e = Vec(*sym("e", 4))
            Rv = M.quat_R(e)
            hyp = [val(e.normSqr()) == 1]
        pv = Vec(*sym("p", 3))
        Rd = crossMat(wM) * Rv
        R = Mat([[D(val(Rv.m[i][j]), val(Rd.m[i][j])) for j in range(3)] for i in range(3)])
        p = Vec(*[D(val(pv[i]), val(vM[i])) for i in range(3)])
        hw, hv, hwd, hvd = Vec(*sym("hw", 3)), Vec(*sym("hv", 3)), Vec(*sym("hwd", 3)), Vec(*sym("hvd", 3))
        if noR:
            hyp += [hw[i].v == 0 for i in range(3)] + [hwd[i].v == 0 for i in range(3)]
        class Abs(Node):
            dof = 1; nq = 1; noR_FM = noR
            def calcAcrossJointVelocityJacobian(self, sbs, H): H.cols[0] = self.hcol
            def calcAcrossJointVelocityJacobianDot(self, sbs, H): H.cols[0] = self.hdcol
        def mk(dual):
            n = M.make(B, Abs)
            n.reversed_ = True
            f = (lambda x: x) if dual else (lambda x: D(val(x)))
            X_MF = ns["Transform"](ns["Rot"](S.vmap(f, R)), S.vmap(f, p))
            n.X_FM = ~X_MF
            n.hcol = SpatialVec(Vec(*[D(val(hw[i]), val(hwd[i])) if dual else D(val(hw[i])) for i in range(3)]),
                                Vec(*[D(val(hv[i]), val(hvd[i])) if dual else D(val(hv[i])) for i in range(3)]))
            n.hdcol = SpatialVec(Vec(*[D(val(hwd[i])) for i in range(3)]), Vec(*[D(val(hvd[i])) for i in range(3)]))
            H = M.HMat(1); n.calcReverseMobilizerH_FM(n.sbs, H); n.H_FM = H
            return n
        n0, n1 = mk(False), mk(True)
        # (a) single column as the whole motion (u=1): wM = hw, vM = hv  ->  reversed column is the velocity of X_FM = ~X_MF
        one = hyp + [wM[i].v == hw[i].v for i in range(3)] + [vM[i].v == hv[i].v for i in range(3)]
        Rf, pf = n1.X_FM.R(), n1.X_FM.p()
        c = n0.H_FM.cols[0]
        fn = "RigidBodyNodeSpec<dof>::calcReverseMobilizerH_FM (default)"
        B.prove_eq("generic reversal %s: d/dt ~R_MF == [H_FM_w]x ~R_MF when d/dt R_MF == [H_MF_w]x R_MF" % tagn, M.ders(Rf), crossMat(M.vals(c[0])) * M.vals(Rf), one, U, fn, minimal=True)
        B.prove_eq("generic reversal %s: d/dt p_FM == H_FM_v for X_FM = ~X_MF" % tagn, M.ders(pf), M.vals(c[1]), one, U, fn, minimal=True)
        # (b) HDot_FM == d/dt H_FM for an arbitrary motion (wM,vM) of the forward transform and arbitrary forward column/derivative;
        #     V_FM in the cache is the reversed spatial velocity of the forward motion (what H_FM*u is by (a) and linearity)
        Vf = n0.reverseSpatialVelocity(ns["Transform"](ns["Rot"](M.vals(R)), M.vals(p)), SpatialVec(M.vals(wM), M.vals(vM)))
        n0.V_FM = Vf
        HD = M.HMat(1); n0.calcReverseMobilizerHDot_FM(n0.sbs, HD)
        B.prove_eq("generic reversal %s: HDot_FM == d/dt H_FM for every forward column with HDot_MF == d/dt H_MF" % tagn, M.hflat(HD, val), M.hflat(n1.H_FM, der), hyp, U,
                   "RigidBodyNodeSpec<dof>::calcReverseMobilizerHDot_FM (default)", minimal=True)
        B.prove_eq("generic reversal %s: reverseSpatialVelocity(X_MF,V_MF) is the velocity of ~X_MF" % tagn, M.ders(Rf), crossMat(M.vals(Vf[0])) * M.vals(Rf), hyp, U, "RigidBodyNode::reverseSpatialVelocity", minimal=True)
        B.prove_eq("generic reversal %s: reverseSpatialVelocity linear part" % tagn, M.ders(pf), M.vals(Vf[1]), hyp, U, "RigidBodyNode::reverseSpatialVelocity", minimal=True)
        s = z3.Solver(); s.add(*hyp)
        B.ctx.add(Obligation("guard:reversal lemma hypotheses satisfiable (%s)" % tagn, "guards", "z3", "discharged" if s.check() == z3.sat else "undecided", 0, "reachability guard"))


def main(ctx):
    ctx.level = "other"
    names = sorted(set(n for n, _ in SCENARIOS))
    try:
        B, classes = M.build(ctx, names)
    except ExtractionError as e:
        ctx.undecide("extraction: %s" % e)
        return ctx.finish()
    only = os.environ.get("VERIF_ONLY")
    thorough = ctx.tier == "thorough"
    for name, opt in SCENARIOS:
        key = name + (":" + opt if opt else "")
        if only and not re.search(only, key):
            continue
        cls = classes[name].__name__
        U = "mob." + key
        try:
            sc = M.Scenario(B, classes, name, opt)
            n0 = sc.pass0(False)
            n1 = sc.pass1(n0, False)
            side = sc.side()
            if name in ("Ball", "Free", "Ellipsoid") and not sc.quat:
                side.append(sc.c1_nonzero)
            kin(B, sc, n0, n1, side, U, "", cls)
            qdot_family(B, sc, n0, n1, side, U, cls)
            s = z3.Solver(); s.add(*side)
            ctx.add(Obligation("guard:%s side conditions satisfiable" % key, "guards", "z3", "discharged" if s.check() == z3.sat else "undecided", 0, "reachability guard"))
            if key in (REV_DIRECT_THOROUGH if thorough else REV_DIRECT):
                r0 = sc.pass0(True)
                r1 = sc.pass1(r0, True)
                kin(B, sc, r0, r1, side, U + ".reversed", " reversed", cls, timeout_ms=120000 if thorough else 20000)
        except ExtractionError as e:
            ctx.undecide("%s: %s" % (key, e))
        except (AssertionError, TypeError, AttributeError, IndexError, KeyError) as e:
            ctx.undecide("%s: symbolic execution of the transliterated code failed: %r" % (key, e))
    if not only or re.search(only, "reverse"):
        try:
            reversal_lemma(B, classes, B.ns["Node"])
        except (ExtractionError, AssertionError, TypeError, AttributeError) as e:
            ctx.undecide("generic reversal lemma: %r" % (e,))
    ctx.units.append(dict(unit="mob.*", backend="z3 QF_NRA", obligations=len(ctx.obligations)))
    rep_fb = None
    if not only or re.search(only, "fb."):
        import part_c03_fb
        rep_fb = part_c03_fb.run(ctx)          # back end A: the lazy H / HDot cache of FunctionBased mobilizers (added after seed C03-m2 was missed)
    ctx._rep_fb = rep_fb
    ctx.checker_cmds.append("z3 (python API, QF_NRA, 20 s/obligation); SMT-LIB files in out/C03/smt2; cvc5 re-check in thorough tier")
    ctx.trust("z3 4.x / cvc5 1.0 (QF_NRA)")
    ctx.trust("tools/translit.py rule table + checks/mobilizerlib.py plumbing rules (per-function log in extraction_report.json), tools/symlib.py Vec/Mat shim")
    ctx.assume("machine arithmetic treated as mathematical (reals): float rounding is not covered")
    ctx.assume("symlib shim gives SimTK Vec/Mat/Row/SpatialVec operators their textbook meaning; Transform = (R,p), ~Transform = (~R, -~R p)")
    ctx.assume("cos/sin enter only through (c,s) with c^2+s^2=1; d/dt c = -s*rate, d/dt s = c*rate; sqrt(e) = r with r>=0, r^2=e")
    ctx.assume("state plumbing (mobilizerlib.Node/Sbs/realize): the q pool, X_FM, H_FM, qdot and V_FM=H_FM*u read back by a member are the ones the realize sequence of "
               "RigidBodyNodeSpec.h (performQPrecalculations; calcX_FM; H_FM; calcQDot; V_FM = H_FM*u; HDot_FM) computed for the same state; slot/pointer views as in the plumbing rule log")
    ctx.assume("reversed mobilizers outside the directly proved set rely on the abstract reversal lemma + the forward obligations (linear combination over hinge columns is a textbook step, not machine checked) in the quick tier")
    ctx.not_decided += ["recursion over the multibody tree: body velocities V_GB, station velocities/Jacobians, calcJointIndependentKinematicsPos/Vel, inboard/outboard frames X_PF, X_BM",
                        "LineOrientation, FreeLine, CantileverFreeBeam, Weld, Custom/FunctionBased mobilizers",
                        "SimbodyMatterSubsystem-level multiplyByN/NInv/NDot assembly over all mobilizers", "float rounding; behaviour at cos(q1)=0 and |quat|=0",
                        "finite-difference form of the statement (the check proves the exact derivative instead)"]
    ctx.explanation = "%d functions transliterated; %d obligations over %d mobilizer scenarios (forward + reversed)." % (len(ctx.functions), len(ctx.obligations), len(SCENARIOS))
    return ctx.finish(replayer=lambda ob: (ctx._rep_fb(ob) if ((ob.unit or "").startswith("fb.") and ctx._rep_fb) else replay(ctx, ob)))


_EXE = {}


def replay(ctx, ob, checks="XVAQ", extra=()):
    """native witness: one body per mobilizer type via the public MobilizedBody API at the counter-model state; compares getMobilizerTransform with the
    documented parameterisation and getMobilizerVelocity / qdotdot with finite differences (RigidBodyNodeSpec_Derived.cpp is compiled from the CURRENT tree)."""
    if "exe" not in _EXE:
        src = os.path.join(REPO, "Simbody/src")
        _EXE["exe"] = native_build(ctx, "c05_replay", os.path.join(VERIF, "replay/c05_replay.cpp"), libs=True,
                                   extra_srcs=[os.path.join(src, "RigidBodyNodeSpec_Derived.cpp"), os.path.join(src, "RigidBodyNodeSpec.cpp"),
                                               os.path.join(src, "MobilizedBody.cpp"),      # instantiates the inline fit wrappers of RigidBodyNode.h (C05)
                                               "-l:libopenblas.so.0"], extra_inc=[src], timeout=900)
    exe = _EXE["exe"]
    m = re.match(r"mob\.([A-Za-z]+)(?::([^.]+))?(\.reversed)?", ob.unit or "")
    if (ob.unit or "").startswith("reverse.generic"):
        m = re.match(r"mob\.([A-Za-z]+)(?::([^.]+))?(\.reversed)?", "mob.Bushing.reversed")       # witness search on a mobilizer that uses the generic reversal
    if not m:
        return dict(note="no native witness for this unit"), None
    name, opt, rev = m.group(1), m.group(2) or "-", bool(m.group(3))
    cex = ob.cex or {}
    def num(k, d):
        v = cex.get(k)
        if v is None:
            return d
        try:
            return float(fractions.Fraction(v.rstrip("?")))
        except Exception:
            try:
                return float(v.rstrip("?"))
            except Exception:
                return d
    kinds = M.KINDS[name + (":" + opt if name in ("Ball", "Free", "Ellipsoid") else "")]
    q = []
    for i, k in enumerate(kinds):
        if k == "a":
            q.append(math.atan2(num("s_q%d" % i, 0.6 - 0.1 * i), num("c_q%d" % i, 0.8)))
        else:
            q.append(num("x_q%d" % i, 0.3 + 0.17 * i))
    u = [num("u%d" % i, 0.5 - 0.3 * i) for i in range(M.MOBILIZERS[name]["dof"])]
    args = [name, opt, "1" if rev else "0", str(len(q))] + [repr(x) for x in q] + [repr(x) for x in u]
    args += ["pitch=%r" % num("pitch", 0.7)] + ["semi%d=%r" % (i, num("semi%d" % i, 0.5 + 0.25 * i)) for i in range(3)]
    args += ["checks=" + checks, "az0=%r" % math.atan2(num("s_az0", 0.2), num("c_az0", 0.9)), "ze0=%r" % math.atan2(num("s_ze0", -0.3), num("c_ze0", 0.8))]
    for pre in extra:                                       # further counter-model values the driver understands (C05: pt<i>, uold<i>, qold<i>)
        args += ["%s%d=%r" % (pre, i, num("%s%d" % (pre, i), None)) for i in range(8) if num("%s%d" % (pre, i), None) is not None]
    rc, o, e, t = run([exe] + args, 120)
    return dict(cmd="c05_replay " + " ".join(args), output=o[-3000:]), "REPRODUCED:" in o
