"""Part of C03: the hand-managed lazy H / HDot cache of MobilizedBody::FunctionBasedImpl (Simbody/src/MobilizedBodyImpl.h).

Back end A, route M2, plain (loop-free) harnesses = complete proofs.  The nine member functions realizeTopology, realizePosition,
realizeVelocity, updateH, updateHdot, multiplyByHMatrix, multiplyByHTranspose, multiplyByHDotMatrix, multiplyByHDotTranspose are cut
from the tree on every run and rewritten to C by the logged rules below; specs/C03fb/fb_pre.h replaces kinematic VALUES by version
tags (the H a product uses carries the tag of the q it was built from).  Contracts (specs/C03fb/fb_harness.h), for every nu in 1..6:

  invariant INV: the cache entry was allocated for CacheInfo<nu>;  stage >= Position and isValidH  => H was built from the current q;
                 stage >= Velocity and isValidHdot => HDot was built from the current q and u
  realizeTopology establishes INV; realizePosition (q arbitrary new) / realizeVelocity (u arbitrary new) re-establish it at their stage
  (so they MUST clear exactly their flag); every multiplyByH* at stage >= Position returns a product with the H of the CURRENT q, every
  multiplyByHDot* at stage >= Velocity with the HDot of the CURRENT q and u; all keep INV, rebuild exactly when invalid, use casts of the
  allocated type and the right column count; updQ/updU (State contract, C18) keep INV.  => for every history of one State object the
  hinge matrix used for V_FM = H u is the one of the configuration at hand (the C03 statement for FunctionBased mobilizers needs this
  on top of the formulas in CacheInfo<N>::buildH, which are NOT under contract).

run(ctx) adds units `fb.*` and returns a replayer."""
import os, re
import vlib
from vlib import *
from extract import *

SPEC = os.path.join(VERIF, "specs", "C03fb")
MBI_H = os.path.join(REPO, "Simbody/src/MobilizedBodyImpl.h")

FUNCS = [  # (name, anchor, C signature, kind)
    ("updateH", r"void updateH\(const State& s\) const\s*", "void FB_updateH(const struct FB* self, const struct State* s)", "upd"),
    ("updateHdot", r"void updateHdot\(const State& s\) const\s*", "void FB_updateHdot(const struct FB* self, const struct State* s)", "upd"),
    ("realizeTopology", r"void realizeTopology\(State& s\) const override\s*", "void FB_realizeTopology(const struct FB* self, struct State* s)", "real"),
    ("realizePosition", r"void realizePosition\(const State& s\) const override\s*", "void FB_realizePosition(const struct FB* self, const struct State* s)", "real"),
    ("realizeVelocity", r"void realizeVelocity\(const State& s\) const override\s*", "void FB_realizeVelocity(const struct FB* self, const struct State* s)", "real"),
    ("multiplyByHMatrix", r"SpatialVec multiplyByHMatrix\(const State& s, int nu, const Real\* u\) const override\s*",
     "HTag FB_multiplyByHMatrix(const struct FB* self, const struct State* s, int nu, const Real* u)", "mul"),
    ("multiplyByHTranspose", r"void multiplyByHTranspose\(const State& s, const SpatialVec& F, int nu, Real\* f\) const override\s*",
     "void FB_multiplyByHTranspose(const struct FB* self, const struct State* s, const struct SpatialVecIn* F, int nu, Real* f)", "mulT"),
    ("multiplyByHDotMatrix", r"SpatialVec multiplyByHDotMatrix\(const State& s, int nu, const Real\* u\) const override\s*",
     "HTag FB_multiplyByHDotMatrix(const struct FB* self, const struct State* s, int nu, const Real* u)", "mul"),
    ("multiplyByHDotTranspose", r"void multiplyByHDotTranspose\(const State& s, const SpatialVec& F, int nu, Real\* f\) const override\s*",
     "void FB_multiplyByHDotTranspose(const struct FB* self, const struct State* s, const struct SpatialVecIn* F, int nu, Real* f)", "mulT"),
]
CLS = "MobilizedBody::FunctionBasedImpl::"


def rewrite(r, kind):
    r.sub("container -> contracted stub (typed cache access, writable): Value<CacheInfo<N>>::updDowncast(s.updCacheEntry(subsystem, cacheIndex)).upd()",
          r"Value<CacheInfo<(\d+)>\s*>::updDowncast\(s\.updCacheEntry\(subsystem, cacheIndex\)\)\.upd\(\)", r"(*fb_updCache(self, s, \1))", None, 0)
    r.sub("container -> contracted stub (typed cache access, read): Value<CacheInfo<N>>::downcast(s.getCacheEntry(subsystem, cacheIndex)).get()",
          r"Value<CacheInfo<(\d+)>\s*>::downcast\(s\.getCacheEntry\(subsystem, cacheIndex\)\)\.get\(\)", r"(*fb_getCache(self, s, \1))", None, 0)
    if kind in ("mul", "mulT"):
        r.sub("value -> version tag: Mat<2,N,Vec3> h = ...", r"\bMat<2,\s*\d+,\s*Vec3>\s+(h|hdot)\s*=", r"HTag \1 =", 6)
        r.sub("implicit this: updateH(s) / updateHdot(s)", r"(?<![\w.>])(updateH|updateHdot)\(s\)", r"FB_\1(self, s)", 6)
        if kind == "mul":
            r.sub("value -> version tag: return h*VecN::getAs(u)", r"return\s+(\w+)\s*\*\s*Vec(\d)::getAs\(u\)\s*;", r"return fb_mul(\1, \2, u);", 6)
            r.sub("exception plumbing", r"SimTK_THROW5\([^;]*\);", "{ g_threw = 1; return fb_none(); }", 1)
        else:
            r.sub("value -> version tag: VecN::updAs(f) = ~h*F", r"Vec(\d)::updAs\(f\)\s*=\s*~\s*(\w+)\s*\*\s*F\s*;", r"fb_mulT(\2, \1, F, f);", 6)
            r.sub("exception plumbing", r"SimTK_THROW5\([^;]*\);", "{ g_threw = 1; return; }", 1)
    else:
        r.sub("implicit this: member nu", r"(?<![\w.>])nu\b", "self->nu", 1)
    if kind == "upd":
        r.sub("value -> version tag + implicit this: Vector q = getQ(s)", r"\bVector\s+(q|u)\s*=\s*get(Q|U)\(s\)\s*;", r"int \1 = fb_get\2(self, s);", 2)
        r.sub("references -> pointers: CacheInfo<N>& cache =", r"\bCacheInfo<\d+>&\s*cache\s*=\s*", "struct CacheInfo* cache = &", 6)
        r.sub("opaque callee -> abstract stub: cache.buildH/buildHdot(q, u, getMobilizerTransform(s), functions, coordIndices, Arot, Atrans)",
              r"\bcache\.build(H|Hdot)\(q, u, getMobilizerTransform\(s\), functions, coordIndices, Arot, Atrans\)\s*;",
              r"fb_build\1(cache, q, u, fb_getMobilizerTransform(self, s));", 6)
        r.sub("references -> pointers: cache.", r"\bcache\.", "cache->", 6)
    if kind == "real":
        r.sub("container -> contracted stub: cacheIndex = s.allocateCacheEntry(subsystem, Stage::Topology, new Value<CacheInfo<N> >())",
              r"cacheIndex\s*=\s*s\.allocateCacheEntry\(subsystem, Stage::Topology, new Value<CacheInfo<(\d+)>\s*>\(\)\)\s*;", r"fb_allocate(self, s, \1);", None, 0)
    return r


def build_unit(ctx):
    parts = ['#include "%s/fb_pre.h"' % SPEC]
    src = open(MBI_H).read()
    m = re.search(r"CacheInfo\(\)\s*:\s*isValidH\((\w+)\)\s*,\s*isValidHdot\((\w+)\)\s*\{\s*\}", blank_comments(src))
    if not m:
        raise ExtractionError("CacheInfo<N> default constructor `CacheInfo() : isValidH(..), isValidHdot(..) { }` not found")
    ctor = "static void fb_ctor(struct CacheInfo* c) { c->isValidH = %s; c->isValidHdot = %s; }" % (m.group(1), m.group(2))
    parts.append("/* CacheInfo<N>::CacheInfo() initialiser list as found in the tree (line %d) */\n%s" % (src.count("\n", 0, m.start()) + 1, ctor))
    for name, anchor, sig, kind in FUNCS:
        c = cut_function(MBI_H, anchor, CLS + name, expect_total=1)
        r = Rewriter(c.body, CLS + name)
        rewrite(r, kind)
        ctx.add_function(MBI_H, CLS + name, c.start, c.end, c.text, "M2", r.dropped, r.log)
        parts.append("/* %s%s  (%s:%d-%d) */\n%s\n{%s}\n" % (CLS, name, os.path.relpath(MBI_H, REPO), c.start, c.end, sig, r.text))
    parts.append('#include "%s/fb_harness.h"' % SPEC)
    path = os.path.join(ctx.out, "fb_unit.c")
    open(path, "w").write("\n".join(parts) + "\n")
    return path


HARNESSES = [  # (unit suffix, entry, function, number of assertions)
    ("realizeTopology", "h_realizeTopology", "realizeTopology", 3),
    ("realizePosition", "h_realizePosition", "realizePosition", 4),
    ("realizeVelocity", "h_realizeVelocity", "realizeVelocity", 4),
    ("multiplyByHMatrix", "h_multiplyByHMatrix", "multiplyByHMatrix + updateH", 5),
    ("multiplyByHTranspose", "h_multiplyByHTranspose", "multiplyByHTranspose + updateH", 4),
    ("multiplyByHDotMatrix", "h_multiplyByHDotMatrix", "multiplyByHDotMatrix + updateHdot", 5),
    ("multiplyByHDotTranspose", "h_multiplyByHDotTranspose", "multiplyByHDotTranspose + updateHdot", 4),
    ("nu_out_of_range", "h_nu_out_of_range", "multiplyByHMatrix", 1),
    ("history.state_ops", "h_history_state_ops", "State::updQ / updU (assumed contract) against INV", 1),
]


def run(ctx):
    try:
        unit_c = build_unit(ctx)
    except ExtractionError as e:
        ctx.undecide("extraction (FunctionBasedImpl cache): %s" % e)
        return None
    jobs = []
    for suf, entry, fn, nas in HARNESSES:
        jobs.append(lambda suf=suf, entry=entry, fn=fn, nas=nas: cbmc_unit(
            ctx, "fb." + suf, [unit_c], entry, no_dfcc=True, cbmc_args=["--bounds-check", "--pointer-check", "--signed-overflow-check"],
            require_props=[r"%s\.assertion\.%d$" % (entry, nas)], min_obligations=nas, function=CLS + fn, timeout=120))
    jobs.append(lambda: cover_unit(ctx, "fb.cover", [unit_c], "h_cover", expect_min=5, function="FunctionBasedImpl cache invariant (reachability)"))
    parallel(jobs)
    ctx.assume("FunctionBased cache unit: State::updCacheEntry/getCacheEntry + Value<T>::downcast hand back the one entry allocated in realizeTopology (a cast to "
               "another CacheInfo<N> is flagged, the real code would throw std::bad_cast); Custom::Implementation::getQ/getU/getMobilizerTransform return the state's "
               "current values; Custom's realize sequence calls realizePosition / realizeVelocity of the implementation whenever the State is realized through that "
               "stage, and multiplyByH* / multiplyByHDot* only at stage >= Position / Velocity with nu == the mobilizer's nu; a write to q / u lowers the stage (C18)")
    ctx.assume("FunctionBased cache unit: CacheInfo<N>::buildH / buildHdot are abstract (H depends on q and X_FM(q), HDot on q and u); multiplyByH* call updateH / updateHdot "
               "by their cut bodies (inlined), not by contract")
    ctx.not_decided += ["FunctionBased mobilizers: the formulas of CacheInfo<N>::buildH / buildHdot and calcTransform (H_FM = dX_FM/dq for the user's functions), "
                        "Custom mobilizers in general, thread-safety of the mutable cache flags"]
    return lambda ob: replay(ctx, ob)


_exe = {}


def replay(ctx, ob):
    """native witness: FunctionBased mobilizers with 1..6 mobilities whose H depends on q; ONE State object is re-realized at several (q,u);
    V_FM / A_FM-bias from the reused State are compared with those of a freshly created State at the same (q,u)."""
    if not (ob.unit or "").startswith("fb."):
        return {}, None
    if "exe" not in _exe:
        _exe["exe"] = native_build(ctx, "c03_fb_replay", os.path.join(VERIF, "replay/c03_fb_replay.cpp"), libs=True,
                                   extra_srcs=[os.path.join(REPO, "Simbody/src/MobilizedBody.cpp")], extra_inc=[os.path.join(REPO, "Simbody/src")], timeout=900)
    rc, o, e, t = vlib.run([_exe["exe"]], 300)
    return dict(cmd="c03_fb_replay", output=o[-3000:], witness_class="stale-H-or-HDot-after-state-reuse"), "REPRODUCED:" in o
