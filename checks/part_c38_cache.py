"""Part of C38 (and of C16's parameter-change clause): force-caching class invariant.

For every subclass of ForceImpl found in /repo/Simbody/src (enumerated each run):
    dependsOnlyOnPositions() == true  ==>  every state variable allocated by realizeTopology()
                                           / realizeModel() invalidates a stage <= Stage::Position
Back end A, route M2: dependsOnlyOnPositions() is cut verbatim, realizeTopology()/realizeModel()
are cut and reduced to their control slice over the State allocation API (allocate* calls keep
their Stage argument; payload expressions and statements that do not touch the State are dropped
and listed in the extraction report). The allocation API is a contracted stub that records a
ghost maximum invalidated stage. A subclass the cutter cannot process -> UNDECIDED.

run(ctx) adds the obligations (units `forcecache.<ClassName>[.realizeModel]`) and returns a replayer."""
import os, re, glob
import vlib
from vlib import *
from extract import *

SPEC = os.path.join(VERIF, "specs", "C38cache")
SRC = os.path.join(REPO, "Simbody/src")
STAGE_H = os.path.join(REPO, "SimTKcommon/Simulation/include/SimTKcommon/internal/Stage.h")
ACCESSOR = re.compile(r"^(get|upd|is|has)\w*$")     # State accessors: assumed not to allocate
ALLOC_KNOWN = {"allocateDiscreteVariable": "dv", "allocateAutoUpdateDiscreteVariable": "dv",
               "allocateQ": "cont", "allocateU": "cont", "allocateZ": "cont",
               "allocateCacheEntry": "cache", "allocateLazyCacheEntry": "cache"}


class Unprocessable(Exception):
    pass


# ----------------------------------------------------------------------
# enumeration + cutting
# ----------------------------------------------------------------------
def source_files():
    fs = sorted(glob.glob(os.path.join(SRC, "*.h")) + glob.glob(os.path.join(SRC, "*.cpp")))
    return fs


def enumerate_classes():
    """[(class name as written, file, blank text, src text, open brace, close brace, base)] for the
    transitive subclasses of ForceImpl."""
    found = {}
    texts = {}
    for f in source_files():
        src = open(f, errors="replace").read()
        if "ForceImpl" not in src:
            continue
        texts[f] = (src, blank_comments(src))
    known = {"ForceImpl"}
    changed = True
    while changed:
        changed = False
        for f, (src, blank) in texts.items():
            for m in re.finditer(r"\bclass\s+([\w:]+)\s*:\s*public\s+([\w:]+)\s*\{", blank):
                name, base = m.group(1), m.group(2)
                if base.split("::")[-1] in known or base in known:
                    if name not in found:
                        ob = m.end() - 1
                        found[name] = dict(name=name, file=f, src=src, blank=blank, ob=ob, cb=match_brace(blank, ob), base=base)
                        known.add(name); known.add(name.split("::")[-1])
                        changed = True
    # the root class, for inherited bodies
    root = None
    for f, (src, blank) in texts.items():
        m = re.search(r"\bclass\s+ForceImpl\s*:\s*public\s+PIMPLImplementation<[^>]*>\s*\{", blank)
        if m:
            ob = m.end() - 1
            root = dict(name="ForceImpl", file=f, src=src, blank=blank, ob=ob, cb=match_brace(blank, ob), base=None)
    if root is None:
        raise ExtractionError("class ForceImpl not found in %s" % SRC)
    return found, root, texts


METHODS = {
    "dependsOnlyOnPositions": r"\bbool\s+dependsOnlyOnPositions\s*\(\s*\)\s*const(?:\s+override)?\s*",
    "realizeTopology": r"\bvoid\s+realizeTopology\s*\(\s*State\s*&\s*(\w+)\s*\)\s*const(?:\s+override)?\s*",
    "realizeModel": r"\bvoid\s+realizeModel\s*\(\s*State\s*&\s*(\w+)\s*\)\s*const(?:\s+override)?\s*",
}
OUTLINE = {
    "dependsOnlyOnPositions": r"\bbool\s+%s\s*::\s*dependsOnlyOnPositions\s*\(\s*\)\s*const\s*",
    "realizeTopology": r"\bvoid\s+%s\s*::\s*realizeTopology\s*\(\s*State\s*&\s*(\w+)\s*\)\s*const\s*",
    "realizeModel": r"\bvoid\s+%s\s*::\s*realizeModel\s*\(\s*State\s*&\s*(\w+)\s*\)\s*const\s*",
}


def find_method(cls, meth, texts):
    """Returns Cut-like dict(file,start,end,text,body,statevar) or None if the class does not declare it."""
    blank, src = cls["blank"], cls["src"]
    # only look at class-body depth 1 (skip nested classes/inline bodies): scan matches, check depth
    for m in re.finditer(METHODS[meth], blank[cls["ob"]:cls["cb"]]):
        pos = cls["ob"] + m.start()
        depth = blank.count("{", cls["ob"], pos) - blank.count("}", cls["ob"], pos)
        if depth != 1:
            continue
        end = cls["ob"] + m.end()
        nxt = blank[end:end + 1]
        statevar = m.group(1) if m.groups() else None
        if nxt == "{":
            cb = match_brace(blank, end)
            return dict(file=cls["file"], start=src.count("\n", 0, pos) + 1, end=src.count("\n", 0, cb) + 1,
                        text=src[pos:cb + 1], body=src[end + 1:cb], statevar=statevar)
        if nxt == ";" or blank[end:end + 10].lstrip().startswith(";"):
            # declared here, defined out of line somewhere
            qn = r"\s*::\s*".join(re.escape(p) for p in cls["name"].split("::"))
            alts = [qn]
            if "::" in cls["name"]:
                alts.append(re.escape(cls["name"].split("::")[-1]))
            for f, (s2, b2) in texts.items():
                for q in alts:
                    mm = re.search(OUTLINE[meth] % q, b2)
                    if mm and b2[mm.end():mm.end() + 1] == "{":
                        cb = match_brace(b2, mm.end())
                        return dict(file=f, start=s2.count("\n", 0, mm.start()) + 1, end=s2.count("\n", 0, cb) + 1,
                                    text=s2[mm.start():cb + 1], body=s2[mm.end() + 1:cb],
                                    statevar=mm.group(1) if mm.groups() else None)
            raise Unprocessable("%s::%s is declared but its definition was not found" % (cls["name"], meth))
        raise Unprocessable("%s::%s: unexpected text after the signature" % (cls["name"], meth))
    return None


def resolve(cls, meth, classes, root, texts):
    """method body for cls, walking up the inheritance chain to ForceImpl."""
    c = cls
    hops = 0
    while c is not None and hops < 10:
        r = find_method(c, meth, texts)
        if r is not None:
            r["from"] = c["name"]
            return r
        if c["name"] == "ForceImpl":
            break
        b = c["base"]
        c = classes.get(b) or next((v for k, v in classes.items() if k.split("::")[-1] == b.split("::")[-1]), None) or root
        hops += 1
    raise Unprocessable("%s: no body for %s up to ForceImpl" % (cls["name"], meth))


# ----------------------------------------------------------------------
# control slice of realizeTopology()/realizeModel()
# ----------------------------------------------------------------------
def _skip_ws(t, i):
    while i < len(t) and t[i].isspace():
        i += 1
    return i


def _stmt_end(t, b, i):
    """index just past the ';' ending the simple statement starting at i (b = blanked text)."""
    dp = 0
    k = i
    while k < len(b):
        ch = b[k]
        if ch in "([{":
            dp += 1
        elif ch in ")]}":
            dp -= 1
            if dp < 0:
                raise Unprocessable("unbalanced statement: %r" % t[i:i + 60])
        elif ch == ";" and dp == 0:
            return k + 1
        k += 1
    raise Unprocessable("statement without ';': %r" % t[i:i + 60])


def split_args(s):
    out, dp, cur = [], 0, ""
    for ch in s:
        if ch in "([{<" and not (ch == "<" and dp == 0 and False):
            dp += ch in "([{"
        if ch in ")]}":
            dp -= 1
        if ch == "," and dp == 0:
            out.append(cur); cur = ""
        else:
            cur += ch
    out.append(cur)
    return [a.strip() for a in out]


class Slicer:
    def __init__(self, cname, statevar, stages):
        self.cname, self.sv, self.stages = cname, statevar, stages
        self.dropped, self.kept = [], []
        self.nalloc = 0

    def slice_block(self, t):
        b = blank_comments(t)
        out = []
        i = 0
        while True:
            i = _skip_ws(t, i)
            if i >= len(t):
                break
            s, i = self.one(t, b, i)
            out.append(s)
        return "\n".join(x for x in out if x)

    def one(self, t, b, i):
        """parse one statement at i; returns (C text, next index)"""
        if b[i] == "{":
            cb = match_brace(b, i)
            return "{\n" + self.slice_block(t[i + 1:cb]) + "\n}", cb + 1
        m = re.match(r"(if|for|while|switch)\s*\(", b[i:])
        if m:
            op = i + m.end() - 1
            cp = match_brace(b, op)
            head = t[i:cp + 1]
            if re.search(r"\ballocate\w*\s*\(", b[op:cp + 1]):
                raise Unprocessable("allocation inside a control header: %r" % head[:80])
            j = _skip_ws(t, cp + 1)
            before = self.nalloc
            body, j = self.one(t, b, j)
            kw = m.group(1)
            if kw == "if":
                els = ""
                k = _skip_ws(t, j)
                if re.match(r"else\b", b[k:]):
                    k = _skip_ws(t, k + 4)
                    e, j = self.one(t, b, k)
                    els = " else { %s }" % e
                if self.nalloc == before:
                    self.dropped.append(dict(rule="opaque-statement", text=t[i:j].strip()))
                    return "", j
                self.kept.append("branch condition abstracted to nondet: " + head)
                return "if (vf_nondet_bool()) { %s }%s" % (body, els), j
            if self.nalloc != before:
                raise Unprocessable("allocation inside a %s loop/switch (needs a loop contract): %r" % (kw, head[:80]))
            self.dropped.append(dict(rule="opaque-statement", text=t[i:j].strip()))
            return "", j
        if re.match(r"(do|try|goto|case|default)\b", b[i:]):
            raise Unprocessable("unsupported control statement: %r" % t[i:i + 40])
        e = _stmt_end(t, b, i)
        return self.simple(t[i:e], b[i:e]), e

    def simple(self, st, bl):
        calls = []
        for m in re.finditer(r"\b(allocate\w*)\s*\(", bl):
            op = m.end() - 1
            cp = match_brace(bl, op)
            args = split_args(st[op + 1:cp])
            recv = st[:m.start()].rstrip()
            touches = any(re.fullmatch(re.escape(self.sv), a) for a in args) or bool(re.search(r"\b%s\s*\.\s*$" % re.escape(self.sv), recv))
            if m.group(1) in ALLOC_KNOWN and not touches:
                raise Unprocessable("%s call does not receive the State parameter '%s': %r" % (m.group(1), self.sv, st[:100]))
            if m.group(1) not in ALLOC_KNOWN and touches:
                raise Unprocessable("unknown allocation call %s on the State" % m.group(1))
            if m.group(1) in ALLOC_KNOWN:
                calls.append((m, args))
            # an allocate*() that is not part of the State API and does not receive the State is payload (opaque)
        if len(calls) > 1:
            raise Unprocessable("more than one allocation in one statement: %r" % st[:100])
        if calls:
            m, args = calls[0]
            name = m.group(1)
            kind = ALLOC_KNOWN[name]
            self.nalloc += 1
            if kind == "dv":
                stg = [a for a in args if re.fullmatch(r"Stage::\w+", a)]
                if not stg:
                    raise Unprocessable("%s: no literal Stage:: argument in %r" % (name, st[:120]))
                sname = stg[0].split("::")[1]
                if sname not in self.stages:
                    raise Unprocessable("unknown stage %s" % stg[0])
                self.kept.append("%s(%s, %s, <payload dropped>)" % (name, self.sv, stg[0]))
                return "(void)%s(%s, Stage_%s);" % (name, self.sv, sname)
            self.kept.append("%s(%s, <payload dropped>)" % (name, self.sv))
            return "(void)%s(%s);" % (name, self.sv)
        if re.search(r"\bimplementation\s*->\s*(realizeTopology|realizeModel)\s*\(\s*%s\s*\)\s*;" % re.escape(self.sv), bl):
            mm = re.search(r"implementation\s*->\s*(realizeTopology|realizeModel)", bl)
            self.kept.append("delegation to Force::Custom::Implementation::%s by (assumed) contract" % mm.group(1))
            return "Implementation_%s(self->implementation, %s);" % (mm.group(1), self.sv)
        if re.match(r"\s*return\s*;", bl):
            return "return;"
        for m in re.finditer(r"\b%s\b" % re.escape(self.sv), bl):
            # the State is mentioned: it may only be handed to accessors (innermost enclosing call)
            k, dp = m.start() - 1, 0
            callee = None
            while k >= 0:
                ch = bl[k]
                if ch in ")]":
                    dp += 1
                elif ch in "([":
                    if dp == 0:
                        mm = re.search(r"(\w+)\s*$", bl[:k])
                        callee = mm.group(1) if (mm and ch == "(") else "?"
                        break
                    dp -= 1
                k -= 1
            if callee is not None and not ACCESSOR.match(callee):
                raise Unprocessable("State passed to non-accessor '%s' in %r" % (callee, st[:100]))
            mm = re.match(r"\s*(\.|->)\s*(\w+)\s*\(", bl[m.end():])
            if mm and not ACCESSOR.match(mm.group(2)):
                raise Unprocessable("non-accessor method '%s' called on the State in %r" % (mm.group(2), st[:100]))
            if callee is None and not mm and re.match(r"\s*=[^=]", bl[m.end():]):
                raise Unprocessable("State assigned in %r" % st[:100])
        self.dropped.append(dict(rule="opaque-statement", text=st.strip()))
        return ""


def read_stages():
    c = cut_region(STAGE_H, r"enum Level \{", r"LowestValid", "Stage::Level")
    vals = dict((m.group(1), int(m.group(2))) for m in re.finditer(r"\b(\w+)\s*=\s*(\d+)\s*,", blank_comments(c.text)))
    for need in ("Empty", "Position", "Velocity", "Dynamics", "Infinity"):
        if need not in vals:
            raise ExtractionError("Stage::%s not found in %s" % (need, STAGE_H))
    return c, vals


def cname_id(name):
    return name.split("::")[-1] if not name.endswith("::Impl") else name.replace("::", "_")


def build_class_unit(ctx, cls, classes, root, texts, stages, stage_h):
    cid = cname_id(cls["name"])
    d = resolve(cls, "dependsOnlyOnPositions", classes, root, texts)
    parts = ['#define STAGE_ENUM_H "%s"\n#include "%s/forcecache_pre.h"\n' % (stage_h, SPEC)]
    r = Rewriter("{" + d["body"] + "}", cls["name"] + "::dependsOnlyOnPositions")
    r.sub("implicit-this + delegation to contracted stub", r"\bimplementation\s*->\s*dependsOnlyOnPositions\s*\(\s*\)",
          "Implementation_dependsOnlyOnPositions(self->implementation)", None, 0)
    ctx.add_function(d["file"], "%s::dependsOnlyOnPositions%s" % (cls["name"], "" if d["from"] == cls["name"] else " (inherited from %s)" % d["from"]),
                     d["start"], d["end"], d["text"], "M2", r.dropped, r.log)
    parts.append("bool FI_dependsOnlyOnPositions(const struct ForceImplObj* self)\n" + r.text + "\n")
    meths = []
    for meth in ("realizeTopology", "realizeModel"):
        t = resolve(cls, meth, classes, root, texts)
        sv = t["statevar"] or "state"
        sl = Slicer(cls["name"], sv, stages)
        body = sl.slice_block(strip_comments(t["body"]))
        raw = len(re.findall(r"\b(?:%s)\s*\(" % "|".join(ALLOC_KNOWN), blank_comments(strip_comments(t["body"]))))
        if raw != sl.nalloc:
            raise Unprocessable("%s::%s: %d allocate* calls in the text but %d in the slice" % (cls["name"], meth, raw, sl.nalloc))
        ctx.add_function(t["file"], "%s::%s%s" % (cls["name"], meth, "" if t["from"] == cls["name"] else " (inherited from %s)" % t["from"]),
                         t["start"], t["end"], t["text"], "M2 (control slice over the State allocation API)",
                         sl.dropped, [dict(rule="slice", kept=sl.kept, hits=sl.nalloc)])
        parts.append("void FI_%s(struct ForceImplObj* self, struct State* %s)\n{\n%s\n}\n" % (meth, sv, body))
        meths.append((meth, t["from"], sl.nalloc))
    parts.append('#include "%s/forcecache_harness.h"\n' % SPEC)
    path = os.path.join(ctx.out, "forcecache_%s.c" % re.sub(r"\W", "_", cid))
    open(path, "w").write("\n".join(parts))
    return cid, path, meths


STUBS_ = ["allocateDiscreteVariable", "allocateAutoUpdateDiscreteVariable", "allocateQ", "allocateU", "allocateZ",
          "allocateCacheEntry", "allocateLazyCacheEntry", "Implementation_realizeTopology", "Implementation_realizeModel"]


def run(ctx):
    """Adds the class-invariant obligations to ctx; returns replay(ob) for units starting with 'forcecache.'."""
    try:
        classes, root, texts = enumerate_classes()
        sc, stages = read_stages()
    except ExtractionError as e:
        ctx.undecide("extraction (forcecache): %s" % e)
        return None
    if len(classes) < 1:
        ctx.undecide("forcecache: no ForceImpl subclass found under %s" % SRC)
        return None
    ctx.add_function(STAGE_H, "Stage::Level (enum values)", sc.start, sc.end, sc.text, "M2 (scope flattening Stage::X -> Stage_X)")
    stage_h = os.path.join(ctx.out, "forcecache_stage_enum.h")
    open(stage_h, "w").write("/* generated from %s */\nenum { %s };\n" % (STAGE_H, ", ".join("Stage_%s = %d" % kv for kv in sorted(stages.items(), key=lambda x: x[1]))))
    jobs = []
    summary = []
    for name in sorted(classes):
        cls = classes[name]
        try:
            cid, path, meths = build_class_unit(ctx, cls, classes, root, texts, stages, stage_h)
        except (Unprocessable, ExtractionError) as e:
            ctx.add(Obligation("forcecache.%s.extraction" % cname_id(name), "forcecache.%s" % cname_id(name), "extract", "undecided", 0,
                               "cutter cannot process %s: %s" % (name, e), function=name))
            summary.append(dict(cls=name, status="unprocessable", reason=str(e)))
            continue
        summary.append(dict(cls=name, unit="forcecache." + cid, methods=meths))
        for meth, frm, nalloc in meths:
            if meth == "realizeModel" and frm == "ForceImpl":
                continue           # inherited empty body: nothing allocated, covered by the realizeTopology unit of ForceImpl's text
            unit = "forcecache.%s" % cid + ("" if meth == "realizeTopology" else ".realizeModel")
            jobs.append(lambda unit=unit, path=path, meth=meth, name=name: cbmc_unit(
                ctx, unit, [path], "h_" + meth, enforce="FI_" + meth, replace=STUBS_,
                cbmc_args=["--bounds-check", "--pointer-check", "--signed-overflow-check", "--object-bits", "10"],
                require_props=[r"postcondition\.1$", r"postcondition\.2$"], function="%s::%s" % (name, meth), timeout=300))
    parallel(jobs)
    ctx.extra.setdefault("forcecache_classes", summary)
    ctx.assume("State allocation API (assumed contract, cf. C18): a discrete variable allocated with Stage g invalidates stage g and later when "
               "modified; q/u/z variables invalidate Position/Velocity/Dynamics; cache entries are not state variables")
    ctx.assume("GeneralForceSubsystem recomputes the cached forces of dependsOnlyOnPositions() elements exactly when Stage::Position is re-realized "
               "(realizeSubsystemPositionImpl resets cachedForcesAreValid; C18 lemma)")
    ctx.assume("State accessors named get*/upd*/is*/has* do not allocate state variables; all allocations go through allocate* calls")
    ctx.assume("Force::Custom::Implementation subclasses (user code) satisfy the same invariant (Force::CustomImpl only forwards)")
    ctx.trust("statement slicer in checks/part_c38_cache.py (kept/dropped statements are listed per function in extraction_report.json)")
    ctx.not_decided += ["parameters kept in data members instead of the State (setters call invalidateTopologyCache(); not under this contract)",
                        "elements that manage their own lazy cache (Force::Gravity): manual invalidation of the cache entry is not under contract"]
    return lambda ob: replay(ctx, ob)


# ----------------------------------------------------------------------
_exe = {}


def replay(ctx, ob):
    if not ob.unit.startswith("forcecache."):
        return {}, None
    cid = ob.unit.split(".")[1]
    if "exe" not in _exe:
        _exe["exe"] = native_build(ctx, "c38_cache_replay", os.path.join(VERIF, "replay/c38_cache_replay.cpp"), libs=True)
    rc, o, e, t = vlib.run([_exe["exe"], cid], 120)
    return dict(cmd="c38_cache_replay " + cid, output=o[-1500:], witness_class="stale-cached-force-after-parameter-change"), "REPRODUCED:" in o
