"""Shared helpers for checks C19 and C22 (route M2 on the integrator sources).
Only rewrite rules from the closed list of DESIGN 2.2 are implemented here; each is logged
into the Rewriter log so that extraction_report.json shows every hit."""
import os, re
from vlib import REPO
from extract import (cut_function, cut_region, Rewriter, ExtractionError, blank_comments, match_brace)

INTEG_SRC = os.path.join(REPO, "SimTKmath/Integrators/src")
ABSTRACT_CPP = os.path.join(INTEG_SRC, "AbstractIntegratorRep.cpp")
INTEGREP_H = os.path.join(INTEG_SRC, "IntegratorRep.h")
INTEGRATOR_CPP = os.path.join(INTEG_SRC, "Integrator.cpp")
TIMESTEPPER_CPP = os.path.join(INTEG_SRC, "TimeStepper.cpp")
INTEGRATOR_H = os.path.join(REPO, "SimTKmath/Integrators/include/simmath/Integrator.h")
EVENT_H = os.path.join(REPO, "SimTKcommon/Simulation/include/SimTKcommon/internal/Event.h")
SCALAR_H = os.path.join(REPO, "SimTKcommon/Scalar/include/SimTKcommon/Scalar.h")


def split_args(text):
    """split a macro/function argument text at top-level commas (strings respected)"""
    blank = blank_comments(text)
    args, depth, last = [], 0, 0
    for i, ch in enumerate(blank):
        if ch in "([{":
            depth += 1
        elif ch in ")]}":
            depth -= 1
        elif ch == "," and depth == 0:
            args.append(text[last:i]); last = i + 1
    args.append(text[last:])
    return [a.strip() for a in args]


def rewrite_call(r, rule, name, fn, count=None, min_count=1):
    """Rewrite every call `name(args...)[;]` by fn(args_list) -> replacement text (the trailing ';' is kept by the caller's fn
    if wanted). Used for exception plumbing (SimTK_ERRCHKn_ALWAYS / SimTK_THROWn -> ghost flag) and opaque statements."""
    hits = []
    pos = 0
    out = []
    text = r.text
    while True:
        blank = blank_comments(text)
        m = re.compile(r"(?<![\w.>])" + re.escape(name) + r"\s*\(").search(blank, pos)
        if not m:
            break
        op = blank.find("(", m.start())
        cp = match_brace(blank, op)
        args = split_args(text[op + 1:cp])
        rep = fn(args)
        hits.append(text[m.start():cp + 1][:160])
        text = text[:m.start()] + rep + text[cp + 1:]
        pos = m.start() + len(rep)
    n = len(hits)
    if (count is not None and n != count) or (count is None and n < min_count):
        raise ExtractionError("%s: rewrite rule '%s' on call %s fired %d times, expected %s"
                              % (r.name, rule, name, n, count if count is not None else ">=%d" % min_count))
    r.log.append(dict(rule=rule, pattern=name + "(...)", replacement="<fn>", hits=n, examples=hits[:3]))
    r.text = text
    return r


def this_calls(r, names, min_count=0):
    """implicit-this rule for member function calls: f() -> f(self), f(a) -> f(self, a)"""
    for nm in names:
        r.sub("implicit-this-call:" + nm, r"(?<![\w.>:])" + re.escape(nm) + r"\(\s*\)", nm + "(self)", None, 0)
        r.sub("implicit-this-call:" + nm, r"(?<![\w.>:])" + re.escape(nm) + r"\((?!self\b)", nm + "(self, ", None, 0)
    return r


def literal_not(r, count=None, min_count=0):
    """!"literal" -> 0 (front-end crash otherwise; identical truth value)"""
    return r.sub('!"literal"->0', r'!\s*"(?:[^"\\]|\\.)*"', "0", count, min_count)


def cut_enum(path, name, label, ctx):
    """cut `enum NAME { ... };` verbatim (valid C after comment stripping) and add a typedef"""
    c = cut_function(path, r"enum " + name + r"\s*", label)
    r = Rewriter(c.text, label)
    ctx.add_function(path, label, c.start, c.end, c.text, "M2 (verbatim enum)", [], r.log)
    return r.text + ";\ntypedef enum %s %s;\n" % (name, name)


def cut_inline(ctx, path, anchor, label, header, members=(), calls=(), extra=None, occurrence=1, expect_total=None):
    """cut an inline member function and rewrite it to a C function with explicit self"""
    c = cut_function(path, anchor, label, occurrence=occurrence, expect_total=expect_total)
    r = Rewriter("{" + c.body + "}", label)
    if extra:
        extra(r)
    this_calls(r, calls)
    r.members(list(members))
    ctx.add_function(path, label, c.start, c.end, c.text, "M2", r.dropped, r.log)
    return header + "\n" + r.text + "\n"
