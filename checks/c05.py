"""C05 (PARTIAL, per-mobilizer kernel) - built-in mobilizers realize their documented parameterisation.
Back end B (route M3): calcX_FM & co. of every built-in node class are transliterated from the current tree
(mobilizerlib) and compared with the DOCUMENTED parameterisation written independently in mobilizerlib.Scenario.oracle
(source of truth: Simbody/include/simbody/internal/MobilizedBody_<Type>.h)."""
import os, re, json, math, fractions, z3
from vlib import *
from extract import *
import symlib as S
from symlib import *
import mobilizerlib as M
import c03 as C03

PID = "C05"
META = dict(
    category="other",
    text=("PARTIAL, per-mobilizer kernel of C05. For Pin, Slider, Screw (symbolic pitch), Cylinder, Universal, BendStretch, Planar, Translation, Gimbal, Bushing, "
          "SphericalCoords (4 axis/sign conventions, symbolic offsets), Ball, Free, Ellipsoid (symbolic radii; quaternion and Euler option) the real "
          "performQPrecalculations + calcX_FM are transliterated each run and proved, for ALL coordinate values, equal to the documented parameterisation "
          "(Pin = Rz(q); Slider = x translation; Screw = Rz(q), pitch*q along z; Universal = Rx Ry; Gimbal/Bushing = body-fixed x-y-z (+ p_FM in F); Planar = Rz, (x,y) in F; "
          "BendStretch = Rz then slide along Mx; SphericalCoords = Rz(a)Ry(z), d along Mx|Mz; Ball/Free = rotation of the normalised quaternion or x-y-z Euler angles (+ p_FM); "
          "Ellipsoid: M origin on the ellipsoid surface, (0,0,rz) at q=0); R_FM proper orthonormal; H_FM*u is the velocity of the documented parameterisation under the documented meaning of the speeds "
          "(u = qdot, or u = w_FM (v_FM) in F for Ball/Free/Ellipsoid); a reversed mobilizer gives the inverse transform; setUToFitVelocity / setQToFitTransform "
          "round trips on representable velocities / poses where the fit code is straight-line (branches of the Euler-angle extraction each under its own condition), "
          "for the node's *Impl members and through the six public wrappers of RigidBodyNode.h (setQToFitTransform/Rotation/Translation, setUToFitVelocity/AngularVelocity/"
          "LinearVelocity, transliterated each run) on forward AND reversed nodes: a reversed mobilizer fitted to its own (reversed) velocity H_FM*u gets u back (all "
          "mobilizers but Ellipsoid); angular-only / linear-only requests return exactly the speeds that produce the requested part (linear-only on a reversed node under "
          "the wrapper's own hypothesis of zero angular velocity; Free, Bushing, Translation, Slider, Cylinder, Planar); a reversed mobilizer fitted to its own pose ~X_MF(q) "
          "reproduces that pose (Slider, Translation, Pin, Cylinder, Planar, BendStretch, Gimbal, Bushing, Ball/Free with Euler angles), setQToFitRotation alone reproduces the rotation, "
          "setQToFitTranslation reaches the requested p_FM at unchanged orientation (Free, Bushing, Translation: any p_FM; Planar: in the plane; Slider/Cylinder: on the axis). "
          "Over the reals (z3 QF_NRA). NOT decided: the recursion over the multibody tree and frames X_PF/X_BM (getMobilizerTransform dispatch), "
          "LineOrientation/FreeLine/CantileverFreeBeam/Custom mobilizers, fits through the two-angle extraction (Universal, SphericalCoords), quaternion q-fits, Screw/Ellipsoid q-fits, float rounding."),
    note=("Assumes real arithmetic; trusts z3/cvc5, transliterator + plumbing rules (logged), symlib shim and the Node/Transform plumbing shim of checks/mobilizerlib.py. "
          "The oracle is written from the class documentation, independently of the code; it is cross-checked natively by replay/c05_replay.cpp. Level 'other': per-node kernel."),
    technique="symbolic execution of transliterated real code over the reals + SMT (z3 QF_NRA); dual numbers for the documented velocity; path splitting for the fit branches",
    design_ref="5 C05 (partial kernel added)")

SCENARIOS = C03.SCENARIOS
FULL_ROT = {"Gimbal", "Bushing", "Ball", "Free", "Ellipsoid"}


def proper(B, label, R, side, U, fn):
    Rv = M.vals(R)
    B.prove_eq("%s: R_FM*~R_FM == I" % label, Rv * ~Rv, eye(3), side, U, fn)
    B.prove_eq("%s: det R_FM == 1" % label, S.det3(Rv), 1, side, U, fn)


def documented_velocity(sc):
    """velocity (w,v) in F of the DOCUMENTED parameterisation under the documented meaning of u"""
    u = [D(x) for x in sc.u]
    if sc.name in ("Ball", "Free", "Ellipsoid"):
        w = Vec(u[0], u[1], u[2])                      # u = angular velocity of M in F, expressed in F
        if sc.name == "Ball":
            return w, Vec(0, 0, 0)
        if sc.name == "Free":
            return w, Vec(u[3], u[4], u[5])            # u[3:6] = velocity of Mo in F, expressed in F
        return w, None                                 # Ellipsoid: translation is implicit in the documentation (see ellipsoid_position); C03 ties v_FM to d/dt p_FM
    q1 = [M.with_rate(a, sc.u[i]) for i, a in enumerate(sc.q0)]        # documented: qdot = u
    Rd, pd = sc.oracle(q1)
    W = M.ders(Rd) * ~M.vals(Rd)
    return M.vee(W), M.ders(pd) if isinstance(pd, Vec) else pd


def ellipsoid_position(B, sc, n0, side, U, fn):
    """documented (RigidBodyNodeSpec_Ellipsoid.h class comment / MobilizedBody_Ellipsoid.h): the M origin stays on the surface of the ellipsoid with
    semi-axes `radii` centred at Fo; at q=0 it is (0,0,rz); the surface point is the one whose surface normal is aligned with Mz."""
    L = sc.label
    semi = sc.params["semi"]
    p = M.vals(n0.X_FM.p())
    nz = [val(semi[i]) != 0 for i in range(3)]
    B.prove_eq("%s: M origin lies on the ellipsoid surface: sum (p_i/radius_i)^2 == 1" % L,
               (p[0] / semi[0]) * (p[0] / semi[0]) + (p[1] / semi[1]) * (p[1] / semi[1]) + (p[2] / semi[2]) * (p[2] / semi[2]), 1, side + nz, U, fn)
    if sc.quat:
        ref = [val(sc.q0[0]) > 0, val(sc.q0[1]) == 0, val(sc.q0[2]) == 0, val(sc.q0[3]) == 0]
    else:
        ref = [z3.And(a.c == 1, a.s == 0) for a in sc.q0[:3]]
    B.prove_eq("%s: reference configuration q=0: p_FM == (0,0,rz)" % L, p, Vec(0, 0, semi[2]), side + ref, U, fn)
    # NOT claimed: the class comment of RigidBodyNodeSpec_Ellipsoid.h (not the public documentation) also says the surface normal at the M origin is aligned
    # with Mz; the implemented point p = diag(radii)*Mz is on the surface but its normal diag(1/radii^2)*p is parallel to Mz only for equal radii or principal
    # directions. Recorded as an observation in DESIGN.md (9.3), not as an obligation.


def position(B, sc, side, U, cls):
    L = sc.label
    n0 = sc.pass0(False, velocity=False)
    Rdoc, pdoc = sc.oracle(sc.q0)
    fn = cls + "::performQPrecalculations + calcX_FM"
    B.prove_eq("%s: R_FM(q) == documented rotation" % L, n0.X_FM.R(), Rdoc, side, U, fn)
    if pdoc is None:
        ellipsoid_position(B, sc, n0, side, U, fn)
    else:
        B.prove_eq("%s: p_FM(q) == documented translation" % L, n0.X_FM.p(), pdoc, side, U, fn)
    proper(B, L, n0.X_FM.R(), side, U, fn)
    wd, vd = documented_velocity(sc)
    vside = side + ([sc.c1_nonzero] if (sc.name in ("Ball", "Free", "Ellipsoid") and not sc.quat) else [])
    B.prove_eq("%s: angular part of H_FM*u == angular velocity of the documented parameterisation (documented meaning of u)" % L, n0.V_FM[0], wd, vside, U, cls + "::calcAcrossJointVelocityJacobian")
    if vd is not None:
        B.prove_eq("%s: linear part of H_FM*u == d/dt of the documented p_FM" % L, n0.V_FM[1], vd, vside, U, cls + "::calcAcrossJointVelocityJacobian")
    # reversed mobilizer: the inverse relative motion for the same coordinates. realizePosition's reversed path (X_FM = ~X_MF) is re-enacted by
    # mobilizerlib.realize; the inverse is taken of the forward code transform, which equals the documented one by the obligations above
    r0 = sc.pass0(True, velocity=False)
    Rf, pf = M.vals(n0.X_FM.R()), M.vals(n0.X_FM.p())
    B.prove_eq("%s reversed: R_FM == ~R of the forward (== documented) transform" % L, r0.X_FM.R(), ~Rf, side, U + ".reversed", "RigidBodyNodeSpec::realizePosition (reversed) + " + cls + "::calcX_FM")
    B.prove_eq("%s reversed: p_FM == -~R*p of the forward (== documented) transform" % L, r0.X_FM.p(), -((~Rf) * pf), side, U + ".reversed", "RigidBodyNodeSpec::realizePosition (reversed) + " + cls + "::calcX_FM")
    return n0


def ufit(B, sc, n0, side, U, cls):
    """setUToFitVelocityImpl(H_FM(q)*u*) == u*   (representable velocity reproduces the speeds)"""
    L = sc.label
    V = SpatialVec(M.vals(n0.V_FM[0]), M.vals(n0.V_FM[1]))
    seen, k = set(), 0
    def run():
        u = [D(z3.Real("uold%d" % i)) for i in range(sc.dof)]
        n0.setUToFitVelocityImpl(n0.sbs, n0.q, V, u)
        return u
    for path, script, u in B.run_paths(run, 1):
        key = tuple(str(c) for c in path)
        if key in seen:
            continue
        seen.add(key)
        hyp = ufit_hyps(B, sc, side, path)
        if hyp is None:
            continue
        k += 1
        B.prove_eq("%s: setUToFitVelocity(H_FM*u) == u%s" % (L, " (path %d)" % k if len(path) else ""), Vec(u), Vec([D(x) for x in sc.u]), hyp, U,
                   cls + "::setUToFitAngularVelocityImpl/LinearVelocityImpl")


# ----------------------------------------------------------------------
# the six public fit wrappers of RigidBodyNode.h (they reverse the request for a reversed mobilizer and call the *Impl of the node)
# ----------------------------------------------------------------------
WRAPPERS = {
    "setQToFitTransform": r"void setQToFitTransform\s*\(const SBStateDigest& sbs, const Transform& X_FM, Vector& q\)\s*const\s*",
    "setQToFitRotation": r"void setQToFitRotation\s*\(const SBStateDigest& sbs, const Rotation& R_FM, Vector& q\)\s*const\s*",
    "setQToFitTranslation": r"void setQToFitTranslation\s*\(const SBStateDigest& sbs, const Vec3& p_FM, Vector& q\)\s*const\s*",
    "setUToFitVelocity": r"void setUToFitVelocity\s*\(const SBStateDigest& sbs, const Vector& q, const SpatialVec& V_FM, Vector& u\)\s*const\s*",
    "setUToFitAngularVelocity": r"void setUToFitAngularVelocity\s*\(const SBStateDigest& sbs, const Vector& q, const Vec3& w_FM, Vector& u\)\s*const\s*",
    "setUToFitLinearVelocity": r"void setUToFitLinearVelocity\s*\(const SBStateDigest& sbs, const Vector& q, const Vec3& v_FM, Vector& u\)\s*const\s*",
}
WRAPPER_CALLEES = ["isReversed", "calcAcrossJointTransform", "reverseSpatialVelocity", "reverseAngularVelocity", "setQToFitTransformImpl", "setQToFitRotationImpl",
                   "setQToFitTranslationImpl", "setUToFitVelocityImpl", "setUToFitAngularVelocityImpl", "setUToFitLinearVelocityImpl"]


class FailFast:
    """SMT goals of one (unit, wrapper). After the first goal that is not discharged the remaining goals are not sent to the solver and ONE obligation says so: on a
    changed tree every goal of a broken unit may run into its budget (observed: reversed Gimbal/Bushing/Ball/Free q-fits with a wrong wrapper, 100+ goals x 2 min),
    while the verdict of the run (VIOLATION / UNDECIDED) is already fixed by the first one. On the unchanged tree nothing is skipped."""
    def __init__(self, B, unit, what):
        self.B, self.unit, self.what, self.bad, self.skipped = B, unit, what, None, 0

    def eq(self, name, lhs, rhs, side, function, timeout_ms=20000):
        B = self.B
        second = B.ctx.tier == "thorough" and len(B.ctx.obligations) < 600
        side = B._with_env(side)
        for i, g in S.eq_all(lhs, rhs):
            if self.bad:
                self.skipped += 1
                continue
            nm = "%s[%d]" % (name, i)
            r = S.prove(g, side=list(side), timeout_ms=timeout_ms, name=nm, outdir=os.path.join(B.ctx.out, "smt2"), second_opinion=second)
            B.record(nm, self.unit, r, function, "identity %s" % name)
            if r.status != "discharged":
                self.bad = nm

    def close(self):
        if self.skipped:
            self.B.ctx.add(Obligation("%s:%s: %d further goals not sent to the solver after '%s' was not discharged" % (self.unit, self.what, self.skipped, self.bad[:160]), self.unit, "z3",
                                      "undecided", 0, "skipped after the first goal of this unit that was not discharged (fail-fast)"))


def add_wrappers(B, Node):
    for nm, sig in WRAPPERS.items():
        B.add_method(Node, M.RBN_H, sig, nm, methods=WRAPPER_CALLEES, cxxname="RigidBodyNode::" + nm)


# speeds that carry the angular velocity of the mobilizers for which the translation-only / linear-only wrappers are claimed; the remaining ones carry the translation
ROT_U = {"Free": [0, 1, 2], "Bushing": [0, 1, 2], "Translation": [], "Slider": [], "Cylinder": [0], "Planar": [0]}


def ufit_hyps(B, sc, side, path, linear_branch=True):
    """side conditions of the u-fit round trips (the same for the *Impl and for the wrappers); None = branch not claimed"""
    hyp = side + list(path)
    if sc.name in ("Gimbal", "Bushing"):
        hyp.append(sc.c1_nonzero)
    if sc.name == "Screw" and linear_branch:
        hyp.append(val(sc.params["pitch"]) != 0)      # the fit divides by the pitch (a zero-pitch screw is a Pin; see not_decided)
    if sc.name == "BendStretch" and linear_branch:
        if path and "Not" not in str(path[0])[:4]:
            return None                                # |x| < SignificantReal: the fit leaves u[0] alone by design (singular, documented in the code)
        hyp.append(val(B.ns["SignificantReal"]) > 0)
    return hyp


def wrapped_ufit(B, sc, side, U, cls, rev):
    """u-fit round trips through the public wrappers RigidBodyNode::setUToFitVelocity / AngularVelocity / LinearVelocity for a forward or a reversed node.
    The target velocity is the across-joint velocity V_FM = H_FM*u the REAL realize sequence reports for that node (reversed: calcReverseMobilizerH_FM)."""
    L = sc.label + (" reversed" if rev else "")
    who = "%s through RigidBodyNode::" % L
    n0 = sc.pass0(rev, velocity=False)
    V = SpatialVec(M.vals(n0.V_FM[0]), M.vals(n0.V_FM[1]))
    ustar = [D(x) for x in sc.u]
    def uold():
        return [D(z3.Real("uold%d" % i)) for i in range(sc.dof)]
    # (1) full spatial velocity: the speeds are reproduced
    def run():
        u = uold()
        n0.setUToFitVelocity(n0.sbs, n0.q, V, u)
        return u
    seen, k = set(), 0
    ff = FailFast(B, U, "setUToFitVelocity")
    for path, script, u in B.run_paths(run, 1):
        key = tuple(str(c) for c in path)
        if key in seen:
            continue
        seen.add(key)
        hyp = ufit_hyps(B, sc, side, path)
        if hyp is None:
            continue
        k += 1
        ff.eq("%ssetUToFitVelocity: fit of the node's own V_FM = H_FM*u returns u%s" % (who, " (path %d)" % k if len(path) else ""), Vec(u), Vec(ustar), hyp,
              "RigidBodyNode::setUToFitVelocity + %s::setUToFitAngularVelocityImpl/LinearVelocityImpl" % cls)
    ff.close()
    # (2)/(3) angular-only and linear-only requests. Speeds: umix = u* on the slots the request determines, the current (arbitrary, uold) speeds elsewhere.
    #     Target := the angular / linear part of the node's OWN velocity H_FM*umix (real realize sequence). Obligation: the fit started from uold returns exactly
    #     umix, hence (congruence: realize is a function of (q,u)) the node's velocity after the fit has the requested angular / linear part and the other
    #     speeds are preserved. (The velocity-level goal itself, a 9th-degree identity in the Euler sines/cosines for the reversed Free/Bushing, does not discharge.)
    def partial(fit, part, slots, extra, text, linear):
        def run():
            u = uold()
            umix = [ustar[i] if i in slots else u[i] for i in range(sc.dof)]
            nt = M.realize(sc.node(rev), sc.q0, umix, velocity=False)
            getattr(n0, fit)(n0.sbs, n0.q, M.vals(nt.V_FM[part]), u)
            return u, umix
        seen = set()
        ff = FailFast(B, U, fit)
        for path, script, (u, umix) in B.run_paths(run, 1 if (linear and sc.name == "BendStretch") else 0):
            key = tuple(str(c) for c in path)
            if key in seen:
                continue
            seen.add(key)
            hyp = ufit_hyps(B, sc, side, path, linear_branch=linear)
            if hyp is None:
                continue
            ff.eq("%s%s: %s" % (who, fit, text), Vec(u), Vec(umix), hyp + extra, "RigidBodyNode::%s + %s::%sImpl" % (fit, cls, fit))
        ff.close()
    # which speeds do the angular-only / linear-only fits of this NODE write? Read off one symbolic execution of the *Impl members themselves (not of the wrappers,
    # so that a wrapper that drops its call is not excused): the slots whose content is no longer the old symbol. Guard: together they write every speed.
    def written(impl, target):
        def probe():
            u = uold()
            getattr(n0, impl)(n0.sbs, n0.q, target, u)
            return u
        up = list(B.run_paths(probe, 1))[-1][2]           # BendStretch linear: the non-singular branch (script False) writes both speeds
        return [i for i in range(sc.dof) if not z3.eq(z3.simplify(val(up[i])), val(uold()[i]))]
    wslots = written("setUToFitAngularVelocityImpl", V[0])
    vslots = written("setUToFitLinearVelocityImpl", V[1])
    B.ctx.add(Obligation("guard:%s every speed is written by setUToFitAngularVelocityImpl %s or setUToFitLinearVelocityImpl %s" % (L, wslots, vslots), U, "python",
                         "discharged" if sorted(set(wslots) | set(vslots)) == list(range(sc.dof)) else "undecided", 0, "vacuity guard of the partial-fit obligations"))
    partial("setUToFitAngularVelocity", 0, wslots, [],
            "fit of w_FM := angular part of the node's own H_FM*(u* on the slots %s written by the fit, other speeds arbitrary) returns exactly those speeds" % wslots, False)
    # linear velocity only: mobilizers whose translational speeds can produce any (Slider, Cylinder: axial; Planar: in-plane) linear velocity. The reversed wrapper
    # "has to assume angular velocity is zero" (its own comment): hypothesis rotational speeds == 0 for the reversed node; none for the forward node.
    if sc.name in ROT_U:
        rot = ROT_U[sc.name]
        zero = [val(uold()[i]) == 0 for i in rot] if rev else []
        partial("setUToFitLinearVelocity", 1, [i for i in range(sc.dof) if i not in rot], zero,
                "fit of v_FM := linear part of the node's own H_FM*(rotational speeds %s as they are%s, u* elsewhere) returns exactly those speeds"
                % (rot, ": hypothesis rotational speeds == 0 (angular velocity zero)" if zero and rot else ""), True)


# translation-only q-fit: (mobilizer, option) -> hypothesis on the requested p_FM (components pt0..pt2), None = any target
QTRANS = [("Free", "euler"), ("Bushing", None), ("Translation", None), ("Planar", None), ("Slider", None), ("Cylinder", None), ("Free", "quat")]


def wrapped_qtrans(B, classes, name, opt, U, cls, rev):
    """RigidBodyNode::setQToFitTranslation: from coordinates whose rotational part is arbitrary (q_rot) the fit to a requested p_FM yields coordinates whose pose
    (as the REAL realize sequence reports it for the forward / reversed node) has p_FM == requested and R_FM unchanged. Requested p_FM: arbitrary (Free, Bushing,
    Translation); in the plane of motion, i.e. z == 0 (Planar); along the sliding axis, i.e. (t,0,0) for Slider and (0,0,t) for Cylinder."""
    sc = M.Scenario(B, classes, name, opt)
    who = "%s%s through RigidBodyNode::setQToFitTranslation" % (sc.label, " reversed" if rev else "")
    n0 = sc.pass0(rev, velocity=False)                                   # pose before the fit (rotational part q_rot, translational part arbitrary)
    pt = Vec(*[z3.Real("pt%d" % i) for i in range(3)])
    target = {"Planar": [val(pt[2]) == 0], "Slider": [val(pt[1]) == 0, val(pt[2]) == 0], "Cylinder": [val(pt[0]) == 0, val(pt[1]) == 0]}.get(name, [])
    what = {"Planar": " (target in the plane: z == 0)", "Slider": " (target on the axis: y == z == 0)", "Cylinder": " (target on the axis: x == y == 0)"}.get(name, "")
    def run():
        q = list(sc.q0)
        n0.setQToFitTranslation(n0.sbs, pt, q)
        return q
    (path, script, q), = list(B.run_paths(run, 0))
    assert not path, "unexpected symbolic branch in setQToFitTranslation of %s" % name
    n2 = M.realize(sc.node(rev), q, None)
    hyp = sc.side() + target
    fn = "RigidBodyNode::setQToFitTranslation + %s::setQToFitTranslationImpl" % cls
    ff = FailFast(B, U, "setQToFitTranslation")
    ff.eq("%s: p_FM after the fit == requested p_FM%s" % (who, what), n2.X_FM.p(), pt, hyp, fn)
    ff.eq("%s: R_FM after the fit == R_FM before (rotational coordinates arbitrary)%s" % (who, what), n2.X_FM.R(), M.vals(n0.X_FM.R()), hyp, fn)
    ff.close()
    B.guard_sat("%s%s translation-only fit" % (sc.label, " reversed" if rev else ""), hyp, U)


def qfit(B, classes, name, opt, U, cls, ctx, rev=False, via="setQToFitTransformImpl"):
    """setQToFitTransformImpl(X_FM(q*)) = q with X_FM(q) == X_FM(q*), on every feasible branch of the fit code.
    via = setQToFitTransform / setQToFitRotation: the same round trip through the public wrappers of RigidBodyNode.h on a forward (rev=False) or
    reversed (rev=True) node: the target is the pose X_FM(q*) the REAL realize sequence reports for that node (reversed: ~X_MF), the result is judged
    on the pose realize reports for the fitted coordinates. setQToFitRotation: target R_FM(q*) only, only the rotation is claimed."""
    eps = z3.Real("Eps")
    rot_only = via == "setQToFitRotation"
    wrapped = via != "setQToFitTransformImpl"
    seen, k = set(), 0
    nbr = {"Gimbal": 2, "Bushing": 2, "Pin": 2, "Cylinder": 2, "Planar": 2, "BendStretch": 3, "Ball:euler": 2, "Free:euler": 2, "Ellipsoid:euler": 2,
           "Ball:quat": 4, "Free:quat": 4}.get(name + (":" + opt if opt in ("euler", "quat") else ""), 0)
    state = {}
    ff = FailFast(B, U, via)
    def prove(tag, lhs, rhs, hyp, fn):
        if wrapped:
            ff.eq(tag, lhs, rhs, hyp, fn, timeout_ms=30000)
        else:
            B.prove_eq(tag, lhs, rhs, hyp, U, fn, timeout_ms=60000)
    def run():
        sc = M.Scenario(B, classes, name, opt)
        S.ENV.assume(z3.And(eps > 0, eps < z3.RealVal("1/8")))
        n0 = sc.pass0(rev, velocity=False)
        q = [D(z3.Real("qold%d" % i)) for i in range(n0.nq_in_use())]
        Xt = B.ns["Transform"](n0.X_FM)
        if rot_only:
            n0.setQToFitRotation(n0.sbs, B.ns["Rot"](Xt.R()), q)
        else:
            getattr(n0, via)(n0.sbs, Xt, q)
        state["sc"], state["n0"] = sc, n0
        return q
    for path, script, q in B.run_paths(run, nbr):
        key = tuple(str(c) for c in path)
        if key in seen:
            continue
        seen.add(key)
        sc, n0 = state["sc"], state["n0"]
        hyp = list(path) + list(sc.extra_side)
        singular = any(("Rsum" in str(c) or True) and str(c).startswith("Not") and "Eps" in str(c) for c in path[:1])
        if singular and name != "BendStretch":
            hyp.append(sc.q0[1].c == 0 if len(sc.q0) > 1 and isinstance(sc.q0[1], S.Angle) else z3.BoolVal(False))      # exact gimbal lock only (the band around it is a float matter)
        if name == "BendStretch" and not rot_only:
            hyp.append(val(sc.q0[1]) >= 0)               # the fit returns the polar radius d >= 0; (theta+pi, -d) is the same pose
            if any(str(c).startswith("Not") and "Eps" in str(c) for c in path):
                hyp.append(val(sc.q0[1]) == 0)           # d < 4 Eps branch sets the radius to 0: exact only at d == 0 (the band is a float tolerance)
        s_ = z3.Solver(); s_.set("timeout", 10000); s_.add(*(list(S.ENV.side) + hyp))
        if s_.check() == z3.unsat:
            continue
        k += 1
        n2 = M.realize(sc.node(rev), q, None)
        sing = " (exact singularity)" if singular and name != "BendStretch" else ""
        if not wrapped:
            tag = "%s: X_FM(setQToFitTransform(X_FM(q))) == X_FM(q), branch %d%s" % (sc.label, k, sing)
            fn = cls + "::setQToFitRotationImpl/TranslationImpl"
        else:
            who = "%s%s through RigidBodyNode::%s" % (sc.label, " reversed" if rev else "", via)
            tag = ("%s: R_FM(setQToFitRotation(R_FM(q))) == R_FM(q), branch %d%s" if rot_only else "%s: X_FM(setQToFitTransform(X_FM(q))) == X_FM(q), branch %d%s") % (who, k, sing)
            fn = "RigidBodyNode::%s + %s::setQToFitRotationImpl%s" % (via, cls, "" if rot_only else "/TranslationImpl")
        prove(tag + " [R]", n2.X_FM.R(), M.vals(n0.X_FM.R()), hyp, fn)
        if rot_only:
            continue
        ts = TSLOTS.get(name) if (wrapped and rev) else None
        if ts is None:
            prove(tag + " [p]", n2.X_FM.p(), M.vals(n0.X_FM.p()), hyp, fn)
        else:
            # reversed Free / Bushing: the target handed to the *Impl is ~(~X_MF), whose translation is R~R p as a polynomial; the direct [p] goal (the Euler-angle
            # extraction and R~R == 1 in one goal) does not discharge (85-160 s, unknown). Cut on the translational coordinates instead:
            #   [t]   the translational coordinates after the fit are those of q                                     (SMT)
            #   [p|t] p_FM(rotational coordinates after the fit, translational coordinates of q) == p_FM(q)          (SMT)
            # => p_FM(coordinates after the fit) == p_FM(q): substitution of [t] in the argument of the realize sequence (congruence; listed under assumptions)
            prove(tag + " [t] translational coordinates after the fit == translational coordinates of q", Vec([q[i] for i in ts]), Vec([sc.q0[i] for i in ts]), hyp, fn)
            n3 = M.realize(sc.node(rev), [sc.q0[i] if i in ts else q[i] for i in range(len(q))], None)
            prove(tag + " [p|t] p_FM(rotational coordinates after the fit, translational coordinates of q) == p_FM(q)", n3.X_FM.p(), M.vals(n0.X_FM.p()), hyp, fn)
    ff.close()
    return k


TSLOTS = {"Free": [3, 4, 5], "Bushing": [3, 4, 5]}      # translational coordinate slots (Euler-angle form) of the mobilizers whose reversed transform fit is proved by the cut [t], [p|t]
QFIT = [("Slider", None, 1), ("Translation", None, 1), ("Pin", None, 1), ("Cylinder", None, 1), ("Planar", None, 1), ("BendStretch", None, 1),
        ("Gimbal", None, 3), ("Bushing", None, 3), ("Ball", "euler", 3), ("Free", "euler", 3)]
# quaternion q-fits (Ball/Free[quat]: setQToFitRotation through convertRotationToQuaternion, 4 sqrt branches) are NOT claimed in either tier: 77 min and some
# goals undecided in the thorough tier (coordinator's run); the converter round trip itself is proved in C27. See ctx.not_decided.


def main(ctx):
    ctx.level = "other"
    names = sorted(set(n for n, _ in SCENARIOS))
    try:
        B, classes = M.build(ctx, names)
        Node = B.ns["Node"]
        B.add_method(Node, M.RBNS_H, r"void setQToFitTransformImpl\(const SBStateDigest& sbs, const Transform& X_FM,\s*Vector& q\) const override\s*", "setQToFitTransformImpl",
                     methods=["setQToFitRotationImpl", "setQToFitTranslationImpl"], cxxname="RigidBodyNodeSpec<dof>::setQToFitTransformImpl (default)")
        B.add_method(Node, M.RBNS_H, r"void setUToFitVelocityImpl\(const SBStateDigest& sbs, const Vector& q,\s*const SpatialVec& V_FM, Vector& u\) const override\s*", "setUToFitVelocityImpl",
                     methods=["setUToFitAngularVelocityImpl", "setUToFitLinearVelocityImpl"], cxxname="RigidBodyNodeSpec<dof>::setUToFitVelocityImpl (default)")
        add_wrappers(B, Node)
        B.dump_sources()
    except ExtractionError as e:
        ctx.undecide("extraction: %s" % e)
        return ctx.finish()
    only = os.environ.get("VERIF_ONLY")
    errs = (AssertionError, TypeError, AttributeError, IndexError, KeyError)
    for name, opt in SCENARIOS:
        key = name + (":" + opt if opt else "")
        if only and not re.search(only, key):
            continue
        cls = classes[name].__name__
        U = "mob." + key
        try:
            sc = M.Scenario(B, classes, name, opt)
            side = sc.side()
            n0 = position(B, sc, side, U, cls)
            s = z3.Solver(); s.add(*side)
            ctx.add(Obligation("guard:%s side conditions satisfiable" % key, "guards", "z3", "discharged" if s.check() == z3.sat else "undecided", 0, "reachability guard"))
            if name != "Ellipsoid":
                ufit(B, sc, n0, side, U, cls)
                for rev in (False, True):
                    wrapped_ufit(B, sc, side, U + (".reversed" if rev else "") + ".wrap", cls, rev)
        except ExtractionError as e:
            ctx.undecide("%s: %s" % (key, e))
        except errs as e:
            ctx.undecide("%s: symbolic execution of the transliterated code failed: %r" % (key, e))
    for name, opt, minpaths in QFIT:
        key = name + (":" + opt if opt else "")
        if only and not re.search(only, key + ".qfit"):
            continue
        try:
            k = qfit(B, classes, name, opt, "mob." + key + ".qfit", classes[name].__name__, ctx)
            if k < minpaths:
                ctx.undecide("%s: only %d feasible branches of setQToFitTransform explored, expected >= %d" % (key, k, minpaths))
        except ExtractionError as e:
            ctx.undecide("%s qfit: %s" % (key, e))
        except errs as e:
            ctx.undecide("%s qfit: symbolic execution of the transliterated code failed: %r" % (key, e))
    # the same q-fit round trips through the public wrappers (forward and reversed nodes), the rotation-only and the translation-only wrappers
    for name, opt, minpaths in QFIT:
        key = name + (":" + opt if opt else "")
        for rev in (False, True):
            for via in ("setQToFitTransform", "setQToFitRotation"):
                unit = "mob.%s%s.wrap.%s" % (key, ".reversed" if rev else "", "qfit" if via == "setQToFitTransform" else "rfit")
                if only and not re.search(only, unit):
                    continue
                try:
                    k = qfit(B, classes, name, opt, unit, classes[name].__name__, ctx, rev=rev, via=via)
                    need = minpaths                     # the branches are those of the rotation extraction (BendStretch: +1 infeasible-for-d>0 branch of the translation fit)
                    if k < need:
                        ctx.undecide("%s: only %d feasible branches of %s explored, expected >= %d" % (unit, k, via, need))
                except ExtractionError as e:
                    ctx.undecide("%s: %s" % (unit, e))
                except errs as e:
                    ctx.undecide("%s: symbolic execution of the transliterated code failed: %r" % (unit, e))
    for name, opt in QTRANS:
        key = name + (":" + opt if opt else "")
        for rev in (False, True):
            unit = "mob.%s%s.wrap.tfit" % (key, ".reversed" if rev else "")
            if only and not re.search(only, unit):
                continue
            try:
                wrapped_qtrans(B, classes, name, opt, unit, classes[name].__name__, rev)
            except ExtractionError as e:
                ctx.undecide("%s: %s" % (unit, e))
            except errs as e:
                ctx.undecide("%s: symbolic execution of the transliterated code failed: %r" % (unit, e))
    ctx.units.append(dict(unit="mob.*", backend="z3 QF_NRA", obligations=len(ctx.obligations)))
    ctx.checker_cmds.append("z3 (python API, QF_NRA, 20-60 s/obligation); SMT-LIB files in out/C05/smt2; cvc5 re-check in thorough tier")
    ctx.trust("z3 4.x / cvc5 1.0 (QF_NRA)")
    ctx.trust("tools/translit.py rule table + checks/mobilizerlib.py plumbing rules (per-function log in extraction_report.json), tools/symlib.py Vec/Mat shim")
    ctx.assume("machine arithmetic treated as mathematical (reals): float rounding is not covered; 0 < Eps < 1/8 in the fit branches")
    ctx.assume("symlib shim gives SimTK Vec/Mat/Row/SpatialVec operators their textbook meaning; Transform = (R,p), ~Transform = (~R, -~R p)")
    ctx.assume("cos/sin enter only through (c,s) with c^2+s^2=1; sqrt(e) = r with r>=0, r^2=e; atan2(y,x) through its defining equations (rho>0, c*rho=x, s*rho=y)")
    ctx.assume("the oracle is the class documentation of MobilizedBody_<Type>.h: elementary rotations Rx,Ry,Rz, body-fixed = left-to-right product, "
               "quaternion rotation of the normalised quaternion (homogeneous form / |q|^2), Ellipsoid: M origin on the surface of the ellipsoid (RigidBodyNodeSpec_Ellipsoid.h class comment)")
    ctx.assume("congruence steps (not SMT obligations): the realize sequence is a function of (q,u), so 'the fit returns exactly the speeds umix' gives 'the velocity after the fit is H_FM*umix', "
               "whose angular / linear part is the request by construction; likewise [t] (translational coordinates after the fit == those of q) and [p|t] give p_FM(fitted coordinates) == p_FM(q) "
               "for the reversed Free/Bushing transform fit")
    ctx.assume("RigidBodyNode::calcAcrossJointTransform(sbs, q, X) == performQPrecalculations + calcX_FM of the same node on the given q with a local pool (mobilizerlib.Node shim of RigidBodyNode.h:226-251)")
    ctx.assume("state plumbing (mobilizerlib.Node/Sbs/realize) as in C03: cache accessors hand back what the realize sequence stored; slot/pointer views per plumbing rule log")
    ctx.not_decided += ["recursion over the multibody tree and the frames X_PF, X_BM; MobilizedBody::getMobilizerTransform/setQToFit*/setUToFit* dispatch (MobilizedBody.cpp)",
                        "LineOrientation, FreeLine, CantileverFreeBeam, Weld, Custom/FunctionBased mobilizers",
                        "setQToFitRotation of Universal and SphericalCoords (two-angle extraction: sqrt-averaged estimates, goals time out as in C27), Screw (angle vs p/pitch), Ellipsoid fits",
                        "fits to NON-representable targets (documented 'closest' element), angle extraction inside the tolerance band around gimbal lock",
                        "quaternion q-fits (setQToFitRotation through convertRotationToQuaternion: 4 sqrt branches; the converter round trip itself is proved in C27), forward and reversed, both tiers "
                        "(the translation-only fit of Free[quat] is covered: it does not go through the converter)",
                        "Screw with pitch == 0: setQToFitTranslation/setUToFitLinearVelocity divide by the pitch (0/0); the round trip is proved for pitch != 0 only",
                        "SphericalCoords setQToFitTranslation (q-fit): fixed in the tree together with the u-fits (finding F15) but only the u-fit round trip is under obligation (the q-fit needs the two-angle extraction)",
                        "Ellipsoid 'surface normal at the M origin is aligned with Mz' (implementation class comment only, not the public documentation): does not hold for unequal radii; observation, not claimed",
                        "Ellipsoid setQToFitTranslation/setUToFitLinearVelocity are documented direction-only approximations (exact for a sphere): representable poses are not reproduced for unequal radii (observed natively, not claimed)",
                        "velocity-level form of the angular-only / linear-only fits ('the angular part of H_FM*u after the fit == w_FM') as ONE SMT goal: for the reversed Free it is a 9th-degree "
                        "identity in the Euler sines/cosines and runs into the budget; proved instead: the fit returns exactly the speeds umix whose velocity H_FM*umix defines the request",
                        "p_FM of the reversed Free[euler]/Bushing transform fit as ONE SMT goal (85-160 s, unknown): proved by the cut [t] (translational coordinates reproduced) + [p|t]",
                        "linear-only / translation-only wrappers for BendStretch, Screw, SphericalCoords, Ellipsoid (translation coupled to the rotational coordinates); linear-only fit of a reversed "
                        "mobilizer with NON-zero angular velocity (the wrapper itself assumes w_FM = 0, a documented TODO in RigidBodyNode.h)",
                        "RigidBodyNode::calcAcrossJointTransform (operator form used by the reversed wrappers; new[]/delete[] of the q pool) is plumbing: modelled by mobilizerlib.Node.calcAcrossJointTransform "
                        "(performQPrecalculations + calcX_FM of the node on a local pool)",
                        "float rounding; |quat| = 0"]
    ctx.explanation = "%d functions transliterated; %d obligations over %d mobilizer scenarios." % (len(ctx.functions), len(ctx.obligations), len(SCENARIOS))
    def rep(ob):
        n = ob.name
        checks = ("W" if "setUToFitAngularVelocity" in n else "L" if "setUToFitLinearVelocity" in n else "R" if "setQToFitRotation" in n else "T" if "setQToFitTranslation" in n
                  else "U" if "setUToFit" in n else "F" if "setQToFit" in n else "XVAQ")
        return C03.replay(ctx, ob, checks=checks, extra=("pt", "uold", "qold"))
    return ctx.finish(replayer=rep)
