"""Shared builder for the per-node O(n) dynamics kernels of C01 / C02 (back end B, route M3).

Cut from the CURRENT tree and transliterated each run (tools/translit.py + the plumbing rules below, all logged):
  * RigidBodyNodeSpec<dof,...> (Simbody/src/RigidBodyNodeSpec.cpp): realizeArticulatedBodyInertiasInward, calcUDotPass1Inward,
    calcUDotPass2Outward, multiplyByMInvPass1Inward, multiplyByMInvPass2Outward, calcBodyAccelerationsFromUdotOutward,
    calcInverseDynamicsPass2Inward, multiplyByMPass1Outward, multiplyByMPass2Inward, multiplyBySystemJacobian[Transpose],
    calcEquivalentJointForces, calcParentToChildVelocityJacobianInGround[Dot] (with the template flags noR_FM/noX_MB/noR_PF as node attributes);
    realizeVelocity (RigidBodyNodeSpec.h)
  * RigidBodyNode (RigidBodyNode.cpp / .h): calcJointIndependentKinematicsVel, calcKineticEnergy, realizeArticulatedBodyVelocityCache,
    calcCompositeBodyInertiasInward, getCB_G, getUnitInertia_OB_G, getV_GP
  * RBGroundBody (RigidBodyNode_Weld.cpp): the Ground versions of all the passes
  * the level-by-level driver loops of SimbodyMatterSubsystemRep.cpp: realizeArticulatedBodyInertias, realizeArticulatedBodyVelocity,
    realizeVelocityKinematics, calcTreeAccelerations, multiplyByMInv, multiplyByM, calcTreeResidualForces, calcKineticEnergy,
    calcCompositeBodyInertias, multiplyBySystemJacobian[Transpose] (loops + pointer bindings + temporaries are kept,
    State/cache/stage plumbing is dropped and logged)
  * PhiMatrix operators (SpatialAlgebra.h), SpatialInertia_/UnitInertia_/Inertia_/ArticulatedInertia_ members (MassProperties.h/.cpp),
    Mat<N,N>::invert() for N = 1,2,3 (SmallMatrixMixed.h inverse()/det())

What is NOT taken from the code (thin plumbing shim = assumed contract, listed in the evidence): cache accessors get*/upd* (a per-node store),
fromU/toU/array-slot reference views (rewritten to explicit reads/writes by logged rules), constructors / copy assignment of the small classes,
Mat<2,dof,Vec3> (HType) row/column/transposed products (mobilizerlib.HMat), children/parent/level arrays."""
import os, re, z3, fractions, functools, time
from vlib import *
import extract as X
from extract import *
import symlib as S
from symlib import *
from blib import BUnit, _lift
from translit import to_python, params_of, Translit
import mobilizerlib as M
from mobilizerlib import HMat, HRow, HMatT

SRC = os.path.join(REPO, "Simbody/src")
INC = os.path.join(REPO, "SimTKcommon/Mechanics/include/SimTKcommon/internal")
SPA_H = os.path.join(INC, "SpatialAlgebra.h")
MP_H = os.path.join(INC, "MassProperties.h")
MP_CPP = os.path.join(REPO, "SimTKcommon/Mechanics/src/MassProperties.cpp")
SMM_H = os.path.join(REPO, "SimTKcommon/SmallMatrix/include/SimTKcommon/internal/SmallMatrixMixed.h")
RBN_H = os.path.join(SRC, "RigidBodyNode.h")
RBN_CPP = os.path.join(SRC, "RigidBodyNode.cpp")
RBNS_H = os.path.join(SRC, "RigidBodyNodeSpec.h")
RBNS_CPP = os.path.join(SRC, "RigidBodyNodeSpec.cpp")
WELD_CPP = os.path.join(SRC, "RigidBodyNode_Weld.cpp")
SMS_CPP = os.path.join(SRC, "SimbodyMatterSubsystemRep.cpp")

# extract.blank_comments is pure and slow (char loop over a 6500-line file per cut): memoise locally
if not hasattr(X.blank_comments, "cache_info"):
    _bc = functools.lru_cache(maxsize=64)(X.blank_comments)
    X.blank_comments = _bc
    import translit as _T
    _T.blank_comments = _bc


class NotModelled(Exception):
    pass


# ----------------------------------------------------------------------
# typed arrays (C++ arrays of SpatialVec / Real / SpatialInertia seen through raw pointers)
# ----------------------------------------------------------------------
def sv_fill(v):
    """SpatialVec = scalar fills every element (Vec<2,Vec3>::operator=(scalar))"""
    if isinstance(v, SpatialVec):
        return SpatialVec(Vec(list(v[0].e)), Vec(list(v[1].e)))
    if S.is_scalar(v):
        return SpatialVec(Vec([v] * 3), Vec([v] * 3))
    raise TypeError("SpatialVec slot assigned a %r" % (v,))


class Arr(list):
    """C++ array / Array_<T> / Vector_<T> seen through a pointer to its first element; assignment to a slot copies (value semantics)"""
    conv = staticmethod(lambda v: v)
    def __init__(self, n_or_items=0):
        if isinstance(n_or_items, int):
            list.__init__(self, [None] * n_or_items)
        else:
            list.__init__(self, [self.conv(x) for x in n_or_items])
    def __setitem__(self, i, v):
        list.__setitem__(self, int(i), self.conv(v))
    def __getitem__(self, i):
        if isinstance(i, slice):
            return list.__getitem__(self, i)
        v = list.__getitem__(self, int(i))
        assert v is not None, "array slot %d read before it was written" % int(i)
        return v
    def begin(self): return self
    def cbegin(self): return self
    def size(self): return len(self)


class SVArr(Arr):
    conv = staticmethod(sv_fill)


class RArr(Arr):
    conv = staticmethod(lambda v: D.lift(v))


class View:
    """&p[k]: pointer into an array"""
    def __init__(self, base, off): self.base, self.off = base, int(off)
    def __getitem__(self, i):
        if isinstance(i, slice):
            return [self.base[self.off + k] for k in range(i.start or 0, i.stop)]
        return self.base[self.off + int(i)]
    def __setitem__(self, i, v): self.base[self.off + int(i)] = v
    def __len__(self): return len(self.base) - self.off


class CList(list):
    def size(self): return len(self)


# ----------------------------------------------------------------------
# plumbing rewrites of the node members (regex rules with hit counts)
# ----------------------------------------------------------------------
SLOT_RHS = r"(?:\w+\[[^\[\];]+\]|(?:from|to)U\(\w+\)|(?:from|to)B\(\w+\)|updTau\([^();]*\)|Vec<dof>::updAs\(&\w+\[[^\[\];]+\]\))"
OBJ_TYPES = r"(?:ArticulatedInertia|HType|Mat<dof,dof>|Mat<2,dof,Vec3>)"


class DPlumb(M.Plumb):
    def body(self, b, refparams=()):
        b = strip_comments(b)
        # (1) references to array slots / fromU / toU views: inlined textually (every use re-reads, every assignment writes through)
        for m in list(re.finditer(r"(?:const\s+)?(?:SpatialVec|Vec<dof>|Vec3|SpatialInertia)\s*&\s*(\w+)\s*=\s*(" + SLOT_RHS + r")\s*;", b)):
            nm, tgt = m.group(1), m.group(2)
            self.hit("reference to an array slot / fromU / toU view inlined (name -> view expression)", m.group(0))
            b = b.replace(m.group(0), "", 1)
            b = re.sub(r"(?<![\w.>])" + nm + r"\b(?!\s*\()", lambda _m: tgt, b)
        # (2) non-const references to cache objects: whole-object assignment writes through
        for m in list(re.finditer(r"(?<!const )\b" + OBJ_TYPES + r"\s*&\s*(\w+)\s*=\s*(upd\w+\([^();]*\))\s*;", b)):
            nm = m.group(1)
            self.hit("reference to a cache object: `%s = e` -> `%s.assign(e)`" % (nm, nm), m.group(0))
            b = b.replace(m.group(0), "\x00DECL%s\x00" % nm, 1)
            b = re.sub(r"(?<![\w.>])" + nm + r"\s*=(?!=)\s*([^;]*);", nm + r".assign(\1);", b)
            b = b.replace("\x00DECL%s\x00" % nm, m.group(0))
        # (2b) HType& reference parameters and local HType variables: whole-object and row writes
        decls = {}
        for m in list(re.finditer(r"\bHType\s+(\w+)\s*;", b)):
            self.hit("local HType declaration -> HType(dof)", m.group(0))
            decls["\x00HT%s\x00" % m.group(1)] = "HType %s = HType(self.dof);" % m.group(1)
            b = b.replace(m.group(0), "\x00HT%s\x00" % m.group(1), 1)
            refparams = tuple(refparams) + (m.group(1),)
        for nm in refparams:
            b = self.sub("HType row write %s[i] = e -> SETROW(%s,i,e)" % (nm, nm), r"(?<![\w.>])" + nm + r"\[(\d)\]\s*=(?!=)\s*([^;]*);", "SETROW(" + nm + r", \1, \2);", b)
            b = self.sub("reference-parameter write %s = e -> %s.assign(e)" % (nm, nm), r"(?<![\w.>])" + nm + r"\s*=(?!=)\s*([^;]*);", nm + r".assign(\1);", b)
        for k_, v_ in decls.items():
            b = b.replace(k_, v_)
        # (3) writes through views / accessors returning references
        b = self.sub("view write toU(x) = e -> SETU(self,x,e)", r"(?<![\w.>])toU\((\w+)\)\s*=(?!=)\s*([^;]*);", r"SETU(self, \1, \2);", b)
        b = self.sub("view write Vec<dof>::updAs(&x[k]) = e -> SETAS(x,k,dof,e)", r"Vec<dof>::updAs\(&(\w+)\[([^\[\];]+)\]\)\s*=(?!=)\s*([^;]*);", r"SETAS(\1, \2, self.dof, \3);", b)
        b = self.sub("view write updTau(ic,x) = e -> SETTAU(self,x,e)", r"(?<![\w.>])updTau\((\w+)\s*,\s*(\w+)\)\s*=(?!=)\s*([^;]*);", r"SETTAU(self, \2, \3);", b)
        b = self.sub("view write toB(x) = e -> x[nodeNum] = e", r"(?<![\w.>])toB\((\w+)\)\s*=(?!=)", r"\1[nodeNum] =", b)
        b = self.sub("view update toB(x) += e -> x[nodeNum] += e", r"(?<![\w.>])toB\((\w+)\)\s*\+=", r"\1[nodeNum] +=", b)
        b = self.sub("accessor write updX(c) = e -> self.setX(c,e)", r"(?<![\w.>])upd(\w+)\(([^();]*)\)\s*=(?!=)\s*([^;]*);", r"self.set\1(\2, \3);", b)
        # (4) addresses of array elements
        b = self.sub("&x[k] -> PTR(x,k)", r"&\s*((?:\w+\.)?\w+(?:\(\))?)\[([^\[\];]+)\]", r"PTR(\1, \2)", b)
        b = self.sub("Vec<dof> -> VecD", r"\bVec<dof>", "VecD", b)
        b = self.sub("this->member -> self.member", r"\bthis->", "self.", b)
        b = self.sub("identifier 'in' -> 'in_' (python keyword)", r"(?<![\w.])in\b(?!_)", "in_", b)
        return b


NODE_MEMBERS = ["nodeNum", "children", "parent", "uIndex", "qIndex"]
NODE_METHODS = ["fromU", "toU", "fromB", "toB", "isUDotKnown", "isUDotKnownToBeZero", "isReversed", "getNodeNum", "getUIndex", "getQIndex", "getMass",
                "getCB_G", "getUnitInertia_OB_G", "getV_GP", "calcQDot", "calcReverseMobilizerHDot_FM", "calcAcrossJointVelocityJacobianDot",
                "calcParentToChildVelocityJacobianInGroundDot", "calcJointIndependentKinematicsVel"]
FIELDS = ["H", "Phi", "Mk_G", "P", "PPlus", "G", "D", "DI", "V_GB", "V_PB_G", "VD_PB_G", "GyroscopicForce", "MobilizerCoriolisAcceleration",
          "TotalCoriolisAcceleration", "TotalCentrifugalForces", "ArticulatedBodyCentrifugalForces", "V_FM", "H_FM", "HDot_FM", "HDot", "Y"]
NODE_METHODS += ["get" + f for f in FIELDS] + ["upd" + f for f in FIELDS] + ["set" + f for f in FIELDS]


class DUnit(M.MUnit):
    """MUnit with the dynamics plumbing rules"""
    def add_method(self, cls, path, anchor, name, members=(), methods=(), occurrence=1, extra_pre=None, cxxname=None, keep_asserts=False, pyname=None, plumb=True):
        if not plumb:
            return M.MUnit.add_method(self, cls, path, anchor, name, members, methods, occurrence, extra_pre, cxxname, keep_asserts, pyname)
        c = cut_function(path, anchor, name, occurrence=occurrence)
        P = (plumb if isinstance(plumb, type) else DPlumb)()
        hdr = P.header(c.header)
        refs = [r for r in M.ref_params(c.header) if re.search(r"HType\s*&\s*%s\b" % r, strip_comments(c.header))]
        def pre(body):
            body = P.body(body, refs)
            if extra_pre:
                body = extra_pre(body)
            for m in members:
                body = re.sub(r"(?<![\w.>])" + re.escape(m) + r"\b", "self." + m, body)
            for f in methods:
                body = re.sub(r"(?<![\w.>:])" + re.escape(f) + r"\s*\(", "self." + f + "(", body)
            return body
        c2 = Cut(c.path, c.name, c.text, c.start, c.end, hdr, c.body)
        names = params_of(hdr)
        arity = len(names) + 1
        pyname = pyname or name
        full = "%s__%s__%d" % (cls.__name__, pyname, arity)
        src, log, dropped = to_python(c2, full, self_param=True, pre=pre, keep_asserts=keep_asserts)
        log = log + list(P.log.values()) + [dict(rule="implicit-this (members: %s; methods: %s)" % (",".join(members), ",".join(m for m in methods if not re.match(r"(get|upd|set)[A-Z]", m)) + ",get*/upd*/set* cache accessors"), hits=1, examples=[])]
        self.sources[full] = src
        try:
            exec(compile(src, "<translit:%s>" % full, "exec"), self.ns)
        except SyntaxError as e:
            raise ExtractionError("transliteration of %s is not valid Python: %s\n%s" % (full, e, src))
        fn = self.ns[full]
        def dispatch(self_, *a, _f=fn, _n=arity - 1, _nm=pyname):
            a = tuple(_lift(x) for x in a)
            if len(a) != _n:
                raise ExtractionError("%s called with %d args, transliterated overload has %d" % (_nm, len(a), _n))
            return _f(self_, *a)
        setattr(cls, pyname, dispatch)
        self.ctx.add_function(path, (cxxname or cls.__name__ + "::" + name) + "/%d" % (arity - 1), c.start, c.end, c.text,
                              "M3 (transliteration to symbolic Python; rules logged)", dropped, log)


def occurrence_in_class(path, classname, anchor):
    """1-based index (among DEFINITIONS matching anchor in the file) of the one that lies inside `class classname {...}`"""
    src = open(path).read()
    blank = blank_comments(src)
    mc = re.search(r"\bclass\s+%s\b[^;{]*\{" % classname, blank)
    if not mc:
        raise ExtractionError("%s: class %s not found" % (path, classname))
    lo, hi = mc.end() - 1, match_brace(blank, mc.end() - 1)
    k, found = 0, None
    for m in re.finditer(anchor, blank):
        ob = blank.find("{", m.end() - 1 if blank[m.end() - 1] == "{" else m.end())
        semi = blank.find(";", m.end())
        if ob < 0 or (0 <= semi < ob):
            continue
        k += 1
        if lo < m.start() < hi:
            if found is not None:
                raise ExtractionError("%s: %s has two definitions matching /%s/" % (path, classname, anchor))
            found = k
    if found is None:
        raise ExtractionError("%s: no definition matching /%s/ inside class %s" % (path, anchor, classname))
    return found


# ----------------------------------------------------------------------
# drivers of SimbodyMatterSubsystemRep.cpp: loops, pointer bindings and temporaries kept; State/cache/stage plumbing dropped (logged)
# ----------------------------------------------------------------------
DRIVER_CALLS = ["realizeArticulatedBodyInertias", "realizeArticulatedBodyVelocity"]


def add_driver(B, cls, anchor, name, extra_keep=()):
    c = cut_function(SMS_CPP, anchor, name)
    T = Translit(name)
    P = M.Plumb()
    body = strip_comments(c.body)
    kept, dropped = [], []
    rest = body
    while rest.strip():
        st, rest = T.one(rest)
        s = " ".join(st.split())
        if not s or s == ";":
            continue
        if re.match(r"for\s*\(", s):
            # descending level loop -> ascending loop with reflected index
            m = re.match(r"for\s*\(\s*int\s+(\w+)\s*=\s*(.+?)\s*-\s*1\s*;\s*\1\s*>=\s*0\s*;\s*(?:\1\s*--|--\s*\1)\s*\)\s*(.*)$", s, re.S)
            if m:
                P.hit("descending loop `for (int i=N-1; i>=0; i--) S` -> `for (int i_=0; i_<N; ++i_) { int i = N-1-i_; S }`", s[:100])
                v, n, inner = m.group(1), m.group(2), m.group(3)
                s = "for (int %s_=0; %s_ < %s; ++%s_) { int %s = %s-1-%s_; %s }" % (v, v, n, v, v, n, v, inner)
            kept.append(s)
            continue
        m = re.match(r"(\w+)\s*\(\s*(?:s|state)\s*\)\s*;$", s)
        if m and m.group(1) in DRIVER_CALLS:
            P.hit("call of another driver kept", s)
            kept.append("self.%s(s);" % m.group(1))
            continue
        # pointer bindings: T* p = X.size() ? &X[0] : nullptr;   T* p = &X[0];   T* p = X.begin();   const Vector* p = &x;
        m = re.match(r"(?:const\s+)?(?:Real|SpatialVec|Vector|Vector_<SpatialVec>)\s*\*\s*(\w+)\s*=\s*(.+);$", s)
        if m:
            rhs = m.group(2).strip()
            # the array bound is the one whose address is taken (not the one whose size() guards the conditional)
            mm = (re.fullmatch(r"\w+\.size\(\)\s*\?\s*&\s*(\w+)\[0\]\s*:\s*(?:nullptr|NULL|0)", rhs) or re.fullmatch(r"&\s*(\w+)\[0\]", rhs)
                  or re.fullmatch(r"(\w+)\.c?begin\(\)", rhs) or re.fullmatch(r"&\s*(\w+)", rhs)
                  or re.fullmatch(r"\w+->size\(\)\s*\?\s*&\s*\(\*(\w+)\)\[0\]\s*:\s*(?:nullptr|NULL|0)", rhs) or re.fullmatch(r"&\s*\(\*(\w+)\)\[0\]", rhs))
            if mm:
                P.hit("pointer to the first element of an array -> the array", s)
                kept.append("%s = %s;" % (m.group(1), mm.group(1)))
                continue
        # temporaries
        m = re.match(r"(Array_|Vector_)<\s*(SpatialVec|Real)\s*>\s+(.+);$", s)
        if m:
            ok = True
            outl = []
            for piece in re.split(r"\s*,\s*(?![^()]*\))", m.group(3)):
                pm = re.fullmatch(r"(\w+)\s*\(\s*([\w()]+)\s*\)", piece.strip())
                if not pm:
                    ok = False
                    break
                outl.append("%s = %s(%s, \"%s\");" % (pm.group(1), "NEW_SVARR" if m.group(2) == "SpatialVec" else "NEW_RARR", re.sub(r"(?<![\w.])(get\w+)\(", r"self.\1(", pm.group(2)), pm.group(1)))
            if ok:
                P.hit("temporary array declaration kept", s)
                kept += outl
                continue
        m = re.match(r"const int (\w+)\s*=\s*(getNumBodies|getNU|getTotalDOF)\((?:s)?\)\s*;$", s)
        if m:
            P.hit("size query kept", s)
            kept.append("%s = self.%s();" % (m.group(1), m.group(2)))
            continue
        m = re.match(r"Real (\w+)\s*=\s*0\s*;$", s)
        if m:
            kept.append(s)
            continue
        if re.match(r"return\s+\w+\s*;$", s) and not re.match(r"return\s*;", s):
            kept.append(s)
            continue
        if any(re.match(k, s) for k in extra_keep):
            kept.append(s)
            continue
        dropped.append(dict(rule="State / cache / stage / size plumbing of the driver dropped (cache objects are opaque tokens here; zero-length and early-return conveniences not modelled)", text=s[:200]))
    nloops = len([k for k in kept if k.startswith("for")])
    if nloops == 0:
        raise ExtractionError("%s: no level loop found in the driver" % name)
    text = "\n".join(kept)
    text = P.sub("&p[k] -> PTR(p,k)", r"&\s*(\w+)\[([^\[\];]+)\]", r"PTR(\1, \2)", text)
    text = P.sub("rbNodeLevels -> self.rbNodeLevels", r"(?<![\w.>])rbNodeLevels\b", "self.rbNodeLevels", text)
    text = P.sub("const RigidBodyNode& node = *p -> node = p", r"const RigidBodyNode&\s*(\w+)\s*=\s*\*\s*", r"RigidBodyNodeP \1 = ", text)
    names = params_of(P.header(c.header))
    full = "%s__%s__%d" % (cls.__name__, name, len(names) + 1)
    c2 = Cut(c.path, c.name, c.text, c.start, c.end, P.header(c.header), text)
    src, log, dr2 = to_python(c2, full, self_param=True)
    B.sources[full] = src
    try:
        exec(compile(src, "<translit:%s>" % full, "exec"), B.ns)
    except SyntaxError as e:
        raise ExtractionError("transliteration of driver %s is not valid Python: %s\n%s" % (name, e, src))
    fn = B.ns[full]
    setattr(cls, name, lambda self_, *a, _f=fn: _f(self_, *a))
    B.ctx.add_function(SMS_CPP, "SimbodyMatterSubsystemRep::%s/%d (level loops)" % (name, len(names)), c.start, c.end, c.text,
                       "M3 (driver loops transliterated; plumbing dropped, see log)", dropped + dr2, log + list(P.log.values()))
    return nloops


# ----------------------------------------------------------------------
# build
# ----------------------------------------------------------------------
def build(ctx, want_invert=(1, 2, 3)):
    B = DUnit(ctx)
    ns = B.ns
    def svctor(*a):
        if len(a) == 1 and isinstance(a[0], Vec):                # Vec<2,Vec3>(Vec3): every element
            return S.SpatialVec(Vec(list(a[0].e)), Vec(list(a[0].e)))
        return S.SpatialVec(*a)
    ns["SpatialVec"] = ns["SpatialVecP"] = svctor
    ns["SymMat_3_P"] = ns["SymMat33P"] = ns["SymMat_3_E"] = ns["SymMat33"] = S.symmat33
    def htype(*a):
        if len(a) == 1:
            return HMat(int(a[0]))
        assert len(a) == 2 and all(isinstance(r, HRow) for r in a), "HType constructor"
        return HMat(len(a[0].e), [SpatialVec(w, v) for w, v in zip(a[0].e, a[1].e)])       # Mat<2,dof,Vec3>(row0, row1)
    ns["HType"] = htype
    def SETROW(Hm, i, e):
        if isinstance(e, Vec) and not isinstance(e, HRow):
            e = HRow([Vec(list(e.e)) for _ in range(Hm.dof)])       # Row<dof,Vec3> = Vec3: every element
        Hm.setrow(int(i), e)
    ns["SETROW"] = SETROW
    B.temps = {}                                  # the drivers' local temporaries (last call), by their C++ name: visible to the harness for lemma chains
    def _new(cls):
        def f(n, name):
            a = cls(int(n)); B.temps[name] = a; return a
        return f
    ns["NEW_SVARR"], ns["NEW_RARR"] = _new(SVArr), _new(RArr)
    ns["PTR"] = lambda base, off: View(base, off)
    ns["GETAS"] = lambda base, off, n, kind: (Row if kind == "Row" else Vec)([base[int(off) + i] for i in range(int(n))])
    def SETAS(base, off, n, v):
        e = list(v.e) if isinstance(v, Vec) else [v] * int(n)
        assert n is None or len(e) == int(n)
        for i, x in enumerate(e):
            base[int(off) + i] = x
    ns["SETAS"] = SETAS
    def _dot(a, b):
        if isinstance(a, SpatialVec):
            return (~a) * b
        return S.dot(a, b)
    ns["dot"] = _dot

    # ---- SmallMatrixMixed: cross(Vec3,SymMat33), crossMatSq, det / inverse for N = 2, 3 (N = 1: one divide) ----
    def strip_tpl(b):
        b = re.sub(r"typedef [^;]+;", "", b)
        b = re.sub(r"Mat<3,3,EResult>", "Mat33", b)
        b = re.sub(r"SymMat<3,(?:E|P)>", "SymMat33P", b)
        return b
    B.add_function(SMM_H, r"cross\(const Vec<3,EV,SV>& v, const SymMat<3,EM,RS>& s\)\s*", pyname="cross_vec_symmat", pre=strip_tpl, cxxname="SimTK::cross(Vec3,SymMat33)")
    S.HOOKS["cross_vec_symmat"] = ns["cross_vec_symmat"]
    def inv_pre(b):
        b = re.sub(r"typename\s+CNT<E>::TInvert", "E", b)
        b = re.sub(r"typename\s+CNT<E>::StdNumber\s*\(\s*1\s*\)", "1", b)
        b = re.sub(r"typename\s+Mat<(\d),\1,E,CS,RS>::TInvert\s*\(", r"Mat\1\1(", b)
        b = re.sub(r"typedef [^;]+;", "", b)
        b = re.sub(r"\bMInv\s*\(", "Mat11(", b)
        return b
    B.add_function(SMM_H, r"E det\(const Mat<2,2,E,CS,RS>& m\)\s*", pyname="det_2", cxxname="SimTK::det(Mat22)")
    B.add_function(SMM_H, r"typename Mat<1,1,E,CS,RS>::TInvert inverse\(const Mat<1,1,E,CS,RS>& m\)\s*", pyname="inverse_1", pre=inv_pre, cxxname="SimTK::inverse(Mat11)")
    B.add_function(SMM_H, r"typename Mat<2,2,E,CS,RS>::TInvert inverse\(const Mat<2,2,E,CS,RS>& m\)\s*", pyname="inverse_2", pre=lambda b: inv_pre(b).replace("det(m)", "det_2(m)"), cxxname="SimTK::inverse(Mat22)")
    B.add_function(SMM_H, r"typename Mat<3,3,E,CS,RS>::TInvert inverse\(const Mat<3,3,E,CS,RS>& m\)\s*", pyname="inverse_3", pre=inv_pre, cxxname="SimTK::inverse(Mat33)")
    ns["Mat11"] = lambda *a: Mat([[a[0]]]) if len(a) == 1 else Mat([[0]])

    class MatDD(Mat):
        """Mat<dof,dof> with the real invert() for dof <= 3 (one reciprocal variable for 1/det, S.ENV.defs); Lapack beyond: defining equation"""
        def invert(self):
            n = self.nr
            old = S.ENV.abstract_scalars
            S.ENV.abstract_scalars = True           # 1/d -> reciprocal variable r with r*d == 1 recorded in ENV.defs
            try:
                if n in (1, 2, 3):
                    r = ns["inverse_%d" % n](Mat(self.m))
                    return MatDD(r.m)
                # N > 3: Lapack getrf/getri. Modelled by the defining equations of the inverse (assumed contract, logged by the checks that use it):
                # a fresh SYMMETRIC matrix X (the inverse of a symmetric matrix is symmetric) with X*D == 1 and D*X == 1 recorded in ENV.defs
                S.ENV.fresh += 1
                k = S.ENV.fresh
                X_ = [[None] * n for _ in range(n)]
                for i in range(n):
                    for j in range(i, n):
                        X_[i][j] = X_[j][i] = z3.Real("inv%d_%d%d" % (k, i, j))
                Xm = MatDD(X_)
                me = Mat(self.m)
                S.ENV.defs.append(("inverse", Xm, z3.And(*([g for _, g in S.eq_all(Xm * me, eye(n))] + [g for _, g in S.eq_all(me * Xm, eye(n))]))))
                return Xm
            finally:
                S.ENV.abstract_scalars = old
        def __invert__(self): return MatDD(Mat.__invert__(self).m)
    ns["MatDD"] = MatDD

    # ---- PhiMatrix (SpatialAlgebra.h) ----
    class PhiMatrix:
        def __init__(self, l): self.l_ = l
        def l(self): return self.l_
        def __invert__(self): return PhiMatrixTranspose(self)          # operator~ -> transpose(phi) -> PhiMatrixTranspose(phi)
        def __mul__(self, v):
            if isinstance(v, SpatialVec):
                return ns["phi_mul_sv"](self, v)
            return NotImplemented
    class PhiMatrixTranspose:
        def __init__(self, phi): self.phi = phi
        def l(self): return self.phi.l()
        def __mul__(self, v):
            if isinstance(v, SpatialVec):
                return ns["phiT_mul_sv"](self, v)
            return NotImplemented
    ns["PhiMatrix"], ns["PhiMatrixTranspose"] = PhiMatrix, PhiMatrixTranspose
    B.add_function(SPA_H, r"operator\*\(const PhiMatrix&\s*phi,\s*const SpatialVec&\s*v\)\s*", pyname="phi_mul_sv", cxxname="operator*(PhiMatrix,SpatialVec)")
    B.add_function(SPA_H, r"operator\*\(const PhiMatrixTranspose&\s*phiT,\s*const SpatialVec&\s*v\)\s*", pyname="phiT_mul_sv", cxxname="operator*(PhiMatrixTranspose,SpatialVec)")

    # ---- mass property classes (plumbing = thin shim as in C29; formula-bearing members transliterated) ----
    class Inertia:
        def __init__(self, *a):
            if len(a) == 1 and isinstance(a[0], Inertia):
                self.I_OF_F = S.SymMat(a[0].I_OF_F.m)
            elif len(a) == 1 and isinstance(a[0], Mat):
                self.I_OF_F = S.SymMat(a[0].m)
            elif len(a) == 1:
                self.I_OF_F = S.symmat33(a[0])
            else:
                raise ExtractionError("Inertia_ constructor with %d args not modelled" % len(a))
        def errChk(self, *a): return None
        def __rmul__(self, s):                                   # operator*(scalar, Inertia): Inertia_(i) *= r
            r = Inertia(self); r.I_OF_F = s * self.I_OF_F; return r
        def __mul__(self, w):
            if S.is_scalar(w):
                r = Inertia(self); r.I_OF_F = self.I_OF_F * w; return r
            return self.I_OF_F * w                               # operator*(Inertia, Vec3): I.asSymMat33()*w
        def __add__(self, o): r = Inertia(self); r.I_OF_F = self.I_OF_F + o.I_OF_F; return r     # operator+ : Inertia_(l) += r
        def toMat33(self): return Mat(self.I_OF_F.m)
        def asSymMat33(self): return self.I_OF_F
    class UnitInertia(Inertia):
        def setFromUnitInertia(self, I): self.I_OF_F = S.SymMat(I.I_OF_F.m); return self
    ns["Inertia_"] = ns["InertiaP"] = ns["Inertia"] = Inertia
    ns["UnitInertia_"] = ns["UnitInertiaP"] = ns["UnitInertia"] = UnitInertia
    drop_err = lambda b: re.sub(r"(?:I\.)?errChk\(\"[^\"]*\"\);", "", b)
    IM = ["I_OF_F"]
    NP = dict(plumb=False)
    B.add_method(Inertia, MP_H, r"Inertia_& operator\+=\(const Inertia_& inertia\)\s*", "iadd", members=IM, extra_pre=drop_err, cxxname="Inertia_::operator+=", **NP)
    B.add_method(Inertia, MP_H, r"Inertia_& operator-=\(const Inertia_& inertia\)\s*", "isub", members=IM, extra_pre=drop_err, cxxname="Inertia_::operator-=", **NP)
    B.add_function(MP_H, r"static UnitInertia_ pointMassAt\(const Vec3P& p\)\s*", pyname="UnitInertia_pointMassAt", cxxname="UnitInertia_::pointMassAt")
    upre = lambda b: b.replace("InertiaP::operator-=(", "self.isub(").replace("InertiaP::operator+=(", "self.iadd(").replace("pointMassAt(", "UnitInertia_pointMassAt(")
    B.add_method(UnitInertia, MP_H, r"UnitInertia_& shiftToCentroidInPlace\(const Vec3P& CF\)\s*", "shiftToCentroidInPlace", extra_pre=upre, cxxname="UnitInertia_::shiftToCentroidInPlace", **NP)
    B.add_method(UnitInertia, MP_H, r"UnitInertia_& shiftFromCentroidInPlace\(const Vec3P& p\)\s*", "shiftFromCentroidInPlace", extra_pre=upre, cxxname="UnitInertia_::shiftFromCentroidInPlace", **NP)

    class SpatialInertia:
        def __init__(self, *a):
            if len(a) == 1:
                o = a[0]; self.m, self.p, self.G = o.m, Vec(list(o.p.e)), UnitInertia(o.G)
            else:
                self.m, self.p, self.G = D.lift(a[0]), Vec(list(a[1].e)), UnitInertia(a[2])
        def __mul__(self, v): return self.mulvec(v)
        def __iadd__(self, o): return self.iadd(o)
        def getMass(self): return self.m
        def getMassCenter(self): return self.p
        def getUnitInertia(self): return self.G
    ns["SpatialInertia_"] = ns["SpatialInertia"] = SpatialInertia
    SM = ["m", "p", "G"]
    SMeth = ["shiftInPlace", "calcMassMoment", "calcInertia"]
    B.add_method(SpatialInertia, MP_H, r"SpatialVecP operator\*\(const SpatialVecP& v\) const\s*", "mulvec", members=SM, occurrence=1, cxxname="SpatialInertia_::operator*(SpatialVec)", **NP)
    B.add_method(SpatialInertia, MP_H, r"SpatialInertia_& shiftInPlace\(const Vec3P& S\)\s*", "shiftInPlace", members=SM, cxxname="SpatialInertia_::shiftInPlace", **NP)
    B.add_method(SpatialInertia, MP_H, r"SpatialInertia_ shift\(const Vec3P& S\) const\s*", "shift", members=SM, methods=SMeth, extra_pre=lambda b: b.replace("SpatialInertia_(*this)", "SpatialInertia_(self)"), cxxname="SpatialInertia_::shift", **NP)
    B.add_method(SpatialInertia, MP_H, r"Vec3P calcMassMoment\(\) const\s*", "calcMassMoment", members=SM, cxxname="SpatialInertia_::calcMassMoment", **NP)
    B.add_method(SpatialInertia, MP_H, r"InertiaP calcInertia\(\) const\s*", "calcInertia", members=SM, cxxname="SpatialInertia_::calcInertia", **NP)
    B.add_method(SpatialInertia, MP_H, r"SpatialInertia_& operator\+=\(const SpatialInertia_& src\)\s*", "iadd", members=SM, methods=SMeth, extra_pre=lambda b: re.sub(r"SimTK_ERRCHK\([^;]*;", "", b), cxxname="SpatialInertia_::operator+=", **NP)

    class ArticulatedInertia:
        def __init__(self, *a):
            if len(a) == 0:
                self.M = self.F = self.J = None                       # uninitialised junk
            elif len(a) == 1 and isinstance(a[0], SpatialInertia):        # explicit ArticulatedInertia_(const SpatialInertia_&): initialiser list of the header
                rbi = a[0]
                self.M, self.J, self.F = S.symmat33(rbi.getMass()), S.SymMat(rbi.calcInertia().I_OF_F.m), crossMat(rbi.calcMassMoment())
            elif len(a) == 1:
                self.assign(a[0])
            else:
                self.M, self.F, self.J = S.SymMat(a[0].m), Mat(a[1].m), S.SymMat(a[2].m)   # (mass, massMoment, inertia)
        def assign(self, o):
            self.M, self.F, self.J = S.SymMat(o.M.m), Mat(o.F.m), S.SymMat(o.J.m); return self
        def __mul__(self, v):
            if isinstance(v, HMat):                                   # template operator*(Mat<2,N,Vec3>): column by column
                return HMat(v.dof, [self.mulvec(c) for c in v.cols])
            return self.mulvec(v)
        def __iadd__(self, o): return self.iadd(o)
        def __isub__(self, o): return self.isub(o)
        def __add__(self, o): r = ArticulatedInertia(self); r.iadd(o); return r       # operator+ : ArticulatedInertia_(l) += r
        def __sub__(self, o): r = ArticulatedInertia(self); r.isub(o); return r       # operator- : ArticulatedInertia_(l) -= r
        def getMass(self): return self.M
        def getMassMoment(self): return self.F
        def getInertia(self): return self.J
    ns["ArticulatedInertia_"] = ns["ArticulatedInertia"] = ArticulatedInertia
    AM = ["M", "J", "F"]
    B.add_method(ArticulatedInertia, MP_CPP, r"ArticulatedInertia_<P>::shift\(const Vec3P& s\) const\s*", "shift", members=AM, cxxname="ArticulatedInertia_::shift", **NP)
    B.add_method(ArticulatedInertia, MP_H, r"SpatialVecP operator\*\(const SpatialVecP& v\) const\s*", "mulvec", members=AM, occurrence=2, cxxname="ArticulatedInertia_::operator*(SpatialVec)", **NP)
    B.add_method(ArticulatedInertia, MP_H, r"ArticulatedInertia_& operator\+=\(const ArticulatedInertia_& src\)\s*", "iadd", members=AM, cxxname="ArticulatedInertia_::operator+=", **NP)
    B.add_method(ArticulatedInertia, MP_H, r"ArticulatedInertia_& operator-=\(const ArticulatedInertia_& src\)\s*", "isub", members=AM, cxxname="ArticulatedInertia_::operator-=", **NP)
    B.add_function(MP_CPP, r"halfCross\(const Vec<3,P>& v, const Mat<3,3,P,CS,RS>& F\)\s*", pyname="halfCross_vF", pre=strip_tpl, cxxname="halfCross(v,F)")
    B.add_function(MP_CPP, r"halfCross\(const Mat<3,3,P,CS,RS>& G, const Vec<3,P>& v\)\s*", pyname="halfCross_Gv", pre=strip_tpl, cxxname="halfCross(G,v)")
    B.add_function(MP_CPP, r"halfCrossDiff\(const Vec<3,P>& v, const Mat<3,3,P,CS1,RS1>& F, const Mat<3,3,P,CS2,RS2>& G\)\s*", pyname="halfCrossDiff", pre=strip_tpl, cxxname="halfCrossDiff(v,F,G)")
    B.add_function(SMM_H, r"crossMatSq\(const Vec<3,E,S>& v\)\s*", pyname="crossMatSq", pre=strip_tpl, cxxname="SimTK::crossMatSq(Vec3)")

    class SIArr(Arr):
        conv = staticmethod(lambda v: SpatialInertia(v))
    ns["SIArr"] = SIArr

    # ---- node base: store + views ----
    class DNodeBase:
        dof = None
        def __init__(self, nodeNum, uIndex=0, parent=None, mass=None):
            self.nodeNum, self.uIndex, self.qIndex, self.parent = nodeNum, uIndex, uIndex, parent
            self.children = CList()
            self.store = {}
            self.mass = mass
            self.reversed_ = False
            if parent is not None:
                parent.addChild(self)
        def addChild(self, c): self.children.append(c)               # RigidBodyNode::addChild: children.push_back(child)
        def getNodeNum(self): return self.nodeNum
        def getUIndex(self): return self.uIndex
        def getQIndex(self): return self.qIndex
        def getMass(self): return self.mass                           # massProps_B.getMass()
        def isUDotKnown(self, ic): return False                       # no prescribed motion (udotMethod == Motion::Free)
        def isUDotKnownToBeZero(self, ic): return False
        def isReversed(self): return self.reversed_
        def getX_PF(self): return self.X_PF
        def getX_MB(self): return self.X_MB
        def getX_GP(self, pc): return self.X_GP
        def getX_FM(self, pc): return self.X_FM
        def fromU(self, v): return Vec([v[self.uIndex + i] for i in range(self.dof)])
        def toU(self, v): return self.fromU(v)
        def fromB(self, a): return a[self.nodeNum]
        def toB(self, a): return a[self.nodeNum]
        def _get(self, f):
            assert f in self.store, "cache entry %s of node %d read before it was realized" % (f, self.nodeNum)
            return self.store[f]
        def _upd(self, f):
            if f not in self.store:
                if f in ("P", "PPlus"):
                    self.store[f] = ArticulatedInertia()
                elif f in ("G", "H", "HDot", "H_FM", "HDot_FM"):
                    self.store[f] = HMat(self.dof)
                elif f in ("D", "DI"):
                    self.store[f] = MatDD([[0] * self.dof for _ in range(self.dof)])
                else:
                    raise NotModelled("upd%s without a preceding write" % f)
            return self.store[f]
        def _set(self, f, v):
            if isinstance(v, SpatialVec) or (S.is_scalar(v) and f not in ("Mk_G",)):
                v = sv_fill(v)
            elif isinstance(v, SpatialInertia):
                v = SpatialInertia(v)
            elif isinstance(v, ArticulatedInertia):
                v = ArticulatedInertia(v)
            self.store[f] = v
    for f in FIELDS:
        setattr(DNodeBase, "get" + f, (lambda self, *a, _f=f: self._get(_f)))
        setattr(DNodeBase, "upd" + f, (lambda self, *a, _f=f: self._upd(_f)))
        setattr(DNodeBase, "set" + f, (lambda self, *a, _f=f: self._set(_f, a[-1])))
    def SETU(node, arr, v):
        e = list(v.e) if isinstance(v, Vec) else [v] * node.dof
        assert len(e) == node.dof
        for i, x in enumerate(e):
            arr[node.uIndex + i] = x
    def SETTAU(node, arr, v):
        raise NotModelled("prescribed motion (updTau)")
    ns["SETU"], ns["SETTAU"] = SETU, SETTAU
    ns["VecD"] = lambda *a: Vec(list(a))

    class DNode(DNodeBase):
        """RigidBodyNodeSpec<dof,...> : RigidBodyNode"""
    class Ground(DNodeBase):
        """RBGroundBody"""
        dof = 0
    ns["DNode"], ns["Ground"] = DNode, Ground
    TPL = r"RigidBodyNodeSpec<dof, noR_FM, noX_MB, noR_PF>::\s*"
    def spec(name, anchor=None):
        B.add_method(DNode, RBNS_CPP, anchor or (TPL + name + r"\s*\([^{;]*?\)\s*const\s*"), name, members=NODE_MEMBERS, methods=NODE_METHODS, cxxname="RigidBodyNodeSpec<dof>::" + name)
    for nm in ("realizeArticulatedBodyInertiasInward", "calcUDotPass1Inward", "calcUDotPass2Outward", "multiplyByMInvPass1Inward", "multiplyByMInvPass2Outward",
               "calcBodyAccelerationsFromUdotOutward", "calcInverseDynamicsPass2Inward", "multiplyByMPass1Outward", "multiplyByMPass2Inward",
               "multiplyBySystemJacobian", "multiplyBySystemJacobianTranspose", "calcEquivalentJointForces"):
        spec(nm)
    B.add_method(DNode, RBNS_H, r"void realizeVelocity\(const SBStateDigest& sbs\) const override\s*", "realizeVelocity", members=NODE_MEMBERS, methods=NODE_METHODS,
                 cxxname="RigidBodyNodeSpec<dof>::realizeVelocity")
    FR = ["noR_FM", "noX_MB", "noR_PF"]
    FM = ["getX_PF", "getX_GP", "getX_MB", "getX_FM"]
    for nm in ("calcParentToChildVelocityJacobianInGround", "calcParentToChildVelocityJacobianInGroundDot"):
        B.add_method(DNode, RBNS_CPP, r"\b" + nm + r"\s*\([^{;]*?\)\s*const\s*", nm, members=NODE_MEMBERS + FR, methods=[x for x in NODE_METHODS if x != nm] + FM,
                     cxxname="RigidBodyNodeSpec<dof,noR_FM,noX_MB,noR_PF>::" + nm, pyname="real_" + nm)
    def base(path, name, anchor):
        B.add_method(DNode, path, anchor, name, members=NODE_MEMBERS, methods=NODE_METHODS, cxxname="RigidBodyNode::" + name)
    base(RBN_CPP, "calcJointIndependentKinematicsVel", r"RigidBodyNode::calcJointIndependentKinematicsVel\([^{;]*?\)\s*const\s*")
    base(RBN_CPP, "calcKineticEnergy", r"Real RigidBodyNode::calcKineticEnergy\([^{;]*?\)\s*const\s*")
    base(RBN_CPP, "realizeArticulatedBodyVelocityCache", r"RigidBodyNode::realizeArticulatedBodyVelocityCache\s*\([^{;]*?\)\s*const\s*")
    base(RBN_CPP, "calcCompositeBodyInertiasInward", r"RigidBodyNode::calcCompositeBodyInertiasInward\([^{;]*?\)\s*const\s*")
    base(RBN_H, "getCB_G", r"const Vec3& getCB_G\(const SBTreePositionCache& pc\) const\s*")
    base(RBN_H, "getUnitInertia_OB_G", r"const UnitInertia& getUnitInertia_OB_G\(const SBTreePositionCache& pc\) const\s*")
    base(RBN_H, "getV_GP", r"const SpatialVec& getV_GP\(const SBTreeVelocityCache& vc\) const\s*")
    # Ground
    GSIG = {"realizeArticulatedBodyInertiasInward": None, "calcUDotPass1Inward": None, "calcUDotPass2Outward": None, "multiplyByMInvPass1Inward": None,
            "multiplyByMInvPass2Outward": None, "calcBodyAccelerationsFromUdotOutward": None, "calcInverseDynamicsPass2Inward": None,
            "multiplyByMPass1Outward": None, "multiplyByMPass2Inward": None, "multiplyBySystemJacobian": None, "multiplyBySystemJacobianTranspose": None,
            "calcEquivalentJointForces": None, "calcCompositeBodyInertiasInward": None, "realizeVelocity": None}
    gpre = lambda b: b.replace("Infinity", "INFINITY_")
    for nm in GSIG:
        anchor = r"void %s\s*\([^{;]*?\)\s*const\s+override\s*" % nm
        occ = occurrence_in_class(WELD_CPP, "RBGroundBody", anchor)
        B.add_method(Ground, WELD_CPP, anchor, nm, members=NODE_MEMBERS, methods=NODE_METHODS, occurrence=occ, extra_pre=gpre, cxxname="RBGroundBody::" + nm)
    ns["INFINITY_"] = D(z3.Real("Infinity"))      # Ground's infinite mass/inertia: an unconstrained real here (never read by a child; any use would make a goal depend on it)
    ns["constraints"] = CList()                   # no constraints in the model
    ns["GroundIndex"] = 0

    # ---- the matter subsystem stand-in with the real driver loops ----
    class Matter:
        def __init__(self, levels):
            self.rbNodeLevels = CList(CList(l) for l in levels)
            self.nodes = [n for l in levels for n in l]
            self.nb = len(self.nodes)
            self.nu = sum(n.dof for n in self.nodes)
            self.sbs = M.Sbs(self)
            ns["stateDigest"] = ns["sbs"] = self.sbs          # `SBStateDigest stateDigest(state, *this, stage)` of the drivers: the digest of the CURRENT matter object
            self.u = None
            self.qdot = RArr(self.nu)
        def getNumBodies(self): return self.nb
        def getNU(self, *a): return self.nu
        def getTotalDOF(self): return self.nu
        def getNumMobilities(self): return self.nu
        # SBStateDigest stand-in (realizeVelocity reads sbs.getU(), sbs.updQDot())
        def getModelVars(self): return self
        def getTreePositionCache(self): return self
        def updTreeVelocityCache(self): return self
        def getU(self): return self.u
        def updQDot(self): return self.qdot
    ns["Matter"] = Matter
    class _Tok:
        """opaque cache token (SBTreePositionCache& etc.); presUDot / zeroUDot lists are empty: no prescribed motion"""
        presUDot = CList(); zeroUDot = CList()
    for k in ("ic", "tpc", "tvc", "abc", "abvc", "dc", "sbs", "s", "state", "pc", "vc", "stateDigest"):
        ns[k] = _Tok()
    ns["RigidBodyNodeP"] = None
    R = r"SimbodyMatterSubsystemRep::"
    drivers = {}
    for nm, anchor in (("realizeArticulatedBodyInertias", r"realizeArticulatedBodyInertias\(const State& state\) const\s*"),
                       ("realizeArticulatedBodyVelocity", r"realizeArticulatedBodyVelocity\(const State& state\) const\s*"),
                       ("realizeVelocityKinematics", r"realizeVelocityKinematics\(const State& state\) const\s*"),
                       ("calcTreeAccelerations", R + r"calcTreeAccelerations\(const State& s,[^{;]*?\)\s*const\s*"),
                       ("multiplyByMInv", R + r"multiplyByMInv\(const State& s,[^{;]*?\)\s*const\s*"),
                       ("multiplyByM", R + r"multiplyByM\(const State&\s*s,[^{;]*?\)\s*const\s*"),
                       ("calcTreeResidualForces", R + r"calcTreeResidualForces\(const State& s,[^{;]*?\)\s*const\s*"),
                       ("calcKineticEnergy", R + r"calcKineticEnergy\(const State& s\) const\s*"),
                       ("calcCompositeBodyInertias", R + r"calcCompositeBodyInertias\(const State& s,[^{;]*?\)\s*const\s*"),
                       ("multiplyBySystemJacobian", R + r"multiplyBySystemJacobian\(const State& s,[^{;]*?\)\s*const\s*"),
                       ("multiplyBySystemJacobianTranspose", R + r"multiplyBySystemJacobianTranspose\s*\(const State&\s*s,[^{;]*?\)\s*const\s*")):
        drivers[nm] = add_driver(B, Matter, anchor, nm)
    B.drivers = drivers
    B.dump_sources()
    B.cls = dict(DNode=DNode, Ground=Ground, Matter=Matter, PhiMatrix=PhiMatrix, SpatialInertia=SpatialInertia, UnitInertia=UnitInertia, Inertia=Inertia,
                 ArticulatedInertia=ArticulatedInertia, MatDD=MatDD, SIArr=SIArr)
    return B


# ----------------------------------------------------------------------
# symbolic data, let-abstraction on the term DAG, scenarios shared by C01 / C02
# ----------------------------------------------------------------------
def R_(n): return z3.Real(n)
def v3(n): return Vec(*[R_("%s%d" % (n, i)) for i in range(3)])
def sv(n): return SpatialVec(v3(n + "w"), v3(n + "v"))
def sym_H(n, dof): return HMat(dof, [sv("%s%d" % (n, j)) for j in range(dof)])
def sym_Mk(B, n): return B.cls["SpatialInertia"](R_(n + "m"), v3(n + "c"), B.cls["UnitInertia"](S.symmat33(*[R_("%sg%d" % (n, i)) for i in range(6)])))
def sym_ABI(B, n):
    return B.cls["ArticulatedInertia"](S.symmat33(*[R_("%sM%d" % (n, i)) for i in range(6)]), Mat([[R_("%sF%d%d" % (n, i, j)) for j in range(3)] for i in range(3)]),
                                       S.symmat33(*[R_("%sJ%d" % (n, i)) for i in range(6)]))
def zero_sv(): return SpatialVec(Vec(0, 0, 0), Vec(0, 0, 0))


def flat(x):
    """elements (D) of any shim object"""
    if isinstance(x, (list, tuple)):
        return [e for y in x for e in flat(y)]
    if isinstance(x, HMat):
        return x.flat()
    if hasattr(x, "M") and hasattr(x, "F") and hasattr(x, "J"):       # ArticulatedInertia
        return flat(x.M) + flat(x.F) + flat(x.J)
    return S.elements(x)


def remap(f, x):
    if isinstance(x, (list, tuple)):
        return type(x)(remap(f, y) for y in x) if not isinstance(x, Arr) else [remap(f, y) for y in x]
    if isinstance(x, HMat):
        return HMat(x.dof, [remap(f, c) for c in x.cols])
    if hasattr(x, "M") and hasattr(x, "F") and hasattr(x, "J"):
        return type(x)(remap(f, x.M), remap(f, x.F), remap(f, x.J))
    return S.vmap(f, x)


class Abstraction:
    """let-abstraction by substitution on the term DAG: the element terms of a computed object are replaced by fresh variables everywhere
    (goals and hypotheses alike). A goal proved after the substitution holds for every value of the fresh variables, in particular for the
    computed ones (sound generalisation); facts about the abstracted object that a goal needs are added as explicit hypotheses, each of them
    a previously discharged obligation. Groups are applied in the order they were bound (bind outer terms first)."""
    def __init__(self):
        self.groups = []
        self.k = 0
    def bind(self, obj, prefix, merge=()):
        """-> the abstract copy of obj. merge: pairs of element indices that get the SAME variable (proved equal elsewhere)"""
        cur = flat(self.map(obj))
        pairs, names = [], {}
        rep = {}
        for a, b in merge:
            rep[b] = a
        for i, e in enumerate(cur):
            t = val(e)
            if z3.is_rational_value(t) or (z3.is_const(t) and t.decl().kind() == z3.Z3_OP_UNINTERPRETED):
                continue
            j = rep.get(i, i)
            if j in names:
                v = names[j]
            else:
                hit = [v_ for (t_, v_) in pairs if t_.eq(t)]
                if hit:
                    v = hit[0]
                else:
                    self.k += 1
                    v = z3.Real("%s_%d" % (prefix, self.k))
                names[j] = v
            if not any(t_.eq(t) for (t_, _) in pairs):
                pairs.append((t, v))
        self.groups.append(pairs)
        return self.map(obj)
    def rewrite(self, obj, to):
        """replace the element terms of obj by the element terms of `to` (an equality proved elsewhere)"""
        pairs = []
        for a, b in zip(flat(self.map(obj)), flat(to)):
            if not val(a).eq(val(b)) and not any(t_.eq(val(a)) for (t_, _) in pairs):
                pairs.append((val(a), val(b)))
        self.groups.append(pairs)
    def copy(self):
        a = Abstraction(); a.groups = [list(g) for g in self.groups]; a.k = self.k; return a
    def __call__(self, e):
        for g in self.groups:
            if g:
                e = z3.substitute(e, *g)
        return e
    def map(self, obj):
        return remap(lambda x: D(self(val(x))), obj)
    def nvars(self):
        return sum(len(g) for g in self.groups)


def recip_defs():
    return [d[2] for d in S.ENV.defs]


def abstract_classes(B, dof):
    """an abstract mobilizer of `dof` mobilities: the mobilizer-specific members that realizeVelocity calls (calcQDot, HDot_FM, HDot = d/dt H_PB_G:
    C03's matter) hand back symbolic data; everything else is the transliterated RigidBodyNodeSpec / RigidBodyNode code"""
    C = B.cls
    d = dof
    class N(C["DNode"]):
        dof = d
        def calcQDotDot(self, *a): pass                      # qdotdot = N udot + NDot u: C03's matter, not used here
        def calcQDot(self, *a): pass
        def calcAcrossJointVelocityJacobianDot(self, sbs, HD): HD.assign(self.sym_HDot_FM)
        def calcParentToChildVelocityJacobianInGroundDot(self, mv, pc, vc, HD): HD.assign(self.sym_HDot)
    class G0(C["Ground"]):
        def calcQDotDot(self, *a): pass
    return N, G0


@functools.lru_cache(maxsize=1)
def ground_cache_zero():
    """Ground's velocity-cache entries are set once by SBTreeVelocityCache::allocate (SimbodyTreeState.h); read the two the model uses from the source"""
    t = blank_comments(open(os.path.join(SRC, "SimbodyTreeState.h")).read())
    for fld in ("bodyVelocityInGround", "totalCoriolisAcceleration"):
        if not re.search(r"\b%s\[GroundIndex\]\s*=\s*SVZero\s*;" % fld, t):
            raise ExtractionError("SimbodyTreeState.h: %s[GroundIndex] = SVZero not found (Ground's velocity cache entry)" % fld)
    return True


class Tree:
    """Ground + serial chain of n bodies, every mobilizer with `dof` mobilities and a fully symbolic hinge matrix H (columns = arbitrary spatial
    vectors), symbolic spatial inertia Mk (mass, mass centre, unit inertia), symbolic parent-to-body shift (Phi), symbolic velocity-dependent
    terms unless realized from u by the real velocity recursion."""
    def __init__(self, B, nb, dof=1, bias="symbolic", shape="chain"):
        S.reset_env()
        C = B.cls
        self.B, self.nb, self.dof, self.shape = B, nb, dof, shape
        tok = B.ns["ic"]
        self.tok = tok
        N, G0 = abstract_classes(B, dof)
        g = G0(0)
        ground_cache_zero()
        for fld in ("V_GB", "TotalCoriolisAcceleration"):       # SBTreeVelocityCache::allocate: Ground's entries are SVZero
            g._set(fld, 0)
        self.nodes = [g]
        for k in range(1, nb + 1):
            n = N(k, (k - 1) * dof, self.nodes[-1] if shape == "chain" else g, mass=D(R_("k%dm" % k)))
            n.setH(tok, sym_H("h%d_" % k, dof)); n.setPhi(tok, C["PhiMatrix"](v3("l%d_" % k))); n.setMk_G(tok, sym_Mk(B, "k%d" % k))
            if bias == "symbolic":
                n.setMobilizerCoriolisAcceleration(tok, sv("a%d" % k)); n.setGyroscopicForce(tok, sv("b%d" % k))
            elif bias == "zero":
                n.setMobilizerCoriolisAcceleration(tok, 0); n.setGyroscopicForce(tok, 0)
            n.sym_HDot_FM = sym_H("hdfm%d_" % k, dof); n.sym_HDot = sym_H("hd%d_" % k, dof); n.setH_FM(tok, sym_H("hfm%d_" % k, dof))
            self.nodes.append(n)
        self.matter = C["Matter"]([[x] for x in self.nodes] if shape == "chain" else [[g], self.nodes[1:]])      # fork: every body on Ground, one level
        self.nu = nb * dof
    def rvec(self, name): return RArr([R_("%s%d" % (name, k)) for k in range(self.nu)])
    def svec(self, name, ground_zero=False): return SVArr([sv("%s%d" % (name, k)) for k in range(self.nb + 1)])
    def forward(self, f, F):
        nb, nu = self.nb, self.nu
        out = dict(eps=RArr(nu), z=SVArr(nb + 1), zPlus=SVArr(nb + 1), A=SVArr(nb + 1), udot=RArr(nu), qdd=RArr(nu), tau=RArr(0))
        self.matter.calcTreeAccelerations(self.tok, f, F, CList(), out["eps"], out["z"], out["zPlus"], out["A"], out["udot"], out["qdd"], out["tau"])
        return out
    def inverse(self, f, F, udot):
        out = dict(A=SVArr(self.nb + 1), res=RArr(self.nu))
        self.matter.calcTreeResidualForces(self.tok, f, F, udot, out["A"], out["res"])
        return out
    def mulM(self, a):
        Ma = RArr(self.nu)
        self.matter.multiplyByM(self.tok, a, Ma)
        return Ma
    def mulMInv(self, f):
        out = RArr(self.nu)
        self.matter.multiplyByMInv(self.tok, f, out)
        return out


def _consts(e, acc):
    todo, seen = [e], set()
    while todo:
        t = todo.pop()
        if t.get_id() in seen:
            continue
        seen.add(t.get_id())
        if z3.is_const(t) and t.decl().kind() == z3.Z3_OP_UNINTERPRETED:
            acc[t.decl().name()] = t
        else:
            todo.extend(t.children())
    return acc


def refute_random(goal, hyps, tries=2, seed=12345):
    """cheap refutation on a random instance: every variable except the left-hand sides of solvable hypotheses `v == e` and the reciprocal/inverse variables gets a
    random small rational; a model of (instantiated hypotheses, not goal) is a genuine counterexample of the general goal. Proves nothing when it finds none."""
    import random
    rnd = random.Random(seed)
    cs = {}
    for e in [goal] + list(hyps):
        _consts(e, cs)
    keep = set(n for n in cs if n.startswith("recip_") or n.startswith("inv") or re.match(r"s_\d+$", n))       # reciprocals / inverse entries (free DI: s_k) stay symbolic
    for h in hyps:
        if z3.is_eq(h) and z3.is_const(h.arg(0)) and h.arg(0).decl().kind() == z3.Z3_OP_UNINTERPRETED:
            keep.add(h.arg(0).decl().name())
    for _ in range(tries):
        sub = [(t, z3.RealVal("%d/%d" % (rnd.choice([-5, -4, -3, -2, -1, 1, 2, 3, 4, 5, 7]), rnd.choice([1, 2, 3])))) for n, t in sorted(cs.items()) if n not in keep]
        s_ = z3.Solver(); s_.set("timeout", 5000)
        for h in hyps:
            s_.add(z3.simplify(z3.substitute(h, *sub)))
        s_.add(z3.simplify(z3.Not(z3.substitute(goal, *sub))))
        if s_.check() == z3.sat:
            m = s_.model()
            model = {t.decl().name(): str(v) for t, v in sub}
            for d_ in m.decls():
                model[d_.name()] = str(m[d_])
            return model
    return None


def prove(B, A, name, lhs, rhs, hyps, unit, fn, timeout_ms=30000, bounded=None, refute_first=False):
    """B.prove_eq under the abstraction A (None: none) with exactly the given hypotheses; -> True iff every element was discharged.
    refute_first: try a random-instance refutation before the (possibly slow) proof attempt; a hit is recorded as a failed obligation with its counter-model."""
    n0 = len(B.ctx.obligations)
    if A is not None:
        lhs, rhs, hyps = A.map(lhs), A.map(rhs), [A(h) for h in hyps]
    if S.is_scalar(rhs) and not S.is_scalar(lhs):
        rhs = remap(lambda x: D(rhs), lhs)
    ok = True
    if refute_first:
        for i, g in S.eq_all(lhs, rhs):
            t0 = time.time()
            cex = refute_random(g, list(hyps))
            if cex is not None:
                B.record("%s[%d]" % (name, i), unit, S.Result("failed", time.time() - t0, model=cex), fn, "identity %s (refuted on a random instance)" % name)
                ok = False
            else:
                r = B.prove_eq(name, S.elements(lhs)[i], S.elements(rhs)[i], list(hyps), unit, fn, timeout_ms=timeout_ms, minimal=True)[0]
                # prove_eq numbers a scalar goal [0]: keep the element index in the name
                ob = B.ctx.obligations[-1]
                ob.name = ob.name.replace("%s[0]" % name, "%s[%d]" % (name, i)) if i else ob.name
                ok &= r.status == "discharged"
    else:
        rs = B.prove_eq(name, lhs, rhs, list(hyps), unit, fn, timeout_ms=timeout_ms, minimal=True)
        ok = all(r.status == "discharged" for r in rs)
    if bounded:
        for ob in B.ctx.obligations[n0:]:
            ob.bounded = bounded
    return ok


def eqs(lhs, rhs):
    return [g for _, g in S.eq_all(lhs, rhs)]


# ----------------------------------------------------------------------
# (N) node scenario: ONE node of `dof` mobilities between an arbitrary parent and `nchild` arbitrary children
# ----------------------------------------------------------------------
SPEC = "RigidBodyNodeSpec<dof>::"


class NodeScenario:
    def __init__(self, B, dof, nchild=1):
        S.reset_env()
        C = B.cls
        self.B, self.dof, self.tok = B, dof, B.ns["ic"]
        tok = self.tok
        d = dof
        class N(C["DNode"]):
            dof = d
        class N1(C["DNode"]):
            dof = 1
        self.parent = N1(0, 0, None)
        self.n = N(1, 0, self.parent, mass=D(R_("km")))
        self.H, self.l, self.Mk = sym_H("h", dof), v3("l"), sym_Mk(B, "k")
        self.n.setH(tok, self.H); self.n.setPhi(tok, C["PhiMatrix"](self.l)); self.n.setMk_G(tok, self.Mk)
        self.children = []
        for k in range(nchild):
            c = N1(2 + k, dof + k, self.n)
            c.l, c.PPlus = v3("lc%d_" % k), sym_ABI(B, "pc%d_" % k)
            c.setPhi(tok, C["PhiMatrix"](c.l)); c.setPPlus(tok, c.PPlus)
            c.setP(tok, sym_ABI(B, "pcfull%d_" % k))          # the child's own P (unrelated symbols): must NOT enter the parent's recursion
            self.children.append(c)
        self.nb = 2 + nchild

    def shift_in(self, l, F):
        """child-to-parent shift of a spatial force, written out: (F0 + l x F1, F1)"""
        return SpatialVec(F[0] + cross(l, F[1]), F[1])

    def shift_out(self, l, A):
        """parent-to-child shift of a spatial velocity/acceleration, written out: (A0, A1 + A0 x l)"""
        return SpatialVec(A[0], A[1] + cross(A[0], l))


def sympairs(n):
    return [(i * n + j, j * n + i) for i in range(n) for j in range(i + 1, n)]


def abi_lemmas(B, sc, U):
    """realizeArticulatedBodyInertiasInward on the node of sc. -> dict with the abstraction used downstream (P free, DI free symmetric)"""
    n, tok, dof = sc.n, sc.tok, sc.dof
    fn = SPEC + "realizeArticulatedBodyInertiasInward"
    n.realizeArticulatedBodyInertiasInward(tok, tok, tok)
    P, PPlus, G, Dm, DI, H = n.getP(tok), n.getPPlus(tok), n.getG(tok), n.getD(tok), n.getDI(tok), sc.H
    defs = recip_defs()
    x, y = sv("x"), Vec(*[R_("y%d" % i) for i in range(dof)])
    ok = True
    # N1 assembly of P from the body's spatial inertia and the children's P+ (two different code routes: ABI constructor + ABI shift + += versus
    # SpatialInertia*V, PhiMatrix products, ABI*V)
    rhs = sc.Mk * x
    for c in sc.children:
        rhs = rhs + n_phi(B, c.l) * (c.PPlus * ((~n_phi(B, c.l)) * x))
    ok &= prove(B, None, "N1 P*x == Mk*x + sum_c Phi_c*(PPlus_c*(~Phi_c*x))  (P = Mk + sum Phi P+ ~Phi)", P * x, rhs, [], U, fn)
    A1 = Abstraction()
    Pa = A1.bind(P, "p")
    ok &= prove(B, A1, "N2 D == ~D  (D = ~H P H symmetric; P arbitrary symmetric ABI)", Dm, ~Dm, [], U, fn)
    # N3 the inversion: D entries free (symmetric positions merged: N2), DI from the real Mat<dof,dof>::invert()
    A2 = A1.copy()
    A2.bind(Dm, "d", merge=sympairs(dof))
    hyp = [A2(h) for h in defs]
    B.guard_sat("%s N3 1/det(D) exists" % U, hyp, U)
    ok &= prove(B, A2, "N3a DI*D == 1  (det D != 0)", DI * Dm, eye(dof), defs, U, "Mat<%d,%d>::invert" % (dof, dof))
    ok &= prove(B, A2, "N3b D*DI == 1  (det D != 0)", Dm * DI, eye(dof), defs, U, "Mat<%d,%d>::invert" % (dof, dof))
    ok &= prove(B, A2, "N3c DI == ~DI  (D symmetric)", DI, ~DI, [], U, "Mat<%d,%d>::invert" % (dof, dof))
    # downstream: DI free symmetric (N3c), P free
    A3 = A1.copy()
    A3.bind(DI, "s", merge=sympairs(dof))
    ok &= prove(B, A3, "N4 G*y == P*(H*(DI*y))  (G = P H DI)", G * y, P * (H * (DI * y)), [], U, fn)
    ok &= prove(B, A3, "N5 PPlus*x == P*x - G*(~H*(P*x))  (P+ = (1 - G ~H) P; the symmetrisation changes nothing)", PPlus * x, P * x - G * ((~H) * (P * x)), [], U, fn)
    HPx = (~H) * (P * x)
    ok &= mod_inverse(B, A3, "N6 ~H*(PPlus*x) == 0  (the projected inertia annihilates the joint space)", (~H) * (PPlus * x), Vec([0] * dof), Dm, DI, -HPx, U, fn)
    xx = sv("xx")
    ok &= prove(B, A3, "N7 ~xx*(PPlus*x) == ~x*(PPlus*xx)  (P+ symmetric)", (~xx) * (PPlus * x), (~x) * (PPlus * xx), [], U, fn)
    return dict(A=A3, defs=defs, ok=ok, P=P, PPlus=PPlus, G=G, D=Dm, DI=DI, H=H)


def n_phi(B, l):
    return B.cls["PhiMatrix"](l)


_GUARDED = set()


def mod_inverse(B, A, name, lhs, rhs, Dm, DI, w, U, fn, bounded=None, timeout_ms=30000, hyps=()):
    """claim lhs == rhs given D*DI == 1 (DI free otherwise), in two steps: (i) the hypothesis-free identity lhs - rhs == (D*DI - 1)*w
    (z3 expands polynomials, no nonlinear hypotheses); (ii) the rewriting step r == (E - 1) w, E == 1 |- r == 0 on abstracted terms (E = D*DI == 1 is lemma N3b).
    If (i) does not hold (changed tree) the claim is attacked directly under the hypotheses D*DI == 1: a model is then a genuine counterexample."""
    dof = Dm.nr
    E = Dm * DI
    n0 = len(B.ctx.obligations)
    ok = prove(B, A, name + " [identity: lhs - rhs == (D*DI - 1)*w, DI free]", lhs - rhs, (E - eye(dof)) * w, list(hyps), U, fn, timeout_ms=timeout_ms, bounded=bounded, refute_first=True)
    if ok:
        r = Vec(*[R_("r_%d" % i) for i in range(dof)])
        Ev = Mat([[R_("E_%d%d" % (i, j)) for j in range(dof)] for i in range(dof)])
        wv = Vec(*[R_("w_%d" % i) for i in range(dof)])
        hyp = eqs(r, (Ev - eye(dof)) * wv) + eqs(Ev, eye(dof))
        if (U, dof) not in _GUARDED:
            _GUARDED.add((U, dof))
            B.guard_sat("%s rewriting step (r == (E - 1) w, E == 1), dof %d" % (U, dof), hyp, U)
        return prove(B, None, name + " [from the identity and D*DI == 1]", r, Vec([0] * dof), hyp, U, fn, bounded=bounded)
    # the sufficient identity failed: it is only a proof device, so withdraw it and decide the claim itself
    del B.ctx.obligations[n0:]
    return prove(B, A, name + " [direct, hypotheses D*DI == 1]", lhs, rhs, list(hyps) + eqs(E, eye(dof)), U, fn, timeout_ms=min(timeout_ms, 8000), bounded=bounded, refute_first=True)


def _arrays(sc, with_forces=True):
    """symbolic work arrays for one node between parent (slot 0) and children (slots 2..)"""
    dof, nb = sc.dof, sc.nb
    nu = dof + len(sc.children)
    a = dict(f=RArr([R_("f%d" % i) for i in range(nu)]), F=SVArr([sv("Fb%d" % i) for i in range(nb)]), eps=RArr(nu), z=SVArr(nb), zPlus=SVArr(nb), A=SVArr(nb),
             udot=RArr(nu), tau=RArr(0))
    for k, c in enumerate(sc.children):
        a["zPlus"][c.nodeNum] = sv("zpc%d_" % k)
    a["A"][0] = sv("Ap")
    return a


def fd_lemmas(B, sc, abi, U, zero_bias=False):
    """calcUDotPass1Inward / calcUDotPass2Outward (zero_bias: multiplyByMInvPass1Inward / Pass2Outward) on the node of sc, any parent acceleration,
    any children z+, any applied forces; P free symmetric, DI free symmetric (abi['A']); the joint equation needs D*DI == 1."""
    n, tok, dof, A3 = sc.n, sc.tok, sc.dof, abi["A"]
    P, PPlus, G, Dm, DI, H = abi["P"], abi["PPlus"], abi["G"], abi["D"], abi["DI"], abi["H"]
    w = _arrays(sc)
    if zero_bias:
        fn = SPEC + "multiplyByMInvPass1Inward/Pass2Outward"
        a, b, Fapp = zero_sv(), zero_sv(), zero_sv()
        n.multiplyByMInvPass1Inward(tok, tok, tok, w["f"], w["z"], w["zPlus"], w["eps"])
        n.multiplyByMInvPass2Outward(tok, tok, tok, w["eps"], w["A"], w["udot"])
        tag = "MI"
    else:
        fn = SPEC + "calcUDotPass1Inward/Pass2Outward"
        a, b = sv("a"), sv("b")
        n.setMobilizerCoriolisAcceleration(tok, a); n.setGyroscopicForce(tok, b)
        n.realizeArticulatedBodyVelocityCache(tok, tok, tok, tok)
        Fapp = w["F"][n.nodeNum]
        n.calcUDotPass1Inward(tok, tok, tok, tok, w["f"], w["F"], w["udot"], w["z"], w["zPlus"], w["eps"])
        n.calcUDotPass2Outward(tok, tok, tok, tok, tok, w["eps"], w["A"], w["udot"], w["tau"])
        tag = "FD"
    z, zPlus, A_GB = w["z"][n.nodeNum], w["zPlus"][n.nodeNum], w["A"][n.nodeNum]
    f, eps, udot = n.fromU(w["f"]), n.fromU(w["eps"]), n.fromU(w["udot"])
    APlus = sc.shift_out(sc.l, w["A"][0])                      # written out: (alpha_P, a_P + alpha_P x l)
    ok = True
    zexp = P * a + b - Fapp
    for c in sc.children:
        zexp = zexp + sc.shift_in(c.l, w["zPlus"][c.nodeNum])
    ok &= prove(B, A3, "%s1 z == P*a + b - F_applied + sum_c shift(z+_c)  (bias force of the articulated body%s)" % (tag, "; a = b = F = 0" if zero_bias else ""), z, zexp, [], U, fn)
    Hu = H * udot
    ok &= prove(B, A3, "%s2 A_GB == shift(A_GP) + H*udot + a  (body acceleration; a = mobilizer coriolis acceleration)" % tag, A_GB, APlus + Hu + a, [], U, fn)
    T = P * (A_GB - a) + z
    ok &= prove(B, A3, "%s3 P*(A_GB - a) + z == PPlus*shift(A_GP) + zPlus  (force across the joint as felt by the parent; induction invariant of the inward pass)" % tag,
                T, PPlus * APlus + zPlus, [], U, fn)
    # witness built from the code's own outputs (A_GB - a - H*udot is the shifted parent acceleration the code used): the joint equation is decided on its own merits
    ok &= mod_inverse(B, A3, "%s4 ~H*(P*(A_GB - a) + z) == f_mobility  (joint equation)" % tag, (~H) * T, f, Dm, DI, eps - (~H) * (P * (A_GB - a - Hu)), U, fn)
    return dict(ok=ok, w=w)


def id_lemmas(B, sc, U, zero_bias=False):
    """calcBodyAccelerationsFromUdotOutward + calcInverseDynamicsPass2Inward (zero_bias: multiplyByMPass1Outward / Pass2Inward).
    The node code is run once per decision vector over (up to 2) symbolic branches: on the pinned tree it has none (all scripts give the same
    empty path), but a guard such as `if (V_GB[0] != 0)` introduced around a term must be explored on both sides, each under its path condition."""
    ok = True
    seen = set()
    for path, script, res in B.run_paths(lambda: _id_run(B, sc, zero_bias), 2):
        key = tuple(str(c_) for c_ in path)
        if key in seen:
            continue
        seen.add(key)
        if path:
            s_ = z3.Solver(); s_.set("timeout", 10000); s_.add(*path)
            if s_.check() == z3.unsat:
                continue
        ok &= _id_prove(B, sc, U, zero_bias, res, list(path), "" if len(seen) == 1 else " [path %d]" % len(seen))
    return dict(ok=ok)


def _id_run(B, sc, zero_bias):
    n, tok, dof = sc.n, sc.tok, sc.dof
    w = _arrays(sc)
    nb = sc.nb
    w["udot"] = RArr([R_("ud%d" % i) for i in range(dof + len(sc.children))])
    Fc = SVArr(nb)
    for k, c in enumerate(sc.children):
        Fc[c.nodeNum] = sv("Fc%d_" % k)
    tau = RArr(dof + len(sc.children))
    if zero_bias:
        a, b, Fapp, fapp = zero_sv(), zero_sv(), zero_sv(), Vec([0] * dof)
        n.multiplyByMPass1Outward(tok, w["udot"], w["A"])
        n.multiplyByMPass2Inward(tok, w["A"], Fc, tau)
    else:
        a, b = sv("a"), sv("b")
        n.setMobilizerCoriolisAcceleration(tok, a); n.setGyroscopicForce(tok, b)
        n.setV_GB(tok, sv("Vgb"))                      # realized velocity of this body: arbitrary (the pinned code does not read it here)
        Fapp, fapp = w["F"][n.nodeNum], n.fromU(w["f"])
        n.calcBodyAccelerationsFromUdotOutward(tok, tok, w["udot"], w["A"])
        n.calcInverseDynamicsPass2Inward(tok, tok, w["A"], w["f"], w["F"], Fc, tau)
    return w, Fc, tau, a, b, Fapp, fapp


def _id_prove(B, sc, U, zero_bias, res, hyp, sfx):
    n, dof = sc.n, sc.dof
    w, Fc, tau, a, b, Fapp, fapp = res
    fn = SPEC + ("multiplyByMPass1Outward/Pass2Inward" if zero_bias else "calcBodyAccelerationsFromUdotOutward/calcInverseDynamicsPass2Inward")
    tag = "MM" if zero_bias else "ID"
    A_GB, F = w["A"][n.nodeNum], Fc[n.nodeNum]
    udot = n.fromU(w["udot"])
    ok = True
    ok &= prove(B, None, "%s1 A_GB == shift(A_GP) + H*udot + a%s" % (tag, sfx), A_GB, sc.shift_out(sc.l, w["A"][0]) + sc.H * udot + a, hyp, U, fn)
    # Newton-Euler at the body origin, written out from mass, mass centre c and inertia I = m*G about the origin:
    #   force  = m (a_lin + alpha x c),  moment = I alpha + m c x a_lin   (+ gyroscopic b)
    m_, c_, I_ = sc.Mk.m, sc.Mk.p, sc.Mk.G.I_OF_F
    al, ali = A_GB[0], A_GB[1]
    NE = SpatialVec(m_ * (I_ * al) + m_ * cross(c_, ali), m_ * (ali + cross(al, c_)))
    Fexp = NE + b - Fapp
    for c in sc.children:
        Fexp = Fexp + sc.shift_in(c.l, Fc[c.nodeNum])
    ok &= prove(B, None, "%s2 F == Mk*A_GB + b - F_applied + sum_c shift(F_c)  (Newton-Euler at the body origin + shifted child forces)%s" % (tag, sfx), F, Fexp, hyp, U, fn)
    ok &= prove(B, None, "%s3 tau == ~H*F - f_applied%s" % (tag, sfx), Vec(list(n.fromU(tau))), Vec([S.dot(list(sc.H.cols[j][0]), list(F[0])) + S.dot(list(sc.H.cols[j][1]), list(F[1])) for j in range(dof)]) - fapp, hyp, U, fn)
    return ok


def dual_sv(x, dx):
    return SpatialVec(Vec([D(val(a), val(b)) for a, b in zip(x[0].e, dx[0].e)]), Vec([D(val(a), val(b)) for a, b in zip(x[1].e, dx[1].e)]))


def dual_vec(x, dx):
    return Vec([D(val(a), val(b)) for a, b in zip(x.e, dx.e)])


def vel_lemmas(B, dof, U, which="V1 V2 V3 V4 V5"):
    """realizeVelocity + calcJointIndependentKinematicsVel + calcKineticEnergy of one node below an arbitrary moving parent: the velocity recursion, the
    coriolis acceleration as the exact time derivative of the velocity recursion (dual numbers), the gyroscopic force against the Newton-Euler equations
    obtained by differentiating the spatial momentum Mk(t)*V(t), the kinetic energy against 1/2 m |v_cm|^2 + 1/2 w.I_cm w."""
    S.reset_env()
    C = B.cls
    tok = B.ns["ic"]
    N, G0 = abstract_classes(B, dof)
    fnv = "RigidBodyNode::calcJointIndependentKinematicsVel"
    H, HD, l, u, ud = sym_H("h", dof), sym_H("hd", dof), v3("l"), [R_("u%d" % i) for i in range(dof)], [R_("ud%d" % i) for i in range(dof)]
    V_GP, A_GP, atotP = sv("Vp"), sv("Ap"), sv("atp")
    m_, c_, Gm = R_("km"), v3("kc"), S.symmat33(*[R_("kg%d" % i) for i in range(6)])
    def mk(Hn, ln, un, Vp, cn, Gn):
        par = N(0, 0, None)
        par.setV_GB(tok, Vp); par.setTotalCoriolisAcceleration(tok, atotP)
        n = N(1, 0, par, mass=D(m_))
        n.setH(tok, Hn); n.setH_FM(tok, Hn); n.setPhi(tok, C["PhiMatrix"](ln)); n.setMk_G(tok, C["SpatialInertia"](m_, cn, C["UnitInertia"](Gn)))
        n.sym_HDot_FM, n.sym_HDot = HD, HD
        mt = C["Matter"]([[par], [n]])
        mt.u = RArr(list(un))
        n.realizeVelocity(mt.sbs)
        return n
    n0 = mk(H, l, u, V_GP, c_, Gm)
    V = n0.getV_GB(tok)
    w_, v_ = V[0], V[1]
    Hu = H * u
    ok = True
    which = which.split()
    ok &= prove(B, None, "V1 V_GB == (w_P + (H u)_w, v_P + w_P x l + (H u)_v)  (velocity recursion)", V, SpatialVec(V_GP[0] + Hu[0], V_GP[1] + cross(V_GP[0], l) + Hu[1]), [], U, fnv)
    if "V2" not in which:
        return _vel_tail(B, U, n0, which, m_, c_, Gm, w_, v_, atotP, l, tok, fnv, ok)
    # V2: the same recursion on dual numbers: V_GP(t) (rate A_GP), H(t) (rate HDot), u(t) (rate udot), l(t) = p_PB_G(t) with d/dt l = v_GB - v_GP
    ldot = Vec([val(v_[i]) - val(V_GP[1][i]) for i in range(3)])
    Ht = HMat(dof, [dual_sv(H.cols[j], HD.cols[j]) for j in range(dof)])
    n1 = mk(Ht, dual_vec(l, ldot), [D(a, b) for a, b in zip(u, ud)], dual_sv(V_GP, A_GP), c_, Gm)
    Aarr = SVArr(2); Aarr[0] = A_GP
    n0.calcBodyAccelerationsFromUdotOutward(tok, tok, RArr(ud), Aarr)
    ok &= prove(B, None, "V2 d/dt V_GB(t) == shift(A_GP) + H*udot + a_mobilizer  (coriolis acceleration = velocity-dependent part of the time derivative of the velocity recursion; "
                "d/dt p_PB_G = v_GB - v_GP, d/dt H = HDot)", remap(lambda x: D(der(x)), n1.getV_GB(tok)), Aarr[1], [], U, fnv + " + calcBodyAccelerationsFromUdotOutward")
    # V3: Newton-Euler from the momentum: h(t) = Mk(t) V(t) about the (moving) body origin; c(t) rotates with w, G(t) rotates with w; V(t) has an arbitrary rate A
    Aany = sv("Aa")
    W = crossMat(Vec([val(x) for x in w_.e]))
    Gv = Mat([[val(x) for x in r] for r in Gm.m])
    Gdot = W * Gv - Gv * W
    Gt = S.SymMat([[D(val(Gv.m[i][j]), val(Gdot.m[i][j])) for j in range(3)] for i in range(3)])
    wv = Vec([val(x) for x in w_.e])
    ct = dual_vec(c_, cross(wv, c_))
    Mt = C["SpatialInertia"](m_, ct, C["UnitInertia"](Gt))
    Vt = dual_sv(remap(lambda x: D(val(x)), V), Aany)
    h = Mt * Vt
    L = Vec([val(x) for x in h[1].e])
    vv = Vec([val(x) for x in v_.e])
    lhs = SpatialVec(Vec([D(der(x)) for x in h[0].e]) + cross(vv, L), Vec([D(der(x)) for x in h[1].e]))
    rhs = n0.getMk_G(tok) * Aany + n0.getGyroscopicForce(tok)
    ok &= prove(B, None, "V3 (d/dt(k) + v x L, d/dt(L)) == Mk*A + b for (k,L) = Mk(t)*V(t)  (gyroscopic force b = what Newton-Euler at the moving body origin requires beyond Mk*A)",
                lhs, rhs, [], U, fnv + " + SpatialInertia_::operator*")
    return _vel_tail(B, U, n0, which, m_, c_, Gm, w_, v_, atotP, l, tok, fnv, ok)


def _vel_tail(B, U, n0, which, m_, c_, Gm, w_, v_, atotP, l, tok, fnv, ok):
    wv = Vec([val(x) for x in w_.e])
    vv = Vec([val(x) for x in v_.e])
    Gv = Mat([[val(x) for x in r] for r in Gm.m])
    if "V4" in which:
        # V4: totals used by calcEquivalentJointForces
        amob = n0.getMobilizerCoriolisAcceleration(tok)
        atot = SpatialVec(atotP[0], atotP[1] + cross(atotP[0], l)) + amob
        ok &= prove(B, None, "V4a total coriolis acceleration == shift(parent's) + a_mobilizer", n0.getTotalCoriolisAcceleration(tok), atot, [], U, fnv)
        ok &= prove(B, None, "V4b total centrifugal force == Mk*a_total + b", n0.getTotalCentrifugalForces(tok), n0.getMk_G(tok) * atot + n0.getGyroscopicForce(tok), [], U, fnv)
    if "V5" in which:
        # V5: kinetic energy against the textbook form
        ok &= prove(B, None, "V5 calcKineticEnergy == 1/2 m |v_cm|^2 + 1/2 w.I_cm w", n0.calcKineticEnergy(tok, tok), ke_textbook(m_, c_, Gv, wv, vv), [], U, "RigidBodyNode::calcKineticEnergy")
    return ok


def ke_textbook(m_, c_, Gv, wv, vv):
    vcm = vv + cross(wv, c_)
    Gc = Gv - (S.dot(list(c_), list(c_)) * eye(3) - Mat([[c_[i] * c_[j] for j in range(3)] for i in range(3)]))      # unit central inertia (parallel axis)
    return D(m_) * S.dot(list(vcm), list(vcm)) / 2 + D(m_) * S.dot(list(wv), list(Gc * wv)) / 2


# ----------------------------------------------------------------------
# (T) small-tree composition: the real passes in the real (transliterated) driver order; bounded in tree size
# ----------------------------------------------------------------------
BOUND = "tree size <= 2 (ground + 1 body; ground + 2-body chain; ground + 2 bodies both on Ground), 1 mobility per body"


def tree_roundtrips(B, nb, U, mode, shape="chain"):
    """mode 'dyn': inverse(forward(f)) == 0 residual and forward(f + inverse(udot*)) == udot*;
       mode 'mass': multiplyByM(multiplyByMInv(v)) == v and multiplyByMInv(multiplyByM(x)) == x.
    nb == 1: direct. nb == 2: lemma chain = the induction step instantiated: (i) the tip node alone (parent motion abstracted), (ii) the base joint with the
    tip's outputs (P+, z+, F) abstracted and related by (i)."""
    T = Tree(B, nb, 1, bias="symbolic" if mode == "dyn" else "zero", shape=shape)
    tok = T.tok
    ok = True
    fork = shape == "fork"
    bd = BOUND
    dyn = mode == "dyn"
    f = T.rvec("f")
    Fb = T.svec("Fb") if dyn else None
    fnF = "SimbodyMatterSubsystemRep::calcTreeAccelerations + calcTreeResidualForces" if dyn else "SimbodyMatterSubsystemRep::multiplyByMInv + multiplyByM"
    name1 = "inverse(forward(f, F)) residual" if dyn else "multiplyByM(multiplyByMInv(v)) - v"
    name2 = "forward(f + inverse(udot*)) == udot*" if dyn else "multiplyByMInv(multiplyByM(x)) == x"
    def fwd(ff):
        if dyn:
            o = T.forward(ff, Fb)
            return dict(udot=o["udot"], zPlus=o["zPlus"], A=o["A"], eps=o["eps"])
        ud = T.mulMInv(ff)
        return dict(udot=ud, zPlus=B.temps["zPlus"], A=B.temps["A_GB"], eps=B.temps["eps"])
    def inv(ud):
        """-> residual-like vector r with r = M ud + bias - f (dyn) or M ud (mass), the force array F and the acceleration array"""
        if dyn:
            o = T.inverse(f, Fb, ud)
            return dict(r=o["res"], F=B.temps["allFTmp"], A=o["A"])
        Ma = T.mulM(ud)
        return dict(r=Ma, F=B.temps["fTmp"], A=B.temps["A_GB"])
    n1 = T.nodes[1]
    n2 = T.nodes[2] if nb == 2 else None
    # ---------------- round trip 1 ----------------
    fw = fwd(f)
    defs = recip_defs()                       # tip first (inward sweep)
    assert len(defs) == nb
    B.guard_sat("%s 1/D exists for every joint" % U, defs, U)
    iv = inv(fw["udot"])
    goal = (lambda k: iv["r"][k]) if dyn else (lambda k: iv["r"][k] - f[k])
    if nb == 1 or fork:
        for k in range(nb):
            ok &= prove(B, None, "%s == 0, joint %d%s" % (name1, k + 1, " (both bodies on Ground)" if fork else ""), goal(k), 0, defs, U, fnF, bounded=bd, refute_first=True)
    else:
        ok &= prove(B, None, "%s == 0, joint 2 (tip)" % name1, goal(1), 0, defs, U, fnF, bounded=bd, refute_first=True)
        # (i) tip: F_2 == PPlus_2*shift(A_1) + zPlus_2 for ANY base acceleration of the form H_1*udot_1 + a_1 (udot_1 abstracted)
        A = Abstraction()
        A.bind([fw["udot"][0]], "ud1")
        PP2, l2 = n2.getPPlus(tok), n2.getPhi(tok).l()
        A1 = iv["A"][1]
        shiftA1 = SpatialVec(A1[0], A1[1] + cross(A1[0], l2))
        ok &= prove(B, A, "chain(i) tip: F_2 == PPlus_2*shift(A_1) + zPlus_2  (udot_1 free)", iv["F"][2], PP2 * shiftA1 + fw["zPlus"][2], [], U, fnF, bounded=bd, refute_first=True)
        # (ii) base joint, tip outputs abstracted
        A = Abstraction()
        Fv = A.bind(iv["F"][2], "F2")
        zv = A.bind(fw["zPlus"][2], "zp2")
        Pv = A.bind(PP2, "pp2")
        A1a = A.map(A1)
        hyp = eqs(Fv, Pv * SpatialVec(A1a[0], A1a[1] + cross(A1a[0], l2)) + zv)
        B.guard_sat("%s chain(ii) hypotheses" % U, hyp + [A(defs[1])], U)
        ok &= mod_inverse(B, A, "%s == 0, joint 1 (base)  [tip outputs P+_2, z+_2, F_2 abstracted, related by chain(i)]" % name1, Vec([goal(0)]), Vec([0]),
                          n1.getD(tok), n1.getDI(tok), Vec([fw["eps"][0]]), U, fnF, bounded=bd, hyps=hyp)
    # ---------------- round trip 2 ----------------
    xs = T.rvec("us")                         # (the ABI realization is repeated by the driver: same terms, same reciprocal variables)
    iv = inv(xs)
    F2s = SpatialVec(Vec(list(iv["F"][nb][0].e)), Vec(list(iv["F"][nb][1].e)))
    A1s = iv["A"][1]
    fp = RArr([f[k] + iv["r"][k] for k in range(nb)]) if dyn else RArr(list(iv["r"]))
    fw = fwd(fp)
    defs = recip_defs()
    assert len(defs) == nb
    if nb == 1 or fork:
        for k in range(nb):
            ok &= prove(B, None, "%s, joint %d%s" % (name2, k + 1, " (both bodies on Ground)" if fork else ""), fw["udot"][k], xs[k], defs, U, fnF, bounded=bd, refute_first=True)
    else:
        PP2, l2 = n2.getPPlus(tok), n2.getPhi(tok).l()
        shiftA1 = SpatialVec(A1s[0], A1s[1] + cross(A1s[0], l2))
        # (i) tip: F*_2 - zPlus_2 == PPlus_2*shift(A*_1) (needs 1/D_2)
        ok &= prove(B, None, "chain(i) tip: F*_2 - zPlus_2 == PPlus_2*shift(A*_1)", F2s - fw["zPlus"][2], PP2 * shiftA1, [defs[0]], U, fnF, bounded=bd, refute_first=True)
        # (ii) base joint with tip outputs abstracted
        A = Abstraction()
        Fv = A.bind(F2s, "F2")
        zv = A.bind(fw["zPlus"][2], "zp2")
        Pv = A.bind(PP2, "pp2")
        hyp = eqs(Fv, zv + Pv * A.map(shiftA1)) + [A(defs[1])]
        B.guard_sat("%s chain(ii) hypotheses, second round trip" % U, hyp, U)
        ok1 = prove(B, A, "%s, joint 1 (base)  [tip outputs abstracted, related by chain(i)]" % name2, fw["udot"][0], xs[0], hyp, U, fnF, bounded=bd, refute_first=True)
        ok &= ok1
        # (iii) tip joint with udot_1 replaced by udot*_1 (ii)
        A = Abstraction()
        A.rewrite([fw["udot"][0]], [D(xs[0].v if isinstance(xs[0], D) else xs[0])])
        ok &= prove(B, A, "%s, joint 2 (tip)  [udot_1 == udot*_1 by the base-joint obligation]" % name2, fw["udot"][1], xs[1], [defs[0]], U, fnF, bounded=bd, refute_first=True)
    return ok


def tree_mass(B, nb, U, shape="chain"):
    """mass-matrix operator facts on the small trees: symmetry, kinetic energy, composite-rigid-body closed form (hypothesis-free polynomial identities
    except where SpatialInertia += divides by the total mass)"""
    bd = BOUND
    ok = True
    T = Tree(B, nb, 1, bias="none", shape=shape)
    tok = T.tok
    fnM = "SimbodyMatterSubsystemRep::multiplyByM"
    x, y = T.rvec("x"), T.rvec("y")
    Mx, My = T.mulM(x), T.mulM(y)
    if nb > 1:
        ok &= prove(B, None, "~y*(M x) == ~x*(M y)  (M symmetric)", S.dot(list(y), list(Mx)), S.dot(list(x), list(My)), [], U, fnM, bounded=bd)
    # kinetic energy with body velocities from the real velocity recursion
    u = T.rvec("u")
    T.matter.u = u
    T.matter.realizeVelocityKinematics(tok)
    ke = T.matter.calcKineticEnergy(tok)
    Mu = T.mulM(u)
    ok &= prove(B, None, "calcKineticEnergy == 1/2 ~u*(M u)  (V_GB from realizeVelocityKinematics)", ke, S.dot(list(u), list(Mu)) / 2, [], U,
                fnM + " + realizeVelocityKinematics + calcKineticEnergy", bounded=bd)
    # composite rigid body closed form, R from the real calcCompositeBodyInertias
    Rr = B.cls["SIArr"](nb + 1)
    T.matter.calcCompositeBodyInertias(tok, Rr)
    defs = [sum((val(T.nodes[k].getMk_G(tok).m) for k in range(2, nb + 1)), val(T.nodes[1].getMk_G(tok).m)) != 0] if nb > 1 else []     # SpatialInertia += divides by the total mass
    H = [None] + [T.nodes[k].getH(tok).cols[0] for k in range(1, nb + 1)]
    fnR = fnM + " + calcCompositeBodyInertias"
    e = lambda k: RArr([1 if i == k else 0 for i in range(nb)])
    cols = [T.mulM(e(k)) for k in range(nb)]               # column k of M (what calcM assembles)
    if shape == "fork":
        for k in range(1, nb + 1):
            ok &= prove(B, None, "M[%d][%d] == ~H*(R*H), R = the body's own spatial inertia (both bodies on Ground)" % (k, k), cols[k - 1][k - 1], (~H[k]) * (Rr[k] * H[k]), [], U, fnR, bounded=bd)
        ok &= prove(B, None, "M[1][2] == M[2][1] == 0 (both bodies on Ground)", Vec([cols[1][0], cols[0][1]]), Vec([0, 0]), [], U, fnR, bounded=bd)
        return ok
    if defs:
        B.guard_sat("%s total mass != 0" % U, defs, U)
    if nb == 1:
        ok &= prove(B, None, "M == ~H*(Mk*H)  (one body: composite body = the body)", cols[0][0], (~H[1]) * (T.nodes[1].getMk_G(tok) * H[1]), [], U, fnM, bounded=bd)
    ok &= prove(B, None, "M[k][k] == ~H_k*(R_k*H_k), k = tip  (composite-rigid-body form)", cols[nb - 1][nb - 1], (~H[nb]) * (Rr[nb] * H[nb]), [], U, fnR, bounded=bd)
    if nb == 2:
        ok &= prove(B, None, "M[1][1] == ~H_1*(R_1*H_1)  (R_1 = Mk_1 + shifted Mk_2 from calcCompositeBodyInertias; total mass != 0)", cols[0][0], (~H[1]) * (Rr[1] * H[1]), defs, U, fnR, bounded=bd)
        l2 = T.nodes[2].getPhi(tok).l()
        RH = Rr[2] * H[2]
        ok &= prove(B, None, "M[1][2] == ~H_1*shift(R_2*H_2)", cols[1][0], (~H[1]) * SpatialVec(RH[0] + cross(l2, RH[1]), RH[1]), [], U, fnR, bounded=bd)
        ok &= prove(B, None, "M[2][1] == M[1][2]", cols[0][1], cols[1][0], [], U, fnR, bounded=bd)
    return ok


def tree_dyn_extra(B, nb, U, shape="chain"):
    """inverse dynamics == M*udot + C(q,u) - f_applied - ~J*F_applied with the real multiplyByM and multiplyBySystemJacobianTranspose (hypothesis-free)"""
    bd = BOUND
    T = Tree(B, nb, 1, bias="symbolic", shape=shape)
    tok = T.tok
    f, Fb, ud = T.rvec("f"), T.svec("Fb"), T.rvec("ud")
    zf, zF, zu = RArr([0] * nb), SVArr([zero_sv() for _ in range(nb + 1)]), RArr([0] * nb)
    full = T.inverse(f, Fb, ud)["res"]
    C0 = T.inverse(zf, zF, zu)["res"]
    Mu = T.mulM(ud)
    JtF = RArr(nb)
    T.matter.multiplyBySystemJacobianTranspose(tok, Fb, JtF)
    fn = "SimbodyMatterSubsystemRep::calcTreeResidualForces + multiplyByM + multiplyBySystemJacobianTranspose"
    ok = prove(B, None, "residual(f, F, udot) == M*udot + C(q,u) - f - ~J*F  (C = residual at udot = 0 without applied forces; body forces enter exactly as ~J*F)",
               Vec(list(full)), Vec([Mu[k] + C0[k] - f[k] - JtF[k] for k in range(nb)]), [], U, fn, bounded=bd)
    # ~J is the transpose of the J that maps speeds to body velocities: sum_k (J v)_k . F_k == v . (~J F); J u == V_GB of the real velocity recursion
    v = T.rvec("v")
    Jv = SVArr(nb + 1)
    T.matter.multiplyBySystemJacobian(tok, v, Jv)
    lhs = None
    for k in range(1, nb + 1):
        t = (~Jv[k]) * Fb[k]
        lhs = t if lhs is None else lhs + t
    fnJ = "SimbodyMatterSubsystemRep::multiplyBySystemJacobian + multiplyBySystemJacobianTranspose"
    ok &= prove(B, None, "sum_k (J v)_k . F_k == v . (~J F)  (multiplyBySystemJacobianTranspose is the adjoint of multiplyBySystemJacobian; Ground's entry of J v is 0)", lhs, S.dot(list(v), list(JtF)), [], U, fnJ, bounded=bd)
    ok &= prove(B, None, "(J v)_Ground == 0", Jv[0], zero_sv(), [], U, fnJ, bounded=bd)
    T2 = Tree(B, nb, 1, bias="none", shape=shape)
    u = T2.rvec("u")
    T2.matter.u = u
    T2.matter.realizeVelocityKinematics(T2.tok)
    Ju = SVArr(nb + 1)
    T2.matter.multiplyBySystemJacobian(T2.tok, u, Ju)
    for k in range(1, nb + 1):
        ok &= prove(B, None, "V_GB of body %d from realizeVelocityKinematics == (J u)_%d" % (k, k), T2.nodes[k].getV_GB(T2.tok), Ju[k], [], U, fnJ + " + realizeVelocityKinematics", bounded=bd)
    return ok


def tree_psd(B, nb, U, shape="chain"):
    """M positive semidefinite for physically valid bodies: (a) ~u M u == sum_k m_k (|v_cm,k|^2 + w_k.Gc_k w_k) with V_k from the real velocity recursion
    (Gc = unit central inertia by the parallel-axis theorem); (b) on abstracted terms: m_k >= 0, Gc_k quadratic form >= 0 |- the sum >= 0"""
    bd = BOUND
    T = Tree(B, nb, 1, bias="none", shape=shape)
    tok = T.tok
    u = T.rvec("u")
    T.matter.u = u
    T.matter.realizeVelocityKinematics(tok)
    Mu = T.mulM(u)
    tot = None
    for k in range(1, nb + 1):
        n = T.nodes[k]
        Mk, V = n.getMk_G(tok), n.getV_GB(tok)
        Gv = Mat([[val(x) for x in r] for r in Mk.G.I_OF_F.m])
        t = 2 * ke_textbook(val(Mk.m), Mk.p, Gv, Vec([val(x) for x in V[0].e]), Vec([val(x) for x in V[1].e]))
        tot = t if tot is None else tot + t
    fn = "SimbodyMatterSubsystemRep::multiplyByM + realizeVelocityKinematics"
    ok = prove(B, None, "~u*(M u) == sum_k m_k*(|v_cm,k|^2 + w_k.Gc_k w_k)  (Gc_k = unit central inertia of body k)", S.dot(list(u), list(Mu)), tot, [], U, fn, bounded=bd)
    ms = [z3.Real("m_%d" % k) for k in range(nb)]; sq = [[z3.Real("vcm_%d%d" % (k, i)) for i in range(3)] for k in range(nb)]; qs = [z3.Real("q_%d" % k) for k in range(nb)]
    total = sum((ms[k] * (sum(x * x for x in sq[k]) + qs[k]) for k in range(1, nb)), ms[0] * (sum(x * x for x in sq[0]) + qs[0]))
    hyp = [m >= 0 for m in ms] + [q >= 0 for q in qs]
    B.guard_sat("%s psd hypotheses" % U, hyp, U)
    n0 = len(B.ctx.obligations)
    r = B.prove_bool("~u*(M u) >= 0 when m_k >= 0 and w.Gc_k w >= 0 for every body  (M positive semidefinite) [from the identity above, terms abstracted]", total >= 0, hyp, U, fn, minimal=True)
    for ob in B.ctx.obligations[n0:]:
        ob.bounded = bd
    return ok and r.status == "discharged"


def hpbg_lemmas(B, dof, U):
    """calcParentToChildVelocityJacobianInGround[Dot] for the 8 frame specialisations <noR_FM, noX_MB, noR_PF> of RigidBodyNodeSpec: each specialised branch equals the
    general relation V_PB_G = R_GF (w_FM, v_FM + w_FM x (R_FM r_MB)) under what its flag promises (noR_FM: R_FM = 1 and no angular part in H_FM; noX_MB: X_MB = identity,
    so r_MB = 0; noR_PF: R_PF = 1), and HDot is the exact time derivative of H (dual numbers; d/dt R_GF = [w_GF]x R_GF, d/dt R_FM = [w_FM]x R_FM)."""
    C = B.cls
    tok = B.ns["ic"]
    ok = True
    import itertools
    for noR_FM, noX_MB, noR_PF in itertools.product((False, True), repeat=3):
        S.reset_env()
        N, G0 = abstract_classes(B, dof)
        tag = "<noR_FM=%s,noX_MB=%s,noR_PF=%s>" % tuple("true" if x else "false" for x in (noR_FM, noX_MB, noR_PF))
        R_GP, R_PF, R_FM = S.mat_sym("Rgp", 3, 3), (eye(3) if noR_PF else S.mat_sym("Rpf", 3, 3)), (eye(3) if noR_FM else S.mat_sym("Rfm", 3, 3))
        r_MB = Vec(0, 0, 0) if noX_MB else v3("rmb")
        H_FM, HD_FM = sym_H("hfm", dof), sym_H("hdfm", dof)
        if noR_FM:
            for c in H_FM.cols + HD_FM.cols:
                c[0] = Vec(0, 0, 0)
        u = [R_("u%d" % i) for i in range(dof)]
        V_GP = sv("Vp")
        w_GF = V_GP[0]
        w_FM = (H_FM * u)[0]
        def mk(dual):
            par = N(0, 0, None)
            par.setV_GB(tok, V_GP)
            n = N(1, 0, par)
            n.noR_FM, n.noX_MB, n.noR_PF = noR_FM, noX_MB, noR_PF
            if dual:
                Rgp = Mat([[D(val(R_GP.m[i][j]), val((crossMat(w_GF) * R_GP).m[i][j])) for j in range(3)] for i in range(3)])
                Rfm = R_FM if noR_FM else Mat([[D(val(R_FM.m[i][j]), val((crossMat(w_FM) * R_FM).m[i][j])) for j in range(3)] for i in range(3)])
                Hfm = HMat(dof, [dual_sv(a, b) for a, b in zip(H_FM.cols, HD_FM.cols)])
            else:
                Rgp, Rfm, Hfm = R_GP, R_FM, H_FM
            n.X_GP, n.X_PF, n.X_MB, n.X_FM = S.Transform(Rgp, v3("pgp")), S.Transform(R_PF, v3("ppf")), S.Transform(eye(3), r_MB), S.Transform(Rfm, v3("pfm"))
            n.setH_FM(tok, Hfm); n.setHDot_FM(tok, HD_FM); n.setV_FM(tok, H_FM * u)
            Hout = HMat(dof)
            n.real_calcParentToChildVelocityJacobianInGround(tok, tok, Hout)
            n.setH(tok, Hout)
            return n
        n0, n1 = mk(False), mk(True)
        H = n0.getH(tok)
        fn = SPEC + "calcParentToChildVelocityJacobianInGround"
        R_GF = R_GP * R_PF
        V = H_FM * u
        r_F = R_FM * r_MB
        ok &= prove(B, None, "H%s: H_PB_G*u == R_GF*(w_FM, v_FM + w_FM x (R_FM*r_MB)) for (w_FM,v_FM) = H_FM*u" % tag, H * u, SpatialVec(R_GF * V[0], R_GF * (V[1] + cross(V[0], r_F))), [], U, fn)
        HD = HMat(dof)
        n0.real_calcParentToChildVelocityJacobianInGroundDot(tok, tok, tok, HD)
        ok &= prove(B, None, "HDot%s: HDot_PB_G == d/dt H_PB_G  (d/dt R_GF = [w_GP]x R_GF, d/dt R_FM = [w_FM]x R_FM, d/dt H_FM = HDot_FM)" % tag,
                    Vec([D(val(x)) for x in HD.flat()]), Vec([D(der(x)) for x in n1.getH(tok).flat()]), [], U, fn + "Dot")
    return ok


def jac_lemmas(B, sc, U):
    """multiplyBySystemJacobian / multiplyBySystemJacobianTranspose / calcEquivalentJointForces of one node (any parent value, any children values)"""
    n, tok, dof, nb = sc.n, sc.tok, sc.dof, sc.nb
    nu = dof + len(sc.children)
    ok = True
    v = RArr([R_("v%d" % i) for i in range(nu)])
    Jv = SVArr(nb); Jv[0] = sv("Jp")
    n.multiplyBySystemJacobian(tok, v, Jv)
    ok &= prove(B, None, "J1 (J v)_B == shift((J v)_P) + H*v_B", Jv[n.nodeNum], sc.shift_out(sc.l, Jv[0]) + sc.H * n.fromU(v), [], U, SPEC + "multiplyBySystemJacobian")
    X = SVArr([sv("X%d" % i) for i in range(nb)])
    zt = SVArr(nb)
    for k, c in enumerate(sc.children):
        zt[c.nodeNum] = sv("zc%d_" % k)
    out = RArr(nu)
    n.multiplyBySystemJacobianTranspose(tok, zt, X, out)
    zexp = X[n.nodeNum]
    for c in sc.children:
        zexp = zexp + sc.shift_in(c.l, zt[c.nodeNum])
    ok &= prove(B, None, "J2 z == X_B + sum_c shift(z_c)", zt[n.nodeNum], zexp, [], U, SPEC + "multiplyBySystemJacobianTranspose")
    ok &= prove(B, None, "J3 (~J X)_B == ~H*z", Vec(list(n.fromU(out))), Vec([S.dot(list(sc.H.cols[j][0]), list(zexp[0])) + S.dot(list(sc.H.cols[j][1]), list(zexp[1])) for j in range(dof)]), [], U,
                SPEC + "multiplyBySystemJacobianTranspose")
    cf = sv("cf")
    n.setTotalCentrifugalForces(tok, cf)
    za = SVArr(nb)
    for k, c in enumerate(sc.children):
        za[c.nodeNum] = sv("zc%d_" % k)
    jf = RArr(nu)
    n.calcEquivalentJointForces(tok, tok, X, za, jf)
    zexp = X[n.nodeNum] - cf
    for c in sc.children:
        zexp = zexp + sc.shift_in(c.l, za[c.nodeNum])
    ok &= prove(B, None, "J4 calcEquivalentJointForces: ~H*(F_B - total centrifugal force + sum_c shift(z_c))", Vec(list(n.fromU(jf))),
                Vec([S.dot(list(sc.H.cols[j][0]), list(zexp[0])) + S.dot(list(sc.H.cols[j][1]), list(zexp[1])) for j in range(dof)]), [], U, SPEC + "calcEquivalentJointForces")
    return ok


# ----------------------------------------------------------------------
# RBNodeLoneParticle (RigidBodyNode_LoneParticle.cpp): the node a Translation mobilizer directly on Ground with identity frames and no children gets
# instead of RigidBodyNodeSpec<3>. Its members are cut and transliterated each run like the generic node's; the lemmas are the generic node lemmas
# specialised to H = [0; 1], parent = Ground at rest, no children, a = b = 0.
# ----------------------------------------------------------------------
LONE_CPP = os.path.join(SRC, "RigidBodyNode_LoneParticle.cpp")
LONE = "RBNodeLoneParticle::"
_VIEWARG = r"\(((?:[^()]|\([^()]*\))*)\)"
LONE_VEL_FIELDS = ("V_FM", "V_PB_G", "VD_PB_G", "V_GB", "GyroscopicForce", "MobilizerCoriolisAcceleration", "TotalCoriolisAcceleration", "TotalCentrifugalForces")
LONE_PASSES = ("realizeArticulatedBodyInertiasInward", "calcUDotPass1Inward", "calcUDotPass2Outward", "multiplyByMInvPass1Inward", "multiplyByMInvPass2Outward",
               "calcBodyAccelerationsFromUdotOutward", "calcInverseDynamicsPass2Inward", "multiplyByMPass1Outward", "multiplyByMPass2Inward",
               "multiplyBySystemJacobian", "multiplyBySystemJacobianTranspose", "calcEquivalentJointForces", "calcCompositeBodyInertiasInward",
               "realizeVelocity", "calcQDot", "calcQDotDot")


class LPlumb(DPlumb):
    """DPlumb + the Vec3 pointer views of the LoneParticle node: `[const] Vec3& x = Vec3::updAs/getAs(&a[k])` is inlined textually (every use re-reads the
    slots, every assignment writes through); then view writes become SETAS(a,k,3,e) and view reads GETAS(a,k,3)"""
    @staticmethod
    def ptr(e):
        e = e.strip()
        m = re.fullmatch(r"&\s*([\w.]+(?:\(\))?)\s*\[\s*(.+?)\s*\]", e)
        if m:
            return m.group(1), m.group(2)
        if re.fullmatch(r"\w+", e):
            return e, "0"
        raise ExtractionError("pointer-view: cannot parse pointer expression '%s'" % e)

    def body(self, b, refparams=()):
        b = strip_comments(b)
        for m in list(re.finditer(r"(?:const\s+)?Vec3\s*&\s*(\w+)\s*=\s*(Vec3::(?:getAs|updAs)" + _VIEWARG + r")\s*;", b)):
            nm, tgt = m.group(1), m.group(2)
            self.hit("reference to a Vec3 pointer view inlined (name -> view expression)", m.group(0))
            b = b.replace(m.group(0), "", 1)
            b = re.sub(r"(?<![\w.>])" + nm + r"\b(?!\s*\()", lambda _m: tgt, b)
        def wr(m):
            base, off = self.ptr(m.group(1))
            return "SETAS(%s, %s, 3, %s);" % (base, off, m.group(2))
        def rd(m):
            base, off = self.ptr(m.group(1))
            return "GETAS(%s, %s, 3, 'Vec')" % (base, off)
        b = self.sub("pointer-view write Vec3::updAs(&a[k]) = e -> SETAS(a,k,3,e)", r"\bVec3::updAs" + _VIEWARG + r"\s*=(?!=)\s*([^;]*);", wr, b)
        b = self.sub("pointer-view read Vec3::getAs/updAs(&a[k]) -> GETAS(a,k,3)", r"\bVec3::(?:getAs|updAs)" + _VIEWARG, rd, b)
        return DPlumb.body(self, b, refparams)


def build_lone(B):
    """class LoneNode with the members of RBNodeLoneParticle cut from the current tree (+ the RigidBodyNode members it inherits)"""
    if "LoneNode" in B.cls:
        return B.cls["LoneNode"]
    C = B.cls
    Base = C["DNode"].__mro__[1]
    class LoneNode(Base):
        """RBNodeLoneParticle : RigidBodyNode"""
        dof = 3
        def _upd(self, f):
            if f not in self.store and f in LONE_VEL_FIELDS:
                self.store[f] = sv("junk%d_%s_" % (self.nodeNum, f))          # cache slot allocated but not yet written: arbitrary contents
            return Base._upd(self, f)
        def _get(self, f):
            if f not in self.store and f in LONE_VEL_FIELDS:
                self._upd(f)                                                   # never written (e.g. a deleted initialisation): whatever the allocation left there
            return Base._get(self, f)
    for nm in LONE_PASSES:
        anchor = r"void %s\s*\([^{;]*?\)\s*const\s+override\s*" % nm
        B.add_method(LoneNode, LONE_CPP, anchor, nm, members=NODE_MEMBERS, methods=NODE_METHODS, occurrence=occurrence_in_class(LONE_CPP, "RBNodeLoneParticle", anchor),
                     cxxname=LONE + nm, plumb=LPlumb)
    # realizeInstance: only the statements that initialise the velocity-cache entries the dynamics passes rely on are kept (the rest: X_FM, H storage, Y, A_GB: dropped + logged)
    dropped = []
    keep = re.compile(r"(?:self\.set(?:%s)\(vc,|upd(?:%s)\(vc\)\[[01]\]\s*=(?!=))" % ("|".join(LONE_VEL_FIELDS), "|".join(LONE_VEL_FIELDS)))
    def only_vc(body):
        T = Translit("realizeInstance")
        out, rest = [], body
        while rest.strip():
            st, rest = T.one(rest)
            s = " ".join(st.split())
            if not s or s == ";":
                continue
            if keep.match(s):
                out.append(s if s.endswith(";") else s + ";")
            else:
                dropped.append(dict(rule="realizeInstance: statement outside the velocity cache dropped (X_FM, H_PB_G/H_FM storage, Y, A_GB are not read by the passes under contract)", text=s[:200]))
        if not out:
            raise ExtractionError("RBNodeLoneParticle::realizeInstance: no velocity-cache initialisation found")
        return "\n".join(out)
    anchor = r"void realizeInstance\s*\([^{;]*?\)\s*const\s+override\s*"
    B.add_method(LoneNode, LONE_CPP, anchor, "realizeInstance", members=NODE_MEMBERS, methods=NODE_METHODS, occurrence=occurrence_in_class(LONE_CPP, "RBNodeLoneParticle", anchor),
                 extra_pre=only_vc, cxxname=LONE + "realizeInstance", plumb=LPlumb)
    B.ctx.extraction[-1]["dropped"] = list(B.ctx.extraction[-1].get("dropped") or []) + dropped
    for nm in ("calcKineticEnergy", "realizeArticulatedBodyVelocityCache", "getCB_G", "getUnitInertia_OB_G", "getV_GP"):       # inherited from RigidBodyNode (same transliterated code)
        setattr(LoneNode, nm, C["DNode"].__dict__[nm])
    B.dump_sources()
    C["LoneNode"] = LoneNode
    return LoneNode


class LoneScenario:
    """Ground (node 0) <- lone particle (node 2) with uIndex = 3 and qIndex = 4: an earlier mobilizer with 3 u's and 4 q's (a quaternion Ball: node 1, not
    instantiated) owns slots u0..2 / q0..3, a later 1-dof mobilizer owns u6 / q7; so every u-array has 7 slots, every q-array 8, every body array 3, all filled
    with distinct symbols (output arrays: distinct 'junk' symbols), and reading or writing a q-slot for a u-quantity or another node's slot is a failed obligation."""
    NB, NU, NQ, NODE, UIX, QIX = 3, 7, 8, 2, 3, 4

    def __init__(self, B):
        S.reset_env()
        # while the node code runs: S.ENV.abstract_scalars = True, i.e. x/m -> x*r with the definition r*m == 1 (hypothesis m != 0) in ENV.defs
        C = B.cls
        Lone = build_lone(B)
        self.B, self.tok = B, B.ns["ic"]
        tok = self.tok
        class G0(C["Ground"]):
            def calcQDotDot(self, *a): pass
            def calcQDot(self, *a): pass
        g = G0(0)
        ground_cache_zero()
        for fld in ("V_GB", "TotalCoriolisAcceleration"):
            g._set(fld, 0)
        self.m = D(R_("km"))
        n = Lone(self.NODE, self.UIX, g, mass=self.m)
        n.qIndex = self.QIX
        self.Mk, self.q = sym_Mk(B, "k"), v3("q")          # mass symbol km == getMass(); any mass centre, any unit inertia
        n.setMk_G(tok, self.Mk); n.setPhi(tok, C["PhiMatrix"](self.q))
        self.g, self.n = g, n
        self.H = HMat(3, [SpatialVec(Vec(0, 0, 0), Vec(*[1 if i == j else 0 for i in range(3)])) for j in range(3)])        # the specification's H = [0; 1]
        self.matter = C["Matter"]([[g], [n]])
        self.matter.nb, self.matter.nu = self.NB, self.NU
        self.matter.u, self.matter.qdot = self.rarr("u"), self.rarr("qdotjunk", self.NQ)

    def rarr(self, name, n=None): return RArr([R_("%s%d" % (name, k)) for k in range(n or self.NU)])
    def svarr(self, name, ground=None):
        a = SVArr([sv("%s%d_" % (name, k)) for k in range(self.NB)])
        if ground is not None:
            a[0] = ground
        return a
    def own(self, arr, ix=None): return Vec([arr[(self.UIX if ix is None else ix) + i] for i in range(3)])
    def defs(self): return recip_defs()


def _snap(w):
    return {k: ([sv_fill(x) for x in list.__iter__(v)] if isinstance(v, SVArr) else list(list.__iter__(v))) for k, v in w.items()}


def _frame(B, sc, U, fn, tag, w, w0, written, hyp, sfx):
    """every slot of every work array that does not belong to this node keeps its value. written: array name -> 'u' | 'q' | 'b' (this node's u-, q- or body slot may change) | None"""
    lhs, rhs = [], []
    for k in sorted(w):
        own = {"u": range(sc.UIX, sc.UIX + 3), "q": range(sc.QIX, sc.QIX + 3), "b": [sc.NODE], None: []}[written.get(k)]
        for i in range(len(w0[k])):
            if i in own:
                continue
            lhs += flat(list.__getitem__(w[k], i)); rhs += flat(w0[k][i])
    r = B.prove_bool("%s frame: slots of other mobilizers / bodies (u0..2, u6, q-slots, nodes 0, 1) and all input arrays are unchanged (%d scalars)%s" % (tag, len(lhs), sfx),
                     z3.And(*eqs(Vec(lhs), Vec(rhs))), list(hyp), U, fn, minimal=True)
    return r.status == "discharged"


def _lone_paths(B, run, nbr=2):
    seen = set()
    for path, script, res in B.run_paths(run, nbr):
        key = tuple(str(c_) for c_ in path)
        if key in seen:
            continue
        seen.add(key)
        if path:
            s_ = z3.Solver(); s_.set("timeout", 10000); s_.add(*path)
            if s_.check() == z3.unsat:
                continue
        yield list(path), ("" if len(seen) == 1 else " [path %d]" % len(seen)), res


def _HT(sc, F):
    """~H*F for the specification's H = [0; 1] (written out with the generic formula)"""
    return Vec([S.dot(list(sc.H.cols[j][0]), list(F[0])) + S.dot(list(sc.H.cols[j][1]), list(F[1])) for j in range(3)])


def lone_id_lemmas(B, U, zero_bias=False):
    """calcBodyAccelerationsFromUdotOutward + calcInverseDynamicsPass2Inward (zero_bias: multiplyByMPass1Outward / Pass2Inward) of RBNodeLoneParticle"""
    sc = LoneScenario(B)
    n, tok = sc.n, sc.tok
    tag = "MM" if zero_bias else "ID"
    fn = LONE + ("multiplyByMPass1Outward/Pass2Inward" if zero_bias else "calcBodyAccelerationsFromUdotOutward/calcInverseDynamicsPass2Inward")
    def run():
        S.ENV.abstract_scalars = True
        w = dict(udot=sc.rarr("ud"), A=sc.svarr("Ajunk", zero_sv()), f=sc.rarr("f"), F=sc.svarr("Fb"), Fc=sc.svarr("Fjunk"), tau=sc.rarr("taujunk"))
        w0 = _snap(w)
        if zero_bias:
            n.multiplyByMPass1Outward(tok, w["udot"], w["A"])
            n.multiplyByMPass2Inward(tok, w["A"], w["Fc"], w["tau"])
        else:
            n.calcBodyAccelerationsFromUdotOutward(tok, tok, w["udot"], w["A"])
            n.calcInverseDynamicsPass2Inward(tok, tok, w["A"], w["f"], w["F"], w["Fc"], w["tau"])
        S.ENV.abstract_scalars = False           # the specification side is written without let-abstraction
        return w, w0
    ok = True
    for path, sfx, (w, w0) in _lone_paths(B, run):
        hyp = path + sc.defs()
        ud = sc.own(w0["udot"])
        Aexp = sc.H * ud                                        # shift(A_GP) = 0 (Ground at rest), a = 0
        ok &= prove(B, None, "%s1 A_GB == shift(A_GP) + H*udot + a == (0, udot[uIndex..uIndex+2])  (H = [0; 1], Ground at rest, a = 0; uIndex = 3, qIndex = 4)%s" % (tag, sfx),
                    w["A"][sc.NODE], Aexp, hyp, U, fn)
        m_, c_, I_ = sc.Mk.m, sc.Mk.p, sc.Mk.G.I_OF_F
        al, ali = Aexp[0], Aexp[1]
        NE = SpatialVec(m_ * (I_ * al) + m_ * cross(c_, ali), m_ * (ali + cross(al, c_)))
        Fapp = zero_sv() if zero_bias else w0["F"][sc.NODE]
        fapp = Vec(0, 0, 0) if zero_bias else sc.own(w0["f"])
        Fexp = NE - Fapp                                        # b = 0 (no angular velocity), no children
        ok &= prove(B, None, "%s2 F == Mk*A_GB + b - F_applied  (Newton-Euler at the body origin; b = 0, no children)%s" % (tag, sfx), w["Fc"][sc.NODE], Fexp, hyp, U, fn)
        ok &= prove(B, None, "%s3 tau[uIndex..uIndex+2] == ~H*F - f_applied == m*udot - F_applied[1] - f_mobility%s" % (tag, sfx), sc.own(w["tau"]), _HT(sc, Fexp) - fapp, hyp, U, fn)
        ok &= prove(B, None, "%s3' m*udot - F_applied[1] - f_mobility written out%s" % (tag, sfx), sc.own(w["tau"]), sc.m * ud - Fapp[1] - fapp, hyp, U, fn)
        ok &= _frame(B, sc, U, fn, tag, w, w0, dict(A="b", Fc="b", tau="u"), hyp, sfx)
    return ok


def lone_fd_lemmas(B, U, zero_bias=False):
    """calcUDotPass1Inward / Pass2Outward (zero_bias: multiplyByMInvPass1Inward / Pass2Outward) + realizeArticulatedBodyInertiasInward of RBNodeLoneParticle"""
    sc = LoneScenario(B)
    n, tok = sc.n, sc.tok
    tag = "MI" if zero_bias else "FD"
    fn = LONE + ("multiplyByMInvPass1Inward/Pass2Outward" if zero_bias else "calcUDotPass1Inward/Pass2Outward")
    def run():
        S.ENV.abstract_scalars = True
        w = dict(f=sc.rarr("f"), F=sc.svarr("Fb"), udot=sc.rarr("udjunk"), z=sc.svarr("zjunk"), zPlus=sc.svarr("zpjunk"), eps=sc.rarr("epsjunk"), A=sc.svarr("Ajunk", zero_sv()))
        w0 = _snap(w)
        n.store.pop("P", None); n.store.pop("PPlus", None)
        n.realizeArticulatedBodyInertiasInward(tok, tok, tok)
        if zero_bias:
            n.multiplyByMInvPass1Inward(tok, tok, tok, w["f"], w["z"], w["zPlus"], w["eps"])
            n.multiplyByMInvPass2Outward(tok, tok, tok, w["eps"], w["A"], w["udot"])
        else:
            n.calcUDotPass1Inward(tok, tok, tok, tok, w["f"], w["F"], w["udot"], w["z"], w["zPlus"], w["eps"])
            n.calcUDotPass2Outward(tok, tok, tok, tok, tok, w["eps"], w["A"], w["udot"], RArr(0))
        S.ENV.abstract_scalars = False           # the specification side is written without let-abstraction
        return w, w0, n.getP(tok)
    ok = True
    guarded = False
    for path, sfx, (w, w0, P) in _lone_paths(B, run):
        defs = sc.defs()
        hyp = path + defs
        if not guarded:
            guarded = B.guard_sat("%s 1/m exists (m != 0)" % U, hyp, U) or True
        x = sv("x")
        ok &= prove(B, None, "N1 P*x == Mk*x  (P = Mk: no children)%s" % sfx, P * x, sc.Mk * x, hyp, U, LONE + "realizeArticulatedBodyInertiasInward")
        f = sc.own(w0["f"])
        Fapp = zero_sv() if zero_bias else w0["F"][sc.NODE]
        zexp = -Fapp                                            # P*a + b - F_applied with a = b = 0, no children
        if not zero_bias:
            ok &= prove(B, None, "FD1 z == P*a + b - F_applied == -F_applied  (a = b = 0, no children)%s" % sfx, w["z"][sc.NODE], zexp, hyp, U, fn)
        ok &= prove(B, None, "%s1e eps[uIndex..uIndex+2] == f_mobility - ~H*z%s%s" % (tag, "" if zero_bias else " == f_mobility + F_applied[1]", sfx), sc.own(w["eps"]), f - _HT(sc, zexp), hyp, U, fn)
        udot = sc.own(w["udot"])
        A_GB = w["A"][sc.NODE]
        ok &= prove(B, None, "%s2 A_GB == shift(A_GP) + H*udot + a == (0, udot[uIndex..uIndex+2])  (Ground at rest, a = 0)%s" % (tag, sfx), A_GB, sc.H * udot, hyp, U, fn)
        ok &= prove(B, None, ("MI2u m*udot[uIndex..uIndex+2] == f  (udot = f/m: M^-1 = 1/m, m != 0)%s" % sfx) if zero_bias else
                    ("FD2u m*udot[uIndex..uIndex+2] == f_mobility + F_applied[1]  (udot = (f_mobility + F_applied[1])/m, m != 0)%s" % sfx), sc.m * udot, f + Fapp[1], hyp, U, fn)
        T = sc.Mk * A_GB + zexp                                  # P*(A_GB - a) + z with the specification's P = Mk and z
        if not zero_bias:
            zP = w["zPlus"][sc.NODE]
            ok &= prove(B, None, "FD3 linear part of P*(A_GB - a) + z == PPlus*shift(A_GP) + zPlus == zPlus  (Ground at rest; any mass centre)%s" % sfx, T[1], zP[1], hyp, U, fn)
            c0 = eqs(sc.Mk.p, Vec(0, 0, 0))
            ok &= prove(B, None, "FD3 P*(A_GB - a) + z == zPlus  (body origin = mass centre)%s" % sfx, T, zP, hyp + c0, U, fn)
        ok &= prove(B, None, "%s4 ~H*(P*(A_GB - a) + z) == f_mobility  (joint equation; m != 0)%s" % (tag, sfx), _HT(sc, T), f, hyp, U, fn)
        ok &= _frame(B, sc, U, fn, tag, w, w0, dict(A="b", udot="u", eps="u") if zero_bias else dict(A="b", udot="u", eps="u", z="b", zPlus="b"), hyp, sfx)
    return ok


def lone_roundtrips(B, U):
    """the single lone-particle node below Ground, passes run by the real (transliterated) drivers of SimbodyMatterSubsystemRep:
    inverse(forward(f, F)) == 0, forward(f + inverse(udot*)) == udot*, M*(MInv*v) == v, MInv*(M*v) == v, qdotdot slots"""
    sc = LoneScenario(B)
    n, tok, mt = sc.n, sc.tok, sc.matter
    bd = "one lone particle below Ground (uIndex 3, qIndex 4; the other mobilizers' slots are carried along untouched)"
    fnF = "SimbodyMatterSubsystemRep::calcTreeAccelerations + calcTreeResidualForces (RBNodeLoneParticle passes)"
    fnM = "SimbodyMatterSubsystemRep::multiplyByMInv + multiplyByM (RBNodeLoneParticle passes)"
    def run():
        S.ENV.abstract_scalars = True
        n.store.pop("P", None); n.store.pop("PPlus", None)
        for k_ in LONE_VEL_FIELDS:
            n.store.pop(k_, None)
        n.realizeInstance(mt.sbs)
        mt.realizeVelocityKinematics(tok)
        f, Fb, xs, v = sc.rarr("f"), sc.svarr("Fb"), sc.rarr("us"), sc.rarr("v")
        def fwd(ff):
            o = dict(eps=sc.rarr("epsjunk"), z=sc.svarr("zjunk"), zPlus=sc.svarr("zpjunk"), A=sc.svarr("Ajunk"), udot=sc.rarr("udjunk"), qdd=sc.rarr("qddjunk", sc.NQ))
            mt.calcTreeAccelerations(tok, ff, Fb, CList(), o["eps"], o["z"], o["zPlus"], o["A"], o["udot"], o["qdd"], RArr(0))
            return o
        def inv(ud):
            o = dict(A=sc.svarr("Ajunk"), res=sc.rarr("resjunk"))
            mt.calcTreeResidualForces(tok, f, Fb, ud, o["A"], o["res"])
            return o
        r = {}
        fw = fwd(f)
        r["fw"] = fw
        r["fdid"] = inv(fw["udot"])["res"]
        iv = inv(xs)
        fp = RArr([f[k] + iv["res"][k] for k in range(sc.NU)])
        r["idfd"], r["xs"] = fwd(fp)["udot"], xs
        a = sc.rarr("mijunk"); mt.multiplyByMInv(tok, v, a)
        b = sc.rarr("mmjunk"); mt.multiplyByM(tok, a, b)
        r["mmi"] = b
        a2 = sc.rarr("mmjunk"); mt.multiplyByM(tok, v, a2)
        b2 = sc.rarr("mijunk"); mt.multiplyByMInv(tok, a2, b2)
        r["mim"], r["v"] = b2, v
        S.ENV.abstract_scalars = False           # the specification side is written without let-abstraction
        return r
    ok = True
    for path, sfx, r in _lone_paths(B, run):
        defs = sc.defs()
        hyp = path + defs
        B.guard_sat("%s 1/m exists (m != 0)%s" % (U, sfx), hyp, U)
        ok &= prove(B, None, "inverse(forward(f, F)) residual == 0 in the particle's u-slots%s" % sfx, sc.own(r["fdid"]), Vec(0, 0, 0), hyp, U, fnF, bounded=bd)
        ok &= prove(B, None, "forward(f + inverse(udot*)) == udot* in the particle's u-slots%s" % sfx, sc.own(r["idfd"]), sc.own(r["xs"]), hyp, U, fnF, bounded=bd)
        ok &= prove(B, None, "qdotdot[qIndex..qIndex+2] == udot[uIndex..uIndex+2]  (calcQDotDot through the driver's &udot[uIndex], &qdotdot[qIndex])%s" % sfx,
                    sc.own(r["fw"]["qdd"], sc.QIX), sc.own(r["fw"]["udot"]), hyp, U, fnF, bounded=bd)
        ok &= prove(B, None, "multiplyByM(multiplyByMInv(v)) == v in the particle's u-slots%s" % sfx, sc.own(r["mmi"]), sc.own(r["v"]), hyp, U, fnM, bounded=bd)
        ok &= prove(B, None, "multiplyByMInv(multiplyByM(v)) == v in the particle's u-slots%s" % sfx, sc.own(r["mim"]), sc.own(r["v"]), hyp, U, fnM, bounded=bd)
    return ok


def lone_vel_lemmas(B, U):
    """realizeInstance (velocity-cache part) + realizeVelocity + calcKineticEnergy of RBNodeLoneParticle: V_GB = V_PB_G = V_FM = (0, u[uIndex..]), qdot[qIndex..] = u[uIndex..],
    the bias terms it leaves at zero ARE zero (exact time derivative of the velocity by dual numbers; Newton-Euler from the momentum), KE = 1/2 m |v_cm|^2"""
    fnv = LONE + "realizeInstance/realizeVelocity"
    ok = True
    def mk(dual):
        sc = LoneScenario(B)
        n, tok, mt = sc.n, sc.tok, sc.matter
        if dual:
            mt.u = RArr([D(R_("u%d" % k), R_("ud%d" % k)) for k in range(sc.NU)])
        n.realizeInstance(mt.sbs)
        n.realizeVelocity(mt.sbs)
        return sc
    for path, sfx, sc in _lone_paths(B, lambda: mk(False)):
        n, tok, mt = sc.n, sc.tok, sc.matter
        hyp = path + sc.defs()
        u = sc.own(mt.u)
        Vexp = sc.H * u
        for fld in ("V_GB", "V_PB_G", "V_FM"):
            ok &= prove(B, None, "V1 %s == H*u == (0, u[uIndex..uIndex+2])  (velocity recursion below Ground at rest; uIndex = 3, qIndex = 4)%s" % (fld, sfx), n._get(fld), Vexp, hyp, U, fnv)
        ok &= prove(B, None, "V1q qdot[qIndex..qIndex+2] == u[uIndex..uIndex+2], every other qdot slot unchanged%s" % sfx, Vec(list(list.__iter__(mt.qdot))),
                    Vec([mt.u[sc.UIX + k - sc.QIX] if sc.QIX <= k < sc.QIX + 3 else R_("qdotjunk%d" % k) for k in range(sc.NQ)]), hyp, U, fnv)
        ok &= prove(B, None, "V1d VD_PB_G angular part == 0%s" % sfx, n._get("VD_PB_G")[0], Vec(0, 0, 0), hyp, U, fnv)
        # V2: d/dt V_GB(t) for u(t) with rate udot equals the A_GB of calcBodyAccelerationsFromUdotOutward + the stored coriolis acceleration (which must therefore be 0)
        sd = mk(True)
        ud = RArr([R_("ud%d" % k) for k in range(sc.NU)])
        Aarr = sc.svarr("Ajunk", zero_sv())
        n.calcBodyAccelerationsFromUdotOutward(tok, tok, ud, Aarr)
        ok &= prove(B, None, "V2 d/dt V_GB(t) == A_GB(udot) + a_mobilizer  (the coriolis acceleration the node stores (0) is the velocity-dependent part of d/dt V_GB)%s" % sfx,
                    remap(lambda x_: D(der(x_)), sd.n._get("V_GB")), Aarr[sc.NODE] + n.getMobilizerCoriolisAcceleration(tok), hyp, U, fnv + " + calcBodyAccelerationsFromUdotOutward")
        ok &= prove(B, None, "V4a total coriolis acceleration == shift(Ground's = 0) + a_mobilizer%s" % sfx, n.getTotalCoriolisAcceleration(tok), n.getMobilizerCoriolisAcceleration(tok), hyp, U, fnv)
        ok &= prove(B, None, "V4b total centrifugal force == Mk*a_total + b%s" % sfx, n.getTotalCentrifugalForces(tok),
                    n.getMk_G(tok) * n.getTotalCoriolisAcceleration(tok) + n.getGyroscopicForce(tok), hyp, U, fnv)
        # V3: momentum (k, L) = Mk*V(t) about the moving body origin, no rotation (c, G constant): (d/dt k + v x L, d/dt L) == Mk*A + b for any rate A of the form (0, a)
        Aany = SpatialVec(Vec(0, 0, 0), v3("Aa"))
        V = n.getV_GB(tok)
        Vt = dual_sv(remap(lambda x_: D(val(x_)), V), Aany)
        h = sc.Mk * Vt
        L = Vec([val(x_) for x_ in h[1].e]); vv = Vec([val(x_) for x_ in V[1].e])
        lhs = SpatialVec(Vec([D(der(x_)) for x_ in h[0].e]) + cross(vv, L), Vec([D(der(x_)) for x_ in h[1].e]))
        ok &= prove(B, None, "V3 (d/dt(k) + v x L, d/dt(L)) == Mk*A + b for (k,L) = Mk*V(t), A = (0, a)  (the gyroscopic force the node stores (0) is what Newton-Euler requires beyond Mk*A)%s" % sfx,
                    lhs, sc.Mk * Aany + n.getGyroscopicForce(tok), hyp, U, fnv + " + SpatialInertia_::operator*")
        m_, c_ = val(sc.Mk.m), sc.Mk.p
        Gv = Mat([[val(x_) for x_ in r_] for r_ in sc.Mk.G.I_OF_F.m])
        ok &= prove(B, None, "V5 calcKineticEnergy == 1/2 m |v_cm|^2 + 1/2 w.I_cm w == 1/2 m |u|^2  (w = 0)%s" % sfx, n.calcKineticEnergy(tok, tok),
                    ke_textbook(m_, c_, Gv, Vec(0, 0, 0), Vec([val(x_) for x_ in u.e])), hyp, U, "RigidBodyNode::calcKineticEnergy (inherited by RBNodeLoneParticle)")
    return ok


def lone_jac_lemmas(B, U):
    """multiplyBySystemJacobian / multiplyBySystemJacobianTranspose / calcEquivalentJointForces / calcCompositeBodyInertiasInward of RBNodeLoneParticle"""
    sc = LoneScenario(B)
    n, tok = sc.n, sc.tok
    def run():
        S.ENV.abstract_scalars = True
        n.store.pop("TotalCentrifugalForces", None)
        n.realizeInstance(sc.matter.sbs)
        w = dict(v=sc.rarr("v"), Jv=sc.svarr("Jvjunk", zero_sv()), X=sc.svarr("X"), zt=sc.svarr("ztjunk"), out=sc.rarr("outjunk"), za=sc.svarr("zajunk"), jf=sc.rarr("jfjunk"))
        w0 = _snap(w)
        n.multiplyBySystemJacobian(tok, w["v"], w["Jv"])
        n.multiplyBySystemJacobianTranspose(tok, w["zt"], w["X"], w["out"])
        n.calcEquivalentJointForces(tok, tok, w["X"], w["za"], w["jf"])
        R = B.cls["SIArr"](sc.NB)
        n.calcCompositeBodyInertiasInward(tok, R)
        S.ENV.abstract_scalars = False           # the specification side is written without let-abstraction
        return w, w0, R
    ok = True
    for path, sfx, (w, w0, R) in _lone_paths(B, run):
        hyp = path + sc.defs()
        X = w0["X"][sc.NODE]
        ok &= prove(B, None, "J1 (J v)_B == shift((J v)_Ground = 0) + H*v[uIndex..uIndex+2]%s" % sfx, w["Jv"][sc.NODE], sc.H * sc.own(w0["v"]), hyp, U, LONE + "multiplyBySystemJacobian")
        ok &= prove(B, None, "J2 z == X_B  (no children)%s" % sfx, w["zt"][sc.NODE], X, hyp, U, LONE + "multiplyBySystemJacobianTranspose")
        ok &= prove(B, None, "J3 (~J X)[uIndex..uIndex+2] == ~H*z%s" % sfx, sc.own(w["out"]), _HT(sc, X), hyp, U, LONE + "multiplyBySystemJacobianTranspose")
        ok &= prove(B, None, "J4 calcEquivalentJointForces: ~H*(F_B - total centrifugal force (= 0))%s" % sfx, sc.own(w["jf"]), _HT(sc, X - n.getTotalCentrifugalForces(tok)), hyp, U, LONE + "calcEquivalentJointForces")
        x = sv("x")
        ok &= prove(B, None, "J5 composite body inertia R_B*x == Mk*x  (no children)%s" % sfx, R[sc.NODE] * x, sc.Mk * x, hyp, U, LONE + "calcCompositeBodyInertiasInward")
        ok &= _frame(B, sc, U, LONE + "multiplyBySystemJacobian[Transpose]/calcEquivalentJointForces", "J", w, w0, dict(Jv="b", zt="b", za="b", out="u", jf="u"), hyp, sfx)
    return ok
