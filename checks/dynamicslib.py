"""Shared builder for the per-node O(n) dynamics kernels of C01 / C02 (back end B, route M3).

Cut from the CURRENT tree and transliterated each run (tools/translit.py + the plumbing rules below, all logged):
  * RigidBodyNodeSpec<dof,...> (Simbody/src/RigidBodyNodeSpec.cpp): realizeArticulatedBodyInertiasInward, calcUDotPass1Inward,
    calcUDotPass2Outward, multiplyByMInvPass1Inward, multiplyByMInvPass2Outward, calcBodyAccelerationsFromUdotOutward,
    calcInverseDynamicsPass2Inward, multiplyByMPass1Outward, multiplyByMPass2Inward, multiplyBySystemJacobian[Transpose],
    calcEquivalentJointForces; realizeVelocity (RigidBodyNodeSpec.h)
  * RigidBodyNode (RigidBodyNode.cpp / .h): calcJointIndependentKinematicsVel, calcKineticEnergy, realizeArticulatedBodyVelocityCache,
    calcCompositeBodyInertiasInward, getCB_G, getUnitInertia_OB_G, getV_GP
  * RBGroundBody (RigidBodyNode_Weld.cpp): the Ground versions of all the passes
  * the level-by-level driver loops of SimbodyMatterSubsystemRep.cpp: realizeArticulatedBodyInertias, realizeArticulatedBodyVelocity,
    realizeVelocityKinematics, calcTreeAccelerations, multiplyByMInv, multiplyByM, calcTreeResidualForces, calcKineticEnergy,
    calcCompositeBodyInertias, multiplyBySystemJacobian[Transpose], calcTreeEquivalentMobilityForces (loops + pointer bindings + temporaries are kept,
    State/cache/stage plumbing is dropped and logged)
  * PhiMatrix operators (SpatialAlgebra.h), SpatialInertia_/UnitInertia_/Inertia_/ArticulatedInertia_ members (MassProperties.h/.cpp),
    Mat<N,N>::invert() for N = 1,2,3 (SmallMatrixMixed.h inverse()/det())

What is NOT taken from the code (thin plumbing shim = assumed contract, listed in the evidence): cache accessors get*/upd* (a per-node store),
fromU/toU/array-slot reference views (rewritten to explicit reads/writes by logged rules), constructors / copy assignment of the small classes,
Mat<2,dof,Vec3> (HType) row/column/transposed products (mobilizerlib.HMat), children/parent/level arrays."""
import os, re, z3, fractions, functools
from vlib import *
import extract as X
from extract import *
import symlib as S
from symlib import *
from blib import BUnit, _lift
from translit import to_python, params_of, Translit
import mobilizerlib as M
from mobilizerlib import HMat, HRow, HMatT

SRC = os.path.join(REPO, "Simbody/src")
INC = os.path.join(REPO, "SimTKcommon/Mechanics/include/SimTKcommon/internal")
SPA_H = os.path.join(INC, "SpatialAlgebra.h")
MP_H = os.path.join(INC, "MassProperties.h")
MP_CPP = os.path.join(REPO, "SimTKcommon/Mechanics/src/MassProperties.cpp")
SMM_H = os.path.join(REPO, "SimTKcommon/SmallMatrix/include/SimTKcommon/internal/SmallMatrixMixed.h")
RBN_H = os.path.join(SRC, "RigidBodyNode.h")
RBN_CPP = os.path.join(SRC, "RigidBodyNode.cpp")
RBNS_H = os.path.join(SRC, "RigidBodyNodeSpec.h")
RBNS_CPP = os.path.join(SRC, "RigidBodyNodeSpec.cpp")
WELD_CPP = os.path.join(SRC, "RigidBodyNode_Weld.cpp")
SMS_CPP = os.path.join(SRC, "SimbodyMatterSubsystemRep.cpp")

# extract.blank_comments is pure and slow (char loop over a 6500-line file per cut): memoise locally
if not hasattr(X.blank_comments, "cache_info"):
    _bc = functools.lru_cache(maxsize=64)(X.blank_comments)
    X.blank_comments = _bc
    import translit as _T
    _T.blank_comments = _bc


class NotModelled(Exception):
    pass


# ----------------------------------------------------------------------
# typed arrays (C++ arrays of SpatialVec / Real / SpatialInertia seen through raw pointers)
# ----------------------------------------------------------------------
def sv_fill(v):
    """SpatialVec = scalar fills every element (Vec<2,Vec3>::operator=(scalar))"""
    if isinstance(v, SpatialVec):
        return SpatialVec(Vec(list(v[0].e)), Vec(list(v[1].e)))
    if S.is_scalar(v):
        return SpatialVec(Vec([v] * 3), Vec([v] * 3))
    raise TypeError("SpatialVec slot assigned a %r" % (v,))


class Arr(list):
    """C++ array / Array_<T> / Vector_<T> seen through a pointer to its first element; assignment to a slot copies (value semantics)"""
    conv = staticmethod(lambda v: v)
    def __init__(self, n_or_items=0):
        if isinstance(n_or_items, int):
            list.__init__(self, [None] * n_or_items)
        else:
            list.__init__(self, [self.conv(x) for x in n_or_items])
    def __setitem__(self, i, v):
        list.__setitem__(self, int(i), self.conv(v))
    def __getitem__(self, i):
        if isinstance(i, slice):
            return list.__getitem__(self, i)
        v = list.__getitem__(self, int(i))
        assert v is not None, "array slot %d read before it was written" % int(i)
        return v
    def begin(self): return self
    def cbegin(self): return self
    def size(self): return len(self)


class SVArr(Arr):
    conv = staticmethod(sv_fill)


class RArr(Arr):
    conv = staticmethod(lambda v: D.lift(v))


class View:
    """&p[k]: pointer into an array"""
    def __init__(self, base, off): self.base, self.off = base, int(off)
    def __getitem__(self, i):
        if isinstance(i, slice):
            return [self.base[self.off + k] for k in range(i.start or 0, i.stop)]
        return self.base[self.off + int(i)]
    def __setitem__(self, i, v): self.base[self.off + int(i)] = v
    def __len__(self): return len(self.base) - self.off


class CList(list):
    def size(self): return len(self)


# ----------------------------------------------------------------------
# plumbing rewrites of the node members (regex rules with hit counts)
# ----------------------------------------------------------------------
SLOT_RHS = r"(?:\w+\[[^\[\];]+\]|(?:from|to)U\(\w+\)|(?:from|to)B\(\w+\)|updTau\([^();]*\)|Vec<dof>::updAs\(&\w+\[[^\[\];]+\]\))"
OBJ_TYPES = r"(?:ArticulatedInertia|HType|Mat<dof,dof>|Mat<2,dof,Vec3>)"


class DPlumb(M.Plumb):
    def body(self, b, refparams=()):
        b = strip_comments(b)
        # (1) references to array slots / fromU / toU views: inlined textually (every use re-reads, every assignment writes through)
        for m in list(re.finditer(r"(?:const\s+)?(?:SpatialVec|Vec<dof>|Vec3|SpatialInertia)\s*&\s*(\w+)\s*=\s*(" + SLOT_RHS + r")\s*;", b)):
            nm, tgt = m.group(1), m.group(2)
            self.hit("reference to an array slot / fromU / toU view inlined (name -> view expression)", m.group(0))
            b = b.replace(m.group(0), "", 1)
            b = re.sub(r"(?<![\w.>])" + nm + r"\b(?!\s*\()", lambda _m: tgt, b)
        # (2) non-const references to cache objects: whole-object assignment writes through
        for m in list(re.finditer(r"(?<!const )\b" + OBJ_TYPES + r"\s*&\s*(\w+)\s*=\s*(upd\w+\([^();]*\))\s*;", b)):
            nm = m.group(1)
            self.hit("reference to a cache object: `%s = e` -> `%s.assign(e)`" % (nm, nm), m.group(0))
            b = b.replace(m.group(0), "\x00DECL%s\x00" % nm, 1)
            b = re.sub(r"(?<![\w.>])" + nm + r"\s*=(?!=)\s*([^;]*);", nm + r".assign(\1);", b)
            b = b.replace("\x00DECL%s\x00" % nm, m.group(0))
        # (3) writes through views / accessors returning references
        b = self.sub("view write toU(x) = e -> SETU(self,x,e)", r"(?<![\w.>])toU\((\w+)\)\s*=(?!=)\s*([^;]*);", r"SETU(self, \1, \2);", b)
        b = self.sub("view write Vec<dof>::updAs(&x[k]) = e -> SETAS(x,k,dof,e)", r"Vec<dof>::updAs\(&(\w+)\[([^\[\];]+)\]\)\s*=(?!=)\s*([^;]*);", r"SETAS(\1, \2, self.dof, \3);", b)
        b = self.sub("view write updTau(ic,x) = e -> SETTAU(self,x,e)", r"(?<![\w.>])updTau\((\w+)\s*,\s*(\w+)\)\s*=(?!=)\s*([^;]*);", r"SETTAU(self, \2, \3);", b)
        b = self.sub("view write toB(x) = e -> x[nodeNum] = e", r"(?<![\w.>])toB\((\w+)\)\s*=(?!=)", r"\1[nodeNum] =", b)
        b = self.sub("view update toB(x) += e -> x[nodeNum] += e", r"(?<![\w.>])toB\((\w+)\)\s*\+=", r"\1[nodeNum] +=", b)
        b = self.sub("accessor write updX(c) = e -> self.setX(c,e)", r"(?<![\w.>])upd(\w+)\(([^();]*)\)\s*=(?!=)\s*([^;]*);", r"self.set\1(\2, \3);", b)
        # (4) addresses of array elements
        b = self.sub("&x[k] -> PTR(x,k)", r"&\s*((?:\w+\.)?\w+(?:\(\))?)\[([^\[\];]+)\]", r"PTR(\1, \2)", b)
        b = self.sub("Vec<dof> -> VecD", r"\bVec<dof>", "VecD", b)
        b = self.sub("this->member -> self.member", r"\bthis->", "self.", b)
        b = self.sub("identifier 'in' -> 'in_' (python keyword)", r"(?<![\w.])in\b(?!_)", "in_", b)
        return b


NODE_MEMBERS = ["nodeNum", "children", "parent", "uIndex", "qIndex"]
NODE_METHODS = ["fromU", "toU", "fromB", "toB", "isUDotKnown", "isUDotKnownToBeZero", "isReversed", "getNodeNum", "getUIndex", "getQIndex", "getMass",
                "getCB_G", "getUnitInertia_OB_G", "getV_GP", "calcQDot", "calcReverseMobilizerHDot_FM", "calcAcrossJointVelocityJacobianDot",
                "calcParentToChildVelocityJacobianInGroundDot", "calcJointIndependentKinematicsVel"]
FIELDS = ["H", "Phi", "Mk_G", "P", "PPlus", "G", "D", "DI", "V_GB", "V_PB_G", "VD_PB_G", "GyroscopicForce", "MobilizerCoriolisAcceleration",
          "TotalCoriolisAcceleration", "TotalCentrifugalForces", "ArticulatedBodyCentrifugalForces", "V_FM", "H_FM", "HDot_FM", "HDot", "Y"]
NODE_METHODS += ["get" + f for f in FIELDS] + ["upd" + f for f in FIELDS] + ["set" + f for f in FIELDS]


class DUnit(M.MUnit):
    """MUnit with the dynamics plumbing rules"""
    def add_method(self, cls, path, anchor, name, members=(), methods=(), occurrence=1, extra_pre=None, cxxname=None, keep_asserts=False, pyname=None, plumb=True):
        if not plumb:
            return M.MUnit.add_method(self, cls, path, anchor, name, members, methods, occurrence, extra_pre, cxxname, keep_asserts, pyname)
        c = cut_function(path, anchor, name, occurrence=occurrence)
        P = DPlumb()
        hdr = P.header(c.header)
        def pre(body):
            body = P.body(body)
            if extra_pre:
                body = extra_pre(body)
            for m in members:
                body = re.sub(r"(?<![\w.>])" + re.escape(m) + r"\b", "self." + m, body)
            for f in methods:
                body = re.sub(r"(?<![\w.>:])" + re.escape(f) + r"\s*\(", "self." + f + "(", body)
            return body
        c2 = Cut(c.path, c.name, c.text, c.start, c.end, hdr, c.body)
        names = params_of(hdr)
        arity = len(names) + 1
        pyname = pyname or name
        full = "%s__%s__%d" % (cls.__name__, pyname, arity)
        src, log, dropped = to_python(c2, full, self_param=True, pre=pre, keep_asserts=keep_asserts)
        log = log + list(P.log.values()) + [dict(rule="implicit-this (members: %s; methods: %s)" % (",".join(members), ",".join(m for m in methods if not re.match(r"(get|upd|set)[A-Z]", m)) + ",get*/upd*/set* cache accessors"), hits=1, examples=[])]
        self.sources[full] = src
        try:
            exec(compile(src, "<translit:%s>" % full, "exec"), self.ns)
        except SyntaxError as e:
            raise ExtractionError("transliteration of %s is not valid Python: %s\n%s" % (full, e, src))
        fn = self.ns[full]
        def dispatch(self_, *a, _f=fn, _n=arity - 1, _nm=pyname):
            a = tuple(_lift(x) for x in a)
            if len(a) != _n:
                raise ExtractionError("%s called with %d args, transliterated overload has %d" % (_nm, len(a), _n))
            return _f(self_, *a)
        setattr(cls, pyname, dispatch)
        self.ctx.add_function(path, (cxxname or cls.__name__ + "::" + name) + "/%d" % (arity - 1), c.start, c.end, c.text,
                              "M3 (transliteration to symbolic Python; rules logged)", dropped, log)


def occurrence_in_class(path, classname, anchor):
    """1-based index (among DEFINITIONS matching anchor in the file) of the one that lies inside `class classname {...}`"""
    src = open(path).read()
    blank = blank_comments(src)
    mc = re.search(r"\bclass\s+%s\b[^;{]*\{" % classname, blank)
    if not mc:
        raise ExtractionError("%s: class %s not found" % (path, classname))
    lo, hi = mc.end() - 1, match_brace(blank, mc.end() - 1)
    k, found = 0, None
    for m in re.finditer(anchor, blank):
        ob = blank.find("{", m.end() - 1 if blank[m.end() - 1] == "{" else m.end())
        semi = blank.find(";", m.end())
        if ob < 0 or (0 <= semi < ob):
            continue
        k += 1
        if lo < m.start() < hi:
            if found is not None:
                raise ExtractionError("%s: %s has two definitions matching /%s/" % (path, classname, anchor))
            found = k
    if found is None:
        raise ExtractionError("%s: no definition matching /%s/ inside class %s" % (path, anchor, classname))
    return found


# ----------------------------------------------------------------------
# drivers of SimbodyMatterSubsystemRep.cpp: loops, pointer bindings and temporaries kept; State/cache/stage plumbing dropped (logged)
# ----------------------------------------------------------------------
DRIVER_CALLS = ["realizeArticulatedBodyInertias", "realizeArticulatedBodyVelocity"]


def add_driver(B, cls, anchor, name, extra_keep=()):
    c = cut_function(SMS_CPP, anchor, name)
    T = Translit(name)
    P = M.Plumb()
    body = strip_comments(c.body)
    kept, dropped = [], []
    rest = body
    while rest.strip():
        st, rest = T.one(rest)
        s = " ".join(st.split())
        if not s or s == ";":
            continue
        if re.match(r"for\s*\(", s):
            # descending level loop -> ascending loop with reflected index
            m = re.match(r"for\s*\(\s*int\s+(\w+)\s*=\s*(.+?)\s*-\s*1\s*;\s*\1\s*>=\s*0\s*;\s*(?:\1\s*--|--\s*\1)\s*\)\s*(.*)$", s, re.S)
            if m:
                P.hit("descending loop `for (int i=N-1; i>=0; i--) S` -> `for (int i_=0; i_<N; ++i_) { int i = N-1-i_; S }`", s[:100])
                v, n, inner = m.group(1), m.group(2), m.group(3)
                s = "for (int %s_=0; %s_ < %s; ++%s_) { int %s = %s-1-%s_; %s }" % (v, v, n, v, v, n, v, inner)
            kept.append(s)
            continue
        m = re.match(r"(\w+)\s*\(\s*(?:s|state)\s*\)\s*;$", s)
        if m and m.group(1) in DRIVER_CALLS:
            P.hit("call of another driver kept", s)
            kept.append("self.%s(s);" % m.group(1))
            continue
        # pointer bindings: T* p = X.size() ? &X[0] : nullptr;   T* p = &X[0];   T* p = X.begin();   const Vector* p = &x;
        m = re.match(r"(?:const\s+)?(?:Real|SpatialVec|Vector|Vector_<SpatialVec>)\s*\*\s*(\w+)\s*=\s*(.+);$", s)
        if m:
            rhs = m.group(2).strip()
            mm = (re.fullmatch(r"(\w+)\.size\(\)\s*\?\s*&\s*\1\[0\]\s*:\s*(?:nullptr|NULL|0)", rhs) or re.fullmatch(r"&\s*(\w+)\[0\]", rhs)
                  or re.fullmatch(r"(\w+)\.c?begin\(\)", rhs) or re.fullmatch(r"&\s*(\w+)", rhs)
                  or re.fullmatch(r"(\w+)->size\(\)\s*\?\s*&\s*\(\*\1\)\[0\]\s*:\s*(?:nullptr|NULL|0)", rhs) or re.fullmatch(r"&\s*\(\*(\w+)\)\[0\]", rhs))
            if mm:
                P.hit("pointer to the first element of an array -> the array", s)
                kept.append("%s = %s;" % (m.group(1), mm.group(1)))
                continue
        # temporaries
        m = re.match(r"(Array_|Vector_)<\s*(SpatialVec|Real)\s*>\s+(.+);$", s)
        if m:
            ok = True
            outl = []
            for piece in re.split(r"\s*,\s*(?![^()]*\))", m.group(3)):
                pm = re.fullmatch(r"(\w+)\s*\(\s*([\w()]+)\s*\)", piece.strip())
                if not pm:
                    ok = False
                    break
                outl.append("%s = %s(%s);" % (pm.group(1), "NEW_SVARR" if m.group(2) == "SpatialVec" else "NEW_RARR", re.sub(r"(?<![\w.])(get\w+)\(", r"self.\1(", pm.group(2))))
            if ok:
                P.hit("temporary array declaration kept", s)
                kept += outl
                continue
        m = re.match(r"const int (\w+)\s*=\s*(getNumBodies|getNU|getTotalDOF)\((?:s)?\)\s*;$", s)
        if m:
            P.hit("size query kept", s)
            kept.append("%s = self.%s();" % (m.group(1), m.group(2)))
            continue
        m = re.match(r"Real (\w+)\s*=\s*0\s*;$", s)
        if m:
            kept.append(s)
            continue
        if re.match(r"return\s+\w+\s*;$", s) and not re.match(r"return\s*;", s):
            kept.append(s)
            continue
        if any(re.match(k, s) for k in extra_keep):
            kept.append(s)
            continue
        dropped.append(dict(rule="State / cache / stage / size plumbing of the driver dropped (cache objects are opaque tokens here; zero-length and early-return conveniences not modelled)", text=s[:200]))
    nloops = len([k for k in kept if k.startswith("for")])
    if nloops == 0:
        raise ExtractionError("%s: no level loop found in the driver" % name)
    text = "\n".join(kept)
    text = P.sub("&p[k] -> PTR(p,k)", r"&\s*(\w+)\[([^\[\];]+)\]", r"PTR(\1, \2)", text)
    text = P.sub("rbNodeLevels -> self.rbNodeLevels", r"(?<![\w.>])rbNodeLevels\b", "self.rbNodeLevels", text)
    text = P.sub("const RigidBodyNode& node = *p -> node = p", r"const RigidBodyNode&\s*(\w+)\s*=\s*\*\s*", r"RigidBodyNodeP \1 = ", text)
    names = params_of(P.header(c.header))
    full = "%s__%s__%d" % (cls.__name__, name, len(names) + 1)
    c2 = Cut(c.path, c.name, c.text, c.start, c.end, P.header(c.header), text)
    src, log, dr2 = to_python(c2, full, self_param=True)
    B.sources[full] = src
    try:
        exec(compile(src, "<translit:%s>" % full, "exec"), B.ns)
    except SyntaxError as e:
        raise ExtractionError("transliteration of driver %s is not valid Python: %s\n%s" % (name, e, src))
    fn = B.ns[full]
    setattr(cls, name, lambda self_, *a, _f=fn: _f(self_, *a))
    B.ctx.add_function(SMS_CPP, "SimbodyMatterSubsystemRep::%s/%d (level loops)" % (name, len(names)), c.start, c.end, c.text,
                       "M3 (driver loops transliterated; plumbing dropped, see log)", dropped + dr2, log + list(P.log.values()))
    return nloops


# ----------------------------------------------------------------------
# build
# ----------------------------------------------------------------------
def build(ctx, want_invert=(1, 2, 3)):
    B = DUnit(ctx)
    ns = B.ns
    ns["SpatialVec"] = ns["SpatialVecP"] = S.SpatialVec
    ns["SymMat_3_P"] = ns["SymMat33P"] = ns["SymMat_3_E"] = ns["SymMat33"] = S.symmat33
    ns["HType"] = HMat
    ns["NEW_SVARR"], ns["NEW_RARR"] = (lambda n: SVArr(int(n))), (lambda n: RArr(int(n)))
    ns["PTR"] = lambda base, off: View(base, off)
    ns["GETAS"] = lambda base, off, n, kind: (Row if kind == "Row" else Vec)([base[int(off) + i] for i in range(int(n))])
    def SETAS(base, off, n, v):
        e = list(v.e) if isinstance(v, Vec) else [v] * int(n)
        assert n is None or len(e) == int(n)
        for i, x in enumerate(e):
            base[int(off) + i] = x
    ns["SETAS"] = SETAS
    def _dot(a, b):
        if isinstance(a, SpatialVec):
            return (~a) * b
        return S.dot(a, b)
    ns["dot"] = _dot

    # ---- SmallMatrixMixed: cross(Vec3,SymMat33), crossMatSq, det / inverse for N = 2, 3 (N = 1: one divide) ----
    def strip_tpl(b):
        b = re.sub(r"typedef [^;]+;", "", b)
        b = re.sub(r"Mat<3,3,EResult>", "Mat33", b)
        b = re.sub(r"SymMat<3,(?:E|P)>", "SymMat33P", b)
        return b
    B.add_function(SMM_H, r"cross\(const Vec<3,EV,SV>& v, const SymMat<3,EM,RS>& s\)\s*", pyname="cross_vec_symmat", pre=strip_tpl, cxxname="SimTK::cross(Vec3,SymMat33)")
    S.HOOKS["cross_vec_symmat"] = ns["cross_vec_symmat"]
    def inv_pre(b):
        b = re.sub(r"typename\s+CNT<E>::TInvert", "E", b)
        b = re.sub(r"typename\s+CNT<E>::StdNumber\s*\(\s*1\s*\)", "1", b)
        b = re.sub(r"typename\s+Mat<(\d),\1,E,CS,RS>::TInvert\s*\(", r"Mat\1\1(", b)
        b = re.sub(r"typedef [^;]+;", "", b)
        b = re.sub(r"\bMInv\s*\(", "Mat11(", b)
        return b
    B.add_function(SMM_H, r"E det\(const Mat<2,2,E,CS,RS>& m\)\s*", pyname="det_2", cxxname="SimTK::det(Mat22)")
    B.add_function(SMM_H, r"typename Mat<1,1,E,CS,RS>::TInvert inverse\(const Mat<1,1,E,CS,RS>& m\)\s*", pyname="inverse_1", pre=inv_pre, cxxname="SimTK::inverse(Mat11)")
    B.add_function(SMM_H, r"typename Mat<2,2,E,CS,RS>::TInvert inverse\(const Mat<2,2,E,CS,RS>& m\)\s*", pyname="inverse_2", pre=lambda b: inv_pre(b).replace("det(m)", "det_2(m)"), cxxname="SimTK::inverse(Mat22)")
    B.add_function(SMM_H, r"typename Mat<3,3,E,CS,RS>::TInvert inverse\(const Mat<3,3,E,CS,RS>& m\)\s*", pyname="inverse_3", pre=inv_pre, cxxname="SimTK::inverse(Mat33)")
    ns["Mat11"] = lambda *a: Mat([[a[0]]]) if len(a) == 1 else Mat([[0]])

    class MatDD(Mat):
        """Mat<dof,dof> with the real invert() for dof <= 3 (one reciprocal variable for 1/det, S.ENV.defs); Lapack beyond: defining equation"""
        def invert(self):
            n = self.nr
            old = S.ENV.abstract_scalars
            S.ENV.abstract_scalars = True           # 1/d -> reciprocal variable r with r*d == 1 recorded in ENV.defs
            try:
                if n in (1, 2, 3):
                    r = ns["inverse_%d" % n](Mat(self.m))
                    return MatDD(r.m)
                raise NotModelled("Mat<%d,%d>::invert() goes to Lapack (getrf/getri)" % (n, n))
            finally:
                S.ENV.abstract_scalars = old
        def __invert__(self): return MatDD(Mat.__invert__(self).m)
    ns["MatDD"] = MatDD

    # ---- PhiMatrix (SpatialAlgebra.h) ----
    class PhiMatrix:
        def __init__(self, l): self.l_ = l
        def l(self): return self.l_
        def __invert__(self): return PhiMatrixTranspose(self)          # operator~ -> transpose(phi) -> PhiMatrixTranspose(phi)
        def __mul__(self, v):
            if isinstance(v, SpatialVec):
                return ns["phi_mul_sv"](self, v)
            return NotImplemented
    class PhiMatrixTranspose:
        def __init__(self, phi): self.phi = phi
        def l(self): return self.phi.l()
        def __mul__(self, v):
            if isinstance(v, SpatialVec):
                return ns["phiT_mul_sv"](self, v)
            return NotImplemented
    ns["PhiMatrix"], ns["PhiMatrixTranspose"] = PhiMatrix, PhiMatrixTranspose
    B.add_function(SPA_H, r"operator\*\(const PhiMatrix&\s*phi,\s*const SpatialVec&\s*v\)\s*", pyname="phi_mul_sv", cxxname="operator*(PhiMatrix,SpatialVec)")
    B.add_function(SPA_H, r"operator\*\(const PhiMatrixTranspose&\s*phiT,\s*const SpatialVec&\s*v\)\s*", pyname="phiT_mul_sv", cxxname="operator*(PhiMatrixTranspose,SpatialVec)")

    # ---- mass property classes (plumbing = thin shim as in C29; formula-bearing members transliterated) ----
    class Inertia:
        def __init__(self, *a):
            if len(a) == 1 and isinstance(a[0], Inertia):
                self.I_OF_F = S.SymMat(a[0].I_OF_F.m)
            elif len(a) == 1 and isinstance(a[0], Mat):
                self.I_OF_F = S.SymMat(a[0].m)
            elif len(a) == 1:
                self.I_OF_F = S.symmat33(a[0])
            else:
                raise ExtractionError("Inertia_ constructor with %d args not modelled" % len(a))
        def errChk(self, *a): return None
        def __rmul__(self, s):                                   # operator*(scalar, Inertia): Inertia_(i) *= r
            r = Inertia(self); r.I_OF_F = s * self.I_OF_F; return r
        def __mul__(self, w):
            if S.is_scalar(w):
                r = Inertia(self); r.I_OF_F = self.I_OF_F * w; return r
            return self.I_OF_F * w                               # operator*(Inertia, Vec3): I.asSymMat33()*w
        def __add__(self, o): r = Inertia(self); r.I_OF_F = self.I_OF_F + o.I_OF_F; return r     # operator+ : Inertia_(l) += r
        def toMat33(self): return Mat(self.I_OF_F.m)
        def asSymMat33(self): return self.I_OF_F
    class UnitInertia(Inertia):
        def setFromUnitInertia(self, I): self.I_OF_F = S.SymMat(I.I_OF_F.m); return self
    ns["Inertia_"] = ns["InertiaP"] = ns["Inertia"] = Inertia
    ns["UnitInertia_"] = ns["UnitInertiaP"] = ns["UnitInertia"] = UnitInertia
    drop_err = lambda b: re.sub(r"(?:I\.)?errChk\(\"[^\"]*\"\);", "", b)
    IM = ["I_OF_F"]
    NP = dict(plumb=False)
    B.add_method(Inertia, MP_H, r"Inertia_& operator\+=\(const Inertia_& inertia\)\s*", "iadd", members=IM, extra_pre=drop_err, cxxname="Inertia_::operator+=", **NP)
    B.add_method(Inertia, MP_H, r"Inertia_& operator-=\(const Inertia_& inertia\)\s*", "isub", members=IM, extra_pre=drop_err, cxxname="Inertia_::operator-=", **NP)
    B.add_function(MP_H, r"static UnitInertia_ pointMassAt\(const Vec3P& p\)\s*", pyname="UnitInertia_pointMassAt", cxxname="UnitInertia_::pointMassAt")
    upre = lambda b: b.replace("InertiaP::operator-=(", "self.isub(").replace("InertiaP::operator+=(", "self.iadd(").replace("pointMassAt(", "UnitInertia_pointMassAt(")
    B.add_method(UnitInertia, MP_H, r"UnitInertia_& shiftToCentroidInPlace\(const Vec3P& CF\)\s*", "shiftToCentroidInPlace", extra_pre=upre, cxxname="UnitInertia_::shiftToCentroidInPlace", **NP)
    B.add_method(UnitInertia, MP_H, r"UnitInertia_& shiftFromCentroidInPlace\(const Vec3P& p\)\s*", "shiftFromCentroidInPlace", extra_pre=upre, cxxname="UnitInertia_::shiftFromCentroidInPlace", **NP)

    class SpatialInertia:
        def __init__(self, *a):
            if len(a) == 1:
                o = a[0]; self.m, self.p, self.G = o.m, Vec(list(o.p.e)), UnitInertia(o.G)
            else:
                self.m, self.p, self.G = D.lift(a[0]), Vec(list(a[1].e)), UnitInertia(a[2])
        def __mul__(self, v): return self.mulvec(v)
        def __iadd__(self, o): return self.iadd(o)
        def getMass(self): return self.m
        def getMassCenter(self): return self.p
        def getUnitInertia(self): return self.G
    ns["SpatialInertia_"] = ns["SpatialInertia"] = SpatialInertia
    SM = ["m", "p", "G"]
    SMeth = ["shiftInPlace", "calcMassMoment", "calcInertia"]
    B.add_method(SpatialInertia, MP_H, r"SpatialVecP operator\*\(const SpatialVecP& v\) const\s*", "mulvec", members=SM, occurrence=1, cxxname="SpatialInertia_::operator*(SpatialVec)", **NP)
    B.add_method(SpatialInertia, MP_H, r"SpatialInertia_& shiftInPlace\(const Vec3P& S\)\s*", "shiftInPlace", members=SM, cxxname="SpatialInertia_::shiftInPlace", **NP)
    B.add_method(SpatialInertia, MP_H, r"SpatialInertia_ shift\(const Vec3P& S\) const\s*", "shift", members=SM, methods=SMeth, extra_pre=lambda b: b.replace("SpatialInertia_(*this)", "SpatialInertia_(self)"), cxxname="SpatialInertia_::shift", **NP)
    B.add_method(SpatialInertia, MP_H, r"Vec3P calcMassMoment\(\) const\s*", "calcMassMoment", members=SM, cxxname="SpatialInertia_::calcMassMoment", **NP)
    B.add_method(SpatialInertia, MP_H, r"InertiaP calcInertia\(\) const\s*", "calcInertia", members=SM, cxxname="SpatialInertia_::calcInertia", **NP)
    B.add_method(SpatialInertia, MP_H, r"SpatialInertia_& operator\+=\(const SpatialInertia_& src\)\s*", "iadd", members=SM, methods=SMeth, extra_pre=lambda b: re.sub(r"SimTK_ERRCHK\([^;]*;", "", b), cxxname="SpatialInertia_::operator+=", **NP)

    class ArticulatedInertia:
        def __init__(self, *a):
            if len(a) == 0:
                self.M = self.F = self.J = None                       # uninitialised junk
            elif len(a) == 1 and isinstance(a[0], SpatialInertia):        # explicit ArticulatedInertia_(const SpatialInertia_&): initialiser list of the header
                rbi = a[0]
                self.M, self.J, self.F = S.symmat33(rbi.getMass()), S.SymMat(rbi.calcInertia().I_OF_F.m), crossMat(rbi.calcMassMoment())
            elif len(a) == 1:
                self.assign(a[0])
            else:
                self.M, self.F, self.J = S.SymMat(a[0].m), Mat(a[1].m), S.SymMat(a[2].m)   # (mass, massMoment, inertia)
        def assign(self, o):
            self.M, self.F, self.J = S.SymMat(o.M.m), Mat(o.F.m), S.SymMat(o.J.m); return self
        def __mul__(self, v):
            if isinstance(v, HMat):                                   # template operator*(Mat<2,N,Vec3>): column by column
                return HMat(v.dof, [self.mulvec(c) for c in v.cols])
            return self.mulvec(v)
        def __iadd__(self, o): return self.iadd(o)
        def __isub__(self, o): return self.isub(o)
        def __add__(self, o): r = ArticulatedInertia(self); r.iadd(o); return r       # operator+ : ArticulatedInertia_(l) += r
        def __sub__(self, o): r = ArticulatedInertia(self); r.isub(o); return r       # operator- : ArticulatedInertia_(l) -= r
        def getMass(self): return self.M
        def getMassMoment(self): return self.F
        def getInertia(self): return self.J
    ns["ArticulatedInertia_"] = ns["ArticulatedInertia"] = ArticulatedInertia
    AM = ["M", "J", "F"]
    B.add_method(ArticulatedInertia, MP_CPP, r"ArticulatedInertia_<P>::shift\(const Vec3P& s\) const\s*", "shift", members=AM, cxxname="ArticulatedInertia_::shift", **NP)
    B.add_method(ArticulatedInertia, MP_H, r"SpatialVecP operator\*\(const SpatialVecP& v\) const\s*", "mulvec", members=AM, occurrence=2, cxxname="ArticulatedInertia_::operator*(SpatialVec)", **NP)
    B.add_method(ArticulatedInertia, MP_H, r"ArticulatedInertia_& operator\+=\(const ArticulatedInertia_& src\)\s*", "iadd", members=AM, cxxname="ArticulatedInertia_::operator+=", **NP)
    B.add_method(ArticulatedInertia, MP_H, r"ArticulatedInertia_& operator-=\(const ArticulatedInertia_& src\)\s*", "isub", members=AM, cxxname="ArticulatedInertia_::operator-=", **NP)
    B.add_function(MP_CPP, r"halfCross\(const Vec<3,P>& v, const Mat<3,3,P,CS,RS>& F\)\s*", pyname="halfCross_vF", pre=strip_tpl, cxxname="halfCross(v,F)")
    B.add_function(MP_CPP, r"halfCross\(const Mat<3,3,P,CS,RS>& G, const Vec<3,P>& v\)\s*", pyname="halfCross_Gv", pre=strip_tpl, cxxname="halfCross(G,v)")
    B.add_function(MP_CPP, r"halfCrossDiff\(const Vec<3,P>& v, const Mat<3,3,P,CS1,RS1>& F, const Mat<3,3,P,CS2,RS2>& G\)\s*", pyname="halfCrossDiff", pre=strip_tpl, cxxname="halfCrossDiff(v,F,G)")
    B.add_function(SMM_H, r"crossMatSq\(const Vec<3,E,S>& v\)\s*", pyname="crossMatSq", pre=strip_tpl, cxxname="SimTK::crossMatSq(Vec3)")

    class SIArr(Arr):
        conv = staticmethod(lambda v: SpatialInertia(v))
    ns["SIArr"] = SIArr

    # ---- node base: store + views ----
    class DNodeBase:
        dof = None
        def __init__(self, nodeNum, uIndex=0, parent=None, mass=None):
            self.nodeNum, self.uIndex, self.qIndex, self.parent = nodeNum, uIndex, uIndex, parent
            self.children = CList()
            self.store = {}
            self.mass = mass
            self.reversed_ = False
            if parent is not None:
                parent.addChild(self)
        def addChild(self, c): self.children.append(c)               # RigidBodyNode::addChild: children.push_back(child)
        def getNodeNum(self): return self.nodeNum
        def getUIndex(self): return self.uIndex
        def getQIndex(self): return self.qIndex
        def getMass(self): return self.mass                           # massProps_B.getMass()
        def isUDotKnown(self, ic): return False                       # no prescribed motion (udotMethod == Motion::Free)
        def isUDotKnownToBeZero(self, ic): return False
        def isReversed(self): return self.reversed_
        def fromU(self, v): return Vec([v[self.uIndex + i] for i in range(self.dof)])
        def toU(self, v): return self.fromU(v)
        def fromB(self, a): return a[self.nodeNum]
        def toB(self, a): return a[self.nodeNum]
        def _get(self, f):
            assert f in self.store, "cache entry %s of node %d read before it was realized" % (f, self.nodeNum)
            return self.store[f]
        def _upd(self, f):
            if f not in self.store:
                if f in ("P", "PPlus"):
                    self.store[f] = ArticulatedInertia()
                elif f in ("G", "H", "HDot", "H_FM", "HDot_FM"):
                    self.store[f] = HMat(self.dof)
                elif f in ("D", "DI"):
                    self.store[f] = MatDD([[0] * self.dof for _ in range(self.dof)])
                else:
                    raise NotModelled("upd%s without a preceding write" % f)
            return self.store[f]
        def _set(self, f, v):
            if isinstance(v, SpatialVec) or (S.is_scalar(v) and f not in ("Mk_G",)):
                v = sv_fill(v)
            elif isinstance(v, SpatialInertia):
                v = SpatialInertia(v)
            elif isinstance(v, ArticulatedInertia):
                v = ArticulatedInertia(v)
            self.store[f] = v
    for f in FIELDS:
        setattr(DNodeBase, "get" + f, (lambda self, *a, _f=f: self._get(_f)))
        setattr(DNodeBase, "upd" + f, (lambda self, *a, _f=f: self._upd(_f)))
        setattr(DNodeBase, "set" + f, (lambda self, *a, _f=f: self._set(_f, a[-1])))
    def SETU(node, arr, v):
        e = list(v.e) if isinstance(v, Vec) else [v] * node.dof
        assert len(e) == node.dof
        for i, x in enumerate(e):
            arr[node.uIndex + i] = x
    def SETTAU(node, arr, v):
        raise NotModelled("prescribed motion (updTau)")
    ns["SETU"], ns["SETTAU"] = SETU, SETTAU
    ns["VecD"] = lambda *a: Vec(list(a))

    class DNode(DNodeBase):
        """RigidBodyNodeSpec<dof,...> : RigidBodyNode"""
    class Ground(DNodeBase):
        """RBGroundBody"""
        dof = 0
    ns["DNode"], ns["Ground"] = DNode, Ground
    TPL = r"RigidBodyNodeSpec<dof, noR_FM, noX_MB, noR_PF>::\s*"
    def spec(name, anchor=None):
        B.add_method(DNode, RBNS_CPP, anchor or (TPL + name + r"\s*\([^{;]*?\)\s*const\s*"), name, members=NODE_MEMBERS, methods=NODE_METHODS, cxxname="RigidBodyNodeSpec<dof>::" + name)
    for nm in ("realizeArticulatedBodyInertiasInward", "calcUDotPass1Inward", "calcUDotPass2Outward", "multiplyByMInvPass1Inward", "multiplyByMInvPass2Outward",
               "calcBodyAccelerationsFromUdotOutward", "calcInverseDynamicsPass2Inward", "multiplyByMPass1Outward", "multiplyByMPass2Inward",
               "multiplyBySystemJacobian", "multiplyBySystemJacobianTranspose", "calcEquivalentJointForces"):
        spec(nm)
    B.add_method(DNode, RBNS_H, r"void realizeVelocity\(const SBStateDigest& sbs\) const override\s*", "realizeVelocity", members=NODE_MEMBERS, methods=NODE_METHODS,
                 cxxname="RigidBodyNodeSpec<dof>::realizeVelocity")
    def base(path, name, anchor):
        B.add_method(DNode, path, anchor, name, members=NODE_MEMBERS, methods=NODE_METHODS, cxxname="RigidBodyNode::" + name)
    base(RBN_CPP, "calcJointIndependentKinematicsVel", r"RigidBodyNode::calcJointIndependentKinematicsVel\([^{;]*?\)\s*const\s*")
    base(RBN_CPP, "calcKineticEnergy", r"Real RigidBodyNode::calcKineticEnergy\([^{;]*?\)\s*const\s*")
    base(RBN_CPP, "realizeArticulatedBodyVelocityCache", r"RigidBodyNode::realizeArticulatedBodyVelocityCache\s*\([^{;]*?\)\s*const\s*")
    base(RBN_CPP, "calcCompositeBodyInertiasInward", r"RigidBodyNode::calcCompositeBodyInertiasInward\([^{;]*?\)\s*const\s*")
    base(RBN_H, "getCB_G", r"const Vec3& getCB_G\(const SBTreePositionCache& pc\) const\s*")
    base(RBN_H, "getUnitInertia_OB_G", r"const UnitInertia& getUnitInertia_OB_G\(const SBTreePositionCache& pc\) const\s*")
    base(RBN_H, "getV_GP", r"const SpatialVec& getV_GP\(const SBTreeVelocityCache& vc\) const\s*")
    # Ground
    GSIG = {"realizeArticulatedBodyInertiasInward": None, "calcUDotPass1Inward": None, "calcUDotPass2Outward": None, "multiplyByMInvPass1Inward": None,
            "multiplyByMInvPass2Outward": None, "calcBodyAccelerationsFromUdotOutward": None, "calcInverseDynamicsPass2Inward": None,
            "multiplyByMPass1Outward": None, "multiplyByMPass2Inward": None, "multiplyBySystemJacobian": None, "multiplyBySystemJacobianTranspose": None,
            "calcEquivalentJointForces": None, "calcCompositeBodyInertiasInward": None, "realizeVelocity": None}
    gpre = lambda b: b.replace("Infinity", "INFINITY_")
    for nm in GSIG:
        anchor = r"void %s\s*\([^{;]*?\)\s*const\s+override\s*" % nm
        occ = occurrence_in_class(WELD_CPP, "RBGroundBody", anchor)
        B.add_method(Ground, WELD_CPP, anchor, nm, members=NODE_MEMBERS, methods=NODE_METHODS, occurrence=occ, extra_pre=gpre, cxxname="RBGroundBody::" + nm)
    ns["INFINITY_"] = D(z3.Real("Infinity"))      # Ground's infinite mass/inertia: an unconstrained real here (never read by a child; any use would make a goal depend on it)
    ns["constraints"] = CList()                   # no constraints in the model
    ns["GroundIndex"] = 0

    # ---- the matter subsystem stand-in with the real driver loops ----
    class Matter:
        def __init__(self, levels):
            self.rbNodeLevels = CList(CList(l) for l in levels)
            self.nodes = [n for l in levels for n in l]
            self.nb = len(self.nodes)
            self.nu = sum(n.dof for n in self.nodes)
            self.sbs = M.Sbs(self)
            self.u = None
            self.qdot = RArr(self.nu)
        def getNumBodies(self): return self.nb
        def getNU(self, *a): return self.nu
        def getTotalDOF(self): return self.nu
        def getNumMobilities(self): return self.nu
        # SBStateDigest stand-in (realizeVelocity reads sbs.getU(), sbs.updQDot())
        def getModelVars(self): return self
        def getTreePositionCache(self): return self
        def updTreeVelocityCache(self): return self
        def getU(self): return self.u
        def updQDot(self): return self.qdot
    ns["Matter"] = Matter
    class _Tok:
        """opaque cache token (SBTreePositionCache& etc.); presUDot / zeroUDot lists are empty: no prescribed motion"""
        presUDot = CList(); zeroUDot = CList()
    for k in ("ic", "tpc", "tvc", "abc", "abvc", "dc", "sbs", "s", "state", "pc", "vc", "stateDigest"):
        ns[k] = _Tok()
    ns["RigidBodyNodeP"] = None
    R = r"SimbodyMatterSubsystemRep::"
    drivers = {}
    for nm, anchor in (("realizeArticulatedBodyInertias", r"realizeArticulatedBodyInertias\(const State& state\) const\s*"),
                       ("realizeArticulatedBodyVelocity", r"realizeArticulatedBodyVelocity\(const State& state\) const\s*"),
                       ("realizeVelocityKinematics", r"realizeVelocityKinematics\(const State& state\) const\s*"),
                       ("calcTreeAccelerations", R + r"calcTreeAccelerations\(const State& s,[^{;]*?\)\s*const\s*"),
                       ("multiplyByMInv", R + r"multiplyByMInv\(const State& s,[^{;]*?\)\s*const\s*"),
                       ("multiplyByM", R + r"multiplyByM\(const State&\s*s,[^{;]*?\)\s*const\s*"),
                       ("calcTreeResidualForces", R + r"calcTreeResidualForces\(const State& s,[^{;]*?\)\s*const\s*"),
                       ("calcKineticEnergy", R + r"calcKineticEnergy\(const State& s\) const\s*"),
                       ("calcCompositeBodyInertias", R + r"calcCompositeBodyInertias\(const State& s,[^{;]*?\)\s*const\s*")):
        drivers[nm] = add_driver(B, Matter, anchor, nm)
    B.drivers = drivers
    B.dump_sources()
    B.cls = dict(DNode=DNode, Ground=Ground, Matter=Matter, PhiMatrix=PhiMatrix, SpatialInertia=SpatialInertia, UnitInertia=UnitInertia, Inertia=Inertia,
                 ArticulatedInertia=ArticulatedInertia, MatDD=MatDD, SIArr=SIArr)
    return B
