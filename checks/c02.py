"""C02 (PARTIAL, per-node kernel) - forward and inverse dynamics of trees are exact inverses.
Back end B (route M3): the per-node O(n) passes of Simbody/src/RigidBodyNodeSpec.cpp (+ RigidBodyNode.cpp, RBGroundBody, the level loops of
SimbodyMatterSubsystemRep.cpp) are cut from the current tree and transliterated each run (checks/dynamicslib.py) and executed on symbolic reals."""
import os, re, json, time, z3
from vlib import *
from extract import *
import symlib as S
from symlib import *
import dynamicslib as DL

PID = "C02"
META = dict(
    category="other",
    text=("PARTIAL, per-node kernel of C02 (+ bounded small-tree composition). The real realizeArticulatedBodyInertiasInward, calcUDotPass1Inward/Pass2Outward, "
          "calcBodyAccelerationsFromUdotOutward, calcInverseDynamicsPass2Inward, multiplyBySystemJacobianTranspose of RigidBodyNodeSpec<dof>, calcJointIndependentKinematicsVel / "
          "realizeArticulatedBodyVelocityCache / calcKineticEnergy of RigidBodyNode, realizeVelocity, the Ground node (RBGroundBody) and the level loops of "
          "SimbodyMatterSubsystemRep::calcTreeAccelerations / calcTreeResidualForces / realizeArticulatedBodyInertias / realizeArticulatedBodyVelocity / multiplyByM / "
          "multiplyBySystemJacobianTranspose are transliterated each run and executed on symbolic reals. "
          "(N) node lemmas for dof = 1,2,3 (6 in the thorough tier), for a fully symbolic hinge matrix H, ANY symmetric articulated inertia, any parent shift, one arbitrary child, any forces: "
          "P = Mk + sum Phi P+ ~Phi; D = ~H P H symmetric; DI*D = D*DI = 1 (real Mat<dof,dof>::invert, det D != 0), DI symmetric; G = P H DI; P+ = (1 - G ~H) P, ~H P+ = 0, P+ symmetric; "
          "forward pass: z = P a + b - F + sum shift(z+_c), A_GB = shift(A_GP) + H udot + a, the force across the joint P(A_GB - a) + z equals P+ shift(A_GP) + z+ (the induction invariant of the "
          "inward pass) and satisfies the joint equation ~H(.) = f_mobility; inverse pass: A_GB as above, F = Mk A_GB + b - F_applied + sum shift(F_c) written out as Newton-Euler at the body origin, "
          "tau = ~H F - f. Velocity bias terms: the mobilizer coriolis acceleration is the velocity-dependent part of the exact time derivative of the velocity recursion (dual numbers) and the "
          "gyroscopic force is what Newton-Euler (differentiated spatial momentum about the moving body origin) requires beyond Mk A; H = H_PB_G from H_FM and HDot = d/dt H for the 8 frame "
          "specialisations <noR_FM,noX_MB,noR_PF> (calcParentToChildVelocityJacobianInGround[Dot]). "
          "(L) the special node class RBNodeLoneParticle (RigidBodyNode_LoneParticle.cpp: Translation on Ground, identity frames, no children) is cut and transliterated the same way and "
          "satisfies the same ID/FD/MI/MM/V/J node lemmas specialised to H = [0; 1], Ground at rest, no children, a = b = 0, in a scenario with uIndex = 3 != qIndex = 4 where every slot of every "
          "array is a distinct symbol (reading or writing another mobilizer's slot or a q-slot for a u-quantity is a failed obligation; slot-frame obligations included), and the round trips through the transliterated drivers. "
          "(T, BOUNDED: ground + 1 body, ground + 2-body chain, ground + 2 bodies both on Ground, 1 symbolic mobility per body, passes run in the transliterated driver order): inverse(forward(f,F)) has zero residual, "
          "forward(f + inverse(udot*)) = udot*, residual = M udot + C(q,u) - f - ~J F, ~J is the adjoint of J and J u = V_GB of the velocity recursion. Over the reals (z3 QF_NRA). NOT decided: the induction over arbitrary trees (only the induction step = "
          "node lemmas and its instances n <= 2 are machine checked), branching in the composition, prescribed motion, constraints, the mobilizer-specific H/HDot and N (C03/C05), "
          "position kinematics (Phi, Mk_G from X_GB), calcQDotDot, float rounding."),
    note=("Assumes real arithmetic; trusts z3/cvc5, the transliterator + plumbing rule tables (logged per function), the symlib Vec/Mat shim and the node store / array-view shim of "
          "checks/dynamicslib.py (cache accessors hand back what was stored for the same node). Let-abstraction by substitution on the term DAG (sound generalisation) and lemma chains keep "
          "the goals polynomial identities. Level 'other': per-node kernel + bounded composition; the tree induction is a textbook step, not machine checked."),
    technique="symbolic execution of transliterated real code over the reals + SMT (z3 QF_NRA); let-abstraction + lemma chains; dual numbers for d/dt; native random-tree replay through the public API",
    design_ref="5 C02 (partial kernel added)")

ERRS = (AssertionError, TypeError, AttributeError, IndexError, KeyError, NameError, DL.NotModelled, ZeroDivisionError)


def unit(ctx, name, fn):
    only = os.environ.get("VERIF_ONLY")
    if only and not re.search(only, name):
        return
    n0 = len(ctx.obligations)
    t0 = time.time()
    try:
        fn()
    except ExtractionError as e:
        ctx.undecide("%s: %s" % (name, e))
    except ERRS as e:
        ctx.undecide("%s: symbolic execution of the transliterated code failed: %r" % (name, e))
    n = len(ctx.obligations) - n0
    if n == 0:
        ctx.undecide("%s: no obligations were generated (vacuity guard)" % name)
    ctx.units.append(dict(unit=name, backend="z3 QF_NRA", obligations=n, discharged=len([o for o in ctx.obligations[n0:] if o.status == "discharged"]),
                          solver_s=round(time.time() - t0, 2)))


def common_evidence(ctx, B):
    ctx.checker_cmds.append("z3 (python API, QF_NRA, 30-60 s/obligation); SMT-LIB files in out/%s/smt2; cvc5 re-check in thorough tier" % ctx.pid)
    ctx.trust("z3 4.x / cvc5 1.0 (QF_NRA)")
    ctx.trust("tools/translit.py rule table + checks/dynamicslib.py + checks/mobilizerlib.py plumbing rules (per-function log in extraction_report.json), tools/symlib.py Vec/Mat shim")
    ctx.assume("machine arithmetic treated as mathematical (reals): float rounding is not covered")
    ctx.assume("symlib shim gives SimTK Vec/Mat/Row/SpatialVec operators their textbook meaning; HType = Mat<2,dof,Vec3> row/column/transposed products by mobilizerlib.HMat/HMatT/HRow")
    ctx.assume("node store: cache accessors getX(cache)/updX(cache) of RigidBodyNode.h / RigidBodyNodeSpec.h hand back the entry stored for the same node (fromB/toB, fromU/toU views: slot nodeNum / "
               "slots uIndex..uIndex+dof-1); references to array slots and to cache objects are rewritten to explicit reads/writes by logged rules; assignment of class objects copies")
    ctx.assume("no prescribed motion: isUDotKnown() == false for every node (the prescribed branches are transliterated but not executed), no constraints")
    ctx.assume("Mat<dof,dof>::invert(): the real SmallMatrixMixed.h inverse()/det() code for dof <= 3 with 1/det as a reciprocal variable (hypothesis det != 0); for dof > 3 (Lapack getrf/getri) "
               "the defining equations X*D == 1, D*X == 1 with X symmetric (inverse of a symmetric matrix)")
    ctx.assume("constructors / copy assignment / accessors of SpatialInertia_, UnitInertia_, Inertia_, ArticulatedInertia_, PhiMatrix (initialiser lists of the headers) are a thin Python shim; "
               "ArticulatedInertia*Mat<2,N,Vec3> acts column by column (template member); Ground's velocity-cache entries are zero (SBTreeVelocityCache::allocate, presence checked in the source)")
    ctx.assume("the body mass getMass() and the mass in Mk_G are the same quantity (calcJointIndependentKinematicsPos builds Mk_G = SpatialInertia(getMass(), R_GB*com, G_G)); "
               "mobilizer-specific members called by realizeVelocity (calcQDot, calcAcrossJointVelocityJacobianDot, calcParentToChildVelocityJacobianInGroundDot) hand back symbolic H_FM-dot / HDot (C03's matter)")
    ctx.assume("driver order: the level loops, pointer bindings and temporaries are transliterated from SimbodyMatterSubsystemRep.cpp; the State/cache/stage plumbing around them is dropped (logged), "
               "cache objects are opaque tokens, rbNodeLevels is the level array of the harness tree; zero-length-argument conveniences and early returns are not modelled")
    ctx.assume("RBNodeLoneParticle: `Vec3& x = Vec3::updAs/getAs(&a[k])` views are inlined and rewritten to explicit 3-slot reads/writes (logged rules); velocity-cache entries that were allocated but "
               "not yet written hold arbitrary symbols; of realizeInstance only the statements initialising velocity-cache entries are kept (the others are logged as dropped); calcKineticEnergy and "
               "realizeArticulatedBodyVelocityCache are the inherited RigidBodyNode members; the scenario fixes nodeNum = 2, uIndex = 3, qIndex = 4 (arrays of 3 bodies / 7 u / 8 q)")
    ctx.assume("let-abstraction: element terms of computed objects (P, D, DI, child outputs P+, z+, F) are replaced by fresh variables by substitution on the term DAG; "
               "symmetric positions are merged only after the symmetry obligation (N2, N3c) of the same unit; hypotheses about abstracted objects are previously listed obligations")


def main(ctx):
    ctx.level = "other"
    try:
        B = DL.build(ctx)
    except ExtractionError as e:
        ctx.undecide("extraction: %s" % e)
        return ctx.finish(replayer=lambda ob: replay(ctx, ob))
    thorough = ctx.tier == "thorough"
    dofs = [1, 2, 3] + ([6] if thorough else [])
    for dof in dofs:
        def node(dof=dof):
            sc = DL.NodeScenario(B, dof, 1)
            abi = DL.abi_lemmas(B, sc, "abi.dof%d" % dof)
            DL.fd_lemmas(B, sc, abi, "fd.dof%d" % dof)
        unit(ctx, "abi+fd.dof%d" % dof, node)
        unit(ctx, "id.dof%d" % dof, lambda dof=dof: DL.id_lemmas(B, DL.NodeScenario(B, dof, 1), "id.dof%d" % dof))
        unit(ctx, "jac.dof%d" % dof, lambda dof=dof: DL.jac_lemmas(B, DL.NodeScenario(B, dof, 1), "jac.dof%d" % dof))
        unit(ctx, "vel.dof%d" % dof, lambda dof=dof: DL.vel_lemmas(B, dof, "vel.dof%d" % dof))
        unit(ctx, "hpbg.dof%d" % dof, lambda dof=dof: DL.hpbg_lemmas(B, dof, "hpbg.dof%d" % dof))
    # a leaf node and a node with two children: the same members on the other loop counts
    def shapes():
        for nchild, dof in [(0, 1), (0, 3), (2, 1)] + ([(2, 3)] if thorough else []):
            sc = DL.NodeScenario(B, dof, nchild)
            abi = DL.abi_lemmas(B, sc, "abi.dof%d.children%d" % (dof, nchild))
            DL.fd_lemmas(B, sc, abi, "fd.dof%d.children%d" % (dof, nchild))
            DL.id_lemmas(B, DL.NodeScenario(B, dof, nchild), "id.dof%d.children%d" % (dof, nchild))
    unit(ctx, "shapes", shapes)
    for nb in (1, 2):
        unit(ctx, "tree%d.dyn" % nb, lambda nb=nb: (DL.tree_roundtrips(B, nb, "tree%d.dyn" % nb, "dyn"), DL.tree_dyn_extra(B, nb, "tree%d.dyn" % nb)))
    unit(ctx, "fork2.dyn", lambda: (DL.tree_roundtrips(B, 2, "fork2.dyn", "dyn", shape="fork"), DL.tree_dyn_extra(B, 2, "fork2.dyn", shape="fork")))
    # the special node class RBNodeLoneParticle (Translation on Ground, identity frames, no children): the same node lemmas, specialised
    unit(ctx, "lone.id", lambda: DL.lone_id_lemmas(B, "lone.id"))
    unit(ctx, "lone.fd", lambda: DL.lone_fd_lemmas(B, "lone.fd"))
    unit(ctx, "lone.mm", lambda: DL.lone_id_lemmas(B, "lone.mm", zero_bias=True))
    unit(ctx, "lone.mi", lambda: DL.lone_fd_lemmas(B, "lone.mi", zero_bias=True))
    unit(ctx, "lone.vel", lambda: DL.lone_vel_lemmas(B, "lone.vel"))
    unit(ctx, "lone.jac", lambda: DL.lone_jac_lemmas(B, "lone.jac"))
    unit(ctx, "lone.tree", lambda: DL.lone_roundtrips(B, "lone.tree"))
    for k, v in B.drivers.items():
        if v < 1:
            ctx.undecide("driver %s: no level loop transliterated" % k)
    common_evidence(ctx, B)
    ctx.not_decided += [
        "induction over arbitrary trees: the node lemmas are the induction step (arbitrary parent motion, arbitrary child P+/z+/F), the composition is enacted only for ground + 1 body and ground + 2-body chain "
        "and ground + 2 bodies both on Ground (1 mobility per body); deeper chains and branching below a moving body are not composed",
        "prescribed motion (isUDotKnown branches, tau), constraints (calcLoopForwardDynamicsOperator, multipliers), calcAcceleration's constraint handling",
        "the mobilizer-specific parts: H_FM/HDot_FM, N/NDot/qdotdot (C03/C05 cover H_FM, HDot_FM, N per mobilizer); H_PB_G/HDot_PB_G are tied to H_FM/HDot_FM here (hpbg.*) for arbitrary "
        "(not necessarily orthonormal) R_GP, R_PF, R_FM, but the realize sequence that feeds them (calcBodyTransforms, X_GP recursion) is not enacted",
        "position kinematics: Phi = PhiMatrix(p_PB_G), Mk_G = SpatialInertia(mass, R_GB*com, G reexpressed) (calcJointIndependentKinematicsPos; C29 covers the mass-property operators)",
        "realizeYOutward, the calcTreeEquivalentMobilityForces driver (its node member calcEquivalentJointForces is under a node lemma only), Weld nodes, Custom mobilizers",
        "RBNodeLoneParticle: realizePosition (X_GB, Phi, Mk_G from q), the H_PB_G / H_FM storage, Y and A_GB entries written by realizeInstance (not read by the passes under contract), the prescribed-motion "
        "branches, the factory condition of TranslationImpl::createRigidBodyNode (exercised natively only: replay trees with a lone particle after a Ball/Free); its P+ and the angular part of z+ "
        "(read by nobody: the parent is Ground) agree with the generic node only when the body origin is the mass centre (FD3 is stated for the linear part, and in full under that hypothesis)",
        "the State/cache/stage plumbing of the SimbodyMatterSubsystemRep drivers (realized-flags, resize, zero-length argument conveniences, calcConstraintAccelerationErrors)",
        "dof = 4, 5 (FreeLine) and, in the quick tier, dof = 6: node lemmas run in the thorough tier only; Mat<N,N>::invert() for N > 3 (Lapack) is modelled by its defining equations",
        "float rounding; ill-conditioned D (the real invert() may throw); det D == 0"]
    nb = len([o for o in ctx.obligations if o.bounded])
    ctx.explanation = ("%d functions transliterated; %d obligations (%d of them bounded small-tree composition)." % (len(ctx.functions), len(ctx.obligations), nb))
    return ctx.finish(replayer=lambda ob: replay(ctx, ob))


_RUN = {}
DYN_SRCS = ("RigidBodyNodeSpec.cpp", "RigidBodyNode.cpp", "RigidBodyNode_Weld.cpp", "RigidBodyNode_LoneParticle.cpp", "RigidBodyNodeSpec_Derived.cpp", "SimbodyMatterSubsystemRep.cpp")


def build_replay(ctx):
    """c02_replay linked from objects of the CURRENT tree's dynamics sources (compiled in parallel, at most 4 at a time; objects cached under
    out/.c02_objcache keyed by the hash of the PREPROCESSED translation unit, so header changes are seen) + the private library build for the rest"""
    import hashlib
    from concurrent.futures import ThreadPoolExecutor
    src = os.path.join(REPO, "Simbody/src")
    cache = os.path.join(VERIF, "out", ".c02_objcache")
    os.makedirs(cache, exist_ok=True)
    b = ensure_libs(ctx)
    inc = ["-I" + i for i in repo_includes()] + ["-I" + src]
    files = [os.path.join(src, x) for x in DYN_SRCS] + [os.path.join(VERIF, "replay/c02_replay.cpp")]
    def one(f):
        rc, o, e, t = run(["g++", "-std=c++17", "-O1", "-w", "-E", "-P", f] + inc, 300)
        if rc != 0:
            raise Undecided("preprocessing %s failed: %s" % (f, e[-400:]))
        obj = os.path.join(cache, "%s.%s.o" % (os.path.basename(f), hashlib.sha256(o.encode()).hexdigest()[:20]))
        if not os.path.exists(obj):
            tmp = obj + ".tmp%d" % os.getpid()
            rc, o, e, t = run(["g++", "-std=c++17", "-O1", "-w", "-c", f, "-o", tmp] + inc, 1500)
            if rc != 0:
                raise Undecided("native compile of %s failed: %s" % (f, (o + e)[-600:]))
            os.replace(tmp, obj)
        return obj
    with ThreadPoolExecutor(max_workers=4) as ex:
        objs = list(ex.map(one, files))
    exe = os.path.join(ctx.out, "c02_replay")
    rc, o, e, t = run(["g++", "-o", exe] + objs + ["-L" + b, "-Wl,-rpath," + b, "-lSimTKsimbody", "-lSimTKmath", "-lSimTKcommon", "-lpthread", "-ldl", "-l:libopenblas.so.0"], 300)
    if rc != 0:
        raise Undecided("native link of c02_replay failed: %s" % (o + e)[-600:])
    return exe


def replay(ctx, ob, checks="all"):
    """native witness search: random small trees through the public API, dynamics .cpp files of the CURRENT tree compiled into the driver"""
    if "res" not in _RUN:
        exe = build_replay(ctx)
        args = ["seed=%d" % ctx.seed, "ntrees=60", "checks=" + checks]
        rc, o, e, t = run([exe] + args, 600)
        lines = o.strip().split("\n")
        crashed = rc not in (0, -9) and "REPRODUCED" not in o      # the driver (dynamics sources of the CURRENT tree) died: on the pinned tree it terminates normally, so the abort itself is a failing input
        if crashed:
            lines.append("REPRODUCED: the native driver terminated abnormally (exit status %s) after the lines above: %s" % (rc, " ".join(e.split())[-200:]))
        _RUN["res"] = (dict(cmd="c02_replay " + " ".join(args), output="\n".join(lines if len(lines) <= 14 else lines[:12] + ["..."] + lines[-1:]), stderr=e[-500:]), "REPRODUCED:" in o or crashed)
    return _RUN["res"]
