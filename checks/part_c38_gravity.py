"""Part of C38: the OWN lazy caching of Force::Gravity (Simbody/src/Force_Gravity.cpp) under contract.

Back end A, route M2.  Every function of the caching protocol is cut from /repo on each run
(tools/extract.py), rewritten to C by logged rules and verified with CBMC function contracts
(goto-instrument --dfcc) and loop contracts on the two body loops:

  class invariant INV(state), for an arbitrary (ghost) body index gj:
     Ground is immune;  immune[gj] ==> F_GB[gj] is exactly zero;  g == 0 ==> F_GB[gj] and pe exactly zero;
     cache valid ==> F_GB[gj] and pe are the documented values of the CURRENT (g, d, z, immune[])
  realizeTopology establishes INV (cache not valid); every State-based setter keeps INV, stores the new
  value and changes nothing when the value is unchanged; ensureForceCacheValid ends valid with the
  documented values; accessors / calcForce / calcPotentialEnergy return them; composition lemmas
  (setters and accessors by contract) for the exclude / zero magnitude / re-include sequences.

The floating-point VALUE of a force is abstracted by a tagged value (specs/C38gravity/gravity_pre.h);
the State API is a small executable model in which updDiscreteVariable of the Dynamics-stage
parameter variable does NOT invalidate the Position-stage lazy cache entry.

run(ctx) adds units `gravity.*` and returns a replayer."""
import os, re, time
import vlib
from vlib import *
from extract import *

SPEC = os.path.join(VERIF, "specs", "C38gravity")
SRC = os.path.join(REPO, "Simbody/src")
G_CPP = os.path.join(SRC, "Force_Gravity.cpp")
G_H = os.path.join(REPO, "Simbody/include/simbody/internal/Force_Gravity.h")
REP_H = os.path.join(SRC, "SimbodyMatterSubsystemRep.h")
STAGE_H = os.path.join(REPO, "SimTKcommon/Simulation/include/SimTKcommon/internal/Stage.h")

GI_METHODS = ["getParameters", "updParameters", "getForceCache", "updForceCache", "isForceCacheValid", "markForceCacheValid",
              "invalidateForceCache", "ensureForceCacheValid", "setMobodIsImmune", "getMobodIsImmune"]
G_METHODS = ["getBodyIsExcluded", "getMagnitude", "getDownDirection", "getZeroHeight", "getBodyForces", "getPotentialEnergy"]
GI_MEMBERS = ["defMobodIsImmune", "defDirection", "defMagnitude", "defZeroHeight", "parametersIx", "forceCacheIx", "numEvaluations"]
CALL1 = r"\((?:[^()]|\([^()]*\))*\)"          # a call's parenthesis with at most one nested level


# ----------------------------------------------------------------------
# rewriting helpers
# ----------------------------------------------------------------------
def split_args(s):
    out, dp, cur = [], 0, ""
    for ch in s:
        if ch in "([{":
            dp += 1
        elif ch in ")]}":
            dp -= 1
        if ch == "," and dp == 0:
            out.append(cur); cur = ""
        else:
            cur += ch
    out.append(cur)
    return [a.strip() for a in out]


def errchk_to_throw(r, ret):
    """exception plumbing -> ghost flag:  SimTK_ERRCHKn_ALWAYS(cond, where, fmt, ...);   ->  if (!(cond)) { vf_throw(); return RET; }
                                         SimTK_STAGECHECK_GE_ALWAYS(a, b, where);         ->  if (!((a) >= (b))) { vf_throw(); return RET; }
    (message arguments are dropped and logged)."""
    n = 0
    while True:
        b = blank_comments(r.text)
        m = re.search(r"\bSimTK_(ERRCHK\d?_ALWAYS|STAGECHECK_GE_ALWAYS)\s*\(", b)
        if not m:
            break
        op = m.end() - 1
        cp = match_brace(b, op)
        args = split_args(r.text[op + 1:cp])
        e = cp + 1
        while e < len(b) and b[e].isspace():
            e += 1
        if e >= len(b) or b[e] != ";":
            raise ExtractionError("%s: %s(...) is not a statement" % (r.name, m.group(0)))
        if m.group(1).startswith("ERRCHK"):
            cond, msg = args[0], args[1:]
        else:
            if len(args) < 3:
                raise ExtractionError("%s: STAGECHECK with %d arguments" % (r.name, len(args)))
            cond, msg = "(%s) >= (%s)" % (args[0], args[1]), args[2:]
        new = "if (!(%s)) { vf_throw(); return%s; }" % (cond, (" " + ret) if ret else "")
        r.dropped.append(dict(rule="exception plumbing -> ghost flag (message arguments dropped)", text=" ".join(", ".join(msg).split())))
        r.log.append(dict(rule="exception plumbing -> ghost flag: %s" % m.group(1), pattern=m.group(0), replacement=new, hits=1,
                          examples=[" ".join(r.text[m.start():e + 1].split())[:160]]))
        r.text = r.text[:m.start()] + new + r.text[e + 1:]
        n += 1
    return n


def common(r, kind):
    """kind: 'G' (method of the handle Force::Gravity), 'GI' (method of GravityImpl), 'FC' (method of ForceCache).
    Pure rewrites; zero hits are fine (min_count 0): a rule that should have fired leaves C++ text that does not compile."""
    z = dict(count=None, min_count=0)
    # ---- State API reached through the subsystem: typed access -> State model functions ----
    r.sub("container/State access -> model: Value<T>::downcast(getForceSubsystem().getX(s,ix))",
          r"Value<(\w+)>::(?:upd)?[dD]owncast\s*\(\s*getForceSubsystem\(\)\s*\.\s*(\w+)\((\w+),\s*(\w+)\)\)",
          r"\2_\1(getForceSubsystem(self), \3, self->\4)", **z)
    r.sub("State access -> model: cache validity flag", r"getForceSubsystem\(\)\s*\.\s*(isCacheValueRealized|markCacheValueRealized|markCacheValueNotRealized)\((\w+),\s*(\w+)\)",
          r"\1(getForceSubsystem(self), \2, self->\3)", **z)
    r.sub("State access -> model: allocateDiscreteVariable(s, Stage, new Value<Parameters>(p))",
          r"getForceSubsystem\(\)\s*\.\s*allocateDiscreteVariable\((\w+),\s*Stage::(\w+),\s*new Value<Parameters>\((\w+)\)\)",
          r"allocateDiscreteVariable_Parameters(getForceSubsystem(self), \1, Stage_\2, &\3)", **z)
    r.sub("State access -> model: allocateLazyCacheEntry(s, Stage, new Value<ForceCache>())",
          r"getForceSubsystem\(\)\s*\.\s*allocateLazyCacheEntry\((\w+),\s*Stage::(\w+),\s*new Value<ForceCache>\(\)\)",
          r"allocateLazyCacheEntry_ForceCache(getForceSubsystem(self), \1, Stage_\2)", **z)
    r.sub("scope flattening: Stage::X", r"\bStage::(\w+)", r"Stage_\1", **z)
    r.sub("method -> function: state.getSystemStage()", r"\b(\w+)\.getSystemStage\(\)", r"getSystemStage(\1)", **z)
    # ---- float kernels -> recorders / ghost constants ----
    r.sub("symbolic float product -> recorder: p.g * p.d", r"const Vec3\s+gravity\s*=\s*p\.g\s*\*\s*p\.d\s*;", "const struct ProdGD gravity = vf_mul_gd(p.g, p.d);", **z)
    r.sub("symbolic float product -> recorder: p.g * p.z", r"const Real\s+zeroPEOffset\s*=\s*p\.g\s*\*\s*p\.z\s*;", "const struct ProdGZ zeroPEOffset = vf_mul_gz(p.g, p.z);", **z)
    r.sub("float kernel -> ghost constant: gravity.norm()", r"\bgravity\.norm\(\)", "Vec3_norm(gravity)", **z)
    r.sub("float kernel -> ghost constant: UnitVec3(gravity/newg, true)", r"\bUnitVec3\(gravity/newg,\s*true\)", "vf_unitvec(gravity, newg)", **z)
    r.sub("tagged value: SpatialVec(Vec3(0)[,Vec3(0)])", r"\bSpatialVec\(Vec3\(0\)(?:,\s*Vec3\(0\))?\)", "vf_sv_zero()", **z)
    # ---- handle -> impl, implicit this ----
    r.sub("references -> pointers: const GravityImpl& impl = getImpl()", r"const GravityImpl&\s*impl\s*=\s*getImpl\(\)\s*;", "const struct GravityImpl* impl = getImpl(self);", **z)
    r.sub("method -> function: X.matter.getNumBodies()", r"\bimpl\.matter\.getNumBodies\(\)", "getNumBodies(&impl->matter)", **z)
    r.sub("method -> function: impl.m(", r"\bimpl\.(\w+)\(", r"GI_\1(impl, ", **z)
    r.sub("method -> function: getImpl().m(", r"\bgetImpl\(\)\s*\.\s*(\w+)\(", r"GI_\1(getImpl(self), ", **z)
    if kind == "GI":
        r.sub("implicit this: GravityImpl method call", r"(?<![\w.>:])(%s)\(" % "|".join(GI_METHODS), r"GI_\1(self, ", **z)
        r.sub("implicit this: matter.getNumX()", r"(?<![\w.>])matter\.(getNumBodies|getNumParticles)\(\)", r"\1(&self->matter)", **z)
        r.sub("references -> pointers: const_cast<GravityImpl*>(this)", r"GravityImpl\*\s*mThis\s*=\s*const_cast<GravityImpl\*>\(this\)\s*;",
              "struct GravityImpl* mThis = (struct GravityImpl*)self;", **z)
        r.sub("constructor call -> function: const Parameters p(a,b,c,d)", r"const Parameters\s+(\w+)\((\w+),\s*(\w+),\s*(\w+),\s*(\w+)\)\s*;",
              r"struct Parameters \1; Parameters_ctor(&\1, \2, \3, \4, &\5);", **z)
        r.members(GI_MEMBERS)
        r.sub("container -> contracted stub: size()", r"self->defMobodIsImmune\.size\(\)", "BoolArray_size(&self->defMobodIsImmune)", **z)
        r.sub("container -> contracted stub: resize(n, false)", r"mThis->defMobodIsImmune\.resize\(", "BoolArray_resize(&mThis->defMobodIsImmune, ", **z)
        r.sub("container access: defMobodIsImmune[i]", r"self->defMobodIsImmune\[(\w+)\]", r"(*BoolArray_at(&self->defMobodIsImmune, \1))", **z)
        r.sub("loop variable: MobilizedBodyIndex mbx(1)", r"MobilizedBodyIndex\s+mbx\(1\)", "MobilizedBodyIndex mbx = 1", **z)
    if kind == "G":
        r.sub("implicit this: Gravity method call", r"(?<![\w.>:])(%s)\(" % "|".join(G_METHODS), r"G_\1(self, ", **z)
        r.sub("Vec operator!= -> function", r"(G_getDownDirection\(self, state\))\s*!=\s*(\w+)", r"UnitVec3_ne(\1, \2)", **z)
        r.sub("method -> function: down.isFinite()", r"\bdown\.isFinite\(\)", "UnitVec3_isFinite(down)", **z)
        r.sub("types: const UnitVec3 local", r"\bconst UnitVec3\b", "const struct UnitVec3", **z)
        r.sub("references -> pointers: return *this", r"\breturn\s*\*this\s*;", "return self;", **z)
        r.sub("references -> pointers: SpatialVec& F = X", r"\bSpatialVec&\s*F\s*=\s*", "struct SpatialVec* F = &", **z)
        r.sub("method -> function: F.setToZero()/setToNaN()", r"\bF\.(setToZero|setToNaN)\(\)", r"SpatialVec_\1(F)", **z)
        r.sub("container access: getBodyForces(state)[i]", r"G_getBodyForces\(self, (\w+)\)\[(\w+)\]", r"(*SVArray_at(G_getBodyForces(self, \1), \2))", **z)
    if kind == "FC":
        r.drop("particle part (f_GP statements; getNumParticles() == 0)", r"\bf_GP\.\w+\([^()]*\)\s*;", count=2)
        r.sub("implicit this: ForceCache method call", r"(?<![\w.>:])(setToZero|setToNaN)\(\)", r"FC_\1(self)", **z)
        r.sub("tagged value: pe=0", r"(?<![\w.>])pe\s*=\s*0\s*;", "self->pe = vf_pe_zero();", **z)
        r.sub("tagged value: pe=NaN", r"(?<![\w.>])pe\s*=\s*NaN\s*;", "self->pe = vf_pe_nan();", **z)
        r.members(["F_GB"])
        r.sub("container -> contracted stub: Vector_::resize/setToZero/setToNaN", r"self->F_GB\.(resize|setToZero|setToNaN)\(([^()]*)\)",
              lambda m: "SVArray_%s(&self->F_GB%s)" % (m.group(1), (", " + m.group(2)) if m.group(2).strip() else ""), **z)
    # ---- references -> pointers on the locals p / fc, returned references ----
    r.sub("references -> pointers: Parameters& p", r"\b(const\s+)?(?:GravityImpl::)?Parameters&\s*p\s*=", r"\1struct Parameters* p =", **z)
    r.sub("references -> pointers: ForceCache& fc", r"\b(const\s+)?(?:GravityImpl::)?ForceCache&\s*fc\s*=", r"\1struct ForceCache* fc =", **z)
    r.sub("method -> function: fc.allocate(", r"\bfc\.allocate\(", "FC_allocate(fc, ", **z)
    r.sub("references -> pointers: return fc.F_GB", r"\breturn\s+fc\.F_GB\s*;", "return &fc->F_GB;", **z)
    r.sub("container -> contracted stub: bodyForces += fc.F_GB", r"\bbodyForces\s*\+=\s*fc\.F_GB\s*;", "SVArray_plusEq(bodyForces, &fc->F_GB);", **z)
    r.sub("references -> pointers: p.", r"(?<![\w.>])p\.(?=\w)", "p->", **z)
    r.sub("references -> pointers: fc.", r"(?<![\w.>])fc\.(?=\w)", "fc->", **z)
    r.sub("references -> pointers: accessor result member", r"(GI_(?:upd|get)(?:Parameters|ForceCache)%s)\.(?=\w)" % CALL1, r"\1->", **z)
    r.sub("method -> function: X->setToZero()", r"(GI_updForceCache%s)->setToZero\(\)" % CALL1, r"FC_setToZero(\1)", **z)
    r.sub("container access: X->mobodIsImmune[i]", r"(\w+)->mobodIsImmune\[(\w+)\]", r"(*BoolArray_at(&\1->mobodIsImmune, \2))", **z)
    r.sub("container access: X->F_GB[i]", r"(\w+|GI_updForceCache%s)->F_GB\[(\w+)\]" % CALL1, r"(*SVArray_at(&\1->F_GB, \2))", **z)
    return r


LOCALS_DROPPED = ["mobod", "mprops", "X_GB", "m", "p_CB", "p_CB_G", "p_G_CB", "F_CB_G"]
ALLOWED_IN_DROPPED = set(LOCALS_DROPPED + ["matter", "mbx", "state", "gravity", "const", "MobilizedBody", "MassProperties", "Transform", "Real", "Vec3",
                                           "getMobilizedBody", "getBodyMassProperties", "getBodyTransform", "getMass", "getMassCenter", "R", "p"])


def slice_body_loop(r):
    """ensureForceCacheValid: the per-body float computation is dropped (local declarations only, checked to depend on nothing but
    mbx, gravity, state and each other), the two stores keep their place and target and get the abstract value."""
    for nm in LOCALS_DROPPED:
        pat = r"(?:const\s+)?(?:MobilizedBody|MassProperties|Transform|Real|Vec3)\s*&?\s+%s\s*=\s*[^;]*;" % re.escape(nm)
        hits = re.findall(pat, r.text)
        for h in hits:
            ids = set(re.findall(r"[A-Za-z_]\w*", h))
            bad = ids - ALLOWED_IN_DROPPED
            if bad:
                raise ExtractionError("ensureForceCacheValid: dropped local '%s' depends on %s (not mbx/gravity/state/other dropped locals)" % (nm, sorted(bad)))
        r.drop("local float/vector computation of the body loop: %s" % nm, pat, count=1)
    r.sub("tagged value: body force store", r"=\s*SpatialVec\(p_CB_G\s*%\s*F_CB_G,\s*F_CB_G\)\s*;", "= vf_gravity_force(mbx, gravity);", 1)
    r.sub("tagged value: PE term", r"\bfc\.pe\s*-=\s*m\s*\*\s*\(~gravity\s*\*\s*p_G_CB\s*\+\s*zeroPEOffset\)\s*;", "vf_pe_sub_term(&fc.pe, mbx, gravity, zeroPEOffset);", 1)
    r.sub("tagged value: fc.pe = 0", r"\bfc\.pe\s*=\s*0\s*;", "fc.pe = vf_pe_zero();", 1)
    # particle block: unreachable (getNumParticles() == 0 is cut from SimbodyMatterSubsystemRep.h); its body becomes an assertion
    b = blank_comments(r.text)
    m = re.search(r"\bif\s*\(\s*np\s*\)\s*\{", b)
    if m:
        ob = m.end() - 1
        cb = match_brace(b, ob)
        r.dropped.append(dict(rule="particle block -> assert(unreachable)", text=" ".join(r.text[ob + 1:cb].split())))
        r.log.append(dict(rule="particle block -> assert(unreachable)", pattern=r"if (np) {...}", replacement="vf_particles_unreachable();", hits=1))
        r.text = r.text[:ob + 1] + " vf_particles_unreachable(); " + r.text[cb:]
    else:
        r.log.append(dict(rule="particle block -> assert(unreachable)", pattern=r"if (np) {...}", deviation="block not found", hits=0))


# (name, file, anchor regex, kind, C signature, return expr for throws, loop-contract macro or None)
def functions():
    S = "struct State*"
    return [
        ("ForceCache::allocate", G_CPP, r"void allocate\(int nb, int np, bool initToZero\)\s*", "FC", "void FC_allocate(struct ForceCache* self, int nb, int np, bool initToZero)", "", None),
        ("ForceCache::setToZero", G_CPP, r"void setToZero\(\)\s*", "FC", "void FC_setToZero(struct ForceCache* self)", "", None),
        ("ForceCache::setToNaN", G_CPP, r"void setToNaN\(\)\s*", "FC", "void FC_setToNaN(struct ForceCache* self)", "", None),
        ("GravityImpl::getParameters", G_CPP, r"const Parameters& getParameters\(const State& s\) const\s*", "GI", "static const struct Parameters* GI_getParameters(const struct GravityImpl* self, const %s s)" % S, "", None),
        ("GravityImpl::updParameters", G_CPP, r"Parameters& updParameters\(State& s\) const\s*", "GI", "static struct Parameters* GI_updParameters(const struct GravityImpl* self, %s s)" % S, "", None),
        ("GravityImpl::getForceCache", G_CPP, r"const ForceCache& getForceCache\(const State& s\) const\s*", "GI", "static const struct ForceCache* GI_getForceCache(const struct GravityImpl* self, const %s s)" % S, "", None),
        ("GravityImpl::updForceCache", G_CPP, r"ForceCache& updForceCache\(const State& s\) const\s*", "GI", "static struct ForceCache* GI_updForceCache(const struct GravityImpl* self, %s s)" % S, "", None),
        ("GravityImpl::isForceCacheValid", G_CPP, r"bool isForceCacheValid\(const State& s\) const\s*", "GI", "static bool GI_isForceCacheValid(const struct GravityImpl* self, const %s s)" % S, "", None),
        ("GravityImpl::markForceCacheValid", G_CPP, r"void markForceCacheValid\(const State& s\) const\s*", "GI", "static void GI_markForceCacheValid(const struct GravityImpl* self, %s s)" % S, "", None),
        ("GravityImpl::invalidateForceCache", G_CPP, r"void invalidateForceCache\(const State& s\) const\s*", "GI", "static void GI_invalidateForceCache(const struct GravityImpl* self, %s s)" % S, "", None),
        ("GravityImpl::setMobodIsImmune", G_CPP, r"void setMobodIsImmune\(State& state, MobilizedBodyIndex mbx,\s*bool isImmune\) const\s*", "GI",
         "void GI_setMobodIsImmune(const struct GravityImpl* self, %s state, MobilizedBodyIndex mbx, bool isImmune)" % S, "", None),
        ("GravityImpl::getMobodIsImmune", G_CPP, r"bool getMobodIsImmune\(const State& state, MobilizedBodyIndex mbx\) const\s*", "GI",
         "static bool GI_getMobodIsImmune(const struct GravityImpl* self, const %s state, MobilizedBodyIndex mbx)" % S, "", None),
        ("Force::Gravity::getBodyIsExcluded", G_CPP, r"bool Force::Gravity::\s*getBodyIsExcluded\(const State& state, MobilizedBodyIndex mobod\) const\s*", "G",
         "static bool G_getBodyIsExcluded(const struct GravityImpl* self, const %s state, MobilizedBodyIndex mobod)" % S, "", None),
        ("Force::Gravity::getDownDirection", G_CPP, r"const UnitVec3& Force::Gravity::\s*getDownDirection\(const State& state\) const\s*", "G",
         "static struct UnitVec3 G_getDownDirection(const struct GravityImpl* self, const %s state)" % S, "", None),
        ("Force::Gravity::getMagnitude", G_CPP, r"Real Force::Gravity::getMagnitude\(const State& state\) const\s*", "G",
         "static Real G_getMagnitude(const struct GravityImpl* self, const %s state)" % S, "", None),
        ("Force::Gravity::getZeroHeight", G_CPP, r"Real Force::Gravity::getZeroHeight\(const State& state\) const\s*", "G",
         "static Real G_getZeroHeight(const struct GravityImpl* self, const %s state)" % S, "", None),
        ("Force::GravityImpl::ensureForceCacheValid", G_CPP, r"void Force::GravityImpl::\s*ensureForceCacheValid\(const State& state\) const\s*", "GI",
         "void GI_ensureForceCacheValid(struct GravityImpl* self, %s state)" % S, "", "ENSURE_LOOP_CONTRACT"),
        ("Force::GravityImpl::realizeTopology", G_CPP, r"void Force::GravityImpl::\s*realizeTopology\(State& s\) const\s*", "GI",
         "void GI_realizeTopology(struct GravityImpl* self, %s s)" % S, "", "TOPO_LOOP_CONTRACT"),
        ("Force::GravityImpl::calcForce", G_CPP, r"void Force::GravityImpl::\s*calcForce\(const State& state, Vector_<SpatialVec>& bodyForces,\s*Vector_<Vec3>& particleForces, Vector& mobilityForces\) const\s*", "GI",
         "void GI_calcForce(struct GravityImpl* self, %s state, struct SVArray* bodyForces)" % S, "", None),
        ("Force::GravityImpl::calcPotentialEnergy", G_CPP, r"Real Force::GravityImpl::\s*calcPotentialEnergy\(const State& state\) const\s*", "GI",
         "struct PEVal GI_calcPotentialEnergy(struct GravityImpl* self, %s state)" % S, "", None),
        ("Force::Gravity::getPotentialEnergy", G_CPP, r"Real Force::Gravity::\s*getPotentialEnergy\(const State& s\) const\s*", "G",
         "struct PEVal G_getPotentialEnergy(const struct GravityImpl* self, %s s)" % S, "", None),
        ("Force::Gravity::getBodyForces", G_CPP, r"const Vector_<SpatialVec>& Force::Gravity::\s*getBodyForces\(const State& s\) const\s*", "G",
         "const struct SVArray* G_getBodyForces(const struct GravityImpl* self, %s s)" % S, "", None),
        ("Force::Gravity::getBodyForce", G_H, r"getBodyForce\(const State& state, MobilizedBodyIndex mobod\) const\s*", "G",
         "struct SpatialVec G_getBodyForce(const struct GravityImpl* self, %s state, MobilizedBodyIndex mobod)" % S, "", None),
        ("Force::Gravity::setBodyIsExcluded", G_CPP, r"const Force::Gravity& Force::Gravity::\s*setBodyIsExcluded\(State& state, MobilizedBodyIndex mobod,\s*bool isExcluded\) const\s*", "G",
         "const struct GravityImpl* G_setBodyIsExcluded(const struct GravityImpl* self, %s state, MobilizedBodyIndex mobod, bool isExcluded)" % S, "self", None),
        ("Force::Gravity::setGravityVector", G_CPP, r"const Force::Gravity& Force::Gravity::\s*setGravityVector\(State& state, const Vec3& gravity\) const\s*", "G",
         "const struct GravityImpl* G_setGravityVector(const struct GravityImpl* self, %s state, struct Vec3 gravity)" % S, "self", None),
        ("Force::Gravity::setDownDirection", G_CPP, r"const Force::Gravity& Force::Gravity::\s*setDownDirection\(State& state, const UnitVec3& down\) const\s*", "G",
         "const struct GravityImpl* G_setDownDirection(const struct GravityImpl* self, %s state, struct UnitVec3 down)" % S, "self", None),
        ("Force::Gravity::setMagnitude", G_CPP, r"const Force::Gravity& Force::Gravity::\s*setMagnitude\(State& state, Real g\) const\s*", "G",
         "const struct GravityImpl* G_setMagnitude(const struct GravityImpl* self, %s state, Real g)" % S, "self", None),
        ("Force::Gravity::setZeroHeight", G_CPP, r"const Force::Gravity& Force::Gravity::\s*setZeroHeight\(State& state, Real zeroHeight\) const\s*", "G",
         "const struct GravityImpl* G_setZeroHeight(const struct GravityImpl* self, %s state, Real zeroHeight)" % S, "self", None),
    ]


def cut_parameters_ctor(ctx):
    """Parameters(defDirection, defMagnitude, defZeroHeight, defMobodIsImmune) : member-init list -> assignments."""
    c = cut_function(G_CPP, r"Parameters\(const UnitVec3& defDirection,\s*Real defMagnitude, Real defZeroHeight,\s*const Array_<bool,MobilizedBodyIndex>& defMobodIsImmune\)\s*",
                     "GravityImpl::Parameters::Parameters(4 args)", expect_total=1)
    head = strip_comments(c.header)
    k = head.find(")")
    init = head[k + 1:].strip()
    if not init.startswith(":"):
        raise ExtractionError("Parameters ctor: no member-init list")
    if strip_comments(c.body).strip():
        raise ExtractionError("Parameters ctor: body is not empty")
    items = split_args(init[1:])
    out, log = [], []
    for it in items:
        m = re.fullmatch(r"(\w+)\((\w+)\)", it.strip())
        if not m:
            raise ExtractionError("Parameters ctor: initializer %r not of the form member(arg)" % it)
        mem, arg = m.group(1), m.group(2)
        if mem == "mobodIsImmune":
            out.append("BoolArray_copy_construct(&self->%s, %s);" % (mem, arg))
        elif mem in ("d", "g", "z"):
            out.append("self->%s = %s;" % (mem, arg))
        else:
            raise ExtractionError("Parameters ctor: unknown member %s" % mem)
        log.append(dict(rule="member-init list -> assignment", pattern=it.strip(), replacement=out[-1], hits=1))
    ctx.add_function(G_CPP, c.name, c.start, c.end, c.text, "M2 (member-init list -> assignments; Array_ copy construction by contracted stub)", [], log)
    return ("void Parameters_ctor(struct Parameters* self, struct UnitVec3 defDirection, Real defMagnitude, Real defZeroHeight, const struct BoolArray* defMobodIsImmune)\n{\n  "
            + "\n  ".join(out) + "\n}\n")


# total number of rewrite hits per function on the pinned tree (rules are pure rewrites; see the deviation policy in tools/README.md)
PINNED_HITS = {
    "ForceCache::allocate": 4,
    "ForceCache::setToZero": 3,
    "ForceCache::setToNaN": 6,
    "GravityImpl::getParameters": 1,
    "GravityImpl::updParameters": 1,
    "GravityImpl::getForceCache": 1,
    "GravityImpl::updForceCache": 1,
    "GravityImpl::isForceCacheValid": 1,
    "GravityImpl::markForceCacheValid": 1,
    "GravityImpl::invalidateForceCache": 1,
    "GravityImpl::setMobodIsImmune": 5,
    "GravityImpl::getMobodIsImmune": 4,
    "Force::Gravity::getBodyIsExcluded": 1,
    "Force::Gravity::getDownDirection": 2,
    "Force::Gravity::getMagnitude": 2,
    "Force::Gravity::getZeroHeight": 2,
    "Force::GravityImpl::ensureForceCacheValid": 32,
    "Force::GravityImpl::realizeTopology": 25,
    "Force::GravityImpl::calcForce": 4,
    "Force::GravityImpl::calcPotentialEnergy": 4,
    "Force::Gravity::getPotentialEnergy": 3,
    "Force::Gravity::getBodyForces": 4,
    "Force::Gravity::getBodyForce": 2,
    "Force::Gravity::setBodyIsExcluded": 14,
    "Force::Gravity::setGravityVector": 16,
    "Force::Gravity::setDownDirection": 8,
    "Force::Gravity::setMagnitude": 9,
    "Force::Gravity::setZeroHeight": 5,
}

LOOP_MACROS = r'''
/* loop contracts (spliced between the loop header and its body by the generator) */
#define ENSURE_LOOP_CONTRACT \
__CPROVER_assigns(mbx, fc->pe, __CPROVER_object_whole(fc->F_GB.data)) \
__CPROVER_loop_invariant(1 <= mbx && mbx <= nb && SV_IS_ZERO(fc->F_GB.data[0]) \
  && (p->mobodIsImmune.data[gj] ==> SV_IS_ZERO(fc->F_GB.data[gj])) \
  && ((1 <= gj && gj < mbx && !p->mobodIsImmune.data[gj]) ==> SV_IS_GRAV(fc->F_GB.data[gj], gj, p->g, p->d)) \
  && fc->pe.kind == PE_SUM && fc->pe.cj == ((1 <= gj && gj < mbx && !p->mobodIsImmune.data[gj]) ? 1 : 0) \
  && (fc->pe.cj == 1 ==> (SAME(fc->pe.g, p->g) && DIR_SAME(fc->pe.d, p->d) && SAME(fc->pe.z, p->z)))) \
__CPROVER_decreases(nb - mbx)
#define TOPO_LOOP_CONTRACT \
__CPROVER_assigns(mbx, __CPROVER_object_whole(fc->F_GB.data)) \
__CPROVER_loop_invariant(1 <= mbx && mbx <= nb && SV_IS_ZERO(fc->F_GB.data[0]) \
  && ((1 <= gj && gj < mbx && g_defimm) ==> SV_IS_ZERO(fc->F_GB.data[gj]))) \
__CPROVER_decreases(nb - mbx)
'''


def build_unit(ctx):
    import part_c38_cache as PC
    sc, stages = PC.read_stages()
    ctx.add_function(STAGE_H, "Stage::Level (enum values)", sc.start, sc.end, sc.text, "M2 (scope flattening Stage::X -> Stage_X)")
    stage_h = os.path.join(ctx.out, "gravity_stage_enum.h")
    open(stage_h, "w").write("/* generated from %s */\nenum { %s };\n" % (STAGE_H, ", ".join("Stage_%s = %d" % kv for kv in sorted(stages.items(), key=lambda x: x[1]))))
    # SimbodyMatterSubsystemRep::getNumParticles(): its body decides whether the particle part is reachable
    npc = cut_function(REP_H, r"int getNumParticles\(\)\s*const\s*", "SimbodyMatterSubsystemRep::getNumParticles", expect_total=1)
    ctx.add_function(REP_H, npc.name, npc.start, npc.end, npc.text, "M2 (verbatim body)")
    parts = ['#define STAGE_ENUM_H "%s"' % stage_h,
             "#define MATTER_NUM_PARTICLES_BODY {%s}" % " ".join(strip_comments(npc.body).split()),
             '#include "%s/gravity_pre.h"' % SPEC, LOOP_MACROS, cut_parameters_ctor(ctx)]
    for name, path, anchor, kind, sig, ret, loopc in functions():
        c = cut_function(path, anchor, name, expect_total=1)
        r = Rewriter(c.body, name)
        nthrow = errchk_to_throw(r, ret)
        if name.endswith("ensureForceCacheValid"):
            slice_body_loop(r)
        if name.endswith("calcForce"):
            r.drop("particle part (particleForces += fc.f_GP)", r"\bparticleForces\s*\+=\s*fc\.f_GP\s*;", count=1)
        common(r, kind)
        if loopc:
            nloops = len(re.findall(r"\bfor\s*\(", blank_comments(r.text)))
            if nloops < 1:
                raise ExtractionError("%s: the loop over the bodies was not found" % name)
            r.splice_loop("loop-contract:%s#loop1" % name, r"\bfor\s*\(", loopc, 1)
            left = re.findall(r"\b(for|while|do)\b", blank_comments(r.text))
            if name.endswith("ensureForceCacheValid"):
                # the particle loop sits in the unreachable block that was replaced by an assertion
                if len(left) != 1:
                    raise ExtractionError("%s: expected exactly one loop after slicing, found %d" % (name, len(left)))
            elif len(left) != 1:
                raise ExtractionError("%s: expected exactly one loop, found %d" % (name, len(left)))
        hits = sum(x.get("hits", 0) for x in r.log if "deviation" not in x)
        if PINNED_HITS.get(name) is not None and hits != PINNED_HITS[name]:
            # deviation policy (tools/README.md): pure rewrites fire as often as the text needs; a count that differs from the pinned
            # tree's is logged and the extraction continues (the contract decides); unrewritable text fails to compile (UNDECIDED)
            r.log.append(dict(rule="total rewrite hits of the function", pattern="*", hits=hits,
                              deviation="%d rewrite hits, %d on the pinned tree (tree differs from the pinned one)" % (hits, PINNED_HITS[name])))
        ctx.add_function(path, name, c.start, c.end, c.text, "M2", r.dropped, r.log)
        parts.append("/* %s  (%s:%d-%d) */\n%s\n{%s}\n" % (name, os.path.relpath(path, REPO), c.start, c.end, sig, r.text))
    parts.append('#include "%s/gravity_harness.h"' % SPEC)
    path = os.path.join(ctx.out, "gravity_unit.c")
    open(path, "w").write("\n".join(parts))
    return path


ARGS = ["--bounds-check", "--pointer-check", "--signed-overflow-check", "--object-bits", "10"]
STUBS_ = ["vf_pe_sub_term", "BoolArray_resize", "BoolArray_copy_construct", "SVArray_resize", "SVArray_setToZero", "SVArray_setToNaN", "SVArray_plusEq"]
SETTERS = ["G_setBodyIsExcluded", "G_setMagnitude", "G_setZeroHeight", "G_setDownDirection", "G_setGravityVector"]
CEX_VARS = ("gj", "m", "b", "g", "z", "d", "v", "nb", "np", "ghost_threw", "g_norm", "g_unit", "g_defimm", "g_w2", "g_x2", "g_dn2", "g_mb2", "g_ex2", "g_g1")


def units(unit_c, tier="quick"):
    """(unit name, harness, enforced function, replaced contracts, loop contracts?, required property regexes, cc args, real function)"""
    U = []
    def u(name, h, enf, repl, loops=False, req=(), cc=(), fn=None, minob=5):
        U.append(dict(name="gravity." + name, h=h, enf=enf, repl=STUBS_ + list(repl), loops=loops, req=list(req) or [r"postcondition\.1$"], cc=list(cc), fn=fn or enf, minob=minob))
    u("ForceCache.setToZero", "h_FC_setToZero", "FC_setToZero", [], req=[r"postcondition\.2$"], fn="ForceCache::setToZero")
    u("ForceCache.setToNaN", "h_FC_setToNaN", "FC_setToNaN", [], req=[r"postcondition\.3$"], fn="ForceCache::setToNaN")
    u("ForceCache.allocate", "h_FC_allocate", "FC_allocate", ["FC_setToZero", "FC_setToNaN"], req=[r"postcondition\.4$"], fn="ForceCache::allocate")
    u("Parameters.ctor", "h_Parameters_ctor", "Parameters_ctor", [], req=[r"postcondition\.3$"], fn="GravityImpl::Parameters::Parameters")
    u("setMobodIsImmune", "h_setMobodIsImmune", "GI_setMobodIsImmune", [], req=[r"postcondition\.4$"], fn="GravityImpl::setMobodIsImmune")
    u("realizeTopology", "h_realizeTopology", "GI_realizeTopology", ["FC_allocate", "Parameters_ctor"], loops=True,
      req=[r"postcondition\.9$", r"loop_invariant_base", r"loop_invariant_step"], fn="Force::GravityImpl::realizeTopology")
    u("ensureForceCacheValid", "h_ensureForceCacheValid", "GI_ensureForceCacheValid", [], loops=True,
      req=[r"postcondition\.11$", r"loop_invariant_base", r"loop_invariant_step", r"decreases"], fn="Force::GravityImpl::ensureForceCacheValid")
    E = ["GI_ensureForceCacheValid"]
    u("getBodyForces", "h_getBodyForces", "G_getBodyForces", E, req=[r"postcondition\.7$"], fn="Force::Gravity::getBodyForces")
    u("getBodyForce", "h_getBodyForce", "G_getBodyForce", ["G_getBodyForces"], req=[r"postcondition\.7$"], fn="Force::Gravity::getBodyForce")
    u("getPotentialEnergy", "h_getPotentialEnergy", "G_getPotentialEnergy", E, req=[r"postcondition\.6$"], fn="Force::Gravity::getPotentialEnergy")
    u("calcForce", "h_calcForce", "GI_calcForce", E, req=[r"postcondition\.6$"], fn="Force::GravityImpl::calcForce")
    u("calcPotentialEnergy", "h_calcPotentialEnergy", "GI_calcPotentialEnergy", E, req=[r"postcondition\.6$"], fn="Force::GravityImpl::calcPotentialEnergy")
    u("setBodyIsExcluded", "h_setBodyIsExcluded", "G_setBodyIsExcluded", ["GI_setMobodIsImmune"], req=[r"postcondition\.13$"], fn="Force::Gravity::setBodyIsExcluded")
    u("setBodyIsExcluded.ground", "h_setBodyIsExcluded", "G_setBodyIsExcluded", ["GI_setMobodIsImmune"], req=[r"postcondition\.13$"], cc=["-DGROUND_CASE"], fn="Force::Gravity::setBodyIsExcluded")
    u("setMagnitude", "h_setMagnitude", "G_setMagnitude", ["FC_setToZero"], req=[r"postcondition\.13$"], fn="Force::Gravity::setMagnitude")
    u("setZeroHeight", "h_setZeroHeight", "G_setZeroHeight", [], req=[r"postcondition\.12$"], fn="Force::Gravity::setZeroHeight")
    u("setDownDirection", "h_setDownDirection", "G_setDownDirection", [], req=[r"postcondition\.13$"], fn="Force::Gravity::setDownDirection")
    u("setGravityVector", "h_setGravityVector", "G_setGravityVector", ["FC_setToZero"], req=[r"postcondition\.13$"], fn="Force::Gravity::setGravityVector")
    A = SETTERS + ["G_getBodyForce", "G_getPotentialEnergy"]
    u("lemma.exclude_zero_reinclude", "h_L1", "L_exclude_zero_reinclude", A, req=[r"postcondition\.2$"], fn="composition: setBodyIsExcluded(j,true); setMagnitude(0); setBodyIsExcluded(j,false); getBodyForce(j)")
    if tier == "thorough":
      u("lemma.zero_exclude_restore_include", "h_L2", "L_zero_exclude_restore_include", A, req=[r"postcondition\.2$"], fn="composition: setMagnitude(0); exclude j; setMagnitude(g1); include j; getBodyForce(j)")
    u("lemma.any_setter_then_get", "h_L3", "L_any_setter_then_get", A, req=[r"postcondition\.8$"], fn="composition: any State-based setter; getPotentialEnergy; getBodyForce(j)")
    return U


def run(ctx, workers=4):
    try:
        unit_c = build_unit(ctx)
    except ExtractionError as e:
        ctx.undecide("extraction (gravity caching): %s" % e)
        return None
    jobs = []
    heavy = ["realizeTopology", "lemma.any_setter_then_get", "ForceCache.allocate", "ensureForceCacheValid", "lemma.exclude_zero_reinclude", "lemma.zero_exclude_restore_include", "getBodyForces"]
    rank = lambda d: heavy.index(d["name"][len("gravity."):]) if d["name"][len("gravity."):] in heavy else len(heavy)
    for d in sorted(units(unit_c, ctx.tier), key=rank):      # longest first: better packing on the 4 workers
        jobs.append(lambda d=d: cbmc_unit(ctx, d["name"], [unit_c], d["h"], enforce=d["enf"], replace=d["repl"], loop_contracts=d["loops"],
                                          cbmc_args=ARGS, cc_args=d["cc"], require_props=d["req"], min_obligations=d["minob"],
                                          function=d["fn"], timeout=300, cex_vars=CEX_VARS))
    jobs.append(lambda: cover_unit(ctx, "gravity.cover", [unit_c], "h_cover", cc_args=["-DCOVER_ONLY"], expect_min=9, function="INV / contract preconditions"))
    t0 = time.time()
    parallel(jobs, workers=workers)
    ctx.extra["gravity_part"] = dict(units=len(jobs), wall_s=round(time.time() - t0, 1), workers=workers)
    ctx.assume("Gravity caching unit: the floating-point VALUE of a body force / of the potential energy is abstracted by a tagged value "
               "{ZERO | NAN | GRAVITY(body, g, d)} resp. a tagged sum recording emptiness and the ghost body's term with its (g, d, z); the per-body float computation "
               "of ensureForceCacheValid (mass properties, pose, m*gravity, moment, PE term) is dropped after checking that it reads nothing but mbx, gravity, state")
    ctx.assume("State API model (specs/C38gravity/gravity_pre.h, cf. C18): one discrete variable and one lazy cache entry; isCacheValueRealized == stage >= dependsOn && marked; "
               "updDiscreteVariable invalidates the variable's stage and later stages only, so the Dynamics-stage Parameters variable does NOT invalidate the Position-stage cache entry; "
               "updCacheEntry never changes validity; getCacheEntry of an invalid entry throws (obligation)")
    ctx.assume("Gravity caching unit: changes of Position-stage variables (q) invalidate the lazy entry automatically (State layer, C18); the unit follows parameter changes only")
    ctx.assume("container contracts (cf. C26): Array_<bool>::resize(n,false)/copy construction, Vector_<SpatialVec>::resize/setToZero/setToNaN/operator+= stated for the ghost element and element 0; "
               "element access index-in-range is an obligation; Vec<3>::operator!= is !(all elements ==); Vec3::norm() is >= 0 or NaN; UnitVec3(v/|v|) is some vector")
    ctx.assume("PIMPL handle Force::Gravity and Force::GravityImpl flattened into one object (getImpl() is the identity); const/mutable qualifiers dropped; "
               "exceptions (SimTK_ERRCHK*_ALWAYS, SimTK_STAGECHECK_GE_ALWAYS) modelled by a ghost flag and an immediate return; the number of bodies is between 1 and 2^20; "
               "numEvaluations < 10^12; fewer than 1000 earlier allocations in the State")
    ctx.assume("SimbodyMatterSubsystem::getNumParticles() forwards to SimbodyMatterSubsystemRep::getNumParticles() (cut: returns 0), so the particle part (f_GP) is dropped / asserted unreachable")
    ctx.trust("rewrite rules and the body-loop slicer in checks/part_c38_gravity.py (every rule, hit and dropped text is listed per function in extraction_report.json)")
    ctx.not_decided += ["Gravity caching unit: the force formula m*g*d, the moment p_CB_G % F and the PE sum themselves (covered on the transliteration by the c38 `forcelaw` units "
                        "'Gravity (immune=..., g!=0/g==0)' of checks/c38.py via forcelib.py, over the reals, for a 3-body world)",
                        "Gravity: topology-time setters (setDefault*), which invalidate the topology cache; copying a State (cache entries are cloned; C18); particles",
                        "Gravity: getGravityVector/getNumEvaluations/isForceCacheValid/invalidateForceCache public wrappers (one-line forwards, not cut)"]
    return lambda ob: replay(ctx, ob)


# ----------------------------------------------------------------------
_exe = {}


def replay(ctx, ob):
    if not ob.unit.startswith("gravity."):
        return {}, None
    if "exe" not in _exe:
        _exe["exe"] = native_build(ctx, "c38_gravity_replay", os.path.join(VERIF, "replay/c38_gravity_replay.cpp"), libs=True,
                                   extra_srcs=[os.path.join(SRC, "Force.cpp"), G_CPP], extra_inc=[SRC])
    # the Ground unit is replayed by the Ground scenario only; every other unit by the scenarios that never touch Ground's flag
    mode = "ground" if ob.unit == "gravity.setBodyIsExcluded.ground" else "main"
    rc, o, e, t = vlib.run([_exe["exe"], str(ctx.seed), mode], 120)
    rep = re.search(r"^REPRODUCED:", o, re.M) is not None
    lines = [l for l in o.splitlines() if l.startswith("MISMATCH") or l.startswith("REPRODUCED") or l.startswith("NOT-REPRODUCED") or l.startswith("exception")]
    wc = "ground-force-NaN-after-setBodyIsExcluded(Ground,false)" if mode == "ground" else "stale-or-NaN-gravity-cache-after-parameter-change"
    return dict(cmd="c38_gravity_replay %d %s (real Force::Gravity: State-based setter sequences vs the documented m*g*d / 0 values and vs a fresh state)" % (ctx.seed, mode),
                output="\n".join(l[:600] for l in lines[:8]), witness_class=wc), rep
