"""C12 - Force elements' power matches their potential energy (simple built-in elements).
Back end B (route M3): power delivered by the transliterated calcForce on a symbolic moving world
is compared with the time derivative (dual numbers) of the transliterated calcPotentialEnergy."""
import os, re, json, z3
from vlib import *
from extract import *
import symlib as S
from symlib import *
import forcelib as FL

PID = "C12"
META = dict(
    category="proof",
    text=("For TwoPointLinearSpring, MobilityLinearSpring, MobilityLinearStop, UniformGravity and Gravity: power delivered (sum of spatial force . spatial velocity and "
          "mobility force * speed) equals minus d/dt of the reported potential energy plus a dissipation term proved <= 0 and == 0 without damping; for the dampers "
          "(TwoPointLinearDamper, MobilityLinearDamper) PE is 0 and power <= 0. All real states and parameters (k,c,d >= 0); the time derivative of PE is obtained by running "
          "the real calcPotentialEnergy on dual numbers along an arbitrary rigid motion. Force::LinearBushing (agent-built part_bushing): power of the applied body forces == f . qdot == "
          "-(d/dt PE) - sum c_i qdot_i^2 with PE = 1/2 sum k_i q_i^2, the code's qdot proved to be the true d/dt of its q (x-y-z angles of R_FM, p_FM in F), away from cos(q1)=0. "
          "ElasticFoundationForce (part_c12_ef): ONE foundation spring of the real processContact, mesh on an arbitrarily moving body against a Ground-fixed half-space "
          "(assumed geometry contract), every branch: power + d/dt PE == 0 without damping and friction, reported PE == k (areaScale A) depth^2/2, and the dissipation term <= 0 on the "
          "friction-free branches (sign with friction active not decided). Other contact elements, cable spring are not covered."),
    note="Assumes real arithmetic, the mocked matter API contracts (listed), qdot==u for the mobility elements; trusts z3/cvc5, transliterator rules, symlib shim.",
    technique="symbolic execution of transliterated real code on dual numbers over the reals + SMT (z3 QF_NRA)",
    design_ref="4 C12/C13")


def plain(x): return S.vmap(lambda e: D(val(e)), x)


def main(ctx):
    ctx.level = "proof"
    try:
        B, C = FL.build(ctx, want=("springs", "mobility", "gravity"))
    except ExtractionError as e:
        ctx.undecide("extraction: %s" % e)
        return ctx.finish()
    W = FL.World(3, rot="free"); side = list(W.side); st = object(); U = "power"
    b1, b2 = W.bodies[1], W.bodies[2]
    s1 = Vec(*[z3.Real("s1_%d" % i) for i in range(3)]); s2 = Vec(*[z3.Real("s2_%d" % i) for i in range(3)])
    # ---- TwoPointLinearSpring (both bodies moving, and one end on Ground) ----
    for (ba, bb, tag) in ((1, 2, "two moving bodies"), (0, 2, "one end on Ground")):
        S.reset_env()
        k, x0 = z3.Reals("k x0")
        e = C["TwoPointLinearSpring"](); e.matter, e.body1, e.body2, e.station1, e.station2, e.k, e.x0 = W, ba, bb, s1, s2, D(k), D(x0)
        bf, pf, mf = W.fresh_forces(); e.calcForce(st, bf, pf, mf)
        pe = e.calcPotentialEnergy(st)
        d = [c for c in S.ENV.side]
        # distance > 0 (the element documents coincident points as an error)
        roots = [v for v in S._TRIG.values() if len(v) == 2 and v[1] is S.ENV]
        sd = side + list(S.ENV.side) + [r_[0] > 0 for r_ in roots]
        B.prove_eq("TwoPointLinearSpring (%s): power == -d/dt PE" % tag, W.power(bf, mf), -der(pe), sd, U, "TwoPointLinearSpring", timeout_ms=60000)
    # ---- TwoPointLinearDamper: PE 0, power <= 0 ----
    S.reset_env()
    c = z3.Real("c")
    e = C["TwoPointLinearDamper"](); e.matter, e.body1, e.body2, e.station1, e.station2, e.damping = W, 1, 2, s1, s2, D(c)
    bf, pf, mf = W.fresh_forces(); e.calcForce(st, bf, pf, mf)
    roots = [v for v in S._TRIG.values() if len(v) == 2 and v[1] is S.ENV]
    sd = side + list(S.ENV.side) + [r_[0] > 0 for r_ in roots]
    P = W.power(bf, mf)
    B.prove_bool("TwoPointLinearDamper: power <= 0 for c >= 0 (pure dissipation, PE == 0)", P <= 0, sd + [c >= 0], U, "TwoPointLinearDamper", timeout_ms=60000)
    B.prove_eq("TwoPointLinearDamper: power == 0 when c == 0", P, 0, sd + [c == 0], U, "TwoPointLinearDamper", timeout_ms=60000)
    # ---- mobility spring / damper / stop ----
    S.reset_env()
    kq, q0, cq = z3.Reals("kq q0 cq")
    class Pair: pass
    e = C["MobilityLinearSpring"](); e.m_matter, e.m_mobodIx, e.m_whichQ = W, 1, 0
    pr = Pair(); pr.first, pr.second = D(kq), D(q0); e.getParams = lambda s_: pr
    bf, pf, mf = W.fresh_forces(); e.calcForce(st, bf, pf, mf)
    B.prove_eq("MobilityLinearSpring: power == -d/dt PE", W.power(bf, mf), -der(e.calcPotentialEnergy(st)), [], U, "MobilityLinearSpring")
    e = C["MobilityLinearDamper"](); e.m_matter, e.m_mobodIx, e.m_whichU = W, 1, 0; e.getDamping = lambda s_: D(cq)
    bf, pf, mf = W.fresh_forces(); e.calcForce(st, bf, pf, mf)
    B.prove_bool("MobilityLinearDamper: power <= 0 for c >= 0", W.power(bf, mf) <= 0, [cq >= 0], U, "MobilityLinearDamper")
    ks, ds, qlo, qhi = z3.Reals("ks ds qlo qhi")
    class Par: pass
    par = Par(); par.k, par.d, par.qLow, par.qHigh = D(ks), D(ds), D(qlo), D(qhi)
    e = C["MobilityLinearStop"](); e.m_matter, e.m_mobodIx, e.m_whichQ = W, 1, 0; e.getParameters = lambda s_: par
    base = [qlo <= qhi, ks >= 0, ds >= 0]
    def runboth():
        bf, pf, mf = W.fresh_forces(); e.calcForce(st, bf, pf, mf)
        return W.power(bf, mf), e.calcPotentialEnergy(st)
    seen = set(); n = 0
    for path, script, (P, pe) in B.run_paths(runboth, 7):
        key = tuple(str(x) for x in path)
        if key in seen: continue
        seen.add(key)
        cond = base + path
        s_ = z3.Solver(); s_.add(*cond)
        if s_.check() != z3.sat: continue
        n += 1
        diss = P + der(D.lift(pe))
        B.prove_bool("MobilityLinearStop path %d: dissipation term (power + d/dt PE) <= 0" % n, diss <= 0, cond, U, "MobilityLinearStop")
        B.prove_bool("MobilityLinearStop path %d: dissipation term == 0 when d == 0" % n, diss == 0, cond + [ds == 0], U, "MobilityLinearStop")
    if n < 3:
        ctx.undecide("MobilityLinearStop: only %d feasible paths" % n)
    # ---- gravity ----
    S.reset_env()
    g = Vec(*[z3.Real("g%d" % i) for i in range(3)]); zh = z3.Real("zh")
    e = C["UniformGravity"](); e.matter, e.g, e.zeroHeight = W, g, D(zh)
    bf, pf, mf = W.fresh_forces(); e.calcForce(st, bf, pf, mf)
    B.prove_eq("UniformGravity: power == -d/dt PE", W.power(bf, mf), -der(e.calcPotentialEnergy(st)), side, U, "UniformGravity", timeout_ms=60000)
    for immune in ([False, False, False], [False, True, False]):
        gm, zz = z3.Reals("gm zz"); dv = Vec(*[z3.Real("d%d" % i) for i in range(3)])
        class P_: pass
        p_ = P_(); p_.g, p_.d, p_.z, p_.mobodIsImmune = D(gm), dv, D(zz), immune
        class FC: pass
        fc = FC(); fc.pe = D(0); fc.F_GB = [S.SpatialVec(Vec(0, 0, 0), Vec(0, 0, 0)) for _ in W.bodies]; fc.f_GP = []
        e = C["Gravity"](); e.matter, e.numEvaluations = W, 0
        e.isForceCacheValid = lambda s_: False; e.getParameters = lambda s_: p_; e.markForceCacheValid = lambda s_: None; e.updForceCache = lambda s_: fc
        for path, script, _ in B.run_paths(lambda: e.ensureForceCacheValid(st), 1):
            cond = side + path
            s_ = z3.Solver(); s_.add(*cond)
            if s_.check() != z3.sat: continue
            B.prove_eq("Gravity (immune=%s): power == -d/dt PE" % "".join("1" if x else "0" for x in immune), W.power(fc.F_GB, FL.MobForces()), -der(D.lift(fc.pe)), cond, U, "Gravity", timeout_ms=60000)
            fc.pe = D(0); fc.F_GB = [S.SpatialVec(Vec(0, 0, 0), Vec(0, 0, 0)) for _ in W.bodies]
    s_ = z3.Solver(); s_.add(*side)
    ctx.add(Obligation("guard:world side conditions satisfiable", "guards", "z3", "discharged" if s_.check() == z3.sat else "undecided", 0, "reachability guard"))
    ctx.checker_cmds.append("z3 (python API, QF_NRA); SMT-LIB files in out/C12/smt2")
    ctx.trust("z3 4.x / cvc5 1.0 (QF_NRA)"); ctx.trust("tools/translit.py rule table (logged) and tools/symlib.py shim (dual numbers)")
    ctx.assume("machine arithmetic treated as mathematical (reals)")
    for a in FL.world_assumptions(): ctx.assume(a)
    ctx.assume("body orientations enter as arbitrary 3x3 matrices (superset of rotations): the power identities proved do not need orthonormality")
    ctx.assume("constant-force elements (TwoPointConstantForce, ConstantForce, ConstantTorque, MobilityConstantForce) and GlobalDamper are documented as not contributing potential energy and are outside the property's antecedent; they are not checked here")
    import part_c12_ef
    part_c12_ef.run(ctx)          # one ElasticFoundation spring against a Ground-fixed half-space (added after seed C12-m2 was missed)
    import part_bushing
    part_bushing.c12_part(ctx)
    ctx.not_decided += ["HuntCrossleyForce, CompliantContactSubsystem, ExponentialSpringForce, CableSpring", "GlobalDamper (power = -c|u|^2 needs the whole u vector; trivial but not built)"]
    ctx.explanation = "%d functions under contract; %d obligations." % (len(ctx.functions), len(ctx.obligations))
    return ctx.finish(replayer=lambda ob: part_bushing.replay(ctx, ob) if (ob.unit or "").startswith("bushing.") else
                      (part_c12_ef.replay(ctx, ob) if (ob.unit or "").startswith("elasticfoundation.") else replay(ctx, ob)))


_EXE = {}


def replay(ctx, ob):
    if "exe" not in _EXE:
        src = os.path.join(REPO, "Simbody/src")
        _EXE["exe"] = native_build(ctx, "c38_replay", os.path.join(VERIF, "replay/c38_replay.cpp"), libs=True,
                                   extra_srcs=[os.path.join(src, "Force.cpp"), os.path.join(src, "Force_Gravity.cpp")], extra_inc=[src])
    rc, o, e, t = run([_EXE["exe"], str(ctx.seed)], 300)
    return dict(cmd="c38_replay %d (real elements: documented laws, power vs finite-difference dPE/dt, action/reaction)" % ctx.seed, output=o[-3000:]), "REPRODUCED:" in o
