"""C07 - Constraint errors form a derivative hierarchy with adjoint forces (PARTIAL: per-constraint kernel).
Back end B (route M3): the error / force virtuals of the built-in constraints and the inline helper members of
ConstraintImpl they call are transliterated from /repo on every run and executed on symbolic kinematics of the
constrained bodies in the Ancestor frame (dual numbers for d/dt); obligations go to z3 (QF_NRA)."""
import os, re, json, time, z3
from vlib import *
from extract import *
import symlib as S
from symlib import *
import _help_c07 as H
from _help_c07 import Kin, State, Pair, Bag, XF, RM, SV, v3, plain, zero_forces

PID = "C07"
META = dict(
    category="other",
    text=("PARTIAL, per-constraint kernel. For PointInPlane, PointOnLine, Rod (non-singular branch), ConstantAngle, ConstantOrientation, Ball, Weld, NoSlip1D, "
          "ConstantCoordinate, ConstantSpeed, ConstantAcceleration, CoordinateCoupler, SpeedCoupler, PrescribedMotion: the real position/velocity/acceleration error "
          "virtuals and addIn*ConstraintForces*, together with the real inline ConstraintImpl helpers they call (findStation*, addInStation*Force, addInBodyTorque, "
          "getBody* from arrays, getOne*/addInOne*Force), are executed on arbitrary poses, velocities and accelerations of the constrained bodies in the Ancestor "
          "frame. Proved for ALL real inputs (z3, QF_NRA): (1) pverr == d/dt perr and (2) aerr == d/dt verr along any rigid motion, errors possibly violated "
          "(dual numbers; units strict.<Constraint>) - these two clauses FAIL for Ball, Weld (translation rows) and NoSlip1D (open known findings F12/F13), for which "
          "the exact relation the code satisfies, its residual term and the strict equality on the constraint manifold are proved instead; (3) the body/mobility "
          "forces for multipliers lambda have power + lambda . (velocity error at V) for EVERY spatial velocity V, i.e. they are exactly G^T lambda for the G "
          "defined by the velocity error, and two-/three-body constraint forces sum to zero force and zero moment about the Ancestor origin; (4) perr (verr, aerr) "
          "is the documented quantity and vanishes exactly on the documented manifold. NOT decided: the tree-level propagation through SimbodyMatterSubsystem "
          "(body kinematics from q,u; Ancestor re-expression; constrained-body/mobility packing), the multiplier solve, the constraint Jacobian operators "
          "(calcG / multiplyByG / multiplyByGTranspose / calcPq), Pq == d perr/dq, the contact constraints, user Custom constraints, Rod's singular branch."),
    note=("Assumes real arithmetic, the state cache returning the operand kinematics, parameter accessors, and for the Function-based constraints that "
          "Function::calcDerivative is the derivative of calcValue (C41); trusts z3/cvc5, transliterator rules (logged), symlib shim + the local shim in "
          "checks/_help_c07.py. Open known findings F12 (Ball/Weld) and F13 (NoSlip1D): strict derivative clauses fail off the manifold, reproduced natively."),
    technique="symbolic execution of transliterated real code on dual numbers over the reals + SMT (z3 QF_NRA), lemma chains",
    design_ref="2.3 route M3 (C07 added after the design; per-constraint kernel only)")

T = 30000
ONLY = os.environ.get("VERIF_ONLY")


def want(name):
    return not ONLY or re.search(ONLY, name)


_LEMMA_DONE = set()


def sides(bodies):
    out = []
    for b in bodies:
        out += b.side
    return out


def inverse_lemmas(B, bodies):
    """lemma chain, step 0: for every body whose inverse transform the code applies, R (~R y) == y along the motion (value and d/dt
    parts; y an OPAQUE moving vector; |q| == 1). checks/_help_c07.RM.__mul__ folds R * (~R * y) back to y on the strength of this."""
    for b in bodies:
        if b.rot != "quat" or b.name in _LEMMA_DONE:
            continue
        _LEMMA_DONE.add(b.name)
        y = Vec(*[D(z3.Real("g_y%d" % i), z3.Real("g_yd%d" % i)) for i in range(3)])
        R1 = b.X1.R()
        lhs = S.Mat.__mul__(R1, S.Mat.__mul__(~R1, y))
        peq(B, "lemma (body %s): R_AB (~R_AB y) == y for every vector y, R_AB = R(q), |q| == 1" % b.name, plain(lhs), plain(y), b.side, "lemma.rotation", "Rotation/InverseRotation algebra (C27)", minimal=True)
        peq(B, "lemma (body %s): d/dt [R_AB (~R_AB y)] == d/dt y along d/dt R_AB = [w_AB]x R_AB" % b.name, H.dpart(lhs), H.dpart(y), b.side, "lemma.rotation", "Rotation/InverseRotation algebra (C27)", minimal=True)


def run_err(fn, st, arr, m, gen=()):
    out = [None] * m
    fn(st, arr, list(gen), out)
    return out


def peq(B, name, lhs, rhs, side, unit, function=None, timeout_ms=T, minimal=False):
    """B.prove_eq with a cheap first attempt: many goals here are polynomial IDENTITIES once the code has been executed, so they are
    first tried with NO hypotheses (a goal proved from fewer hypotheses is proved); only a `discharged` answer of that attempt is
    accepted, anything else (a counter-model without the hypotheses means nothing) falls through to the full hypothesis set."""
    full = list(side) if minimal else B._with_env(side)
    second = B.ctx.tier == "thorough" and len(B.ctx.obligations) < 600
    out = []
    for i, g in S.eq_all(lhs, rhs):
        nm = "%s[%d]" % (name, i)
        r = None
        if full:
            r0 = S.prove(g, side=[], timeout_ms=min(4000, timeout_ms), name=nm, outdir=os.path.join(B.ctx.out, "smt2"), second_opinion=second)
            if r0.status == "discharged":
                r = r0
        if r is None:
            r = S.prove(g, side=full, timeout_ms=timeout_ms, name=nm, outdir=os.path.join(B.ctx.out, "smt2"), second_opinion=second)
        B.record(nm, unit, r, function, "identity %s" % name)
        out.append(r)
    return out


class Holo:
    """all evaluations needed for the clauses of one holonomic constraint"""
    def __init__(self, obj, bodies, m, mk_state):
        self.obj, self.bodies, self.m = obj, bodies, m
        st0 = mk_state([b.X0 for b in bodies], [b.V0 for b in bodies])
        st1 = mk_state([b.X1 for b in bodies], [b.V1 for b in bodies])
        self.st0 = st0
        self.perr1 = run_err(obj.perr, st1, [b.X1 for b in bodies], m)
        self.pverr0 = run_err(obj.pverr, st0, [b.V0 for b in bodies], m)
        st1 = mk_state([b.X1 for b in bodies], [b.V1 for b in bodies])
        self.pverr1 = run_err(obj.pverr, st1, [b.V1 for b in bodies], m)
        st0b = mk_state([b.X0 for b in bodies], [b.V0 for b in bodies])
        self.paerr0 = run_err(obj.paerr, st0b, [b.A0 for b in bodies], m)
        self.lam = [z3.Real("lam%d" % i) for i in range(m)]
        self.F = zero_forces(len(bodies))
        st0c = mk_state([b.X0 for b in bodies], [b.V0 for b in bodies])
        obj.pforce(st0c, [D(l) for l in self.lam], self.F, [])
        st0d = mk_state([b.X0 for b in bodies], [b.V0 for b in bodies])
        self.pverrU = run_err(obj.pverr, st0d, [b.U for b in bodies], m)

    def power_goal(self):
        P = H.power(self.F, [b.U for b in self.bodies])
        W = D(0)
        for l, e in zip(self.lam, self.pverrU):
            W = W + D(l) * e
        return P, W


def strict_clauses(B, cname, perr1, pverr0, pverr1, paerr0, side, fn, timeout=T, vel_level=False):
    """the two derivative clauses exactly as the property states them (all states, errors possibly violated), in their own unit
    strict.<Constraint>: they hold for most constraints; for Ball, Weld (translation rows) and NoSlip1D they FAIL today (open known
    findings F12 / F13) and the exact relations the code does satisfy are proved in the ordinary units instead."""
    U = "strict." + cname
    if perr1 is not None:
        peq(B, "verr == d/dt perr (any pose, any velocity; perr possibly violated)", Vec([D(der(e)) for e in perr1]), Vec(pverr0), side, U,
                   fn + "::calcPositionDotErrorsVirtual", timeout_ms=timeout)
    peq(B, "aerr == d/dt verr (any pose, velocity, acceleration; errors possibly violated)", Vec([D(der(e)) for e in pverr1]), Vec(paerr0), side, U,
               fn + ("::calcVelocityDotErrorsVirtual" if vel_level else "::calcPositionDotDotErrorsVirtual"), timeout_ms=timeout)


def std_clauses(B, name, h, side, U, fn, timeout=T):
    strict_clauses(B, U, h.perr1, h.pverr0, h.pverr1, h.paerr0, side, fn, timeout)
    P, W = h.power_goal()
    peq(B, "%s: (3) power of the constraint forces at ANY spatial velocities V == + lambda . pverr(V)  (forces == G^T lambda)" % name,
               P, W, side, U, fn + "::addInPositionConstraintForcesVirtual", timeout_ms=timeout)
    if len(h.bodies) >= 2:
        f, mo = H.net(h.F, [b.X0.p() for b in h.bodies])
        peq(B, "%s: (3) constraint forces sum to zero force" % name, f, Vec(0, 0, 0), side, U, fn + "::addInPositionConstraintForcesVirtual", timeout_ms=timeout)
        peq(B, "%s: (3) constraint forces sum to zero moment about the Ancestor origin" % name, mo, Vec(0, 0, 0), side, U, fn + "::addInPositionConstraintForcesVirtual", timeout_ms=timeout)


def ball_like(B, name, rows, h, off, bB, side, U, fn):
    """Ball and the translation rows of Weld report perr in A but differentiate it in the base body B; the exact relations the
    code satisfies are proved, then the strict clauses of the property on the constraint manifold (by instantiation)."""
    pe1 = Vec(h.perr1[off:off + 3]); ve0 = Vec(h.pverr0[off:off + 3]); ve1 = Vec(h.pverr1[off:off + 3]); ae0 = Vec(h.paerr0[off:off + 3])
    w = bB.w
    peq(B, "%s%s: (1') pverr == d/dt perr - w_AB x perr  (perr is reported in A, differentiated in the base body B; any pose/velocity, perr possibly violated)" % (name, rows),
               ve0, H.dpart(pe1) - cross(w, plain(pe1)), side, U, fn + "::calcPositionDotErrorsVirtual", timeout_ms=T)
    peq(B, "%s%s: (2') paerr == d/dt pverr + w_AB x pverr  (any pose/velocity/acceleration; exact residual of the strict clause)" % (name, rows),
               ae0, H.dpart(ve1) + cross(w, plain(ve1)), side, U, fn + "::calcPositionDotDotErrorsVirtual", timeout_ms=T)
    gv, gd, gp, gw = v3("g_e1"), v3("g_d"), v3("g_e0"), v3("g_w")
    for k, sign, what in ((1, -1, "pverr == d/dt perr whenever perr == 0"), (2, 1, "paerr == d/dt pverr whenever pverr == 0")):
        rel = gd + cross(gw, gp) if sign > 0 else gd - cross(gw, gp)
        hyp = [val(gv[i]) == val(rel[i]) for i in range(3)] + [val(gp[i]) == 0 for i in range(3)]
        peq(B, "%s%s: (%d) %s (on the manifold; instance of (%d') over generalised vectors)" % (name, rows, k, what, k), gv, gd, hyp, U, fn, minimal=True)


def rod(ctx, B, C, tiny):
    U, fn = "Rod", "Constraint::RodImpl"
    S.reset_env()
    bF, bB = Kin("F", "free"), Kin("B", "free")
    pF, pB, d = v3("sF"), v3("sB"), z3.Real("rodlen")
    o = C["Rod"](); o.m_mobod_F, o.m_mobod_B, o.m_posCacheIx, o.m_velCacheIx = 0, 1, 0, 1
    mk = lambda X, V: State(X, V, params=Bag(m_p_FSf=pF, m_p_BSb=pB, m_length=D(d)), pc=Bag(), vc=Bag())
    B.branch_script, B.branch_pos, B.path = [False] * 64, 0, []      # every symbolic branch `r < TinyReal` -> non-singular
    with H.reciprocal_division():
        h = Holo(o, [bF, bB], 1, mk)
    path = list(B.path); B.branch_script, B.branch_pos, B.path = [], 0, []
    if not path:
        ctx.undecide("Rod: the singularity test `r < TinyReal` was not met during symbolic execution (code restructured?)")
    side = [tiny > 0] + path + list(S.ENV.side) + [d_[2] for d_ in S.ENV.defs]
    std_clauses(B, "Rod (non-singular)", h, side, U, fn, timeout=60000)
    # (4) manifold, as a lemma chain: (a) what is under the code's sqrt, (b) perr in terms of the root, (c) the meaning of sqrt over an OPAQUE radicand
    sep = bB.X0 * pB - bF.X0 * pF
    pe = plain(Vec(h.perr1))[0]
    roots = [c for c in S.ENV.side if z3.is_and(c) and c.num_args() == 2 and z3.is_eq(c.arg(1))]
    if len(roots) != 1:
        ctx.undecide("Rod: expected exactly one sqrt side condition, found %d" % len(roots))
    else:
        rv, radicand = roots[0].arg(0).arg(0), roots[0].arg(1).arg(1)
        peq(B, "Rod: (4a) the radicand of the code's sqrt is |p_B - p_F|^2 (stations of B and F located in A)", D(radicand), sep.normSqr(), [], U, fn + "::calcPositionErrorsVirtual", minimal=True)
        peq(B, "Rod: (4b) perr == r - length with r the code's sqrt", pe, D(rv) - D(d), [], U, fn + "::calcPositionErrorsVirtual", minimal=True)
        gr, gE, gd = z3.Reals("g_r g_E g_len")
        sq = [gr >= 0, gr * gr == gE]
        B.prove_bool("Rod: (4c) r >= 0, r^2 == E, r - length == 0  ==>  E == length^2   (E opaque: holds for the radicand of (4a))", gE == gd * gd, sq + [gr - gd == 0], U, fn + "::calcPositionErrorsVirtual", minimal=True)
        B.prove_bool("Rod: (4c) r >= 0, r^2 == E, E == length^2, length >= 0  ==>  r - length == 0   (perr vanishes exactly when the separation equals the rod length)", gr - gd == 0,
                     sq + [gE == gd * gd, gd >= 0], U, fn + "::calcPositionErrorsVirtual", minimal=True)
    s_ = z3.Solver(); s_.set("timeout", int(20000 * S.timeout_scale())); s_.add(*side)
    ctx.add(Obligation("guard:Rod non-singular path conditions satisfiable", "guards", "z3", "discharged" if s_.check() == z3.sat else "undecided", 0, "reachability guard"))
    S.reset_env()


def noslip(ctx, B, C):
    U, fn = "NoSlip1D", "Constraint::NoSlip1DImpl"
    bC, b0, b1 = Kin("C", "free"), Kin("M", "quat"), Kin("N", "quat")
    bodies = [bC, b0, b1]
    P, n = v3("P"), v3("n")
    o = C["NoSlip1D"](); o.caseBody, o.movingBody0, o.movingBody1 = 0, 1, 2
    side = sides(bodies); inverse_lemmas(B, bodies)
    mk = lambda k: State([getattr(b, "X%d" % k) for b in bodies], [getattr(b, "V%d" % k) for b in bodies], contact=Pair(P, n))
    verr0 = run_err(o.verr, mk(0), [b.V0 for b in bodies], 1)
    verr1 = run_err(o.verr, mk(1), [b.V1 for b in bodies], 1)
    vaerr0 = run_err(o.vaerr, mk(0), [b.A0 for b in bodies], 1)
    strict_clauses(B, U, None, None, verr1, vaerr0, side, fn, vel_level=True)
    p_AP, n_A = bC.X0 * P, bC.X0.R() * n
    v_AP = bC.v + cross(bC.w, bC.X0.R() * P)                    # velocity of P as a material point of the case
    vm = [b.v + cross(b.w, p_AP - b.X0.p()) for b in (b0, b1)]     # velocities of the coincident material points of the two moving bodies
    resid = dot(cross(b1.w, v_AP - vm[1]) - cross(b0.w, v_AP - vm[0]), n_A)
    peq(B, "NoSlip1D: (2') d/dt verr == vaerr + [w1 x (v_P - v_P1) - w0 x (v_P - v_P0)] . n_A  (the code differentiates the coincident MATERIAL points; exact residual)",
               D(der(verr1[0])), vaerr0[0] + resid, side, U, fn + "::calcVelocityDotErrorsVirtual", timeout_ms=60000)
    ga, gb, gc, gn, g0, g1 = v3("g_a"), v3("g_b"), v3("g_c"), v3("g_n"), v3("g_w0"), v3("g_w1")
    peq(B, "NoSlip1D: (2) the residual vanishes when the contact point moves with both coincident material points (v_P == v_P0 == v_P1): vaerr == d/dt verr there",
               dot(cross(g1, ga - gb) - cross(g0, ga - gc), gn), 0, [val(ga[i]) == val(gb[i]) for i in range(3)] + [val(ga[i]) == val(gc[i]) for i in range(3)], U, fn, minimal=True)
    peq(B, "NoSlip1D: (4) verr == (v_P1 - v_P0) . n_A with P0, P1 the material points of the moving bodies at the contact point", verr0[0], dot(vm[1] - vm[0], n_A), side, U,
               fn + "::calcVelocityErrorsVirtual", timeout_ms=T)
    lam = z3.Real("lam0")
    F = zero_forces(3)
    o.vforce(mk(0), [D(lam)], F, [])
    verrU = run_err(o.verr, mk(0), [b.U for b in bodies], 1)
    peq(B, "NoSlip1D: (3) power of the constraint forces at ANY spatial velocities V == + lambda . verr(V)  (forces == G^T lambda)", H.power(F, [b.U for b in bodies]), D(lam) * verrU[0], side, U,
               fn + "::addInVelocityConstraintForcesVirtual", timeout_ms=T)
    f, mo = H.net(F, [b.X0.p() for b in bodies])
    peq(B, "NoSlip1D: (3) constraint forces sum to zero force", f, Vec(0, 0, 0), side, U, fn + "::addInVelocityConstraintForcesVirtual", timeout_ms=T)
    peq(B, "NoSlip1D: (3) constraint forces sum to zero moment about the Ancestor origin", mo, Vec(0, 0, 0), side, U, fn + "::addInVelocityConstraintForcesVirtual", timeout_ms=T)
    peq(B, "NoSlip1D: (3) no force on the case body", Vec(*H.elements(F[0])), Vec(0, 0, 0, 0, 0, 0), side, U, fn + "::addInVelocityConstraintForcesVirtual", timeout_ms=T)


def coordinate(ctx, B, C):
    q, qd, qdd, qu = [[z3.Real("%s%d" % (nm, i)) for i in range(2)] for nm in ("cq", "cqd", "cqdd", "cqu")]
    maps = dict(qmap={(0, 0): 0, (0, 1): 1}, umap={(0, 0): 0, (0, 1): 1})
    lam = z3.Real("lam0")
    # ---- ConstantCoordinate: perr = q - p, pverr = qdot, paerr = qdotdot
    U, fn = "ConstantCoordinate", "Constraint::ConstantCoordinateImpl"
    p0 = z3.Real("pos0")
    o = C["ConstantCoordinate"](); o.theMobilizer, o.whichCoordinate = 0, 1
    st = State([], [], position=D(p0), **maps)
    perr1 = run_err(o.perr, st, [], 1, [D(q[i], qd[i]) for i in range(2)])
    pverr0 = run_err(o.pverr, st, [], 1, [D(qd[i]) for i in range(2)])
    pverr1 = run_err(o.pverr, st, [], 1, [D(qd[i], qdd[i]) for i in range(2)])
    paerr0 = run_err(o.paerr, st, [], 1, [D(qdd[i]) for i in range(2)])
    strict_clauses(B, U, perr1, pverr0, pverr1, paerr0, [], fn)
    peq(B, "ConstantCoordinate: (4) perr == q - position", perr1[0], D(q[1]) - D(p0), [], U, fn + "::calcPositionErrorsVirtual")
    qF = [D(0), D(0)]
    o.pforce(st, [D(lam)], [], qF)
    pvU = run_err(o.pverr, st, [], 1, [D(qu[i]) for i in range(2)])
    peq(B, "ConstantCoordinate: (3) q-forces . qdot' == + lambda . pverr(qdot') for ANY qdot'  (forces == Pq^T lambda)", qF[0] * D(qu[0]) + qF[1] * D(qu[1]), D(lam) * pvU[0], [], U, fn + "::addInPositionConstraintForcesVirtual")
    # ---- ConstantSpeed: verr = u - s, vaerr = udot
    U, fn = "ConstantSpeed", "Constraint::ConstantSpeedImpl"
    s0 = z3.Real("speed0")
    o = C["ConstantSpeed"](); o.theMobilizer, o.whichMobility = 0, 1
    st = State([], [], speed=D(s0), **maps)
    verr1 = run_err(o.verr, st, [], 1, [D(qd[i], qdd[i]) for i in range(2)])
    vaerr0 = run_err(o.vaerr, st, [], 1, [D(qdd[i]) for i in range(2)])
    strict_clauses(B, U, None, None, verr1, vaerr0, [], fn, vel_level=True)
    peq(B, "ConstantSpeed: (4) verr == u - speed", verr1[0], D(qd[1]) - D(s0), [], U, fn + "::calcVelocityErrorsVirtual")
    mob = [D(0), D(0)]
    o.vforce(st, [D(lam)], [], mob)
    vU = run_err(o.verr, st, [], 1, [D(qu[i]) for i in range(2)]); vZ = run_err(o.verr, st, [], 1, [D(0), D(0)])
    peq(B, "ConstantSpeed: (3) mobility forces . u' == + lambda . (verr(u') - verr(0)) for ANY u'  (forces == V^T lambda)", mob[0] * D(qu[0]) + mob[1] * D(qu[1]), D(lam) * (vU[0] - vZ[0]), [], U,
               fn + "::addInVelocityConstraintForcesVirtual")
    # ---- ConstantAcceleration: aerr = udot - a
    U, fn = "ConstantAcceleration", "Constraint::ConstantAccelerationImpl"
    a0 = z3.Real("acc0")
    o = C["ConstantAcceleration"](); o.theMobilizer, o.whichMobility = 0, 1
    st = State([], [], acceleration=D(a0), **maps)
    ae = run_err(o.aerr, st, [], 1, [D(qdd[i]) for i in range(2)])
    peq(B, "ConstantAcceleration: (4) aerr == udot - acceleration", ae[0], D(qdd[1]) - D(a0), [], U, fn + "::calcAccelerationErrorsVirtual")
    mob = [D(0), D(0)]
    o.aforce(st, [D(lam)], [], mob)
    aU = run_err(o.aerr, st, [], 1, [D(qu[i]) for i in range(2)]); aZ = run_err(o.aerr, st, [], 1, [D(0), D(0)])
    peq(B, "ConstantAcceleration: (3) mobility forces . udot' == + lambda . (aerr(udot') - aerr(0)) for ANY udot'  (forces == A^T lambda)", mob[0] * D(qu[0]) + mob[1] * D(qu[1]), D(lam) * (aU[0] - aZ[0]), [], U,
               fn + "::addInAccelerationConstraintForcesVirtual")


def fn_args_ok(B, name, fn_, expected, U, f):
    """the abstract Function is only meaningful at the current point: every recorded call must have been made there"""
    ok = all(len(c) == len(expected) and all(z3.eq(z3.simplify(a), z3.simplify(val(e))) for a, e in zip(c, expected)) for c in fn_.calls) and len(fn_.calls) > 0
    B.prove_bool("%s: every Function evaluation (%d calls) is made at the current arguments" % (name, len(fn_.calls)), z3.BoolVal(bool(ok)), [], U, f, minimal=True)


def couplers(ctx, B, C):
    lam = z3.Real("lam0")
    IL = H.IntList
    # ---- CoordinateCoupler: perr = f(q0,q1,q2) on three coordinates of two mobilizers
    U, fn = "CoordinateCoupler", "Constraint::CoordinateCouplerImpl"
    keys = [(0, 0), (0, 1), (1, 0)]
    q, qd, qdd, qu = [[z3.Real("%s%d" % (nm, i)) for i in range(3)] for nm in ("kq", "kqd", "kqdd", "kqu")]
    slot = {k: i for i, k in enumerate(keys)}
    F = H.FnJet("fcc", 3)
    o = C["CoordinateCoupler"](); o.function, o.coordBodies, o.coordIndices, o.temp = F, IL([k[0] for k in keys]), IL([k[1] for k in keys]), IL([None] * 3)
    st0 = State([], [], qmap=slot, Q={k: D(q[i]) for k, i in slot.items()}, QD={k: D(qd[i]) for k, i in slot.items()})
    st1 = State([], [], qmap=slot, Q={k: D(q[i], qd[i]) for k, i in slot.items()}, QD={k: D(qd[i], qdd[i]) for k, i in slot.items()})
    perr1 = run_err(o.perr, st1, [], 1, [D(q[i], qd[i]) for i in range(3)])
    pverr0 = run_err(o.pverr, st0, [], 1, [D(qd[i]) for i in range(3)])
    pverr1 = run_err(o.pverr, st1, [], 1, [D(qd[i], qdd[i]) for i in range(3)])
    paerr0 = run_err(o.paerr, st0, [], 1, [D(qdd[i]) for i in range(3)])
    strict_clauses(B, U, perr1, pverr0, pverr1, paerr0, [], fn)
    peq(B, "CoordinateCoupler: (4) perr == f(q)", perr1[0], D(F.f), [], U, fn + "::calcPositionErrors")
    qF = [D(0)] * 3
    o.pforce(st0, [D(lam)], [], qF)
    pvU = run_err(o.pverr, st0, [], 1, [D(qu[i]) for i in range(3)])
    peq(B, "CoordinateCoupler: (3) q-forces . qdot' == + lambda . pverr(qdot') for ANY qdot'  (forces == Pq^T lambda)", sum((qF[i] * D(qu[i]) for i in range(1, 3)), qF[0] * D(qu[0])), D(lam) * pvU[0], [], U,
        fn + "::addInPositionConstraintForces")
    fn_args_ok(B, "CoordinateCoupler", F, [D(x) for x in q], U, fn)
    # ---- PrescribedMotion: perr = q - f(t)
    U, fn = "PrescribedMotion", "Constraint::PrescribedMotionImpl"
    t = z3.Real("time")
    F = H.FnJet("fpm", 1)
    o = C["PrescribedMotion"](); o.function, o.coordBody, o.coordIndex, o.temp = F, 0, 1, IL([None])
    maps = dict(qmap={(0, 0): 0, (0, 1): 1})
    st0 = State([], [], time=D(t), **maps); st1 = State([], [], time=D(t, 1), **maps)
    q, qd, qdd, qu = [[z3.Real("%s%d" % (nm, i)) for i in range(2)] for nm in ("mq", "mqd", "mqdd", "mqu")]
    perr1 = run_err(o.perr, st1, [], 1, [D(q[i], qd[i]) for i in range(2)])
    pverr0 = run_err(o.pverr, st0, [], 1, [D(qd[i]) for i in range(2)])
    pverr1 = run_err(o.pverr, st1, [], 1, [D(qd[i], qdd[i]) for i in range(2)])
    paerr0 = run_err(o.paerr, st0, [], 1, [D(qdd[i]) for i in range(2)])
    strict_clauses(B, U, perr1, pverr0, pverr1, paerr0, [], fn)
    peq(B, "PrescribedMotion: (4) perr == q - f(t)", perr1[0], D(q[1]) - D(F.f), [], U, fn + "::calcPositionErrors")
    qF = [D(0), D(0)]
    o.pforce(st0, [D(lam)], [], qF)
    pvU = run_err(o.pverr, st0, [], 1, [D(qu[i]) for i in range(2)]); pvZ = run_err(o.pverr, st0, [], 1, [D(0), D(0)])
    peq(B, "PrescribedMotion: (3) q-forces . qdot' == + lambda . (pverr(qdot') - pverr(0)) for ANY qdot'", qF[0] * D(qu[0]) + qF[1] * D(qu[1]), D(lam) * (pvU[0] - pvZ[0]), [], U, fn + "::addInPositionConstraintForces")
    fn_args_ok(B, "PrescribedMotion", F, [D(t)], U, fn)
    # ---- SpeedCoupler: verr = f(u0, u1, q) with q a coordinate of some other mobilized body
    U, fn = "SpeedCoupler", "Constraint::SpeedCouplerImpl"
    u, ud, uu = [[z3.Real("%s%d" % (nm, i)) for i in range(2)] for nm in ("su", "sud", "suu")]
    qq, qqd = z3.Reals("sq sqd")
    F = H.FnJet("fsc", 3)
    skeys = [(0, 1), (1, 0)]; slot = {k: i for i, k in enumerate(skeys)}
    o = C["SpeedCoupler"](); o.function, o.temp = F, IL([None] * 3)
    o.speedBodies, o.speedIndices, o.coordBodies, o.coordIndices = IL([k[0] for k in skeys]), IL([k[1] for k in skeys]), IL([5]), IL([2])
    st0 = State([], [], umap=slot, Uv={k: D(u[i]) for k, i in slot.items()}, MQ={(5, 2): D(qq)}, MQD={(5, 2): D(qqd)})
    st1 = State([], [], umap=slot, Uv={k: D(u[i], ud[i]) for k, i in slot.items()}, MQ={(5, 2): D(qq, qqd)}, MQD={(5, 2): D(qqd)})
    verr1 = run_err(o.verr, st1, [], 1, [D(u[i], ud[i]) for i in range(2)])
    vaerr0 = run_err(o.vaerr, st0, [], 1, [D(ud[i]) for i in range(2)])
    strict_clauses(B, U, None, None, verr1, vaerr0, [], fn, vel_level=True)
    peq(B, "SpeedCoupler: (4) verr == f(u, q)", verr1[0], D(F.f), [], U, fn + "::calcVelocityErrors")
    mob = [D(0), D(0)]
    o.vforce(st0, [D(lam)], [], mob)
    # G = d verr / d u at the current point: directional derivative of the real verr along an arbitrary u' (q held fixed)
    stU = State([], [], umap=slot, Uv={k: D(u[i]) for k, i in slot.items()}, MQ={(5, 2): D(qq)}, MQD={(5, 2): D(qqd)})
    vdir = run_err(o.verr, stU, [], 1, [D(u[i], uu[i]) for i in range(2)])
    peq(B, "SpeedCoupler: (3) mobility forces . u' == + lambda . (d verr/d u)[u'] for ANY u'  (forces == V^T lambda)", mob[0] * D(uu[0]) + mob[1] * D(uu[1]), D(lam) * D(der(vdir[0])), [], U,
        fn + "::addInVelocityConstraintForces")
    fn_args_ok(B, "SpeedCoupler", F, [D(u[0]), D(u[1]), D(qq)], U, fn)


def main(ctx):
    ctx.level = "other"
    try:
        B, C, tiny = H.build(ctx)
    except ExtractionError as e:
        ctx.undecide("extraction: %s" % e)
        return ctx.finish()
    S.reset_env()
    if not ONLY:
        start_native(ctx)       # debug subsets (VERIF_ONLY) build the native driver on demand only
    # ------------------------------------------------------------------ PointInPlane
    if want("PointInPlane"):
        U, fn = "PointInPlane", "Constraint::PointInPlaneImpl"
        bB, bF = Kin("B", "quat"), Kin("F", "free")
        n, s, hh = v3("n"), v3("s"), z3.Real("h")
        o = C["PointInPlane"](); o.planeBody, o.followerBody, o.defaultPlaneNormal, o.defaultPlaneHeight, o.defaultFollowerPoint = 0, 1, n, D(hh), s
        side = sides([bB, bF]); inverse_lemmas(B, [bB, bF])
        h = Holo(o, [bB, bF], 1, lambda X, V: State(X, V))
        std_clauses(B, "PointInPlane", h, side, U, fn)
        # (4) manifold: perr == 0 <=> the follower point, measured in the plane body's frame, satisfies n . p == h
        pS_B = (~bB.X0) * (bF.X0 * s)
        peq(B, "PointInPlane: (4) perr == n . (follower point in B) - h  (zero exactly when the point lies in the plane)", h.perr1[0], dot(pS_B, n) - D(hh), side, U, fn + "::calcPositionErrorsVirtual", timeout_ms=T)

    # ------------------------------------------------------------------ PointOnLine
    if want("PointOnLine"):
        U, fn = "PointOnLine", "Constraint::PointOnLineImpl"
        bB, bF = Kin("B", "quat"), Kin("F", "free")
        z, P, s, x, y = v3("z"), v3("P"), v3("s"), v3("x"), v3("y")       # x, y: the two plane normals (any vectors; perpendicularity to z is not needed)
        o = C["PointOnLine"](); o.lineBody, o.followerBody, o.defaultLineDirection, o.defaultPointOnLine, o.defaultFollowerPoint, o.x, o.y = 0, 1, z, P, s, x, y
        side = sides([bB, bF]); inverse_lemmas(B, [bB, bF])
        h = Holo(o, [bB, bF], 2, lambda X, V: State(X, V))
        std_clauses(B, "PointOnLine", h, side, U, fn)
        pS_B = (~bB.X0) * (bF.X0 * s)
        peq(B, "PointOnLine: (4) perr == ((follower point in B) - P) . (x, y)  (zero exactly when the point lies on both planes through P, i.e. on the line)",
                   Vec(h.perr1), Vec(dot(pS_B - P, x), dot(pS_B - P, y)), side, U, fn + "::calcPositionErrorsVirtual", timeout_ms=T)
    # ------------------------------------------------------------------ ConstantAngle
    if want("ConstantAngle"):
        U, fn = "ConstantAngle", "Constraint::ConstantAngleImpl"
        bB, bF = Kin("B", "free"), Kin("F", "free")
        ab, af, c0 = v3("ab"), v3("af"), z3.Real("cos0")
        o = C["ConstantAngle"](); o.B, o.F, o.defaultAxisB, o.defaultAxisF, o.cosineOfDefaultAngle = 0, 1, ab, af, D(c0)
        h = Holo(o, [bB, bF], 1, lambda X, V: State(X, V))
        std_clauses(B, "ConstantAngle", h, [], U, fn)
        peq(B, "ConstantAngle: (4) perr == (R_AB axisB) . (R_AF axisF) - cos(angle)", h.perr1[0], dot(bB.X0.R() * ab, bF.X0.R() * af) - D(c0), [], U, fn + "::calcPositionErrorsVirtual")
    # ------------------------------------------------------------------ ConstantOrientation
    if want("ConstantOrientation"):
        U, fn = "ConstantOrientation", "Constraint::ConstantOrientationImpl"
        bB, bF = Kin("B", "free"), Kin("F", "free")
        RB, RF = RM(S.mat_sym("dRB", 3, 3).m), RM(S.mat_sym("dRF", 3, 3).m)
        o = C["ConstantOrientation"](); o.B, o.F, o.defaultRB, o.defaultRF = 0, 1, RB, RF
        h = Holo(o, [bB, bF], 3, lambda X, V: State(X, V))
        std_clauses(B, "ConstantOrientation", h, [], U, fn)
        GB, GF = bB.X0.R() * RB, bF.X0.R() * RF
        peq(B, "ConstantOrientation: (4) perr == (RFx.RBy, RFy.RBz, RFz.RBx) with both frames expressed in A (zero when the frames are aligned)",
                   Vec(h.perr1), Vec(dot(GF.x(), GB.y()), dot(GF.y(), GB.z()), dot(GF.z(), GB.x())), [], U, fn + "::calcPositionErrorsVirtual")
    # ------------------------------------------------------------------ Ball
    if want("Ball"):
        U, fn = "Ball", "Constraint::BallImpl"
        bB, bF = Kin("B", "quat"), Kin("F", "free")
        p1, p2 = v3("p1"), v3("p2")
        o = C["Ball"](); o.B1, o.B2 = 0, 1
        side = sides([bB, bF]); inverse_lemmas(B, [bB, bF])
        h = Holo(o, [bB, bF], 3, lambda X, V: State(X, V, stations=Pair(p1, p2)))
        ball_like(B, "Ball", "", h, 0, bB, side, U, fn)
        std_clauses(B, "Ball", h, side, U, fn)
        peq(B, "Ball: (4) perr == (station 2 in A) - (station 1 in A)  (zero exactly when the two points coincide)", Vec(h.perr1), bF.X0 * p2 - bB.X0 * p1, side, U, fn + "::calcPositionErrorsVirtual")
    # ------------------------------------------------------------------ Weld
    if want("Weld"):
        U, fn = "Weld", "Constraint::WeldImpl"
        bB, bF = Kin("B", "quat"), Kin("F", "free")
        fB, fF = XF(RM(S.mat_sym("fRB", 3, 3).m), v3("fpB")), XF(RM(S.mat_sym("fRF", 3, 3).m), v3("fpF"))
        o = C["Weld"](); o.B, o.F, o.defaultFrameB, o.defaultFrameF = 0, 1, fB, fF
        side = sides([bB, bF]); inverse_lemmas(B, [bB, bF])
        h = Holo(o, [bB, bF], 6, lambda X, V: State(X, V))
        peq(B, "Weld: (1) pverr == d/dt perr (orientation rows 0-2)", Vec([D(der(e)) for e in h.perr1[:3]]), Vec(h.pverr0[:3]), side, U, fn + "::calcPositionDotErrorsVirtual", timeout_ms=T)
        peq(B, "Weld: (2) paerr == d/dt pverr (orientation rows 0-2)", Vec([D(der(e)) for e in h.pverr1[:3]]), Vec(h.paerr0[:3]), side, U, fn + "::calcPositionDotDotErrorsVirtual", timeout_ms=T)
        ball_like(B, "Weld", " (translation rows 3-5)", h, 3, bB, side, U, fn)
        std_clauses(B, "Weld", h, side, U, fn)
        GB, GF = bB.X0.R() * fB.R(), bF.X0.R() * fF.R()
        peq(B, "Weld: (4) perr == (RFx.RBy, RFy.RBz, RFz.RBx ; origin of frame F - origin of frame B, in A)", Vec(h.perr1),
                   Vec(*([dot(GF.x(), GB.y()), dot(GF.y(), GB.z()), dot(GF.z(), GB.x())] + list((bF.X0 * fF.p() - bB.X0 * fB.p()).e))), side, U, fn + "::calcPositionErrorsVirtual")
    # ------------------------------------------------------------------ Rod (non-singular branch)
    if want("Rod"):
        rod(ctx, B, C, tiny)
    # ------------------------------------------------------------------ NoSlip1D
    if want("NoSlip1D"):
        noslip(ctx, B, C)
    # ------------------------------------------------------------------ coordinate-level constraints
    if want("Constant(Coordinate|Speed|Acceleration)"):
        coordinate(ctx, B, C)
    # ------------------------------------------------------------------ Function-based built-ins (Custom::Implementation)
    if want("CoordinateCoupler|SpeedCoupler|PrescribedMotion"):
        couplers(ctx, B, C)

    # guard: every fold-back R (~R y) -> y performed by the local shim is backed by a proved rotation lemma for that body
    owners = {}
    for b in Kin.ALL:
        owners[id(b.X0.R())] = b; owners[id(b.X1.R())] = b
    unbacked = [i for i in H.USED_INVERSE if i not in owners or owners[i].rot != "quat" or owners[i].name not in _LEMMA_DONE]
    ctx.add(Obligation("guard:every R (~R y) fold-back is backed by a proved rotation lemma (%d folds)" % len(H.USED_INVERSE), "guards", "python",
                       "discharged" if (not unbacked and (ONLY or H.USED_INVERSE)) else "undecided", 0, "lemma-chain bookkeeping guard"))
    s_ = z3.Solver(); s_.add(val(Kin("g", "quat").side[0]))
    ctx.add(Obligation("guard:unit quaternion satisfiable", "guards", "z3", "discharged" if s_.check() == z3.sat else "undecided", 0, "reachability guard"))
    ctx.checker_cmds.append("z3 (python API, QF_NRA); SMT-LIB files in out/C07/smt2; cvc5 re-check in thorough tier")
    ctx.trust("z3 4.x / cvc5 1.0 (QF_NRA)"); ctx.trust("tools/translit.py rule table (logged), tools/symlib.py shim (dual numbers) and the local shim extensions in checks/_help_c07.py")
    ctx.assume("machine arithmetic treated as mathematical (reals)")
    for a in H.assumptions(): ctx.assume(a)
    ctx.not_decided += ["tree-level propagation through SimbodyMatterSubsystem: body kinematics X_AB/V_AB/A_AB from q,u,udot, Ancestor re-expression, packing of constrained bodies / mobilities",
                        "the multiplier solve and the constraint Jacobian operators (calcG, multiplyByG, multiplyByGTranspose, calcPq, multiplyByPq, calcBiasFor*): 'G obtained three ways is one matrix'",
                        "Pq == partial(perr)/partial(q) (needs the mobilizer N matrices)",
                        "PointOnPlaneContact, SphereOnPlaneContact, SphereOnSphereContact, LineOnLineContact, user-written Custom constraints",
                        "Rod's singular branch (r < TinyReal); Constraint::Custom::Implementation forwarding one-liners (getOneQ -> ConstraintImpl::getOneQ etc.) are treated as plumbing",
                        "strict clauses for Ball / Weld translation rows / NoSlip1D: they FAIL (open known findings F12, F13); what is proved there is the exact relation with residual"]
    ctx.explanation = "%d functions transliterated; %d obligations." % (len(ctx.functions), len(ctx.obligations))
    return ctx.finish(replayer=lambda ob: replay(ctx, ob))


_NATIVE = {}


def start_native(ctx):
    """the native driver is needed on every run (the open known findings F12/F13 are replayed each time): build and run it in the
    background while z3 works. Constraint.cpp / Constraint_Rod.cpp of the CURRENT tree are compiled into the driver so that the
    inline virtuals of ConstraintImpl.h under test are the ones of this tree (they interpose the shared library's copies)."""
    import threading
    def work():
        try:
            src = os.path.join(REPO, "Simbody/src")
            exe = native_build(ctx, "c07_replay", os.path.join(VERIF, "replay/c07_replay.cpp"), libs=True,
                               extra_srcs=[os.path.join(src, "Constraint.cpp"), os.path.join(src, "Constraint_Rod.cpp")], extra_inc=[src])
            rc, o, e, t = run([exe, str(ctx.seed), "strict"], 120)
            _NATIVE["out"] = o
        except Exception as ex:
            _NATIVE["error"] = repr(ex)
    th = threading.Thread(target=work, daemon=True)
    _NATIVE["thread"] = th
    th.start()


def replay(ctx, ob):
    if "thread" not in _NATIVE:
        start_native(ctx)
    _NATIVE["thread"].join(900)
    if "out" not in _NATIVE:
        return dict(replay_error=_NATIVE.get("error", "native driver did not finish")), None
    cname = ob.unit.split(".")[-1]
    strict = ob.unit.startswith("strict.")
    lines = [l for l in _NATIVE["out"].split("\n") if l.startswith(cname + " [") and ("MISMATCH" in l or (strict and "DEVIATION" in l))]
    return dict(cmd="c07_replay %d strict (real %s through the public API on random violated states: finite-difference derivative hierarchy, power vs multipliers, "
                "action/reaction; lines of this constraint%s)" % (ctx.seed, cname, " incl. the strict clauses" if strict else ""),
                output="\n".join(lines[:12])[-3000:], failing_lines=len(lines)), bool(lines)
