"""C29 - Mass-property and spatial-algebra identities.  Back end B (route M3):
SpatialAlgebra.h free functions and the formula-bearing members of Inertia_/UnitInertia_/
SpatialInertia_/ArticulatedInertia_ (+ the hand-expanded helpers of MassProperties.cpp and the
SmallMatrixMixed kernels they use), transliterated each run."""
import os, re, json, itertools, z3
from vlib import *
from extract import *
import symlib as S
from symlib import *
from blib import BUnit

PID = "C29"
META = dict(
    category="proof",
    text=("Spatial shift operators (velocity, acceleration, force; By/FromTo), relative velocity/acceleration and reversal are proved against their textbook "
          "definitions, shift round trips, power invariance F.V under a common shift, and 'acceleration shift = time derivative of velocity shift' (dual numbers); "
          "Inertia::pointMassAt == m(|p|^2 1 - p p^T), parallel-axis shifts are inverse pairs, SpatialInertia*V == rigid-body momentum, kinetic energy invariant "
          "under SpatialInertia::shift/transform, ArticulatedInertia::shift == Phi P Phi^T incl. the hand-expanded halfCross* helpers; "
          "Rotation/InverseRotation::reexpressSymMat33 == R S ~R, Inertia::reexpress preserves the three invariants of the characteristic polynomial (principal moments) and is inverted by ~R; "
          "MassProperties_: calcCentralInertia/calcShiftedInertia/calcTransformedInertia/calcShiftedMassProps/calcTransformedMassProps/reexpress agree with SpatialInertia::shift/transform/"
          "reexpress (mass, mass centre ~X_BC*c, inertia), constructor from a full Inertia stores I/m; SpatialInertia += / -= add momenta and are inverse; "
          "isValidInertiaMatrix accepts exactly when diagonals >= 0 and the triangle inequalities and product bounds hold within Significant*max(trace,1), on every path; "
          "for all real inputs (z3 QF_NRA)."),
    note=("Assumes real arithmetic; trusts z3/cvc5, transliterator rules (logged), symlib shim; class plumbing (constructors, copy, storage of SymMat) is a thin shim "
          "listed in the evidence as assumed. Positive-semidefiniteness of accepted inertias is not decided (the validity test checks necessary conditions only); Significant is a symbolic positive real."),
    technique="symbolic execution of transliterated real code over the reals + SMT (z3 QF_NRA), dual numbers for d/dt",
    design_ref="4 C29")

INC = os.path.join(REPO, "SimTKcommon/Mechanics/include/SimTKcommon/internal")
SPA_H = os.path.join(INC, "SpatialAlgebra.h")
MP_H = os.path.join(INC, "MassProperties.h")
MP_CPP = os.path.join(REPO, "SimTKcommon/Mechanics/src/MassProperties.cpp")
SMM_H = os.path.join(REPO, "SimTKcommon/SmallMatrix/include/SimTKcommon/internal/SmallMatrixMixed.h")
ROT_CPP = os.path.join(REPO, "SimTKcommon/Mechanics/src/Rotation.cpp")


def v3(n): return Vec(*[z3.Real("%s%d" % (n, i)) for i in range(3)])
def sv(n): return SpatialVec(v3(n + "w"), v3(n + "v"))


def Rquat(q):
    q0, q1, q2, q3 = q[0], q[1], q[2], q[3]
    return Mat([[1 - 2*(q2*q2+q3*q3), 2*(q1*q2-q0*q3), 2*(q1*q3+q0*q2)],
                [2*(q1*q2+q0*q3), 1 - 2*(q1*q1+q3*q3), 2*(q2*q3-q0*q1)],
                [2*(q1*q3-q0*q2), 2*(q2*q3+q0*q1), 1 - 2*(q1*q1+q2*q2)]])


def build(ctx):
    B = BUnit(ctx)
    ns = B.ns
    ns["SpatialVec"] = ns["SpatialVecP"] = S.SpatialVec
    ns["SymMat_3_P"] = ns["SymMat33P"] = ns["SymMat_3_E"] = S.symmat33
    # ---- SpatialAlgebra.h ----
    SV, T, V = r"const SpatialVec&\s*", r"const Transform&\s*", r"const Vec3&\s*"
    def fn(name, *params):
        B.add_function(SPA_H, r"inline SpatialVec " + name + r"\s*\(\s*" + r",\s*".join(params) + r"\)\s*", pyname=name)
    fn("findRelativeVelocity", T + "X_FA", SV + "V_FA", T + "X_FB", SV + "V_FB")
    fn("findRelativeVelocityInF", V + "p_AB_F", SV + "V_FA", SV + "V_FB")
    fn("findRelativeAcceleration", T + "X_FA", SV + "V_FA", SV + "A_FA", T + "X_FB", SV + "V_FB", SV + "A_FB")
    fn("findRelativeAccelerationInF", V + "p_AB_F", SV + "V_FA", SV + "A_FA", SV + "V_FB", SV + "A_FB")
    fn("reverseRelativeVelocity", T + "X_AB", SV + "V_AB")
    fn("reverseRelativeVelocityInA", T + "X_AB", SV + "V_AB")
    fn("shiftVelocityBy", SV + "V_AB", V + "r_A")
    fn("shiftVelocityFromTo", SV + "V_A_BP", V + "fromP_A", V + "toQ_A")
    fn("shiftAccelerationBy", SV + "A_AB", V + "w_AB", V + "r_A")
    fn("shiftAccelerationFromTo", SV + "A_A_BP", V + "w_AB", V + "fromP_A", V + "toQ_A")
    fn("shiftForceBy", SV + "F_AP", V + "r_A")
    fn("shiftForceFromTo", SV + "F_AP", V + "fromP_A", V + "toQ_A")
    # ---- SmallMatrixMixed kernels used below ----
    def strip_tpl(b):
        b = re.sub(r"typedef [^;]+;", "", b)
        b = re.sub(r"Mat<3,3,EResult>", "Mat33", b)
        b = re.sub(r"SymMat<3,(?:E|P)>", "SymMat33P", b)
        return b
    B.add_function(SMM_H, r"cross\(const Vec<3,EV,SV>& v, const SymMat<3,EM,RS>& s\)\s*", pyname="cross_vec_symmat", pre=strip_tpl, cxxname="SimTK::cross(Vec3,SymMat33)")
    B.add_function(SMM_H, r"crossMatSq\(const Vec<3,E,S>& v\)\s*", pyname="crossMatSq", pre=strip_tpl, cxxname="SimTK::crossMatSq(Vec3)")
    S.HOOKS["cross_vec_symmat"] = ns["cross_vec_symmat"]
    # ---- MassProperties.cpp hand-expanded helpers ----
    B.add_function(MP_CPP, r"halfCross\(const Vec<3,P>& v, const Mat<3,3,P,CS,RS>& F\)\s*", pyname="halfCross_vF", pre=strip_tpl, cxxname="halfCross(v,F)")
    B.add_function(MP_CPP, r"halfCross\(const Mat<3,3,P,CS,RS>& G, const Vec<3,P>& v\)\s*", pyname="halfCross_Gv", pre=strip_tpl, cxxname="halfCross(G,v)")
    B.add_function(MP_CPP, r"halfCrossDiff\(const Vec<3,P>& v, const Mat<3,3,P,CS1,RS1>& F, const Mat<3,3,P,CS2,RS2>& G\)\s*", pyname="halfCrossDiff", pre=strip_tpl, cxxname="halfCrossDiff(v,F,G)")

    # ---- classes (plumbing = thin shim; formula-bearing members transliterated) ----
    class Inertia:
        def __init__(self, *a):
            if len(a) == 1 and isinstance(a[0], Inertia):
                self.I_OF_F = S.SymMat(a[0].I_OF_F.m)
            elif len(a) == 1 and isinstance(a[0], Mat):
                self.I_OF_F = S.SymMat(a[0].m)
            elif len(a) == 1:
                self.I_OF_F = S.symmat33(a[0])
            elif len(a) == 2 and isinstance(a[0], Vec):
                self.I_OF_F = ns["Inertia_pointMassAt"](a[0], a[1]).I_OF_F      # Inertia_(p, mass) : I_OF_F(pointMassAt(p,mass)) {}
            elif len(a) == 6:
                self.ctor6(*a)
            elif len(a) == 3:
                self.I_OF_F = S.symmat33(a[0], 0, a[1], 0, 0, a[2])
            else:
                raise ExtractionError("Inertia_ constructor with %d args not modelled" % len(a))
        def errChk(self, *a): return None
        def __iadd__(self, o): return self.iadd(o)
        def __isub__(self, o): return self.isub(o)
        def __rmul__(self, s):
            r = type(self)(self); r.I_OF_F = s * self.I_OF_F; return r
        def __add__(self, o): r = Inertia(self); r.I_OF_F = self.I_OF_F + o.I_OF_F; return r
        def __sub__(self, o): r = Inertia(self); r.I_OF_F = self.I_OF_F - o.I_OF_F; return r
        def __mul__(self, w):
            if S.is_scalar(w):                                    # operator*(Inertia, scalar): Inertia_(i) *= r
                r = type(self)(self); r.I_OF_F = self.I_OF_F * w; return r
            return self.I_OF_F * w
        def reexpress(self, R): return type(self)((~R).reexpressSymMat33(self.I_OF_F))     # one-line members of the header, both overloads
        def reexpressInPlace(self, R): self.I_OF_F = (~R).reexpressSymMat33(self.I_OF_F); return self
        def toMat33(self): return Mat(self.I_OF_F.m)
        def asSymMat33(self): return self.I_OF_F
    class UnitInertia(Inertia):
        def setFromUnitInertia(self, I): self.I_OF_F = S.SymMat(I.I_OF_F.m); return self
    ns["Inertia_"] = ns["InertiaP"] = Inertia
    ns["UnitInertia_"] = ns["UnitInertiaP"] = UnitInertia
    drop_err = lambda b: re.sub(r"(?:I\.)?errChk\(\"[^\"]*\"\);", "", b)
    IM = ["I_OF_F"]
    B.add_method(Inertia, MP_H, r"Inertia_\(const P& xx, const P& yy, const P& zz,\s*const P& xy, const P& xz, const P& yz\)\s*", "ctor6", members=IM, extra_pre=drop_err, cxxname="Inertia_::Inertia_(xx,yy,zz,xy,xz,yz)")
    B.add_method(Inertia, MP_H, r"Inertia_& operator\+=\(const Inertia_& inertia\)\s*", "iadd", members=IM, extra_pre=drop_err, cxxname="Inertia_::operator+=")
    B.add_method(Inertia, MP_H, r"Inertia_& operator-=\(const Inertia_& inertia\)\s*", "isub", members=IM, extra_pre=drop_err, cxxname="Inertia_::operator-=")
    for nm, sig in (("shiftToMassCenter", r"Inertia_ shiftToMassCenter\(const Vec<3,P>& CF, const P& mass\) const\s*"),
                    ("shiftToMassCenterInPlace", r"Inertia_& shiftToMassCenterInPlace\(const Vec<3,P>& CF, const P& mass\)\s*"),
                    ("shiftFromMassCenter", r"Inertia_ shiftFromMassCenter\(const Vec<3,P>& p, const P& mass\) const\s*"),
                    ("shiftFromMassCenterInPlace", r"Inertia_& shiftFromMassCenterInPlace\(const Vec<3,P>& p, const P& mass\)\s*")):
        B.add_method(Inertia, MP_H, sig, nm, members=IM, extra_pre=lambda b: drop_err(b).replace("(*this) ", "self ").replace("pointMassAt(", "Inertia_pointMassAt("), cxxname="Inertia_::" + nm)
    B.add_function(MP_H, r"static Inertia_ pointMassAt\(const Vec<3,P>& p, const P& m\)\s*", pyname="Inertia_pointMassAt", cxxname="Inertia_::pointMassAt")
    B.add_function(MP_H, r"static UnitInertia_ pointMassAt\(const Vec3P& p\)\s*", pyname="UnitInertia_pointMassAt", cxxname="UnitInertia_::pointMassAt")
    upre = lambda b: b.replace("InertiaP::operator-=(", "self.isub(").replace("InertiaP::operator+=(", "self.iadd(").replace("pointMassAt(", "UnitInertia_pointMassAt(")
    B.add_method(UnitInertia, MP_H, r"UnitInertia_& shiftToCentroidInPlace\(const Vec3P& CF\)\s*", "shiftToCentroidInPlace", extra_pre=upre, cxxname="UnitInertia_::shiftToCentroidInPlace")
    B.add_method(UnitInertia, MP_H, r"UnitInertia_& shiftFromCentroidInPlace\(const Vec3P& p\)\s*", "shiftFromCentroidInPlace", extra_pre=upre, cxxname="UnitInertia_::shiftFromCentroidInPlace")

    class SpatialInertia:
        def __init__(self, *a):
            if len(a) == 1:
                o = a[0]; self.m, self.p, self.G = o.m, Vec(list(o.p.e)), UnitInertia(o.G)
            else:
                self.m, self.p, self.G = D.lift(a[0]), a[1], UnitInertia(a[2])
        def __mul__(self, v): return self.mulvec(v)
    ns["SpatialInertia_"] = SpatialInertia
    SM = ["m", "p", "G"]
    SMeth = ["shiftInPlace", "reexpressInPlace", "calcMassMoment", "calcInertia"]
    B.add_method(SpatialInertia, MP_H, r"SpatialVecP operator\*\(const SpatialVecP& v\) const\s*", "mulvec", members=SM, occurrence=1, cxxname="SpatialInertia_::operator*(SpatialVec)")
    B.add_method(SpatialInertia, MP_H, r"SpatialInertia_& shiftInPlace\(const Vec3P& S\)\s*", "shiftInPlace", members=SM, cxxname="SpatialInertia_::shiftInPlace")
    B.add_method(SpatialInertia, MP_H, r"SpatialInertia_ shift\(const Vec3P& S\) const\s*", "shift", members=SM, methods=SMeth, extra_pre=lambda b: b.replace("SpatialInertia_(*this)", "SpatialInertia_(self)"), cxxname="SpatialInertia_::shift")
    B.add_method(SpatialInertia, MP_H, r"Vec3P calcMassMoment\(\) const\s*", "calcMassMoment", members=SM, cxxname="SpatialInertia_::calcMassMoment")
    B.add_method(SpatialInertia, MP_H, r"InertiaP calcInertia\(\) const\s*", "calcInertia", members=SM, cxxname="SpatialInertia_::calcInertia")

    B.add_method(SpatialInertia, MP_H, r"SpatialInertia_& reexpressInPlace\(const Rotation_<P>& R_FB\)\s*", "reexpressInPlace", members=SM, cxxname="SpatialInertia_::reexpressInPlace")
    B.add_method(SpatialInertia, MP_H, r"SpatialInertia_& transformInPlace\(const Transform_<P>& X_FB\)\s*", "transformInPlace", members=SM, methods=SMeth, cxxname="SpatialInertia_::transformInPlace")
    B.add_method(SpatialInertia, MP_H, r"SpatialInertia_ transform\(const Transform_<P>& X_FB\) const\s*", "transform", members=SM, methods=SMeth + ["transformInPlace"], extra_pre=lambda b: b.replace("SpatialInertia_(*this)", "SpatialInertia_(self)"), cxxname="SpatialInertia_::transform")
    B.add_method(SpatialInertia, MP_H, r"SpatialInertia_& operator\+=\(const SpatialInertia_& src\)\s*", "iadd", members=SM, methods=SMeth, extra_pre=lambda b: re.sub(r"SimTK_ERRCHK\([^;]*;", "", b), cxxname="SpatialInertia_::operator+=")
    B.add_method(SpatialInertia, MP_H, r"SpatialInertia_& operator-=\(const SpatialInertia_& src\)\s*", "isub", members=SM, methods=SMeth, extra_pre=lambda b: re.sub(r"SimTK_ERRCHK\([^;]*;", "", b), cxxname="SpatialInertia_::operator-=")

    # ---- Rotation_/InverseRotation_::reexpressSymMat33 (the real bodies; C27 proves the first against R S ~R as well) ----
    class Rot(Mat):
        def __init__(self, m): Mat.__init__(self, [list(r_) for r_ in (m.m if isinstance(m, Mat) else m)])
        def asMat33(self): return self
        def __invert__(self): return InvRot(Mat.__invert__(self))
    class InvRot(Rot):
        def __invert__(self): return Rot(Mat.__invert__(self))
    rpre = lambda b: b.replace("R.template getSubMat<3,2>(0,0)", "R.getSubMat(3,2,0,0)").replace("this->asMat33()", "self.asMat33()")
    B.add_method(Rot, ROT_CPP, r"Rotation_<P>::reexpressSymMat33\(const SymMat33P& S_BB\) const\s*", "reexpressSymMat33", methods=["asMat33"], extra_pre=rpre, cxxname="Rotation_<P>::reexpressSymMat33")
    B.add_method(InvRot, ROT_CPP, r"InverseRotation_<P>::reexpressSymMat33\(const SymMat<3,P>& S_BB\) const\s*", "reexpressSymMat33", methods=["asMat33"],
                 extra_pre=lambda b: rpre(b).replace("SymMat<3,P>(", "SymMat33P("), cxxname="InverseRotation_<P>::reexpressSymMat33")
    ns["Mat32P"] = ns["Mat32"]; ns["Mat22P"] = ns["Mat22"]
    class XForm:                                            # Transform_ plumbing: (R,p); ~X applied to a station s is ~R (s - p)
        def __init__(self, R, p): self._R, self._p = R, p
        def R(self): return self._R
        def p(self): return self._p
        def __invert__(self): return InvXForm(self)
    class InvXForm:
        def __init__(self, X): self.X = X
        def __mul__(self, v): return Mat.__invert__(self.X._R) * (v - self.X._p)
    # ---- MassProperties_ ----
    class MassProperties:
        def __init__(self, m, com, inertia):
            self.setMassProperties(D.lift(m), com, inertia)
        def setMassProperties(self, m, com, inertia):       # overload resolution on the static type of the third argument
            return self.setMP_unit(m, com, inertia) if isinstance(inertia, UnitInertia) else self.setMP_inertia(m, com, inertia)
    ns["MassProperties_"] = MassProperties; ns["Inertia__P"] = Inertia; ns["UnitInertia__P"] = UnitInertia
    MM = ["mass", "comInB", "unitInertia_OB_B"]
    MMeth = ["calcCentralInertia", "calcShiftedInertia", "calcTransformedInertia", "calcInertia"]
    mpre = lambda b: re.sub(r"SimTK_ASSERT\([^;]*;", "", b)
    B.add_method(MassProperties, MP_H, r"MassProperties_& setMassProperties\(const P& m, const Vec<3,P>& com, const Inertia_<P>& inertia\)\s*", "setMP_inertia", members=MM, extra_pre=mpre, cxxname="MassProperties_::setMassProperties(m,com,Inertia)")
    B.add_method(MassProperties, MP_H, r"MassProperties_& setMassProperties\s*\(const P& m, const Vec<3,P>& com, const UnitInertia_<P>& gyration\)\s*", "setMP_unit", members=MM, cxxname="MassProperties_::setMassProperties(m,com,UnitInertia)")
    for nm, sig in (("calcInertia", r"const Inertia_<P> calcInertia\(\) const\s*"), ("calcCentralInertia", r"Inertia_<P> calcCentralInertia\(\) const\s*"),
                    ("calcShiftedInertia", r"Inertia_<P> calcShiftedInertia\(const Vec<3,P>& newOriginB\) const\s*"),
                    ("calcTransformedInertia", r"Inertia_<P> calcTransformedInertia\(const Transform_<P>& X_BC\) const\s*"),
                    ("calcShiftedMassProps", r"MassProperties_ calcShiftedMassProps\(const Vec<3,P>& newOriginB\) const\s*"),
                    ("calcTransformedMassProps", r"MassProperties_ calcTransformedMassProps\(const Transform_<P>& X_BC\) const\s*"),
                    ("reexpress", r"MassProperties_ reexpress\(const Rotation_<P>& R_BC\) const\s*")):
        B.add_method(MassProperties, MP_H, sig, nm, members=MM, methods=MMeth, cxxname="MassProperties_::" + nm)
    # ---- isValidInertiaMatrix ----
    class SM3:                                              # SymMat<3,P> views used by the validity test: isNaN (reals: never), diag(), getLower() = (m10, m20, m21)
        def __init__(self, sm): self.sm = sm
        def isNaN(self): return False
        def diag(self): return Vec(self.sm.m[0][0], self.sm.m[1][1], self.sm.m[2][2])
        def getLower(self): return Vec(self.sm.m[1][0], self.sm.m[2][0], self.sm.m[2][1])
    ns["SM3"] = SM3
    B.add_function(MP_H, r"static bool isValidInertiaMatrix\(const SymMat<3,P>& m\)\s*", pyname="isValidInertiaMatrix", cxxname="Inertia_::isValidInertiaMatrix",
                   pre=lambda b: b.replace("NTraits<P>::getSignificant()", "SignificantP").replace("!(d >= 0)", "!(d[0] >= 0 && d[1] >= 0 && d[2] >= 0)").replace("if (!(", "if (NOT("))

    class ArticulatedInertia:
        def __init__(self, M, F, J):
            self.M, self.F, self.J = M, F, J
        def __mul__(self, v): return self.mulvec(v)
    ns["ArticulatedInertia_"] = ArticulatedInertia
    AM = ["M", "J", "F"]
    B.add_method(ArticulatedInertia, MP_CPP, r"ArticulatedInertia_<P>::shift\(const Vec3P& s\) const\s*", "shift", members=AM, cxxname="ArticulatedInertia_::shift")
    B.add_method(ArticulatedInertia, MP_CPP, r"ArticulatedInertia_<P>::shiftInPlace\(const Vec3P& s\)\s*", "shiftInPlace", members=AM, cxxname="ArticulatedInertia_::shiftInPlace")
    B.add_method(ArticulatedInertia, MP_H, r"SpatialVecP operator\*\(const SpatialVecP& v\) const\s*", "mulvec", members=AM, occurrence=2, cxxname="ArticulatedInertia_::operator*(SpatialVec)")
    B.dump_sources()
    B.extra = dict(Rot=Rot, XForm=XForm, MassProperties=MassProperties, SM3=SM3)
    return B, Inertia, UnitInertia, SpatialInertia, ArticulatedInertia


def main(ctx):
    ctx.level = "proof"
    S.HOOKS.clear()
    try:
        B, Inertia, UnitInertia, SpatialInertia, ArticulatedInertia = build(ctx)
    except ExtractionError as e:
        ctx.undecide("extraction: %s" % e)
        return ctx.finish()
    f = B.ns
    S.reset_env()
    U = "spatial"
    V, F, A = sv("V"), sv("F"), sv("A")
    r, P, Qp, w = v3("r"), v3("P"), v3("Q"), v3("w")
    # textbook definitions
    B.prove_eq("shiftVelocityBy == (w, v + w x r)", f["shiftVelocityBy"](V, r), SpatialVec(V[0], V[1] + cross(V[0], r)), [], U, "shiftVelocityBy")
    B.prove_eq("shiftForceBy == (m - r x f, f)", f["shiftForceBy"](F, r), SpatialVec(F[0] - cross(r, F[1]), F[1]), [], U, "shiftForceBy")
    B.prove_eq("shiftAccelerationBy == (b, a + b x r + w x (w x r))", f["shiftAccelerationBy"](A, w, r), SpatialVec(A[0], A[1] + cross(A[0], r) + cross(w, cross(w, r))), [], U, "shiftAccelerationBy")
    # round trips
    B.prove_eq("shiftVelocityBy(r) then (-r) == identity", f["shiftVelocityBy"](f["shiftVelocityBy"](V, r), -r), V, [], U, "shiftVelocityBy")
    B.prove_eq("shiftForceBy(r) then (-r) == identity", f["shiftForceBy"](f["shiftForceBy"](F, r), -r), F, [], U, "shiftForceBy")
    B.prove_eq("shiftAccelerationBy(r) then (-r) == identity", f["shiftAccelerationBy"](f["shiftAccelerationBy"](A, w, r), w, -r), A, [], U, "shiftAccelerationBy")
    B.prove_eq("shiftVelocityFromTo == shiftVelocityBy(Q-P)", f["shiftVelocityFromTo"](V, P, Qp), f["shiftVelocityBy"](V, Qp - P), [], U, "shiftVelocityFromTo")
    B.prove_eq("shiftForceFromTo == shiftForceBy(Q-P)", f["shiftForceFromTo"](F, P, Qp), f["shiftForceBy"](F, Qp - P), [], U, "shiftForceFromTo")
    B.prove_eq("shiftAccelerationFromTo == shiftAccelerationBy(Q-P)", f["shiftAccelerationFromTo"](A, w, P, Qp), f["shiftAccelerationBy"](A, w, Qp - P), [], U, "shiftAccelerationFromTo")
    B.prove_eq("shift composition: By(r) then By(s) == By(r+s) (velocity)", f["shiftVelocityBy"](f["shiftVelocityBy"](V, r), P), f["shiftVelocityBy"](V, r + P), [], U, "shiftVelocityBy")
    B.prove_eq("shift composition: By(r) then By(s) == By(r+s) (force)", f["shiftForceBy"](f["shiftForceBy"](F, r), P), f["shiftForceBy"](F, r + P), [], U, "shiftForceBy")
    # power invariance
    B.prove_eq("power F.V invariant under a common shift", (~f["shiftForceBy"](F, r)) * f["shiftVelocityBy"](V, r), (~F) * V, [], U, "shiftForceBy/shiftVelocityBy")
    # acceleration shift == d/dt velocity shift along a rigid motion (r fixed in B: dr/dt = w x r)
    Vd = SpatialVec(Vec(*[D(V[0][i], A[0][i]) for i in range(3)]), Vec(*[D(V[1][i], A[1][i]) for i in range(3)]))
    wxr = cross(V[0], r)
    rd = Vec(*[D(r[i], wxr[i]) for i in range(3)])
    shifted = f["shiftVelocityBy"](Vd, rd)
    B.prove_eq("shiftAccelerationBy == d/dt shiftVelocityBy (rigid motion)", f["shiftAccelerationBy"](A, V[0], r), SpatialVec(S.vmap(lambda x: D(der(x)), shifted[0]), S.vmap(lambda x: D(der(x)), shifted[1])), [], U, "shiftAccelerationBy")
    # relative velocity in F: textbook + composition
    VA, VB, AA, AB = sv("VA"), sv("VB"), sv("AA"), sv("AB")
    p = v3("p")
    rel = f["findRelativeVelocityInF"](p, VA, VB)
    B.prove_eq("findRelativeVelocityInF == (wB-wA, vB-vA - wA x p)", rel, SpatialVec(VB[0] - VA[0], VB[1] - VA[1] - cross(VA[0], p)), [], U, "findRelativeVelocityInF")
    B.prove_eq("composition: V_FB == V_FA shifted to B + relative velocity", SpatialVec(VA[0] + rel[0], VA[1] + cross(VA[0], p) + rel[1]), VB, [], U, "findRelativeVelocityInF")
    # relative acceleration == derivative taken in A of the relative velocity: d_A/dt x = d_F/dt x - wA x x
    VAd = SpatialVec(Vec(*[D(VA[0][i], AA[0][i]) for i in range(3)]), Vec(*[D(VA[1][i], AA[1][i]) for i in range(3)]))
    VBd = SpatialVec(Vec(*[D(VB[0][i], AB[0][i]) for i in range(3)]), Vec(*[D(VB[1][i], AB[1][i]) for i in range(3)]))
    pdot = VB[1] - VA[1]
    pd = Vec(*[D(p[i], pdot[i]) for i in range(3)])
    reld = f["findRelativeVelocityInF"](pd, VAd, VBd)
    dF = [S.vmap(lambda x: D(der(x)), reld[k]) for k in range(2)]
    oracle = SpatialVec(dF[0] - cross(VA[0], rel[0]), dF[1] - cross(VA[0], rel[1]))
    B.prove_eq("findRelativeAccelerationInF == d/dt (taken in A) of findRelativeVelocityInF", f["findRelativeAccelerationInF"](p, VA, AA, VB, AB), oracle, [], U, "findRelativeAccelerationInF")
    # versions with transforms: re-expression in A
    q = Vec(*[z3.Real("q%d" % i) for i in range(4)]); unit = [val(q.normSqr()) == 1]
    RA = Rquat(q); XA = Transform(RA, v3("pa")); XB = Transform(Rquat(Vec(*[z3.Real("u%d" % i) for i in range(4)])), v3("pb"))
    B.prove_eq("findRelativeVelocity == ~R_FA * findRelativeVelocityInF(pB-pA)", f["findRelativeVelocity"](XA, VA, XB, VB), (~RA) * f["findRelativeVelocityInF"](XB.p() - XA.p(), VA, VB), unit, U, "findRelativeVelocity")
    B.prove_eq("findRelativeAcceleration == ~R_FA * findRelativeAccelerationInF(pB-pA)", f["findRelativeAcceleration"](XA, VA, AA, XB, VB, AB), (~RA) * f["findRelativeAccelerationInF"](XB.p() - XA.p(), VA, AA, VB, AB), unit, U, "findRelativeAcceleration")
    # reversal: V_BA = -(V_AB shifted to A's origin), re-expressed in B; reversing twice is the identity
    XAB = Transform(RA, v3("pab"))
    XBA = Transform(~RA, -((~RA) * XAB.p()))
    Vab = sv("Vab")
    B.prove_eq("reverseRelativeVelocityInA == -(w, v - w x p_AB)", f["reverseRelativeVelocityInA"](XAB, Vab), SpatialVec(-Vab[0], -(Vab[1] - cross(Vab[0], XAB.p()))), [], U, "reverseRelativeVelocityInA")
    back = f["reverseRelativeVelocity"](XBA, f["reverseRelativeVelocity"](XAB, Vab))
    B.prove_eq("reverseRelativeVelocity twice (with X_BA = inverse) == identity", back, Vab, unit, U, "reverseRelativeVelocity", timeout_ms=60000)

    # ---------------- mass properties ----------------
    U2 = "massprops"
    m = z3.Real("m"); pp = v3("c")
    I3 = eye(3)
    pm = f["Inertia_pointMassAt"](pp, m)
    ppT = Mat([[pp[i] * pp[j] for j in range(3)] for i in range(3)])
    B.prove_eq("Inertia::pointMassAt == m(|p|^2 1 - p p^T)", pm.I_OF_F, (D(m) * pp.normSqr()) * I3 - D(m) * ppT, [], U2, "Inertia_::pointMassAt")
    B.prove_eq("UnitInertia::pointMassAt == |p|^2 1 - p p^T == -[p]x[p]x", f["UnitInertia_pointMassAt"](pp).I_OF_F, -(crossMat(pp) * crossMat(pp)), [], U2, "UnitInertia_::pointMassAt / crossMatSq")
    Isym = S.symmat33(*[z3.Real("I%d" % i) for i in range(6)])
    I0 = Inertia(Isym)
    B.prove_eq("shiftFromMassCenter == I + m(|p|^2 1 - p p^T) (parallel axis)", I0.shiftFromMassCenter(pp, m).I_OF_F, Isym + (D(m) * pp.normSqr()) * I3 - D(m) * ppT, [], U2, "Inertia_::shiftFromMassCenter")
    B.prove_eq("shiftToMassCenter(shiftFromMassCenter(I)) == I", I0.shiftFromMassCenter(pp, m).shiftToMassCenter(pp, m).I_OF_F, Isym, [], U2, "Inertia_::shiftToMassCenter")
    I1 = Inertia(Isym); I1.shiftFromMassCenterInPlace(pp, m); I1.shiftToMassCenterInPlace(pp, m)
    B.prove_eq("InPlace shift pair is the identity", I1.I_OF_F, Isym, [], U2, "Inertia_::shift*InPlace")
    I2 = Inertia(Isym); I2.shiftFromMassCenterInPlace(pp, m)
    B.prove_eq("shiftFromMassCenterInPlace == shiftFromMassCenter", I2.I_OF_F, I0.shiftFromMassCenter(pp, m).I_OF_F, [], U2, "Inertia_::shiftFromMassCenterInPlace")
    # spatial inertia: momentum and kinetic energy
    G = UnitInertia(S.symmat33(*[z3.Real("G%d" % i) for i in range(6)]))
    M0 = SpatialInertia(m, pp, G)
    Vv = sv("T")
    mom = M0 * Vv
    Icom_plus = D(m) * G.I_OF_F        # inertia about origin
    B.prove_eq("SpatialInertia*V == (I w + m p x v, m(v - p x w))", mom, SpatialVec(Icom_plus * Vv[0] + D(m) * cross(pp, Vv[1]), D(m) * (Vv[1] - cross(pp, Vv[0]))), [], U2, "SpatialInertia_::operator*")
    s = v3("s")
    M1 = M0.shift(s)
    V1 = f["shiftVelocityBy"](Vv, s)       # same motion measured at the new origin OF+s
    B.prove_eq("kinetic energy V^T M V invariant under SpatialInertia::shift", (~V1) * (M1 * V1), (~Vv) * mom, [], U2, "SpatialInertia_::shiftInPlace")
    B.prove_eq("shift: mass center measured from new origin == p - s", M1.p, pp - s, [], U2, "SpatialInertia_::shiftInPlace")
    B.prove_eq("shift: momentum shifts like a spatial force", M1 * V1, f["shiftForceBy"](mom, s), [], U2, "SpatialInertia_::shiftInPlace")
    Mback = M1.shift(-s)
    B.prove_eq("shift(s) then shift(-s): inertia restored", Mback.G.I_OF_F, G.I_OF_F, [], U2, "SpatialInertia_::shift")
    # articulated inertia
    U3 = "abi"
    Ms = S.symmat33(*[z3.Real("M%d" % i) for i in range(6)]); Js = S.symmat33(*[z3.Real("J%d" % i) for i in range(6)])
    Fm = Mat([[z3.Real("F%d%d" % (i, j)) for j in range(3)] for i in range(3)])
    Pab = ArticulatedInertia(Ms, Fm, Js)
    sx = crossMat(s)
    Fp_or = Fm + sx * Ms
    Jp_or = Js + sx * ~Fm - Fp_or * sx
    Psh = Pab.shift(s)
    B.prove_eq("ABI shift: F' == F + [s]x M", Psh.F, Fp_or, [], U3, "ArticulatedInertia_::shift")
    B.prove_eq("ABI shift: J' == J + [s]x F^T - F' [s]x  (== Phi P Phi^T block)", Psh.J, Jp_or, [], U3, "ArticulatedInertia_::shift")
    B.prove_eq("ABI shift: M' == M", Psh.M, Ms, [], U3, "ArticulatedInertia_::shift")
    Pip = ArticulatedInertia(Ms, Fm, Js); Pip.shiftInPlace(s)
    B.prove_eq("ABI shiftInPlace == shift (F)", Pip.F, Psh.F, [], U3, "ArticulatedInertia_::shiftInPlace")
    B.prove_eq("ABI shiftInPlace == shift (J)", Pip.J, Psh.J, [], U3, "ArticulatedInertia_::shiftInPlace")
    # quadratic form invariance: A' = A shifted consistently (ABI shift is by -s, see source comment)
    Av = sv("Z")
    B.prove_eq("ABI: V^T P V invariant under shift with V measured at the shifted point", (~f["shiftVelocityBy"](Av, -s)) * (Psh * f["shiftVelocityBy"](Av, -s)), (~Av) * (Pab * Av), [], U3, "ArticulatedInertia_::shift")
    B.prove_eq("ABI*V == (J w + F v, F^T w + M v)", Pab * Av, SpatialVec(Js * Av[0] + Fm * Av[1], (~Fm) * Av[0] + Ms * Av[1]), [], U3, "ArticulatedInertia_::operator*")
    x = v3("x")
    B.prove_eq("cross(Vec3,SymMat33) == [v]x S", f["cross_vec_symmat"](x, Ms), crossMat(x) * Ms, [], U3, "SimTK::cross(Vec3,SymMat33)")
    def lower(Mx): return [Mx.m[i][j] for i in range(3) for j in range(i + 1)]
    B.prove_eq("halfCross(v,F) == lower([v]x F)", Vec(*lower(f["halfCross_vF"](x, Fm))), Vec(*lower(crossMat(x) * Fm)), [], U3, "halfCross(v,F)")
    B.prove_eq("halfCross(G,v) == lower(G [v]x)", Vec(*lower(f["halfCross_Gv"](Fm, x))), Vec(*lower(Fm * crossMat(x))), [], U3, "halfCross(G,v)")
    Gm = Mat([[z3.Real("H%d%d" % (i, j)) for j in range(3)] for i in range(3)])
    B.prove_eq("halfCrossDiff(v,F,G) == lower([v]x F - G [v]x)", Vec(*lower(f["halfCrossDiff"](x, Fm, Gm))), Vec(*lower(crossMat(x) * Fm - Gm * crossMat(x))), [], U3, "halfCrossDiff")


    # ---------------- re-expression, transform, MassProperties_ ----------------
    U4 = "massprops.transform"
    X_ = B.extra; Rot, XForm, MassProperties, SM3 = X_["Rot"], X_["XForm"], X_["MassProperties"], X_["SM3"]
    qb = Vec(*[z3.Real("b%d" % i) for i in range(4)]); unitb = [val(qb.normSqr()) == 1]
    Rm = Rquat(qb); Rr = Rot(Rm)
    sm = S.symmat33(*[z3.Real("S%d" % i) for i in range(6)])
    T60 = 60000
    B.prove_eq("Rotation::reexpressSymMat33 == R S ~R", Rr.reexpressSymMat33(sm), Rm * sm * ~Rm, unitb, U4, "Rotation_::reexpressSymMat33", timeout_ms=T60)
    B.prove_eq("InverseRotation::reexpressSymMat33 == ~R S R", (~Rr).reexpressSymMat33(sm), (~Rm) * sm * Rm, unitb, U4, "InverseRotation_::reexpressSymMat33", timeout_ms=T60)
    Ire = Inertia(sm).reexpress(Rr)
    B.prove_eq("Inertia::reexpress(R_FB) == ~R I R", Ire.I_OF_F, (~Rm) * sm * Rm, unitb, U4, "Inertia_::reexpress", timeout_ms=T60)
    # principal moments preserved: the characteristic polynomial (trace, sum of principal 2x2 minors, determinant) is invariant
    A0, A1 = Mat(sm.m), Mat(Ire.I_OF_F.m)
    tr = lambda A: A.m[0][0] + A.m[1][1] + A.m[2][2]
    m2 = lambda A: (A.m[0][0] * A.m[1][1] - A.m[0][1] * A.m[1][0]) + (A.m[0][0] * A.m[2][2] - A.m[0][2] * A.m[2][0]) + (A.m[1][1] * A.m[2][2] - A.m[1][2] * A.m[2][1])
    B.prove_eq("reexpress preserves the trace (sum of principal moments)", tr(A1), tr(A0), unitb, U4, "Inertia_::reexpress", timeout_ms=T60)
    B.prove_eq("reexpress preserves the second invariant (sum of products of principal moments)", m2(A1), m2(A0), unitb, U4, "Inertia_::reexpress", timeout_ms=T60)
    B.prove_eq("reexpress preserves the determinant (product of principal moments)", S.det3(A1), S.det3(A0), unitb, U4, "Inertia_::reexpress", timeout_ms=120000)
    B.prove_eq("reexpress(R) then reexpress(~R) == identity", Inertia(sm).reexpress(Rr).reexpress(~Rr).I_OF_F, sm, unitb, U4, "Inertia_::reexpress", timeout_ms=T60)
    # SpatialInertia: reexpress / transform keep momentum and kinetic energy consistent
    G2 = UnitInertia(S.symmat33(*[z3.Real("G%d" % i) for i in range(6)]))
    M2 = SpatialInertia(m, pp, G2)
    Xfb = XForm(Rr, s)
    Mt = SpatialInertia(M2).transform(Xfb)
    B.prove_eq("SpatialInertia::transform: mass unchanged", Mt.m, m, unitb, U4, "SpatialInertia_::transformInPlace")
    B.prove_eq("SpatialInertia::transform: mass centre == ~R (p - s) (measured from and expressed in the new frame)", Mt.p, (~Rm) * (pp - s), unitb, U4, "SpatialInertia_::transformInPlace", timeout_ms=T60)
    V_F = sv("T")
    V_B = SpatialVec((~Rm) * V_F[0], (~Rm) * (V_F[1] + cross(V_F[0], s)))         # the same motion measured at OB, expressed in B
    B.prove_eq("kinetic energy V^T M V invariant under SpatialInertia::transform (shift + re-expression)", (~V_B) * (Mt * V_B), (~V_F) * (M2 * V_F), unitb, U4, "SpatialInertia_::transformInPlace", timeout_ms=120000)
    # MassProperties_
    U5 = "massprops.class"
    mp = MassProperties(m, pp, G2)
    Io = D(m) * G2.I_OF_F                                                        # inertia about the origin
    pmI = lambda c_: (D(m) * c_.normSqr()) * I3 - D(m) * Mat([[c_[i] * c_[j] for j in range(3)] for i in range(3)])
    B.prove_eq("MassProperties::calcInertia == m G", mp.calcInertia().I_OF_F, Io, [], U5, "MassProperties_::calcInertia")
    B.prove_eq("MassProperties::calcCentralInertia == I_O - m(|c|^2 1 - c c^T)", mp.calcCentralInertia().I_OF_F, Io - pmI(pp), [], U5, "MassProperties_::calcCentralInertia")
    B.prove_eq("MassProperties::calcShiftedInertia(s) == central + m(|s-c|^2 1 - (s-c)(s-c)^T)", mp.calcShiftedInertia(s).I_OF_F, Io - pmI(pp) + pmI(s - pp), [], U5, "MassProperties_::calcShiftedInertia")
    def scripted(script, fn):
        """run fn with the given decisions at its symbolic branches (here: the `m == 0` test of setMassProperties); returns (path conditions, result)"""
        B.branch_script, B.branch_pos, B.path = list(script), 0, []
        r_ = fn()
        return list(B.path), r_
    pth, shifted = scripted([False] * 4, lambda: mp.calcShiftedMassProps(s))
    nz = [m != 0] + pth
    sp_sh = SpatialInertia(M2).shift(s)
    B.prove_eq("calcShiftedMassProps agrees with SpatialInertia::shift: mass centre", shifted.comInB, sp_sh.p, nz, U5, "MassProperties_::calcShiftedMassProps")
    B.prove_eq("calcShiftedMassProps agrees with SpatialInertia::shift: inertia", D(val(shifted.mass)) * shifted.unitInertia_OB_B.I_OF_F, D(m) * sp_sh.G.I_OF_F, nz, U5, "MassProperties_::calcShiftedMassProps", timeout_ms=T60)
    B.prove_eq("calcShiftedMassProps: central inertia unchanged by a shift of origin", shifted.calcCentralInertia().I_OF_F, mp.calcCentralInertia().I_OF_F, nz, U5, "MassProperties_::calcShiftedMassProps", timeout_ms=T60)
    pth, tr_mp = scripted([False] * 4, lambda: mp.calcTransformedMassProps(Xfb))
    nz = [m != 0] + pth
    B.prove_eq("calcTransformedMassProps: mass unchanged", tr_mp.mass, m, nz, U5, "MassProperties_::calcTransformedMassProps")
    B.prove_eq("calcTransformedMassProps agrees with SpatialInertia::transform: mass centre", tr_mp.comInB, Mt.p, unitb + nz, U5, "MassProperties_::calcTransformedMassProps", timeout_ms=T60)
    B.prove_eq("calcTransformedMassProps: mass centre == ~X_BC * c = ~R (c - p)", tr_mp.comInB, (~Rm) * (pp - s), unitb + nz, U5, "MassProperties_::calcTransformedMassProps", timeout_ms=T60)
    B.prove_eq("calcTransformedMassProps agrees with SpatialInertia::transform: inertia", D(val(tr_mp.mass)) * tr_mp.unitInertia_OB_B.I_OF_F, D(m) * Mt.G.I_OF_F, unitb + nz, U5, "MassProperties_::calcTransformedMassProps", timeout_ms=120000)
    B.prove_eq("calcTransformedInertia == ~R (shifted inertia) R", mp.calcTransformedInertia(Xfb).I_OF_F, (~Rm) * Mat(mp.calcShiftedInertia(s).I_OF_F.m) * Rm, unitb, U5, "MassProperties_::calcTransformedInertia", timeout_ms=120000)
    re_mp = mp.reexpress(Rr)
    B.prove_eq("MassProperties::reexpress: mass centre == ~R c", re_mp.comInB, (~Rm) * pp, unitb, U5, "MassProperties_::reexpress", timeout_ms=T60)
    B.prove_eq("MassProperties::reexpress: unit inertia == ~R G R", re_mp.unitInertia_OB_B.I_OF_F, (~Rm) * Mat(G2.I_OF_F.m) * Rm, unitb, U5, "MassProperties_::reexpress", timeout_ms=T60)
    pth, mp0 = scripted([False] * 4, lambda: MassProperties(m, pp, Inertia(sm)))
    nz = [m != 0] + pth
    pth0, mpz = scripted([True] * 4, lambda: MassProperties(m, pp, Inertia(sm)))
    B.prove_eq("MassProperties(m == 0, c, Inertia): unit inertia stored as zero", mpz.unitInertia_OB_B.I_OF_F, S.symmat33(0), pth0, U5, "MassProperties_::setMassProperties")
    B.prove_bool("MassProperties(m, c, Inertia): the zero-mass branch is taken exactly for m == 0", z3.And(*pth0) == (m == 0), [], U5, "MassProperties_::setMassProperties")
    B.prove_eq("MassProperties(m, c, Inertia): stored unit inertia * m == the inertia (m != 0)", D(m) * mp0.unitInertia_OB_B.I_OF_F, sm, nz, U5, "MassProperties_::setMassProperties", timeout_ms=T60)
    # SpatialInertia += / -= : mass-weighted merge; momentum is additive; -= undoes +=
    m_b = z3.Real("mb"); p_b = v3("cb"); G_b = UnitInertia(S.symmat33(*[z3.Real("Gb%d" % i) for i in range(6)]))
    Ma, Mb = SpatialInertia(m, pp, G2), SpatialInertia(m_b, p_b, G_b)
    Msum = SpatialInertia(Ma); Msum.iadd(Mb)
    tot = [m + m_b != 0]
    B.prove_eq("SpatialInertia +=: masses add", Msum.m, D(m) + D(m_b), tot, U5, "SpatialInertia_::operator+=")
    B.prove_eq("SpatialInertia +=: momentum of the sum == sum of the momenta (any motion)", Msum * V_F, SpatialVec((Ma * V_F)[0] + (Mb * V_F)[0], (Ma * V_F)[1] + (Mb * V_F)[1]), tot, U5, "SpatialInertia_::operator+=", timeout_ms=T60)
    Mback2 = SpatialInertia(Msum); Mback2.isub(Mb)
    B.prove_eq("SpatialInertia (a += b) -= b: momentum restored (m_a != 0)", Mback2 * V_F, Ma * V_F, tot + [m != 0], U5, "SpatialInertia_::operator-=", timeout_ms=T60)

    # ---------------- isValidInertiaMatrix ----------------
    U6 = "massprops.valid"
    sig = z3.Real("SignificantP"); f["SignificantP"] = D(sig)
    dI = [z3.Real("I%d" % i) for i in (0, 2, 5)]        # diagonal of Isym: symmat33(a00,a10,a11,a20,a21,a22)
    lo = [z3.Real("I%d" % i) for i in (1, 3, 4)]        # products: m10, m20, m21
    trace = dI[0] + dI[1] + dI[2]
    slop = z3.If(trace >= 1, trace, z3.RealVal(1)) * sig
    sigpos = [sig > 0]
    aabs = lambda e_: z3.If(e_ >= 0, e_, -e_)
    documented = z3.And(dI[0] >= 0, dI[1] >= 0, dI[2] >= 0,
                        dI[0] + dI[1] + slop >= dI[2], dI[0] + dI[2] + slop >= dI[1], dI[1] + dI[2] + slop >= dI[0],
                        dI[0] + slop >= aabs(2 * lo[2]), dI[1] + slop >= aabs(2 * lo[1]), dI[2] + slop >= aabs(2 * lo[0]))
    npv = 0; seenv = set()
    for path, script, res in B.run_paths(lambda: f["isValidInertiaMatrix"](SM3(Isym)), 12):
        key = tuple(str(c_) for c_ in path)
        if key in seenv: continue
        seenv.add(key)
        s_ = z3.Solver(); s_.add(*(sigpos + path))
        if s_.check() != z3.sat: continue
        npv += 1
        accepted = bool(res) if isinstance(res, bool) else res
        if accepted is True:
            B.prove_bool("isValidInertiaMatrix path %d (accepted): diagonals >= 0, triangle inequalities and product bounds hold within Significant*max(trace,1)" % npv, documented, sigpos + path, U6, "Inertia_::isValidInertiaMatrix")
        elif accepted is False:
            B.prove_bool("isValidInertiaMatrix path %d (rejected): some documented condition is violated by more than the relative slop Significant*max(trace,1)" % npv, z3.Not(documented), sigpos + path, U6, "Inertia_::isValidInertiaMatrix")
        else:
            ctx.undecide("isValidInertiaMatrix path %d returned a non-boolean %r" % (npv, res))
    if npv < 4:
        ctx.undecide("isValidInertiaMatrix: only %d feasible paths explored" % npv)

    s_ = z3.Solver(); s_.add(*unit)
    ctx.add(Obligation("guard:unit quaternion satisfiable", "guards", "z3", "discharged" if s_.check() == z3.sat else "undecided", 0, "reachability guard"))
    ctx.checker_cmds.append("z3 (python API, QF_NRA); SMT-LIB files in out/C29/smt2; cvc5 re-check in thorough tier")
    ctx.trust("z3 4.x / cvc5 1.0 (QF_NRA)"); ctx.trust("tools/translit.py rule table (logged) and tools/symlib.py shim")
    ctx.assume("machine arithmetic treated as mathematical (reals)")
    ctx.assume("class plumbing assumed (thin Python shim): Inertia_/UnitInertia_/SpatialInertia_/ArticulatedInertia_ constructors, copy, SymMat storage as a full symmetric matrix, scalar*Inertia, errChk() dropped")
    ctx.assume("Rotation matrices are parametrised by unit quaternions (proper orthonormal by C27)")
    ctx.not_decided += ["positive semidefiniteness of accepted inertias (isValidInertiaMatrix tests necessary conditions only: diagonals, triangle inequalities, product bounds)",
                        "float rounding in the validity thresholds (Significant is a symbolic positive real)", "errChk() debug-mode rejection in constructors and operators (dropped by the extractor)",
                        "InverseTransform_/InverseRotation_ overloads other than reexpressSymMat33; toSpatialMat/toMat66; UnitInertia shape factories (sphere, cylinder, brick, ...)"]
    ctx.explanation = "%d functions transliterated; %d obligations." % (len(ctx.functions), len(ctx.obligations))
    return ctx.finish(replayer=lambda ob: replay(ctx, ob))


_EXE = {}


def replay(ctx, ob):
    if "exe" not in _EXE:
        mech = os.path.join(REPO, "SimTKcommon/Mechanics/src")
        _EXE["exe"] = native_build(ctx, "c29_replay", os.path.join(VERIF, "replay/c29_replay.cpp"), libs=True,
                                   extra_srcs=[os.path.join(mech, "MassProperties.cpp")])
    rc, o, e, t = run([_EXE["exe"], str(ctx.seed)], 120)
    return dict(cmd="c29_replay %d (random sweep of the same identities on the real code)" % ctx.seed, output=o[-3000:]), "REPRODUCED:" in o
