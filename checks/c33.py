"""C33 - Parallel executors: the SEQUENTIAL partition/striping clauses only (back end A, route M2).
threadBody striping loop, non-parallel branch of execute, Parallel2DExecutorImpl::init (levels, binStart),
addSquare/addTriangle recursion (pair coverage, conflict-freedom per pass), TriangleTask/SquareTask loops.
All schedule/interleaving clauses are NOT decided."""
import os, re, json
from vlib import *
from extract import *

PID = "C33"
META = dict(
    category="other",
    text=("CBMC contracts on code cut from ParallelExecutor.cpp / Parallel2DExecutor.cpp each run: the striping loop of threadBody executes exactly "
          "the indices k = me (mod T), k < count, each once (loop contract, all counts <= INT_MAX-T, all T), stripes partition [0,count); the non-parallel "
          "branch runs initialize, execute(0..times-1) in order, finish; Parallel2DExecutorImpl::init: bins = 2^levels with 2^(levels-1) >= numProcessors, "
          "binStart[0]=0, monotone, binStart[bins]=gridSize; addSquare/addTriangle: every pair of bins outside the width-2 diagonal blocks is covered by "
          "exactly one square of exactly one pass and squares of one pass share no row/column bin (bounded stand-in: numProcessors <= 32, i.e. levels <= 6); "
          "TriangleTask/SquareTask loops visit each (i,j) of the requested range type once (bounded stand-in: blocks <= 4 wide). "
          "Every clause about thread interleavings is not decided."),
    note=("Trusted: CBMC 6.11 + MiniSat, extractor rule tables; assumed: Task::initialize/execute/finish by ghost contract, Array_ containers as "
          "bounds-checked arrays / append-only list, count <= INT_MAX - threadCount (otherwise `index += threadCount` overflows)."),
    technique="CBMC function + loop contracts (dfcc) and fully unwound plain harnesses on mechanically extracted real code",
    design_ref="4 C33")
SPEC = os.path.join(VERIF, "specs", PID)
PE_CPP = os.path.join(REPO, "SimTKcommon/src/ParallelExecutor.cpp")
P2_CPP = os.path.join(REPO, "SimTKcommon/src/Parallel2DExecutor.cpp")
P2_H = os.path.join(REPO, "SimTKcommon/src/Parallel2DExecutorImpl.h")


def build_pe_unit(ctx):
    parts = ['#include "%s/pe_spec.h"\n' % SPEC]
    c = cut_region(PE_CPP, r"int index = info\.index;", r"catch \(const std::exception& ex\)", "threadBody#striping-loop")
    r = Rewriter(c.body, "threadBody#striping-loop")
    r.sub("reference-member->parameter", r"\binfo\.index\b", "info_index", 1)
    r.drop("exception plumbing: try frame (handlers only print; contract is for non-throwing tasks)", r"\btry \{", "", 1)
    r.drop("exception plumbing: end of try frame", r"\}\s*$", "", 1)
    r.sub("virtual call -> ghost-contracted stub", r"\btask\.execute\(", "Task_execute(", 1)
    r.splice_loop("loop-contract:threadBody#loop", r"while \(index < count\)",
                  "__CPROVER_assigns(index, g_cnt, g_bad, g_last)\n__CPROVER_loop_invariant(STRIPE_INV(index))\n__CPROVER_decreases(count - index + threadCount)")
    ctx.add_function(PE_CPP, "threadBody (striping loop)", c.start, c.end, c.text, "M2", r.dropped, r.log)
    parts.append("void stripe(int info_index, int count, int threadCount)\n{\n" + r.text + "\n}\n")

    c = cut_region(PE_CPP, r"task\.initialize\(\);", r"return;", "ParallelExecutorImpl::execute#non-parallel")
    r = Rewriter(c.body, "ParallelExecutorImpl::execute#non-parallel")
    r.sub("virtual call -> ghost-contracted stub", r"\btask\.initialize\(\)", "Task_initialize()", 1)
    r.sub("virtual call -> ghost-contracted stub", r"\btask\.execute\(", "Task_execute(", 1)
    r.sub("virtual call -> ghost-contracted stub", r"\btask\.finish\(\)", "Task_finish()", 1)
    r.splice_loop("loop-contract:execute#loop", r"for \(int i = 0; i < times; \+\+i\)",
                  "__CPROVER_assigns(i, g_cnt, g_bad, g_last)\n__CPROVER_loop_invariant(SERIAL_INV(i))")
    ctx.add_function(PE_CPP, "ParallelExecutorImpl::execute (non-parallel branch)", c.start, c.end, c.text, "M2", r.dropped, r.log)
    parts.append("void serial_execute(int times)\n{\n" + r.text + "\n}\n")
    parts.append('#include "%s/pe_harness.h"\n' % SPEC)
    path = os.path.join(ctx.out, "pe_unit.c")
    open(path, "w").write("\n".join(parts))
    return path


def build_p2_unit(ctx):
    parts = ['#include "%s/p2_pre.h"\n' % SPEC]
    P2_PUB = os.path.join(REPO, "SimTKcommon/include/SimTKcommon/internal/Parallel2DExecutor.h")
    en = cut_region(P2_PUB, r"enum RangeType \{", r"explicit Parallel2DExecutor\(", "Parallel2DExecutor::RangeType")
    m = re.search(r"enum RangeType \{[^}]*\};", strip_comments(en.body))
    if not m:
        raise ExtractionError("enum RangeType not found")
    ctx.add_function(P2_PUB, "Parallel2DExecutor::RangeType", en.start, en.end, m.group(0), "M2")
    parts.append(m.group(0) + "\n")

    def fn(path, anchor, name, header, rules, occurrence=1, expect_total=None):
        c = cut_function(path, anchor, name, occurrence=occurrence, expect_total=expect_total)
        r = Rewriter("{" + c.body + "}", name)
        rules(r)
        ctx.add_function(path, name, c.start, c.end, c.text, "M2", r.dropped, r.log)
        parts.append(header + "\n" + r.text + "\n")

    parts.append("void addSquare(struct P2* self, int x, int y, int pass, int level);\nvoid addTriangle(struct P2* self, int x, int y, int pass, int level);\n")
    fn(P2_H, r"int getBinStart\(int bin\) const\s*", "Parallel2DExecutorImpl::getBinStart", "static int getBinStart(const struct P2* self, int bin)",
       lambda r: r.sub("container-access->bounds-checked", r"\bbinStart\[([^\]]+)\]", r"(*binStart_ref((struct P2*)self, \1))", 1), expect_total=1)

    def x_init(r):
        r.sub("container-resize->model", r"\bsquares\.resize\(", "squares_resize(self, ", 1)
        r.sub("container-resize->model", r"\bbinStart\.resize\(", "binStart_resize(self, ", 1)
        r.sub("implicit-this-call (INIT_ADDTRIANGLE = addTriangle, or its argument recorder in the levels units)", r"\baddTriangle\(", "INIT_ADDTRIANGLE(self, ", 1)
        r.sub("container-access->bounds-checked", r"\bbinStart\[([^\]]+)\]", r"(*binStart_ref(self, \1))", 2)
        r.sub("libm", r"std::floor\(", "floor(", 1)
        r.members(["gridSize"])
    fn(P2_CPP, r"void Parallel2DExecutorImpl::init\(int numProcessors\)\s*", "Parallel2DExecutorImpl::init", "void init(struct P2* self, int numProcessors)", x_init, expect_total=1)

    def x_sq(r):
        r.sub("container-append->model", r"squares\[([^\]]+)\]\.push_back\(pair<int, int>\(([^,]+), ([^)]+)\)\)", r"squares_push(self, \1, \2, \3)", 1)
        r.sub("implicit-this-call", r"\baddSquare\(", "addSquare(self, ", 4)
    fn(P2_CPP, r"void Parallel2DExecutorImpl::addSquare\(int x, int y, int pass, int level\)\s*", "Parallel2DExecutorImpl::addSquare",
       "void addSquare(struct P2* self, int x, int y, int pass, int level)", x_sq, expect_total=1)

    def x_tr(r):
        r.sub("implicit-this-call", r"\baddSquare\(", "addSquare(self, ", 1)
        r.sub("implicit-this-call", r"\baddTriangle\(", "addTriangle(self, ", 2)
    fn(P2_CPP, r"void Parallel2DExecutorImpl::addTriangle\(int x, int y, int pass, int level\)\s*", "Parallel2DExecutorImpl::addTriangle",
       "void addTriangle(struct P2* self, int x, int y, int pass, int level)", x_tr, expect_total=1)

    def x_tt(r):
        r.sub("member-call", r"\bexecutor\.getBinStart\(", "getBinStart(self->executor, ", 2)
        r.sub("virtual call -> ghost model", r"\btask\.execute\(", "Task2_execute(", 3)
        r.sub("scope-flatten", r"Parallel2DExecutor::", "", 3)
        r.members(["rangeType", "width"])
    fn(P2_CPP, r"void execute\(int index\) override\s*", "Parallel2DExecutorImpl::TriangleTask::execute",
       "void TriangleTask_execute(struct TriangleTask* self, int index)", x_tt, occurrence=1, expect_total=2)

    def x_st(r):
        r.sub("reference->value (container element)", r"const pair<int,int>& square = squares\[index\];", "const struct IntPair square = SquareList_get(self, index);", 1)
        r.sub("member-call", r"\bexecutor\.getBinStart\(", "getBinStart(self->executor, ", 4)
        r.sub("virtual call -> ghost model", r"\btask\.execute\(", "Task2_execute(", 3)
        r.sub("scope-flatten", r"Parallel2DExecutor::", "", 3)
        r.members(["rangeType"])
    fn(P2_CPP, r"void execute\(int index\) override\s*", "Parallel2DExecutorImpl::SquareTask::execute",
       "void SquareTask_execute(struct SquareTask* self, int index)", x_st, occurrence=2, expect_total=2)
    parts.append('#include "%s/p2_harness.h"\n' % SPEC)
    path = os.path.join(ctx.out, "p2_unit.c")
    open(path, "w").write("\n".join(parts))
    return path


def main(ctx):
    ctx.level = "other"
    try:
        pe_c = build_pe_unit(ctx)
        p2_c = build_p2_unit(ctx)
    except ExtractionError as e:
        ctx.undecide("extraction: %s" % e)
        return ctx.finish()
    jobs = []
    CHK = ["--signed-overflow-check", "--div-by-zero-check", "--bounds-check", "--pointer-check"]
    STUBS_ = ["Task_execute", "Task_initialize", "Task_finish"]
    for T in range(1, 33):
        jobs.append(lambda T=T: cbmc_unit(ctx, "pe.stripe.T%02d" % T, [pe_c], "h_stripe", enforce="stripe", replace=STUBS_, loop_contracts=True, cbmc_args=CHK,
                                          cc_args=["-DTFIX=%d" % T], require_props=[r"postcondition", r"loop_invariant_base", r"loop_invariant_step", r"overflow"],
                                          function="threadBody", timeout=280,
                                          bounded="threadCount = %d (one unit per thread count 1..32, the property's domain; count <= INT_MAX-T and the thread index are unbounded; symbolic `%% T` does not finish)" % T))
    jobs.append(lambda: cbmc_unit(ctx, "pe.serial", [pe_c], "h_serial", enforce="serial_execute", replace=STUBS_, loop_contracts=True, cbmc_args=CHK,
                                  require_props=[r"postcondition", r"loop_invariant_base", r"loop_invariant_step"], function="ParallelExecutorImpl::execute", timeout=280))
    jobs.append(lambda: cbmc_unit(ctx, "pe.partition", [pe_c], "h_partition", no_dfcc=True, cbmc_args=["--div-by-zero-check"], min_obligations=2,
                                  function="threadBody (stripes partition the index range)", timeout=120))
    # Parallel2DExecutor: one unit per levels value (numProcessors range), everything else symbolic
    P2CHK = ["--signed-overflow-check", "--div-by-zero-check", "--bounds-check", "--pointer-check", "--unwinding-assertions"]
    for np_ in range(0, 9):
        jobs.append(lambda np_=np_: cbmc_unit(ctx, "p2.init.np%02d" % np_, [p2_c], "h_init", no_dfcc=True,
                                              cc_args=["-DNP_LO=%d" % np_, "-DNP_HI=%d" % np_, "-DBLK=4", "-DNO_REC", "-DNSQ_MAX=1", "-DLEVELS=2"],
                                              cbmc_args=P2CHK + ["--unwind", "8", "--unwindset", "init.1:66"],
                                              min_obligations=10, require_props=[r"h_init\.assertion"], function="Parallel2DExecutorImpl::init", timeout=280,
                                              bounded="numProcessors = %d (one unit per value 0..8, bins <= 32; numProcessors 9..32 with 64 bins does not finish in the quick tier); gridSize symbolic in [0, INT_MAX/64]" % np_))
    for L in range(2, 6):
        nsq = (1 << L) * ((1 << L) - 2) // 2
        jobs.append(lambda L=L, nsq=nsq: cbmc_unit(ctx, "p2.squares.L%d" % L, [p2_c], "h_squares", no_dfcc=True,
                                                   cc_args=["-DNP_LO=2", "-DNP_HI=2", "-DBLK=4", "-DNSQ_MAX=%d" % nsq, "-DLEVELS=%d" % L],
                                                   cbmc_args=P2CHK + ["--unwind", "8", "--unwindset", "h_squares.0:%d" % (nsq + 1)],
                                                   min_obligations=4, require_props=[r"h_squares\.assertion"], function="Parallel2DExecutorImpl::addSquare/addTriangle", timeout=280,
                                                   bounded="levels = %d (bins = %d; levels 2..5 cover numProcessors <= 16; levels = 6 does not finish in the quick tier), recursion fully unwound" % (L, 1 << L)))
    for h in ("h_triangle", "h_square"):
        jobs.append(lambda h=h: cbmc_unit(ctx, "p2." + h[2:], [p2_c], h, no_dfcc=True, cc_args=["-DNP_LO=0", "-DNP_HI=1", "-DBLK=4", "-DNSQ_MAX=1", "-DLEVELS=2"],
                                          cbmc_args=P2CHK + ["--unwind", "10"], min_obligations=2, require_props=[h + r"\.assertion"],
                                          function="Parallel2DExecutorImpl::%sTask::execute" % ("Triangle" if "tri" in h else "Square"), timeout=280,
                                          bounded="bins at most 4 wide (blocks up to 8x8), 4 bins; range type symbolic"))
    parallel(jobs)
    ctx.trust("cbmc/goto-cc/goto-instrument 6.11.0 (C front end), MiniSat")
    ctx.trust("tools/extract.py rule tables (extraction_report.json lists every rewrite and dropped token)")
    ctx.assume("ParallelExecutor::Task::initialize/execute/finish by ghost contract (the user's work is opaque; the ghost bookkeeping is the specification)")
    ctx.assume("threadBody: count <= INT_MAX - threadCount; beyond that `index += threadCount` is a signed overflow (undefined behaviour) - latent, outside the property's task counts (0..10000)")
    ctx.assume("threadBody: exceptions thrown by the task are not modelled (try frame dropped; handlers only print)")
    ctx.assume("Parallel2DExecutorImpl containers modelled: binStart = bounds-checked int array with ghost length, squares = append-only list of (pass,x,y); gridSize <= INT_MAX/64 so that i*gridSize does not overflow")
    ctx.assume("the recursion is started by init exactly as in the squares units: addTriangle(0,0,0,levels) with bins == 2^levels (checked in the init units by recording the call)")
    ctx.not_decided += ["every clause about thread interleavings: initialize-before/finish-after ordering across threads, mutual exclusion of finish, lost wake-ups, return-after-completion, data races",
                        "ParallelWorkQueue (add/flush/destruct protocol) - entirely schedule dependent",
                        "'never runs two invocations sharing an index concurrently' is decided only as: squares of ONE pass share no row/column bin, given that the executor runs one pass at a time (that it does is a schedule clause)",
                        "binStart clauses for numProcessors 9..32 (64 bins: 64 double divisions do not finish in the quick tier) and square coverage for levels = 6",
                        "striping for thread counts > 32 and a single proof symbolic in threadCount (symbolic modulus does not finish)"]
    ctx.explanation = ("threadBody striping (each index of the stripe exactly once, in order, nothing outside; stripes partition the range; overflow obligation under count<=INT_MAX-T) "
                       "as loop contract per thread count 1..32; non-parallel branch of execute (unbounded, loop contract); init levels/bins/binStart for numProcessors 0..8; "
                       "addSquare/addTriangle coverage exactly-once and per-pass conflict freedom for levels 2..5; TriangleTask/SquareTask loops on small blocks.")
    return ctx.finish()
