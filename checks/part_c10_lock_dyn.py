"""Part of C10 (hooked into part_c10_lock.py): the prescribed-udot computation of MobilizedBodyImpl::realizeDynamics
(Simbody/src/MobilizedBody.cpp) under contract.

Back end A, route M2.  The whole function is cut from the tree on each run and rewritten to C by the logged rules below (+ the
common rules of the lock part).  The State stand-in of specs/C10lock/lock_pre.h provides this mobilizer's model / instance cache
entries and the dynamics-cache pool presUDotPool; specs/C10lock/dynamics_pre.h provides ABSTRACT stand-ins of
Motion::calcPrescribedPositionDotDot / VelocityDot / Acceleration and RigidBodyNode::multiplyByNDot / multiplyByNInv: they fill their
output vector with arbitrary values and record calls, arguments, the output (ghost element g_ul / whole q-sized vector) and (NInv) the INPUT vector.
The element-wise subtraction of the source becomes the opaque recorded operator vf_sub (see dynamics_pre.h).
Plain harnesses (specs/C10lock/dynamics_lemma.h; the loops over the own slots are unwound, at most 7 iterations):

  position level Motion, N != I:  the vector handed to multiplyByNInv is element-wise  qdotdot_prescribed[i] - (NDot*u)[i]  with NDot*u the
      output of multiplyByNDot applied (from the left) to the current u slots of THIS mobilizer; the result of multiplyByNInv is what
      lands in this mobilizer's own presUDotPool slots;  qdot == u: own slots := prescribed qdotdot
  velocity level:      own slots := Motion::calcPrescribedVelocityDot;   acceleration level: own slots := calcPrescribedAcceleration
  lock (Acceleration): own slots := lockedUs[own] (so +0 after lock(Acceleration)); the Motion is not consulted (lock overrides)
  udotMethod != Prescribed (every Position / Velocity lock): nothing written, nothing consulted
  frame: no other pool slot, no u / lockedUs / lock level is written; realizeDynamicsVirtual called once."""
import os
from vlib import *
from extract import *

NAME = "MobilizedBodyImpl::realizeDynamics"
ANCHOR = r"void MobilizedBodyImpl::realizeDynamics\(const SBStateDigest& sbs\) const\s*"
SIG = "void MI_realizeDynamics(const struct MobodImpl* self, struct State* sbs)"


def rewrite(r):
    r.sub("references -> pointers: const SBxxx& x = sbs.getXxx()", r"const\s+(SBInstanceVars|SBInstanceCache|SBModelCache)&\s*(\w+)\s*=\s*sbs\.(get\w+)\(\)\s*;",
          r"const struct \1* \2 = Digest_\3(sbs);", 3)
    r.sub("references -> pointers + container -> stub: const SBxxxPerMobodInfo& x = cache.getMobodXxxInfo(mbx)",
          r"const\s+(SBInstancePerMobodInfo|SBModelPerMobodInfo)&\s*(\w+)\s*=\s*(\w+)\.(getMobod\w+Info)\((\w+)\)\s*;", r"const struct \1* \2 = \4(\3, \5);", 2)
    r.sub("references -> pointers: SBDynamicsCache& dc = sbs.updDynamicsCache()", r"\bSBDynamicsCache&\s*dc\s*=\s*sbs\.updDynamicsCache\(\)\s*;",
          r"struct SBDynamicsCache* dc = Digest_updDynamicsCache(sbs);", 1)
    r.sub("container access (address): &dc.presUDotPool[i]", r"&\s*dc\.presUDotPool\[((?:[^\[\]])+)\]", r"pool_addr(&dc->presUDotPool, \1)", 1)
    r.sub("references -> pointers: instInfo. / modelInfo.", r"\b(instInfo|modelInfo)\.", r"\1->", 7)
    r.sub("implicit this: hasMotion()", r"(?<![\w.>])hasMotion\(\)", "hasMotion(self)", 1)
    r.sub("container -> stub: iv.prescribedMotionIsDisabled[mbx]", r"\biv\.prescribedMotionIsDisabled\[(\w+)\]", r"motionDisabled_get(iv, \1)", 1)
    r.sub("references -> pointers + implicit this: const MotionImpl& motion = getMotion().getImpl()", r"const\s+MotionImpl&\s*motion\s*=\s*getMotion\(\)\s*\.\s*getImpl\(\)\s*;",
          "const struct MotionImpl* motion = getMotionImpl(self);", 1)
    r.sub("references -> pointers + implicit this: const RigidBodyNode& rbn = getMyRigidBodyNode()", r"const\s+RigidBodyNode&\s*rbn\s*=\s*getMyRigidBodyNode\(\)\s*;",
          "const struct RigidBodyNode* rbn = getMyRigidBodyNode(self);", 1)
    r.sub("references -> pointers: rbn.f() -> RBN_f(rbn)", r"\brbn\.(\w+)\(\)", r"RBN_\1(rbn)", 1)
    r.sub("references -> pointers: rbn.multiplyByX(...) -> contracted stub RBN_multiplyByX(rbn, ...)", r"\brbn\.(multiplyBy\w+)\(", r"RBN_\1(rbn, ", 2)
    r.sub("references -> pointers: motion.calcPrescribedX(...) -> contracted stub Motion_calcPrescribedX(motion, ...)", r"\bmotion\.(calcPrescribed\w+)\(", r"Motion_\1(motion, ", 4)
    r.sub("references -> pointers: sbs.getState()", r"\bsbs\.getState\(\)", "Digest_getState(sbs)", 5)
    r.sub("references -> pointers: const Vector& u = sbs.getU()", r"const\s+Vector&\s*u\s*=\s*sbs\.getU\(\)\s*;", "const struct Vector* u = Digest_getU(sbs);", 1)
    r.sub("container access (address): &u[i]", r"&\s*u\[(\w+)\]", r"vec_addr(u, \1)", 1)
    r.sub("symbolic float subtraction -> opaque operator with recorded operands (as vf_mul for products): x[i] -= y[i]  ->  x[i] = vf_sub(x[i], y[i])",
          r"\b(\w+)\[(\w+)\]\s*-=\s*(\w+)\[(\w+)\]\s*;", r"\1[\2] = vf_sub(\1[\2], \3[\4]);", 1)
    r.sub("implicit this + opaque statement -> framed call: realizeDynamicsVirtual(state)", r"(?<![\w.>])realizeDynamicsVirtual\(", "realizeDynamicsVirtual(self, ", 1)
    return r


def build(ctx, spec):
    import part_c10_lock as L
    c = cut_function(L.MB_CPP, ANCHOR, NAME, expect_total=1)
    r = Rewriter(c.body, NAME)
    rewrite(r)
    L.common(r)
    ctx.add_function(L.MB_CPP, NAME, c.start, c.end, c.text, "M2", r.dropped, r.log)
    return ['#include "%s/dynamics_pre.h"' % spec,
            "/* %s  (%s:%d-%d) */\n%s\n{%s}\n" % (NAME, os.path.relpath(L.MB_CPP, REPO), c.start, c.end, SIG, r.text)]


def units(u):
    fn = NAME + " (prescribed-udot block)"
    u("realizeDynamics.position", "hp_realizeDynamics_position", None, fn=fn, plain=True, minob=25,
      req=[r"hp_realizeDynamics_position\.assertion\.21$", r"unwind", r"pointer_dereference"])
    u("realizeDynamics.velacc", "hp_realizeDynamics_velacc", None, fn=fn, plain=True, minob=20,
      req=[r"hp_realizeDynamics_velacc\.assertion\.10$", r"unwind"])
    u("realizeDynamics.lock", "hp_realizeDynamics_lock", None, fn=fn, plain=True, minob=20,
      req=[r"hp_realizeDynamics_lock\.assertion\.8$", r"unwind"])


COVER_POINTS = 9      # cover points dyn_cover() adds to the lock part's h_cover (specs/C10lock/dynamics_lemma.h)


def notes(ctx):
    ctx.assume("realizeDynamics unit: what SimbodyMatterSubsystemRep::realizeInstance (SimbodyMatterSubsystemRep.cpp:765-905, not cut) establishes for a mobilizer with "
               "udotMethod==Prescribed: not Ground/Weld (nq, nu >= 1); a block of nu slots at firstPresUDot inside presUDotPool; locked => lock level Acceleration "
               "(Position / Velocity locks get udotMethod = Zero); unlocked => hasMotion() and the Motion is not disabled; isQDotAlwaysTheSameAsU() => nq == nu")
    ctx.assume("realizeDynamics unit: Motion::calcPrescribedPositionDotDot/VelocityDot/Acceleration and RigidBodyNode::multiplyByNDot/multiplyByNInv are abstract "
               "(arbitrary output vector of nq / nu elements, inputs only read, nothing else written); realizeDynamicsVirtual (custom mobilizer hook) touches neither "
               "presUDotPool nor u / lockedUs / lock levels; SBStateDigest, SBInstanceCache, SBModelCache are views of one State stand-in holding THIS mobilizer's entries")
    ctx.trust("realizeDynamics unit: the rewrite `x[i] -= y[i]` -> `x[i] = vf_sub(x[i], y[i])` (IEEE subtraction as an opaque recorded operator, by analogy with vf_mul of DESIGN 2.2; "
              "two copies of a symbolic double subtractor were not proved equal by minisat/kissat/z3 within 200 s); any other operator in that statement is not rewritten and fails (P)")
    ctx.not_decided += ["realizeDynamics unit: that multiplyByNDot/multiplyByNInv of each concrete RigidBodyNode compute NDot*u and N^-1*x (C03/C05 mobilizer kernels), that "
                        "N^-1 is a left inverse where nq > nu (quaternions), and that the concrete Motion classes return the derivatives of their own prescription; "
                        "that udotMethod==Zero mobilizers (Position/Velocity locks) get udot = 0 in the forward dynamics (calcTreeForwardDynamics pass, not cut)"]
