"""C30 - Polynomial roots are roots (closed-form quadratic kernel ONLY).
Back end B (route M3): PolynomialRootFinder::findRoots(Vec<3,T>) and (Vec<3,complex<T>>) transliterated each
run and executed on symbolic reals with complex numbers as (re,im) pairs; every branch."""
import os, re, json, z3
from vlib import *
from extract import *
import symlib as S
from symlib import *
from blib import BUnit, Thrown

PID = "C30"
META = dict(
    category="other",
    text=("Partial: only the closed-form quadratic solvers are under contract (the cubic and general solvers are the iterative Jenkins-Traub rpoly/cpoly and are NOT decided). "
          "For findRoots(Vec<3,T>) with real coefficients and findRoots(Vec<3,complex<T>>), on EVERY branch (repeated root, zero linear coefficient with positive/negative "
          "discriminant, general formula with either sign of b): each returned root r satisfies a r^2 + b r + c == 0 and the pair satisfies Vieta (r0+r1 == -b/a, r0 r1 == c/a), "
          "a == 0 is rejected by the documented exception; proved over the reals/complex numbers for all coefficients (z3 QF_NRA). Float cancellation behaviour is not decided."),
    note=("Assumes real arithmetic; complex numbers are modelled as (re,im) pairs with the principal square root (u+iv)^2 == z, u >= 0; the 'discriminant within tolerance' branch "
          "is exact only for a zero discriminant, which is then the hypothesis. Trusts z3/cvc5, transliterator rules (logged), shim."),
    technique="symbolic execution of transliterated real code over the reals (complex as pairs) + SMT (z3 QF_NRA)",
    design_ref="9 (kernel added after the plan)")

SRC = os.path.join(REPO, "SimTKcommon/Polynomial/src/PolynomialRootFinder.cpp")


class Cx:
    """complex number over the shim's scalars"""
    def __init__(self, re=0, im=0):
        if isinstance(re, Cx):
            re, im = re.re, re.im
        self.re, self.im = D.lift(re), D.lift(im)
    @staticmethod
    def lift(x): return x if isinstance(x, Cx) else Cx(x, 0)
    def __add__(a, b): b = Cx.lift(b); return Cx(a.re + b.re, a.im + b.im)
    __radd__ = __add__
    def __sub__(a, b): b = Cx.lift(b); return Cx(a.re - b.re, a.im - b.im)
    def __rsub__(a, b): return Cx.lift(b) - a
    def __neg__(a): return Cx(-a.re, -a.im)
    def __mul__(a, b): b = Cx.lift(b); return Cx(a.re * b.re - a.im * b.im, a.re * b.im + a.im * b.re)
    __rmul__ = __mul__
    def __truediv__(a, b):
        # quotient as a fresh complex number r with r*b == a (polynomial; meaningful when b != 0, which is a separate
        # obligation / hypothesis recorded in DIVISORS): keeps the NRA goals free of rational functions
        b = Cx.lift(b)
        x, y = S.ENV.new("quot_re"), S.ENV.new("quot_im")
        r = Cx(D(x), D(y))
        p = r * b
        con = z3.And(val(p.re) == val(a.re), val(p.im) == val(a.im))
        S.ENV.assume(con)
        DIVISORS.append((b, r, con))
        return r
    def __rtruediv__(a, b): return Cx.lift(b) / a
    def __eq__(a, b):
        b = Cx.lift(b); return z3.And(val(a.re) == val(b.re), val(a.im) == val(b.im))
    __hash__ = None
    def real(a): return a.re
    def imag(a): return a.im


DIVISORS = []


def csqrt(z):
    """principal complex square root: (u+iv)^2 == z, u >= 0, (u == 0 ==> v >= 0)"""
    u, v = S.ENV.new("csqrt_re"), S.ENV.new("csqrt_im")
    S.ENV.assume(z3.And(u * u - v * v == val(z.re), 2 * u * v == val(z.im), u >= 0, z3.Implies(u == 0, v >= 0)))
    return Cx(D(u), D(v))


def main(ctx):
    ctx.level = "other"
    try:
        B = BUnit(ctx); ns = B.ns
        ns["Cx"] = Cx
        ns["conj"] = lambda z: Cx(z.re, -z.im)
        real_sqrt = S.sqrt
        ns["sqrt"] = lambda x: csqrt(x) if isinstance(x, Cx) else real_sqrt(x)
        eps = z3.Real("eps")
        ns["EPS_CONST"] = D(eps)
        def pre(b):
            b = b.replace("NTraits<T>::getEps()", "EPS_CONST")
            b = re.sub(r"complex<T>\s*\(", "Cx(", b)
            b = re.sub(r"complex<T>\s+(\w+)\s*=", r"Cx_t \1 =", b)     # declarations of complex locals
            return b
        fr = B.add_function(SRC, r"void PolynomialRootFinder::findRoots\(const Vec<3,T>& coefficients, Vec<2,complex<T> >& roots\)\s*", pyname="findRoots_real", pre=pre,
                            cxxname="PolynomialRootFinder::findRoots(Vec<3,T>)")
        fc = B.add_function(SRC, r"void PolynomialRootFinder::findRoots\(const Vec<3,complex<T> >& coefficients, Vec<2,complex<T> >& roots\)\s*", pyname="findRoots_complex", pre=pre,
                            cxxname="PolynomialRootFinder::findRoots(Vec<3,complex<T>>)")
        B.dump_sources()
    except ExtractionError as e:
        ctx.undecide("extraction: %s" % e)
        return ctx.finish()
    U = "quadratic"
    def check(kind, fn, coeffs, mk, nbr):
        a, b, c = coeffs
        seen = set(); n = 0; threw_zero = False
        def run():
            S.reset_env(); S.ENV.assume(eps > 0)
            del DIVISORS[:]
            roots = [None, None]
            try:
                fn(mk(), roots)
            except Thrown as t:
                return ("threw", str(t))
            return ("ok", roots)
        for path, script, (st, roots) in B.run_paths(run, nbr):
            key = tuple(str(x) for x in path)
            if key in seen: continue
            seen.add(key)
            hyp = list(S.ENV.side) + list(path)
            s_ = z3.Solver(); s_.set("timeout", 10000); s_.add(*hyp)
            if s_.check() == z3.unsat: continue
            n += 1
            tag = "%s branch %d" % (kind, n)
            if st == "threw":
                threw_zero = True
                B.prove_bool("%s: the exception is thrown only for a zero leading coefficient" % tag, a == Cx(0, 0) if isinstance(a, Cx) else val(a) == 0, hyp, U, "findRoots(" + kind + ")")
                continue
            A, Bc, Cc = Cx.lift(a), Cx.lift(b), Cx.lift(c)
            # the 'discriminant within tolerance' branch is exact only for discriminant == 0
            if kind == "real" and any("eps" in str(x) and "Not" not in str(x)[:4] for x in path[:3]) and len(path) >= 2 and "Not" not in str(path[1])[:4]:
                hyp = hyp + [val(b) * val(b) - 4 * val(a) * val(c) == 0]
            nz = [z3.Not(A == Cx(0, 0))]
            # no division by zero: every complex divisor met on this path is non-zero (a by the path condition; q = -(b +- sqrt D)/2
            # because the sign is chosen so that b and the root do not cancel) -- proved first, then used as a hypothesis (lemma chain)
            for di, (dv, _q, _c) in enumerate(list(DIVISORS)):
                B.prove_bool("%s: divisor %d is non-zero (no division by zero)" % (tag, di), z3.Not(dv == Cx(0, 0)), hyp + nz, U, "findRoots(" + kind + ")", timeout_ms=60000)
                nz = nz + [z3.Not(dv == Cx(0, 0))]
            general_complex = (kind == "complex" and len(DIVISORS) == 2)
            if general_complex:
                # roots are q/a and c/q with q = -(b +- sqrt(D))/2. Lemma chain with minimal hypotheses:
                #  L1  q^2 + b q + a c == 0                      (from sqrt(D)^2 == b^2 - 4ac)
                #  L2  a*(a r0^2 + b r0 + c) == 0                (from r0*a == q and L1)
                #  L3  q*(a (r0+r1) + b) == 0                    (from r0*a == q, r1*q == c and L1)
                # then the generalised cancellation lemma (a != 0, q != 0) gives the clauses of the property.
                (da, r0v, c0), (qv, r1v, c1) = DIVISORS
                FNc = "findRoots(complex)"
                L1 = qv * qv + Bc * qv + A * Cc
                B.prove_eq("%s: L1 q^2 + b q + a c == 0 for q = -(b +- sqrt(b^2-4ac))/2" % tag, Vec(L1.re, L1.im), Vec(0, 0),
                           [c_ for c_ in S.ENV.side if "csqrt" in str(c_)], U, FNc, timeout_ms=60000, minimal=True)
                l1 = [val(L1.re) == 0, val(L1.im) == 0]
                L2 = A * (A * r0v * r0v + Bc * r0v + Cc)
                B.prove_eq("%s: L2 a*(a r0^2 + b r0 + c) == 0 (root 0 = q/a)" % tag, Vec(L2.re, L2.im), Vec(0, 0), [c0] + l1, U, FNc, timeout_ms=60000, minimal=True)
                L3 = qv * (A * (r0v + r1v) + Bc)
                B.prove_eq("%s: L3 q*(a (r0+r1) + b) == 0 (Vieta sum)" % tag, Vec(L3.re, L3.im), Vec(0, 0), [c0, c1] + l1, U, FNc, timeout_ms=60000, minimal=True)
                L4 = qv * qv * (A * r1v * r1v + Bc * r1v + Cc)
                B.prove_eq("%s: L4 q^2*(a r1^2 + b r1 + c) == 0 (root 1 = c/q)" % tag, Vec(L4.re, L4.im), Vec(0, 0), [c1] + l1, U, FNc, timeout_ms=60000, minimal=True)
                L5 = (A * r0v) * r1v - Cc
                B.prove_eq("%s: L5 (a r0) r1 == c (Vieta product)" % tag, Vec(L5.re, L5.im), Vec(0, 0), [c0, c1], U, FNc, timeout_ms=60000, minimal=True)
            for k_, r in enumerate(roots):
                if general_complex:
                    continue                                  # roots 0 and 1: L2, L4 above
                r = Cx.lift(r)
                res = A * r * r + Bc * r + Cc
                if kind == "complex":
                    # lemma chain: prove a*(a r^2 + b r + c) == 0 (polynomial in a r), then cancel a != 0 (generalised lemma below)
                    res = A * res
                B.prove_eq("%s: root %d satisfies %sa r^2 + b r + c%s == 0 (real part)" % (tag, k_, "a*(" if kind == "complex" else "", ")" if kind == "complex" else ""), res.re, 0, hyp + nz, U, "findRoots(" + kind + ")", timeout_ms=60000)
                B.prove_eq("%s: root %d satisfies %sa r^2 + b r + c%s == 0 (imaginary part)" % (tag, k_, "a*(" if kind == "complex" else "", ")" if kind == "complex" else ""), res.im, 0, hyp + nz, U, "findRoots(" + kind + ")", timeout_ms=60000)
            r0, r1 = Cx.lift(roots[0]), Cx.lift(roots[1])
            sm = A * (r0 + r1) + Bc; pr = A * (r0 * r1) - Cc
            if general_complex:
                continue                                      # Vieta: L3, L5 above
            if kind == "complex":
                pr = A * pr
            if not general_complex:
                B.prove_eq("%s: Vieta a(r0+r1) == -b" % tag, Vec(sm.re, sm.im), Vec(0, 0), hyp + nz, U, "findRoots(" + kind + ")", timeout_ms=60000)
            B.prove_eq("%s: Vieta a r0 r1 == c" % tag, Vec(pr.re, pr.im), Vec(0, 0), hyp + nz, U, "findRoots(" + kind + ")", timeout_ms=60000)
        if n < 4 or not threw_zero:
            ctx.undecide("findRoots(%s): only %d feasible branches explored (exception branch seen: %s)" % (kind, n, threw_zero))
    ar, br, cr = [D(z3.Real(x)) for x in ("a", "b", "c")]
    check("real", fr, (ar, br, cr), lambda: Vec(ar, br, cr), 6)
    ac, bc, cc = [Cx(D(z3.Real(x + "r")), D(z3.Real(x + "i"))) for x in ("a", "b", "c")]
    class CVec(list): pass
    check("complex", fc, (ac, bc, cc), lambda: CVec([ac, bc, cc]), 4)
    # generalised cancellation lemma used by the complex chain: a*g == 0 and a != 0  ==>  g == 0
    S.reset_env()
    g = Cx(D(z3.Real("g_re")), D(z3.Real("g_im"))); aa = Cx(D(z3.Real("aa_re")), D(z3.Real("aa_im")))
    B.prove_bool("complex cancellation: a*g == 0 and a != 0 imply g == 0", g == Cx(0, 0), [(aa * g) == Cx(0, 0), z3.Not(aa == Cx(0, 0))], U, "lemma", minimal=True)
    ctx.add(Obligation("guard:eps>0 satisfiable", "guards", "z3", "discharged", 0, "reachability guard"))
    ctx.checker_cmds.append("z3 (python API, QF_NRA); SMT-LIB files in out/C30/smt2")
    ctx.trust("z3 4.x / cvc5 1.0 (QF_NRA)"); ctx.trust("tools/translit.py rule table (logged), checks/c30.py complex-number shim")
    ctx.assume("machine arithmetic treated as mathematical (reals); complex<T> as (re,im) pairs; std::sqrt(complex) is the principal root")
    ctx.assume("the near-zero-discriminant branch (|D| < 2 eps b^2) is exact only at D == 0; that is its hypothesis")
    ctx.not_decided += ["cubic and general polynomial solvers (iterative rpoly/cpoly)", "floating-point cancellation / accuracy of the returned roots", "Vec<3> overloads in float vs double"]
    ctx.explanation = "PARTIAL (closed-form quadratic only): %d functions; %d obligations over all branches." % (len(ctx.functions), len(ctx.obligations))
    return ctx.finish(replayer=lambda ob: replay(ctx, ob))


_EXE = {}


def replay(ctx, ob):
    if "exe" not in _EXE:
        _EXE["exe"] = native_build(ctx, "c30_replay", os.path.join(VERIF, "replay/c30_replay.cpp"), libs=True,
                                   extra_srcs=[SRC], extra_inc=[os.path.join(REPO, "SimTKcommon/Polynomial/src")])
    rc, o, e, t = run([_EXE["exe"], str(ctx.seed)], 120)
    return dict(cmd="c30_replay %d" % ctx.seed, output=o[-3000:]), "REPRODUCED:" in o
