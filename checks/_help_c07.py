"""Helper for checks/c07.py (per-constraint kernel of C07, back end B / route M3).

What lives here:
  * local shim extensions (NOT in tools/symlib.py): Transform with `X*v`, `~X*v`, x()/y()/z(); Rotation-like
    3x3 matrix with x()/y()/z(); SpatialVec with in-place += / -= (C++ reference semantics of
    `SpatialVec& bodyForceOnBInA`); array plumbing GETV/SETV for `Vec3::getAs(&a[k])` / `Vec3::updAs(&a[k]) = e`;
  * the symbolic kinematics of a constrained body in the Ancestor frame A as plain values and as first-order
    jets (dual numbers): d/dt R = [w]x R, d/dt p = v, d/dt w = b, d/dt v = a;
  * the mocked `*FromState` base accessors (ASSUMED contract: the state cache holds the same X_AB / V_AB that
    are passed as operands) and instance-variable accessors;
  * the extractor glue: every constraint class's virtuals AND the inline helper members of ConstraintImpl
    (findStation*, addInStation*, addInBodyTorque, getBody* from arrays, getOneQ/U..., addInOne*Force) are cut
    from /repo and transliterated on every run."""
import os, re, z3
import symlib as S
from symlib import *
from blib import BUnit
from vlib import REPO
from extract import ExtractionError, blank_comments, match_brace

import functools, extract as _extract, blib as _blib
if not hasattr(_extract.blank_comments, "cache_info"):
    # pure function, called once per cut on the whole 3000-line header: memoise (local monkey-patch, semantics unchanged)
    _extract.blank_comments = functools.lru_cache(maxsize=64)(_extract.blank_comments)
    blank_comments = _extract.blank_comments

CI_H = os.path.join(REPO, "Simbody/src/ConstraintImpl.h")
CONS_CPP = os.path.join(REPO, "Simbody/src/Constraint.cpp")
ROD_H = os.path.join(REPO, "Simbody/src/Constraint_RodImpl.h")
ROD_CPP = os.path.join(REPO, "Simbody/src/Constraint_Rod.cpp")


# ----------------------------------------------------------------------
# shim extensions
# ----------------------------------------------------------------------
class RM(S.Mat):
    """Rotation-like 3x3 matrix: Mat + x()/y()/z() columns; products / transposes stay RM"""
    def x(self): return self.col(0)
    def y(self): return self.col(1)
    def z(self): return self.col(2)
    def __mul__(a, b):
        if isinstance(b, InvVec) and b.src is not None and same_matrix(a, b.src):
            # R * (~R * y) -> y : Rotation/InverseRotation algebra. NOT an assumption here: for every body whose inverse transform
            # is used, the lemma  R(q) (~R(q) y) == y  (value and d/dt parts, y opaque, |q| == 1) is a proved obligation of the
            # check (lemma chain); the rewrite only spares z3 from re-deriving it inside every large goal.
            USED_INVERSE.add(id(b.src))
            return b.image
        r = S.Mat.__mul__(a, b)
        if isinstance(r, S.Mat) and not isinstance(r, RM) and r.nr == 3 and r.nc == 3:
            return RM(r.m)
        return r
    def __invert__(a):
        return RM([[a.m[i][j] for i in range(3)] for j in range(3)])


USED_INVERSE = set()


def same_matrix(a, b):
    if a is b:
        return True
    for ra, rb in zip(a.m, b.m):
        for x, y in zip(ra, rb):
            if not (z3.eq(val(x), val(y)) and z3.eq(der(x), der(y))):
                return False
    return True


class InvVec(S.Vec):
    """the vector ~R * y: components are the real expression (every other use is exact); remembers (R, y) so that R * (~R * y)
    can be folded back to y (see RM.__mul__)"""
    def __init__(self, e, src=None, image=None):
        S.Vec.__init__(self, list(e))
        self.src, self.image = src, image
    def _new(self, e): return S.Vec(list(e))


class XF:
    """Transform X_AB = (R_AB, p_AB):  X*v = R v + p,  ~X*v = ~R (v - p)   (R orthonormal: C27)"""
    def __init__(self, R, p): self._R, self._p = (R if isinstance(R, RM) else RM(R.m)), p
    def R(self): return self._R
    def p(self): return self._p
    def x(self): return self._R.x()
    def y(self): return self._R.y()
    def z(self): return self._R.z()
    def __mul__(self, v):
        if isinstance(v, S.Vec):
            return self._R * v + self._p
        return NotImplemented
    def __invert__(self): return IXF(self)


class IXF:
    def __init__(self, X): self.X = X
    def R(self): return ~self.X._R
    def __mul__(self, v):
        if isinstance(v, S.Vec):
            y = v - self.X._p
            return InvVec(((~self.X._R) * y).e, self.X._R, y)
        return NotImplemented
    def __invert__(self): return self.X


class SV(S.SpatialVec):
    """SpatialVec with C++ reference semantics for `+=` / `-=` (the array element is updated in place)"""
    def __iadd__(a, b): a.e = [a.e[0] + b.e[0], a.e[1] + b.e[1]]; return a
    def __isub__(a, b): a.e = [a.e[0] - b.e[0], a.e[1] - b.e[1]]; return a


def zero_forces(n):
    return [SV(Vec(0, 0, 0), Vec(0, 0, 0)) for _ in range(n)]


def plain(x):
    """forget the derivative parts (value of a jet)"""
    if isinstance(x, XF):
        return XF(RM(plain(x._R).m), plain(x._p))
    return S.vmap(lambda e: D(val(e)), x)


def dpart(x):
    """derivative part of a first-order jet as a plain object"""
    return S.vmap(lambda e: D(der(e)), x)


def v3(n): return Vec(*[z3.Real("%s%d" % (n, i)) for i in range(3)])


def Rquat(q):
    q0, q1, q2, q3 = q[0], q[1], q[2], q[3]
    return Mat([[1 - 2*(q2*q2+q3*q3), 2*(q1*q2-q0*q3), 2*(q1*q3+q0*q2)],
                [2*(q1*q2+q0*q3), 1 - 2*(q1*q1+q3*q3), 2*(q2*q3-q0*q1)],
                [2*(q1*q3-q0*q2), 2*(q2*q3+q0*q1), 1 - 2*(q1*q1+q2*q2)]])


class Kin:
    """kinematics of one constrained body in A: pose (R,p), velocity (w,v), acceleration (b,a), all symbolic.
    rot='free': R is 9 free reals (superset of rotations; for identities that do not need orthonormality);
    rot='quat': R = R(q), |q| = 1 (exactly the proper rotations)."""
    ALL = []

    def __init__(self, n, rot="free"):
        self.name, self.rot, self.side = n, rot, []
        Kin.ALL.append(self)
        if rot == "free":
            Rv = Mat([[z3.Real("%sR%d%d" % (n, i, j)) for j in range(3)] for i in range(3)])
        else:
            q = Vec(*[z3.Real("%sq%d" % (n, i)) for i in range(4)])
            self.side.append(val(q.normSqr()) == 1)
            Rv = Rquat(q)
        self.w, self.v, self.b, self.a, pv = v3(n + "w"), v3(n + "v"), v3(n + "b"), v3(n + "a"), v3(n + "p")
        Rd = crossMat(self.w) * Rv
        self.X0 = XF(RM([[D(val(Rv.m[i][j])) for j in range(3)] for i in range(3)]), Vec(*[D(val(pv[i])) for i in range(3)]))
        self.X1 = XF(RM([[D(val(Rv.m[i][j]), val(Rd.m[i][j])) for j in range(3)] for i in range(3)]),
                     Vec(*[D(val(pv[i]), val(self.v[i])) for i in range(3)]))
        self.V0 = SV(self.w, self.v)
        self.V1 = SV(Vec(*[D(val(self.w[i]), val(self.b[i])) for i in range(3)]), Vec(*[D(val(self.v[i]), val(self.a[i])) for i in range(3)]))
        self.A0 = SV(self.b, self.a)
        self.U = SV(v3(n + "uw"), v3(n + "uv"))       # an ARBITRARY spatial velocity (for the adjoint clause)


class State:
    """mock State: what the *FromState accessors read (assumed contract: same kinematics as the operands),
    plus the instance variables / caches of the constraint."""
    def __init__(self, X, V, **kw):
        self.X, self.V = list(X), list(V)
        self.__dict__.update(kw)
    def getTime(self): return self.time


class Pair:
    def __init__(self, a, b): self.first, self.second = a, b


class Bag:
    def __init__(self, **kw): self.__dict__.update(kw)


class MatterRepMock:
    """cache bookkeeping of SimbodyMatterSubsystemRep: never 'already realized' (so the real computation runs)"""
    def isCacheValueRealized(self, s, ix): return False
    def markCacheValueRealized(self, s, ix): return None


def GETV(a, k, n):
    return Vec(list(a[k:k + n]))


def SETV(a, k, v):
    for i, e in enumerate(v.e):
        a[k + i] = e


def UnitVec3(v, trusted=False):
    if trusted:
        return v            # UnitVec3(v,true): "trust me, already normalised" - no arithmetic in the real code either
    return v / v.norm()


# ----------------------------------------------------------------------
# extraction glue
# ----------------------------------------------------------------------
def occ_in_class(path, class_rx, anchor):
    """1-based occurrence (among DEFINITIONS matching `anchor` in the file, as tools/extract.cut_function counts
    them) of the first definition inside the class whose header matches class_rx."""
    src = open(path).read()
    blank = blank_comments(src)
    cm = re.search(class_rx, blank)
    if not cm:
        raise ExtractionError("%s: class /%s/ not found" % (path, class_rx))
    ob = blank.find("{", cm.end())
    cb = match_brace(blank, ob)
    k = 0
    for m in re.finditer(anchor, blank):
        o2 = blank.find("{", m.end() - 1 if blank[m.end() - 1] == "{" else m.end())
        semi = blank.find(";", m.end())
        if o2 < 0 or (0 <= semi < o2):
            continue
        k += 1
        if ob < m.start() < cb:
            return k
    raise ExtractionError("%s: no definition /%s/ inside class /%s/" % (path, anchor, class_rx))


ARRAY_RULES = [
    # (rule, regex, replacement): reinterpretation of consecutive Array_<Real> entries as a Vec, and the Python keyword
    ("Vec3::updAs(&a[k]) = e  ->  SETV(a,k,e)", r"Vec([23])::updAs\(&(\w+)\[(\d+)\]\)\s*=\s*([^;]+);", r"SETV(\2, \3, (\4));"),
    ("VecN::getAs(&a[k])  ->  GETV(a,k,N)", r"Vec([23])::getAs\(&(\w+)\[(\d+)\]\)", r"GETV(\2, \3, \1)"),
    ("identifier lambda -> lambda_ (Python keyword)", r"\blambda\b", "lambda_"),
]


def array_pre(body):
    for rule, rx, rep in ARRAY_RULES:
        body = re.sub(rx, rep, body)
    return body


HELPERS = [  # inline helper members of ConstraintImpl that the constraint formulas call (real code, cut each run)
    ("getOneQ", r"Real getOneQ\(const State& s,\s*const Array_<Real,ConstrainedQIndex>&\s*cq,[^)]*\) const\s*"),
    ("getOneQDot", r"Real getOneQDot\(const State& s,[^)]*\) const\s*"),
    ("getOneQDotDot", r"Real getOneQDotDot\(const State& s,[^)]*\) const\s*"),
    ("getOneU", r"Real getOneU\(const State& s,[^)]*\) const\s*"),
    ("getOneUDot", r"Real getOneUDot\(const State& s,[^)]*\) const\s*"),
    ("addInOneMobilityForce", r"void addInOneMobilityForce\s*\([^)]*\) const\s*"),
    ("addInOneQForce", r"void addInOneQForce\s*\([^)]*\) const\s*"),
    ("getBodyRotationFromState", r"const Rotation& getBodyRotationFromState\s*\([^)]*\)\s*const\s*"),
    ("getBodyAngularVelocityFromState", r"const Vec3& getBodyAngularVelocityFromState\s*\([^)]*\)\s*const\s*"),
    ("getBodyOriginLocationFromState", r"const Vec3& getBodyOriginLocationFromState\s*\([^)]*\)\s*const\s*"),
    ("getBodyOriginVelocityFromState", r"const Vec3& getBodyOriginVelocityFromState\s*\([^)]*\)\s*const\s*"),
    ("getBodyTransform", r"const Transform& getBodyTransform\s*\(const Array_[^)]*\) const\s*"),
    ("getBodyVelocity", r"const SpatialVec& getBodyVelocity\s*\(const Array_[^)]*\) const\s*"),
    ("getBodyAcceleration", r"const SpatialVec& getBodyAcceleration\s*\(const Array_[^)]*\) const\s*"),
    ("getBodyRotation", r"const Rotation& getBodyRotation\s*\(const Array_[^)]*\) const\s*"),
    ("getBodyAngularVelocity", r"const Vec3& getBodyAngularVelocity\s*\(const Array_[^)]*\) const\s*"),
    ("getBodyAngularAcceleration", r"const Vec3& getBodyAngularAcceleration\s*\(const Array_[^)]*\) const\s*"),
    ("getBodyOriginLocation", r"const Vec3& getBodyOriginLocation\s*\(const Array_[^)]*\) const\s*"),
    ("getBodyOriginVelocity", r"const Vec3& getBodyOriginVelocity\s*\(const Array_[^)]*\) const\s*"),
    ("getBodyOriginAcceleration", r"const Vec3& getBodyOriginAcceleration\s*\(const Array_[^)]*\) const\s*"),
    ("findStationLocationFromState", r"Vec3 findStationLocationFromState\s*\([^)]*\) const\s*"),
    ("findStationLocation", r"Vec3 findStationLocation\s*\(const Array_[^)]*\) const\s*"),
    ("findStationVelocityFromState", r"Vec3 findStationVelocityFromState\s*\([^)]*\) const\s*"),
    ("findStationVelocity", r"Vec3 findStationVelocity\s*\(const State& s,[^)]*\) const\s*"),
    ("findStationInAAcceleration", r"Vec3 findStationInAAcceleration\s*\([^)]*\) const\s*"),
    ("findStationAcceleration", r"Vec3 findStationAcceleration\s*\([^)]*\) const\s*"),
    ("addInStationForce", r"void addInStationForce\(const State& s,[^)]*\)\s*const\s*"),
    ("addInStationInAForce", r"void addInStationInAForce\([^)]*\)\s*const\s*"),
    ("subInStationInAForce", r"void subInStationInAForce\([^)]*\)\s*const\s*"),
    ("addInBodyTorque", r"void addInBodyTorque\(const State& s,[^)]*\)\s*const\s*"),
]
MOCKED = ["getBodyTransformFromState", "getBodyVelocityFromState", "getConstrainedQIndex", "getConstrainedUIndex",
          "getNumConstrainedBodies", "getMyMatterSubsystemRep"]
HELPER_NAMES = [h[0] for h in HELPERS] + MOCKED

ERR = dict(
    perr=r"void calcPositionErrorsVirtual\s*\([^)]*\)\s*const override\s*",
    pverr=r"void calcPositionDotErrorsVirtual\s*\([^)]*\)\s*const override\s*",
    paerr=r"void calcPositionDotDotErrorsVirtual\s*\([^)]*\)\s*const override\s*",
    pforce=r"void addInPositionConstraintForcesVirtual\s*\([^)]*\)\s*const override\s*",
    verr=r"void calcVelocityErrorsVirtual\s*\([^)]*\)\s*const override\s*",
    vaerr=r"void calcVelocityDotErrorsVirtual\s*\([^)]*\)\s*const override\s*",
    vforce=r"void addInVelocityConstraintForcesVirtual\s*\([^)]*\)\s*const override\s*",
    aerr=r"void calcAccelerationErrorsVirtual\s*\([^)]*\)\s*const override\s*",
    aforce=r"void addInAccelerationConstraintForcesVirtual\s*\([^)]*\)\s*const override\s*",
)
CXX = dict(perr="calcPositionErrorsVirtual", pverr="calcPositionDotErrorsVirtual", paerr="calcPositionDotDotErrorsVirtual",
           pforce="addInPositionConstraintForcesVirtual", verr="calcVelocityErrorsVirtual", vaerr="calcVelocityDotErrorsVirtual",
           vforce="addInVelocityConstraintForcesVirtual", aerr="calcAccelerationErrorsVirtual", aforce="addInAccelerationConstraintForcesVirtual")


class CI:
    """Python image of ConstraintImpl: the helper members are transliterated real code (attached by build());
    only the state-cache accessors below are mocks."""
    nbodies = 2
    # ---- mocks (ASSUMED contracts, listed by assumptions()) ----
    def getBodyTransformFromState(self, s, B): return s.X[B]
    def getBodyVelocityFromState(self, s, B): return s.V[B]
    def getConstrainedQIndex(self, s, M, which): return s.qmap[(M, int(which))]
    def getConstrainedUIndex(self, s, M, which): return s.umap[(M, int(which))]
    def getNumConstrainedBodies(self): return self.nbodies
    def getMyMatterSubsystemRep(self): return MatterRepMock()


class IntList(list):
    def size(self): return len(self)


def IntArray(n, v=0):
    return IntList([v] * int(n))


class FnJet:
    """abstract smooth Function of n arguments known only through its (opaque, symbolic) value and partial derivatives at the point of
    evaluation: ASSUMED contract on SimTK::Function (C41): calcDerivative is the partial derivative of calcValue, so along a curve x(t)
    d/dt calcValue = sum_i calcDerivative({i}) xdot_i and d/dt calcDerivative({i}) = sum_j calcDerivative({i,j}) xdot_j (chain rule).
    Every call records the argument values so the check can require that the code evaluates the function at the right point."""
    def __init__(self, name, n):
        self.n, self.calls = n, []
        self.f = z3.Real(name)
        self.g = [z3.Real("%s_d%d" % (name, i)) for i in range(n)]
        self.H = [[z3.Real("%s_d%d%d" % (name, i, j)) for j in range(n)] for i in range(n)]
        self.T = [[[z3.Real("%s_d%d%d%d" % (name, i, j, k)) for k in range(n)] for j in range(n)] for i in range(n)]
    def _dir(self, coef, x):
        t = D(0)
        for c, xi in zip(coef, x):
            t = t + D(c) * D(der(xi))
        return val(t)
    def calcValue(self, x):
        x = list(x); self.calls.append([val(e) for e in x])
        return D(self.f, self._dir(self.g, x))
    def calcDerivative(self, comps, x):
        x = list(x); self.calls.append([val(e) for e in x]); c = [int(k) for k in comps]
        if len(c) == 1:
            return D(self.g[c[0]], self._dir(self.H[c[0]], x))
        if len(c) == 2:
            return D(self.H[c[0]][c[1]], self._dir(self.T[c[0]][c[1]], x))
        raise ExtractionError("FnJet: derivative order %d not modelled" % len(c))


class MatterMock:
    """getMatterSubsystem().getMobilizedBody(b).getOneQ/getOneQDot(s, which): the coordinate / its rate from the state (assumed)"""
    def getMobilizedBody(self, ix):
        class MB:
            def getOneQ(s_, st, which): return st.MQ[(int(ix), int(which))]
            def getOneQDot(s_, st, which): return st.MQD[(int(ix), int(which))]
        return MB()


CUSTOM_RULES = ARRAY_RULES + [("Array_<int> v(n[,x]) -> IntArray v(n[,x])  (small index list)", r"Array_<int>\s+(\w+)\s*\(", r"IntArray \1(")]


def custom_pre(body):
    for rule, rx, rep in CUSTOM_RULES:
        body = re.sub(rx, rep, body)
    return body


def assumptions():
    return ["ASSUMED contract on the state cache (mock): getBodyTransformFromState(s,B) / getBodyVelocityFromState(s,B) return the same X_AB / V_AB "
            "that the matter subsystem passes as operands allX_AB / allV_AB (the *FromState one-liners getBodyRotationFromState, "
            "getBodyAngularVelocityFromState, getBodyOrigin*FromState and findStation*FromState built on them ARE real transliterated code)",
            "ASSUMED: instance-variable / parameter accessors (getBodyStations, getContactInfo, getParameters, getPosition, getSpeed, getAcceleration) return the current "
            "parameter values; getConstrainedQIndex/getConstrainedUIndex is an injective slot map; Rod's position/velocity cache entries are plain records "
            "filled by the real ensurePositionCacheRealized/ensureVelocityCacheRealized (cache-validity bookkeeping mocked as 'not yet realized')",
            "time derivatives along an arbitrary rigid motion of every constrained body in the Ancestor frame: d/dt R_AB = [w_AB]x R_AB, d/dt p_AB = v_AB, "
            "d/dt w_AB = b_AB, d/dt v_AB = a_AB (dual numbers; stations, axes, multipliers and parameters are constants)",
            "orientations: unit-quaternion parametrisation (exactly the proper rotations, C27) for bodies whose inverse transform ~X_AB is applied; arbitrary 3x3 "
            "matrix (a superset of the rotations) where orthonormality is not needed",
            "Function-based constraints (CoordinateCoupler, SpeedCoupler, PrescribedMotion): the Function is abstract, known through opaque value / gradient / Hessian symbols "
            "at the evaluation point with the chain rule along the motion (ASSUMED contract on SimTK::Function: calcDerivative is the partial derivative of calcValue, C41); "
            "the check requires every evaluation to be made at the current arguments; getOneQ/U/QDotFromState and MobilizedBody::getOneQ/getOneQDot return the state's "
            "coordinate / speed / rate; Constraint::Custom::Implementation forwarders are plumbing; State::getTime() advances at rate 1",
            "Array_<Real> <-> Vec3 reinterpretation (Vec3::getAs(&a[k]) / Vec3::updAs(&a[k])) modelled as reading / writing 3 consecutive entries; "
            "SpatialVec& parameters updated in place; Transform/InverseTransform * Vec3, Rotation::x()/y()/z(), UnitVec3(v,true) by their textbook meaning "
            "(local shim in checks/_help_c07.py on top of tools/symlib.py)"]


def build(ctx):
    B = BUnit(ctx)
    ns = B.ns
    ns.update(SpatialVec=SV, UnitVec3=UnitVec3, GETV=GETV, SETV=SETV)
    tiny = z3.Real("TinyReal")
    ns["TinyReal"] = D(tiny)
    classes = {}
    # ---- ConstraintImpl inline helpers ----
    for name, anchor in HELPERS:
        B.add_method(CI, CI_H, anchor, name, methods=HELPER_NAMES, cxxname="ConstraintImpl::" + name)

    def cls(cname, path, members, methods, which, extra_methods=(), nbodies=2):
        c = type(cname, (CI,), dict(nbodies=nbodies))
        classes[cname] = c
        crx = r"class Constraint::%sImpl\b[^;{]*" % cname
        for w in which:
            occ = occ_in_class(path, crx, ERR[w])
            B.add_method(c, path, ERR[w], w, members=members, methods=HELPER_NAMES + list(methods) + list(extra_methods), occurrence=occ,
                         extra_pre=array_pre, cxxname="Constraint::%sImpl::%s" % (cname, CXX[w]))
        for r in ARRAY_RULES:
            pass
        return c

    HOL = ("perr", "pverr", "paerr", "pforce")
    cls("PointInPlane", CI_H, ["planeBody", "followerBody", "defaultPlaneNormal", "defaultPlaneHeight", "defaultFollowerPoint"], [], HOL)
    cls("PointOnLine", CI_H, ["lineBody", "followerBody", "defaultLineDirection", "defaultPointOnLine", "defaultFollowerPoint", "x", "y"], [], HOL)
    cls("ConstantAngle", CI_H, ["B", "F", "defaultAxisB", "defaultAxisF", "cosineOfDefaultAngle"], [], HOL)
    cls("Ball", CI_H, ["B1", "B2"], ["getBodyStations"], HOL)
    cls("ConstantOrientation", CI_H, ["B", "F", "defaultRB", "defaultRF"], [], HOL)
    cls("Weld", CI_H, ["B", "F", "defaultFrameB", "defaultFrameF"], [], HOL)
    cls("NoSlip1D", CI_H, ["caseBody", "movingBody0", "movingBody1"], ["getContactInfo"], ("verr", "vaerr", "vforce"), nbodies=3)
    cls("ConstantCoordinate", CI_H, ["theMobilizer", "whichCoordinate"], ["getPosition"], HOL, nbodies=0)
    cls("ConstantSpeed", CI_H, ["theMobilizer", "whichMobility"], ["getSpeed"], ("verr", "vaerr", "vforce"), nbodies=0)
    cls("ConstantAcceleration", CI_H, ["theMobilizer", "whichMobility"], ["getAcceleration"], ("aerr", "aforce"), nbodies=0)
    rod_m = ["m_mobod_F", "m_mobod_B", "m_posCacheIx", "m_velCacheIx"]
    rod_f = ["getParameters", "ensurePositionCacheRealized", "ensureVelocityCacheRealized", "getPositionCache", "updPositionCache", "getVelocityCache", "updVelocityCache"]
    rod = cls("Rod", ROD_H, rod_m, rod_f, HOL)
    B.add_method(rod, ROD_CPP, r"ensurePositionCacheRealized\(const State& s\) const\s*", "ensurePositionCacheRealized", members=rod_m, methods=HELPER_NAMES + rod_f,
                 extra_pre=array_pre, cxxname="Constraint::RodImpl::ensurePositionCacheRealized")
    B.add_method(rod, ROD_CPP, r"ensureVelocityCacheRealized\(const State& s\) const\s*", "ensureVelocityCacheRealized", members=rod_m, methods=HELPER_NAMES + rod_f,
                 extra_pre=array_pre, cxxname="Constraint::RodImpl::ensureVelocityCacheRealized")
    rod.getParameters = lambda self, s: s.params
    rod.getPositionCache = rod.updPositionCache = lambda self, s: s.pc
    rod.getVelocityCache = rod.updVelocityCache = lambda self, s: s.vc
    classes["Ball"].getBodyStations = lambda self, s: s.stations
    classes["NoSlip1D"].getContactInfo = lambda self, s: s.contact
    classes["ConstantCoordinate"].getPosition = lambda self, s: s.position
    classes["ConstantSpeed"].getSpeed = lambda self, s: s.speed
    classes["ConstantAcceleration"].getAcceleration = lambda self, s: s.acceleration
    # ---- Custom::Implementation based built-ins (Constraint.cpp) ----
    ns["IntArray"] = IntArray
    def custom(cname, members, which):
        c = type(cname, (CI,), dict(nbodies=0))
        classes[cname] = c
        c.getOneQFromState = lambda self, s, M, w: s.Q[(int(M), int(w))]
        c.getOneQDotFromState = lambda self, s, M, w: s.QD[(int(M), int(w))]
        c.getOneUFromState = lambda self, s, M, w: s.Uv[(int(M), int(w))]
        c.getMatterSubsystem = lambda self: MatterMock()
        for key, mname in which:
            B.add_method(c, CONS_CPP, r"void Constraint::%sImpl::\s*%s\s*\([^)]*\)\s*const\s*" % (cname, mname), key, members=members,
                         methods=HELPER_NAMES + ["getOneQFromState", "getOneQDotFromState", "getOneUFromState", "getMatterSubsystem"], extra_pre=custom_pre,
                         cxxname="Constraint::%sImpl::%s" % (cname, mname))
        return c
    HOLC = (("perr", "calcPositionErrors"), ("pverr", "calcPositionDotErrors"), ("paerr", "calcPositionDotDotErrors"), ("pforce", "addInPositionConstraintForces"))
    custom("CoordinateCoupler", ["function", "coordBodies", "coordIndices", "temp"], HOLC)
    custom("PrescribedMotion", ["function", "coordBody", "coordIndex", "temp"], HOLC)
    custom("SpeedCoupler", ["function", "speedBodies", "speedIndices", "coordBodies", "coordIndices", "temp"],
           (("verr", "calcVelocityErrors"), ("vaerr", "calcVelocityDotErrors"), ("vforce", "addInVelocityConstraintForces")))
    B.dump_sources()
    return B, classes, tiny


def power(forces, vels):
    """sum_b  tau_b . w_b + f_b . v_b   (forces: spatial forces at the body origins, in A; vels: spatial velocities in A)"""
    tot = D(0)
    for F, V in zip(forces, vels):
        tot = tot + dot(F[0], V[0]) + dot(F[1], V[1])
    return tot


def net(forces, origins):
    """net force and net moment about the Ancestor origin"""
    f = Vec(0, 0, 0); m = Vec(0, 0, 0)
    for F, p in zip(forces, origins):
        f = f + F[1]; m = m + F[0] + cross(p, F[1])
    return f, m


# ----------------------------------------------------------------------
# division by a jet without z3 division terms: x / y = x * rho(y), rho = reciprocal VARIABLE of the value part
# (definition rho * y == 1 goes to ENV.defs, like symlib's own let-abstraction), d rho = -rho^2 dy.
# Local monkey-patch of symlib._div, active only inside the context manager.
# ----------------------------------------------------------------------
import contextlib


def _recip_jet(y):
    if isinstance(y, D):
        r = _recip_jet(y.v)
        if not isinstance(y.d, D) and S._is_zero(y.d):
            return D(r, 0)
        return D(r, S._neg(S._mul(S._mul(r, r), y.d)))
    yv = z3.simplify(S._num(y))
    if z3.is_rational_value(yv):
        return S._num(1) / yv
    # c * t with a rational coefficient c: 1/(c t) = (1/c) * rho(t)  (one reciprocal variable per distinct non-constant factor)
    if z3.is_mul(yv) and yv.num_args() == 2 and z3.is_rational_value(yv.arg(0)):
        return (S._num(1) / yv.arg(0)) * S._recip(yv.arg(1))
    return S._recip(yv)


@contextlib.contextmanager
def reciprocal_division():
    old = S._div
    def div(x, y):
        yy = y if isinstance(y, D) else D(y)
        if z3.is_rational_value(z3.simplify(S._raw(yy))) and not isinstance(yy.d, D) and S._is_zero(yy.d):
            return old(x, y)          # division by a numeric constant stays an exact rational operation
        return S._mul(x, _recip_jet(yy))
    old_sqrt = S.sqrt
    def sqrt_canon(e):
        """same root variable for the same radicand POLYNOMIAL: the value part is replaced by its sum-of-monomials normal form
        (an equivalence-preserving z3 rewrite) before symlib's sqrt memoises on the term text"""
        e = D.lift(e)
        if not isinstance(e.v, D):
            e = D(z3.simplify(S._num(e.v), som=True, sort_sums=True), e.d)
        return old_sqrt(e)
    S._div, S.sqrt = div, sqrt_canon
    try:
        yield
    finally:
        S._div, S.sqrt = old, old_sqrt
