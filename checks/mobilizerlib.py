"""Shared builder for the per-mobilizer kernels of C03 / C05 (back end B, route M3).

For every built-in mobilizer node class of Simbody/src/RigidBodyNodeSpec_<Type>.h the formula-bearing
members (performQPrecalculations, calcX_FM, calcAcrossJointVelocityJacobian[Dot], calcReverseMobilizerH[Dot]_FM,
calcQDot, calcQDotDot, multiplyByN/NInv/NDot, setQToFit*Impl, setUToFit*Impl) are cut from the CURRENT tree and
transliterated to Python each run, together with the Rotation.h/.cpp members and RigidBodyNode.h helpers they
call (findX_F0M0, findV_F0M0, find_w_F0M0, reverseAngularVelocity, the default qdot=u family of RigidBodyNodeSpec.h).
They are executed on symbolic reals / dual numbers (symlib).

What is NOT taken from the code (thin plumbing shim = assumed contract, listed in the evidence):
  * state plumbing: SBStateDigest / cache accessors (getQPool, getX_FM, getV_FM, fromQ/fromU/fromQuat, toQ/toU slots,
    getUseEulerAngles, isReversed) are modelled by a Python `Node` object that hands back what the realize
    sequence of RigidBodyNodeSpec.h (performQPrecalculations -> calcX_FM -> H_FM -> qdot -> V_FM=H_FM*u -> HDot_FM)
    stored; that sequence is re-enacted by `realize()` below;
  * raw pointer views Vec3::getAs(&p[k]) / Vec3::updAs(&p[k]) = e / p+k are rewritten to GETAS/SETAS on Python lists
    (rule 'pointer-view'); writes through C++ references (Transform& X = ..., Vec3& out_v = Vec3::updAs(out); out_v = e,
    Mat33P& R = *this; R = ...) are rewritten to explicit assign/SETAS calls (rules 'reference-...').
All plumbing rewrites are regex rules with hit counts appended to the per-function extraction log.
"""
import os, re, z3, fractions
from vlib import *
from extract import *
import symlib as S
from symlib import *
from blib import BUnit, _lift
from translit import to_python, params_of

SRC = os.path.join(REPO, "Simbody/src")
MECH_INC = os.path.join(REPO, "SimTKcommon/Mechanics/include/SimTKcommon/internal")
ROT_H = os.path.join(MECH_INC, "Rotation.h")
AXIS_H = os.path.join(MECH_INC, "CoordinateAxis.h")
SPA_H = os.path.join(MECH_INC, "SpatialAlgebra.h")
ROT_CPP = os.path.join(REPO, "SimTKcommon/Mechanics/src/Rotation.cpp")
RBN_H = os.path.join(SRC, "RigidBodyNode.h")
RBNS_H = os.path.join(SRC, "RigidBodyNodeSpec.h")
RBNS_CPP = os.path.join(SRC, "RigidBodyNodeSpec.cpp")


# ----------------------------------------------------------------------
# local extension of the symlib angle abstraction (monkey-patch, local to the C03/C05 checks):
#   (+1)*angle, (-1)*angle keep the (cos,sin) abstraction; an angle that also carries its VALUE (QAngle)
#   can be multiplied by a general scalar (Screw: translation = pitch*q)
# ----------------------------------------------------------------------
def _exact(x):
    """python/z3 exact rational value of a scalar or None"""
    if isinstance(x, bool):
        return None
    if isinstance(x, (int, fractions.Fraction)):
        return fractions.Fraction(x)
    if isinstance(x, D) and not isinstance(x.v, D):
        v = z3.simplify(S._num(x.v))
        if z3.is_rational_value(v) and S._is_zero(x.d):
            return v.as_fraction()
    return None


_orig_rmul = S.Angle.__rmul__


def _angle_rmul(self, n):
    k = _exact(n)
    if k == 1:
        return self
    if k == -1:
        return -self
    if k == 2:
        return _orig_rmul(self, 2)
    v = getattr(self, "v", None)
    if v is not None and S.is_scalar(n):
        return D(v, 0 if self.rate is None else self.rate) * n
    return NotImplemented


S.Angle.__rmul__ = _angle_rmul
S.Angle.__mul__ = _angle_rmul
_orig_add = S.Angle.__add__
_orig_neg = S.Angle.__neg__


def _angle_add(self, o):
    if not isinstance(o, S.Angle):
        return NotImplemented
    a = _orig_add(self, o)
    if getattr(self, "v", None) is not None and getattr(o, "v", None) is not None:
        a.v = self.v + o.v
    return a


def _angle_neg(self):
    a = _orig_neg(self)
    if getattr(self, "v", None) is not None:
        a.v = -self.v
    return a


S.Angle.__add__ = _angle_add
S.Angle.__radd__ = _angle_add
S.Angle.__neg__ = _angle_neg


def qangle(name, rate=None, with_value=True):
    """symbolic angle coordinate: (c,s) with c^2+s^2=1, optional time rate, and (optionally) its value"""
    a = S.Angle(name, rate)
    a.v = z3.Real("v_" + name) if with_value else None
    return a


def with_rate(a, rate):
    """same angle / scalar, now moving with the given rate (dual-number seed)"""
    if isinstance(a, S.Angle):
        b = S.Angle.__new__(S.Angle)
        b.c, b.s, b.rate = a.c, a.s, rate
        b.v = getattr(a, "v", None)
        return b
    return D(val(a), rate)


# ----------------------------------------------------------------------
# plumbing rewrites (regex rules with hit counts)
# ----------------------------------------------------------------------
class Plumb:
    def __init__(self):
        self.log = {}

    def hit(self, rule, ex):
        d = self.log.setdefault(rule, dict(rule="plumbing: " + rule, hits=0, examples=[]))
        d["hits"] += 1
        if len(d["examples"]) < 2:
            d["examples"].append(" ".join(ex.split())[:120])

    def sub(self, rule, rx, repl, text, flags=0):
        def f(m):
            self.hit(rule, m.group(0))
            return repl(m) if callable(repl) else m.expand(repl)
        return re.sub(rx, f, text, flags=flags)

    @staticmethod
    def ptr(e):
        e = e.strip()
        m = re.fullmatch(r"&\s*(\w+)\s*\[\s*([^\]]+?)\s*\]", e)
        if m:
            return m.group(1), m.group(2)
        m = re.fullmatch(r"(\w+)\s*\+\s*(\w+)", e)
        if m:
            return m.group(1), m.group(2)
        if re.fullmatch(r"\w+", e):
            return e, "0"
        raise ExtractionError("pointer-view: cannot parse pointer expression '%s'" % e)

    def body(self, b, refparams=()):
        b = strip_comments(b)
        # python keyword used as an identifier
        b = self.sub("identifier 'in' -> 'in_' (python keyword)", r"(?<![\w.])in\b(?!_)", "in_", b)
        b = self.sub("Vec<dof> -> VecD (template parameter dof = self.dof)", r"\bVec<dof>", "VecD", b)
        b = self.sub("template method call x.getSubVec<n>(k) -> x.getSubVec(n,k)", r"\.(?:template\s+)?getSubVec<(\d)>\((\w+)\)", r".getSubVec(\1,\2)", b)
        # reference aliases of pointer views: Vec3& out_v = Vec3::updAs(out); ... out_v = e;
        for m in list(re.finditer(r"(?<!const )\b(?:Vec\d|Row\d)\s*&\s*(\w+)\s*=\s*((?:Vec|Row)\d::updAs\([^()]*\))\s*;", b)):
            nm, tgt = m.group(1), m.group(2)
            self.hit("reference-alias of a pointer view inlined", m.group(0))
            b = b.replace(m.group(0), "")
            b = re.sub(r"(?<![\w.])" + nm + r"\s*=(?!=)", tgt + " =", b)
        N = lambda d: "self.dof" if d == "D" else d
        def getas(m):
            base, off = self.ptr(m.group(3))
            return "GETAS(%s, %s, %s, %r)" % (base, off, N(m.group(2)), m.group(1))
        b = self.sub("pointer-view read  VecN::getAs(p+k) -> GETAS(p,k,N)", r"\b(Vec|Row)(\d|D)::getAs\(([^()]*)\)", getas, b)
        def updas(m):
            base, off = self.ptr(m.group(3))
            return "SETAS(%s, %s, %s, %s);" % (base, off, N(m.group(2)), m.group(4))
        b = self.sub("pointer-view write VecN::updAs(p+k) = e -> SETAS(p,k,N,e)", r"\b(Vec|Row)(\d|D)::updAs\(([^()]*)\)\s*=(?!=)\s*([^;]*);", updas, b)
        # state slots of this mobilizer
        b = self.sub("slot write to1Q/to1U(x) = e -> x[0] = e", r"this->to1[QU]\((\w+)\)\s*=(?!=)", r"\1[0] =", b)
        b = self.sub("slot write toQ/toU(x)[i] = e -> x[i] = e", r"this->to[QU]\((\w+)\)\[(\d)\]\s*=(?!=)", r"\1[\2] =", b)
        b = self.sub("slot write toQ/toU(x) = e -> SETAS(x,0,dof,e)", r"this->to[QU]\((\w+)\)\s*=(?!=)\s*([^;]*);", r"SETAS(\1, 0, None, \2);", b)
        b = self.sub("slot write toQVec3/toUVec3(x,k) = e -> SETAS(x,k,3,e)", r"this->to[QU]Vec3\((\w+)\s*,\s*(\d)\)\s*=(?!=)\s*([^;]*);", r"SETAS(\1, \2, 3, \3);", b)
        b = self.sub("slot write toQuat(x) = e -> SETAS(x,0,4,e)", r"this->toQuat\((\w+)\)\s*=(?!=)\s*([^;]*);", r"SETAS(\1, 0, 4, \2);", b)
        # writes through accessors returning references
        b = self.sub("reference-accessor write X.updP() = e -> X.setP(e)", r"(\w+)\.updP\(\)\s*=(?!=)\s*([^;]*);", r"\1.setP(\2);", b)
        b = self.sub("reference-accessor write X.updR() = e -> X.setR(e)", r"(\w+)\.updR\(\)\s*=(?!=)\s*([^;]*);", r"\1.setR(\2);", b)
        for nm in refparams:
            b = self.sub("reference-parameter write %s = e -> %s.assign(e)" % (nm, nm), r"(?<![\w.>])" + nm + r"\s*=(?!=)\s*([^;]*);", nm + r".assign(\1);", b)
            b = self.sub("reference-parameter write %s[i] -= e" % nm, r"(?<![\w.>])" + nm + r"\[(\d)\]\s*-=\s*([^;]*);", nm + r".setrow(\1, " + nm + r"[\1] - (\2));", b)
            b = self.sub("reference-parameter write %s[i] = e" % nm, r"(?<![\w.>])" + nm + r"\[(\d)\]\s*=(?!=)\s*([^;]*);", nm + r".setrow(\1, \2);", b)
        # (translit's "*this -> self" rule would swallow the product sign in  a*this->f(x))
        b = self.sub("this->member -> self.member", r"\bthis->", "self.", b)
        return b

    def header(self, h):
        h = strip_comments(h)
        k = [0]
        def anon(m):
            k[0] += 1
            return "%s _anon%d" % (m.group(1), k[0])
        h = re.sub(r"([&*])\s*(?=[,)])", anon, h)
        h = re.sub(r"(?<![\w.])in\b(?!_)", "in_", h)
        return h


def ref_params(header):
    """names of non-const reference parameters of class type that the body may assign as a whole"""
    out = []
    for m in re.finditer(r"(const\s+)?\b(Transform|HType)\s*&\s*(\w+)", strip_comments(header)):
        if not m.group(1):
            out.append(m.group(3))
    return out


class MUnit(BUnit):
    """BUnit whose add_method applies the plumbing rules (logged) to header and body before transliteration"""
    def add_method(self, cls, path, anchor, name, members=(), methods=(), occurrence=1, extra_pre=None, cxxname=None, keep_asserts=False, pyname=None):
        c = cut_function(path, anchor, name, occurrence=occurrence)
        P = Plumb()
        hdr = P.header(c.header)
        refs = ref_params(c.header)
        def pre(body):
            body = P.body(body, refs)
            if extra_pre:
                body = extra_pre(body)
            for m in members:
                body = re.sub(r"(?<![\w.>])" + re.escape(m) + r"\b", "self." + m, body)
            for f in methods:
                body = re.sub(r"(?<![\w.>:])" + re.escape(f) + r"\s*\(", "self." + f + "(", body)
            return body
        c2 = Cut(c.path, c.name, c.text, c.start, c.end, hdr, c.body)
        names = params_of(hdr)
        arity = len(names) + 1
        pyname = pyname or name
        full = "%s__%s__%d" % (cls.__name__, pyname, arity)
        src, log, dropped = to_python(c2, full, self_param=True, pre=pre, keep_asserts=keep_asserts)
        log = log + list(P.log.values()) + [dict(rule="implicit-this (members: %s; methods: %s)" % (",".join(members), ",".join(methods)), hits=1, examples=[])]
        self.sources[full] = src
        try:
            exec(compile(src, "<translit:%s>" % full, "exec"), self.ns)
        except SyntaxError as e:
            raise ExtractionError("transliteration of %s is not valid Python: %s\n%s" % (full, e, src))
        key = (cls.__name__, pyname)
        ov = self.overloads.setdefault(key, {})
        ov[arity] = self.ns[full]
        def dispatch(self_, *a, _ov=ov, _n=pyname):
            a = tuple(_lift(x) for x in a)
            if len(a) + 1 not in _ov:
                raise ExtractionError("no transliterated overload of %s with %d args" % (_n, len(a)))
            return _ov[len(a) + 1](self_, *a)
        setattr(cls, pyname, dispatch)
        self.ctx.add_function(path, (cxxname or cls.__name__ + "::" + name) + "/%d" % (arity - 1), c.start, c.end, c.text,
                              "M3 (transliteration to symbolic Python; rules logged)", dropped, log)


# ----------------------------------------------------------------------
# class shims (plumbing only; formula-bearing members are transliterated onto them)
# ----------------------------------------------------------------------
class HMat:
    """HType = Mat<2,dof,Vec3>: H(j) is column j (a SpatialVec), H[i] is row i (Row<dof,Vec3>)"""
    def __init__(self, dof, cols=None):
        self.dof = dof
        self.cols = cols if cols is not None else [None] * dof
    def __call__(self, j): return self.cols[j]
    def __getitem__(self, i): return HRow([c[i] for c in self.cols])
    def setrow(self, i, row):
        for j in range(self.dof):
            if self.cols[j] is None:
                self.cols[j] = SpatialVec(Vec(0, 0, 0), Vec(0, 0, 0))
            self.cols[j][i] = row.e[j]
    def assign(self, o):
        self.cols = [SpatialVec(c[0], c[1]) for c in o.cols]
        return self
    def __mul__(self, u):
        if isinstance(u, Mat):          # HType * Mat<dof,n> (added for C01/C02: G = PH * DI)
            assert u.nr == self.dof
            out = []
            for j in range(u.nc):
                c = self.cols[0] * u.m[0][j]
                for k in range(1, self.dof):
                    c = c + self.cols[k] * u.m[k][j]
                out.append(c)
            return HMat(u.nc, out)
        u = list(u)
        assert len(u) == self.dof
        w = self.cols[0][0] * u[0]; v = self.cols[0][1] * u[0]
        for j in range(1, self.dof):
            w = w + self.cols[j][0] * u[j]; v = v + self.cols[j][1] * u[j]
        return SpatialVec(w, v)
    def __sub__(self, o): return HMat(self.dof, [a - b for a, b in zip(self.cols, o.cols)])
    # --- additions for the dynamics kernels (C01/C02); C03/C05 do not use them ---
    def __add__(self, o): return HMat(self.dof, [a + b for a, b in zip(self.cols, o.cols)])
    def __invert__(self): return HMatT(self)
    def row(self, i): return self[i]
    def col(self, j): return self.cols[j]
    def __rmul__(self, m):
        if isinstance(m, Mat):      # Mat33 * HType acts on every Vec3 element
            return HMat(self.dof, [SpatialVec(m * c[0], m * c[1]) for c in self.cols])
        return NotImplemented
    def flat(self):
        return [x for c in self.cols for x in c.flat()]


class HMatT:
    """~HType = Mat<dof,2,Row3>: (~H)*SpatialVec -> Vec<dof>, (~H)*HType -> Mat<dof,n> (added for C01/C02)"""
    def __init__(self, h): self.h = h
    def __invert__(self): return self.h
    def __mul__(self, o):
        if isinstance(o, SpatialVec):
            return Vec([(~c) * o for c in self.h.cols])
        if isinstance(o, HMat):
            return Mat([[(~c) * d for d in o.cols] for c in self.h.cols])
        return NotImplemented


class HRowT:
    """~Row<dof,Vec3> = Vec<dof,Row3> (added for C01/C02)"""
    def __init__(self, r): self.r = r
    def __invert__(self): return self.r


class HRow:
    """Row<dof,Vec3>"""
    def __init__(self, e): self.e = list(e)
    def __invert__(self): return HRowT(self)
    def __rmod__(self, v): return HRow([v % x for x in self.e])      # Vec3 % Row<dof,Vec3>: cross product with every element (added for C01/C02)
    def __mul__(self, o):
        if isinstance(o, HRowT):          # Row<dof,Vec3> * Vec<dof,Row3> = sum of outer products (Mat33)
            assert len(o.r.e) == len(self.e)
            m = self.e[0] * (~o.r.e[0])
            for k in range(1, len(self.e)):
                m = m + self.e[k] * (~o.r.e[k])
            return m
        return NotImplemented
    def __neg__(self): return HRow([-x for x in self.e])
    def __sub__(self, o): return HRow([a - b for a, b in zip(self.e, o.e)])
    def __add__(self, o): return HRow([a + b for a, b in zip(self.e, o.e)])
    def __rmul__(self, m):
        if isinstance(m, Mat):
            return HRow([m * x for x in self.e])
        return NotImplemented


class Sbs:
    """SBStateDigest stand-in: every accessor hands back the Node (which stores q, u, qdot, pool, X_FM, V_FM)"""
    def __init__(self, node): self.node = node
    def getModelVars(self): return self.node
    def getModelCache(self): return self.node
    def getTreePositionCache(self): return self.node
    def updTreePositionCache(self): return self.node
    def getTreeVelocityCache(self): return self.node
    def updTreeVelocityCache(self): return self.node
    def getQ(self): return self.node.q
    def getU(self): return self.node.u
    def getQDot(self): return self.node.qdot
    def updQDot(self): return self.node.qdot


def build(ctx, mobilizers):
    """-> (B, classes dict). Transliterates Rotation/CoordinateAxis members, RigidBodyNode helpers and the requested mobilizers."""
    B = MUnit(ctx)
    ns = B.ns
    ns["SpatialVec"] = S.SpatialVec

    # ---------------- CoordinateAxis (as in C27) ----------------
    class CoordinateAxis:
        def __init__(self, i):
            assert i in (0, 1, 2)
            self.m_myAxisId = i
        def __int__(self): return self.m_myAxisId
        def __index__(self): return self.m_myAxisId
        def __eq__(self, o): return int(self) == int(o)
        def __ne__(self, o): return int(self) != int(o)
        __hash__ = None
    ns["CoordinateAxis"] = CoordinateAxis
    AX = {"getNextAxis": r"CoordinateAxis getNextAxis\(\) const\s*", "getPreviousAxis": r"CoordinateAxis getPreviousAxis\(\) const\s*",
          "getThirdAxis": r"CoordinateAxis getThirdAxis\( const CoordinateAxis& axis2 \) const\s*",
          "isXAxis": r"bool isXAxis\(\) const\s*", "isYAxis": r"bool isYAxis\(\) const\s*", "isZAxis": r"bool isZAxis\(\) const\s*",
          "isNextAxis": r"bool isNextAxis\( const CoordinateAxis& axis2 \) const\s*", "isPreviousAxis": r"bool isPreviousAxis\( const CoordinateAxis& axis2 \) const\s*",
          "isSameAxis": r"bool isSameAxis\( const CoordinateAxis& axis2 \) const\s*",
          "isDifferentAxis": r"bool isDifferentAxis\( const CoordinateAxis& axis2 \) const\s*",
          "areAllSameAxes": r"bool areAllSameAxes\( const CoordinateAxis& axis2,\s*const CoordinateAxis &axis3 \) const\s*",
          "areAllDifferentAxes": r"bool areAllDifferentAxes\( const CoordinateAxis& axis2,\s*const CoordinateAxis& axis3 \) const\s*",
          "isForwardCyclical": r"bool isForwardCyclical\( const CoordinateAxis& axis2 \) const\s*",
          "isReverseCyclical": r"bool isReverseCyclical\( const CoordinateAxis& axis2 \) const\s*",
          "crossProductSign": r"int crossProductSign\( const CoordinateAxis& axis2 \) const\s*",
          "crossProductAxis": r"CoordinateAxis crossProductAxis\( const CoordinateAxis& axis2 \) const\s*"}
    for m, sig in AX.items():
        B.add_method(CoordinateAxis, AXIS_H, sig, m, members=["m_myAxisId"], methods=list(AX))
    class XCoordinateAxis(CoordinateAxis): pass
    class YCoordinateAxis(CoordinateAxis): pass
    class ZCoordinateAxis(CoordinateAxis): pass
    ns["XAxis"], ns["YAxis"], ns["ZAxis"] = XCoordinateAxis(0), YCoordinateAxis(1), ZCoordinateAxis(2)
    ns["BodyRotationSequence"], ns["SpaceRotationSequence"] = 0, 1

    # ---------------- Rotation ----------------
    class Rot(Mat):
        def __init__(self, *a):
            Mat.__init__(self, [[1, 0, 0], [0, 1, 0], [0, 0, 1]])       # Rotation_() : Mat33P(1)
            if len(a) == 0:
                return
            if len(a) == 1 and isinstance(a[0], Rot):
                self.assign(a[0])
            elif len(a) == 1 and isinstance(a[0], Mat):
                self.assign(a[0])                                         # Rotation_(const Mat33P&, bool) style trusted copy
            elif len(a) == 1 and isinstance(a[0], Vec):
                self.setRotationFromQuaternion(a[0])                      # explicit Rotation_(const QuaternionP&)
            elif len(a) == 2:
                # C++ overload resolution on the static type of the axis argument
                k = {XCoordinateAxis: "ctorX", YCoordinateAxis: "ctorY", ZCoordinateAxis: "ctorZ"}.get(type(a[1]), "ctorAxis")
                getattr(self, k)(*a)
            elif len(a) == 5:
                self.ctor5(*a)
            elif len(a) == 7:
                self.ctor7(*a)
            else:
                raise ExtractionError("Rotation constructor with %d args not modelled" % len(a))
        def asMat33(self): return self
        def x(self): return self.col(0)
        def y(self): return self.col(1)
        def z(self): return self.col(2)
        def __invert__(self): return Rot(Mat.__invert__(self))
        def __mul__(self, o):
            r = Mat.__mul__(self, o)
            return Rot(r) if isinstance(o, Rot) else r
    ns["Rot"] = ns["Rotation"] = Rot
    ns["Quaternion"] = ns["Quaternion__P"] = ns["Quaternion_P"] = lambda v, flag=True: v      # (Vec4, true): already normalised, no work
    ns["SymMat33P"] = ns["SymMat_3_P"] = S.symmat33
    ns["Mat32P"] = ns["Mat32"]; ns["Mat22P"] = ns["Mat22"]
    RM = ["setRotationFromAngleAboutX", "setRotationFromAngleAboutY", "setRotationFromAngleAboutZ", "setRotationFromAngleAboutAxis",
          "setRotationFromTwoAnglesTwoAxes", "setRotationFromThreeAnglesThreeAxes", "setTwoAngleTwoAxesBodyFixedForwardCyclicalRotation",
          "setThreeAngleTwoAxesBodyFixedForwardCyclicalRotation", "setThreeAngleThreeAxesBodyFixedForwardCyclicalRotation",
          "setRotationFromQuaternion", "convertRotationToQuaternion", "convertOneAxisRotationToOneAngle", "convertTwoAxesRotationToTwoAngles",
          "convertThreeAxesRotationToThreeAngles", "convertTwoAxesBodyFixedRotationToTwoAngles", "convertTwoAxesBodyFixedRotationToThreeAngles",
          "convertThreeAxesBodyFixedRotationToThreeAngles", "setRotationToBodyFixedXYZ", "convertRotationToBodyFixedXYZ", "convertRotationToBodyFixedXY", "asMat33"]
    def rot(path, anchor, name, occurrence=1, extra=None, pyname=None):
        B.add_method(Rot, path, anchor, name, methods=RM, occurrence=occurrence, extra_pre=extra, cxxname="Rotation_<P>::" + name, pyname=pyname)
    for ax in "XYZ":
        rot(ROT_H, r"Rotation_&\s+setRotationFromAngleAbout%s\( RealP angle \)\s*" % ax, "setRotationFromAngleAbout" + ax)
        rot(ROT_H, r"Rotation_&\s+setRotationFromAngleAbout%s\( RealP cosAngle, RealP sinAngle \)\s*" % ax, "setRotationFromAngleAbout" + ax)
        rot(ROT_H, r"Rotation_\( RealP angle, const CoordinateAxis::%sCoordinateAxis \)\s*" % ax, "Rotation_(angle,%sAxis)" % ax, pyname="ctor" + ax)
    rot(ROT_H, r"Rotation_& setRotationFromAngleAboutAxis\(RealP angle, const CoordinateAxis& axis\)\s*", "setRotationFromAngleAboutAxis")
    rot(ROT_H, r"Rotation_\( RealP angle, const CoordinateAxis& axis \)\s*", "Rotation_(angle,axis)", pyname="ctorAxis")
    rot(ROT_H, r"Rotation_\(BodyOrSpaceType bodyOrSpace,\s*RealP angle1, const CoordinateAxis& axis1,\s*RealP angle2, const CoordinateAxis& axis2\)\s*", "Rotation_(bodyOrSpace,a1,x1,a2,x2)", pyname="ctor5")
    rot(ROT_H, r"Rotation_\(BodyOrSpaceType bodyOrSpace,\s*RealP angle1, const CoordinateAxis& axis1,\s*RealP angle2, const CoordinateAxis& axis2,\s*RealP angle3, const CoordinateAxis& axis3 \)\s*", "Rotation_(bodyOrSpace,a1,x1,a2,x2,a3,x3)", pyname="ctor7")
    rot(ROT_CPP, r"Rotation_<P>::setRotationFromTwoAnglesTwoAxes\s*\(\s*BodyOrSpaceType bodyOrSpace,\s*RealP angle1, const CoordinateAxis& axis1In,\s*RealP angle2, const CoordinateAxis& axis2In \)\s*", "setRotationFromTwoAnglesTwoAxes")
    rot(ROT_CPP, r"Rotation_<P>::setRotationFromThreeAnglesThreeAxes\s*\(\s*BodyOrSpaceType bodyOrSpace,\s*RealP angle1, const CoordinateAxis& axis1In,\s*RealP angle2, const CoordinateAxis& axis2,\s*RealP angle3, const CoordinateAxis& axis3In \)\s*", "setRotationFromThreeAnglesThreeAxes")
    rot(ROT_CPP, r"Rotation_<P>::setTwoAngleTwoAxesBodyFixedForwardCyclicalRotation\s*\([^)]*\)\s*", "setTwoAngleTwoAxesBodyFixedForwardCyclicalRotation")
    rot(ROT_CPP, r"Rotation_<P>::setThreeAngleTwoAxesBodyFixedForwardCyclicalRotation\s*\([^)]*\)\s*", "setThreeAngleTwoAxesBodyFixedForwardCyclicalRotation")
    rot(ROT_CPP, r"Rotation_<P>::setThreeAngleThreeAxesBodyFixedForwardCyclicalRotation\s*\([^)]*\)\s*", "setThreeAngleThreeAxesBodyFixedForwardCyclicalRotation")
    rot(ROT_CPP, r"Rotation_<P>::setRotationFromQuaternion\( const Quaternion_<P>& q \)\s*", "setRotationFromQuaternion",
        extra=lambda b: b.replace("Mat33P::operator=(", "self.assign("))
    rot(ROT_CPP, r"Rotation_<P>::convertRotationToQuaternion\(\) const\s*", "convertRotationToQuaternion")
    for nm in ("convertOneAxisRotationToOneAngle", "convertTwoAxesRotationToTwoAngles", "convertThreeAxesRotationToThreeAngles",
               "convertTwoAxesBodyFixedRotationToTwoAngles", "convertTwoAxesBodyFixedRotationToThreeAngles", "convertThreeAxesBodyFixedRotationToThreeAngles"):
        rot(ROT_CPP, r"Rotation_<P>::%s\s*\([^)]*\)\s*const\s*" % nm, nm)
    def refR(b):
        n = len(re.findall(r"(?<![\w.])R\s*=\s*Mat33P\(", b))
        if n != 1:
            raise ExtractionError("setRotationToBodyFixedXYZ(c,s): expected exactly one whole-matrix write through the reference R, found %d" % n)
        return re.sub(r"(?<![\w.])R\s*=\s*(Mat33P\([^;]*\))\s*;", r"R.assign(\1);", b)
    rot(ROT_H, r"void setRotationToBodyFixedXYZ\(const Vec3P& c, const Vec3P& s\)\s*", "setRotationToBodyFixedXYZ", extra=refR)
    rot(ROT_H, r"void setRotationToBodyFixedXYZ\( const Vec3P& v\)\s*", "setRotationToBodyFixedXYZ")
    rot(ROT_H, r"Vec3P convertRotationToBodyFixedXYZ\(\) const\s*", "convertRotationToBodyFixedXYZ")
    rot(ROT_H, r"Vec2P convertRotationToBodyFixedXY\(\) const\s*", "convertRotationToBodyFixedXY")
    # static rate helpers used by the mobilizers (proved exact derivatives in C28; here they are simply executed)
    V3, V2, V4 = r"const Vec3P&\s*", r"const Vec2P&\s*", r"const Vec4P&\s*"
    def sfn(name, *params):
        B.add_function(ROT_H, r"static (?:Vec[34]P|Mat\d\dP|Mat<\d,\d,P>)\s+" + name + r"\s*\(\s*" + r"\s*,\s*".join(params) + r"\s*\)\s*", pyname="Rotation_" + name, cxxname="Rotation_<P>::" + name)
    sfn("multiplyByBodyXYZ_N_P", V2 + "cosxy", V2 + "sinxy", r"RealP\s+oocosy", V3 + "w_PB")
    sfn("multiplyByBodyXYZ_NT_P", V2 + "cosxy", V2 + "sinxy", r"RealP\s+oocosy", V3 + "q")
    sfn("multiplyByBodyXYZ_NInv_P", V2 + "cosxy", V2 + "sinxy", V3 + "qdot")
    sfn("multiplyByBodyXYZ_NInvT_P", V2 + "cosxy", V2 + "sinxy", V3 + "v_P")
    sfn("calcNDotForBodyXYZInParentFrame", V2 + "cq", V2 + "sq", r"RealP ooc1", V3 + "qdot")
    sfn("calcUnnormalizedNForQuaternion", V4 + "q")
    sfn("calcUnnormalizedNDotForQuaternion", V4 + "qdot")
    sfn("calcUnnormalizedNInvForQuaternion", V4 + "q")
    sfn("convertAngVelToQuaternionDot", V4 + "q", V3 + "w_PB_P")
    sfn("convertQuaternionDotToAngVel", V4 + "q", V4 + "qdot")
    sfn("convertAngVelDotToQuaternionDotDot", V4 + "q", V3 + "w_PB", V3 + "b_PB")
    sfn("convertAngVelInParentToBodyXYZDot", V2 + "cosxy", V2 + "sinxy", r"RealP\s+oocosy", V3 + "w_PB")
    sfn("convertAngAccInParentToBodyXYZDotDot", V2 + "cosxy", V2 + "sinxy", r"RealP\s+oocosy", V3 + "qdot", V3 + "b_PB")
    # inside the static helpers sibling helpers are called unqualified
    for k in list(ns):
        if k.startswith("Rotation_") and callable(ns[k]) and "__" not in k:
            ns.setdefault(k[len("Rotation_"):], ns[k])

    # ---------------- Transform ----------------
    class Xform:
        def __init__(self, *a):
            if len(a) == 0:
                self._R, self._p = Rot(), Vec(0, 0, 0)
            elif len(a) == 1 and isinstance(a[0], Xform):
                self._R, self._p = Rot(a[0]._R), Vec(list(a[0]._p.e))
            elif len(a) == 2:
                self._R, self._p = Rot(a[0]), Vec(list(a[1].e))
            else:
                raise ExtractionError("Transform constructor not modelled")
        def R(self): return self._R
        def p(self): return self._p
        def updR(self): return self._R
        def setR(self, R): self._R = Rot(R)
        def setP(self, p):
            self._p = Vec(list(p.e)) if isinstance(p, Vec) else Vec([p] * 3)      # Vec3 = scalar fills every element
        def x(self): return self._R.x()
        def y(self): return self._R.y()
        def z(self): return self._R.z()
        def assign(self, o):
            self._R, self._p = Rot(o._R), Vec(list(o._p.e)); return self
        def __invert__(self):
            Ri = ~self._R                                   # InverseTransform: (~R, -(~R*p)) -- textbook meaning (assumed contract on Transform_)
            return Xform(Ri, -(Ri * self._p))
        def __mul__(self, o):
            if isinstance(o, Xform):
                return Xform(self._R * o._R, self._p + self._R * o._p)
            return self._p + self._R * o
    ns["Transform"] = Xform
    ns["abs_"] = lambda x: S.ITE(val(x) < 0, -x, x)
    ns["Eps"] = D(z3.Real("Eps")); ns["SignificantReal"] = D(z3.Real("SignificantReal"))

    def GETAS(base, off, n, kind):
        e = list(base[int(off):int(off) + int(n)])
        assert len(e) == int(n), "pointer view past the end of the array"
        return Row(e) if kind == "Row" else Vec(e)
    def SETAS(base, off, n, v):
        off = int(off)
        if isinstance(v, Vec):
            e = list(v.e)
            assert n is None or len(e) == int(n), "pointer-view write of %d elements into a Vec%s" % (len(e), n)
        else:
            assert n is not None
            e = [v] * int(n)                                 # Vec = scalar fills every element
        for i, x in enumerate(e):
            base[off + i] = x
    def SETEL(m, idx, v):
        if isinstance(m, HMat):
            assert len(idx) == 1 and isinstance(v, SpatialVec)
            m.cols[int(idx[0])] = v
        elif len(idx) == 2:
            m.m[int(idx[0])][int(idx[1])] = D.lift(v)
        else:
            raise ExtractionError("SETEL on %r" % (m,))
    ns["GETAS"], ns["SETAS"], ns["SETEL"] = GETAS, SETAS, SETEL

    # ---------------- RigidBodyNode / RigidBodyNodeSpec base ----------------
    class Node:
        dof = None; nq = None; maxnq = None
        useEuler = True
        reversed_ = False
        def __init__(self, **params):
            self.__dict__.update(params)
            self.sbs = Sbs(self)
            self.q = self.u = self.qdot = self.pool = self.X_FM = self.V_FM = self.H_FM = None
        def isReversed(self): return self.reversed_
        def getUseEulerAngles(self, mv): return self.useEuler
        def getQPool(self, mc, pc): return self.pool
        def getX_FM(self, pc): return self.X_FM
        def getV_FM(self, vc): return self.V_FM
        def getH_FM(self, pc): return self.H_FM
        def fromQ(self, v): return Vec(list(v[:self.nq_in_use()]))
        def fromU(self, v): return Vec(list(v[:self.dof]))
        def fromQuat(self, v): return Vec(list(v[:4]))
        def fromQVec3(self, v, offs): return Vec(list(v[int(offs):int(offs) + 3]))
        def fromUVec3(self, v, offs): return Vec(list(v[int(offs):int(offs) + 3]))
        def nq_in_use(self): return self.nq
        def calcAcrossJointTransform(self, sbs, q, X):          # RigidBodyNode.h operator form: precalc + calcX_FM on the given q
            pool = [None] * self.calcQPoolSize(self)
            qerr = [None]
            self.performQPrecalculations(sbs, q, len(q), pool, len(pool), qerr, 1)
            self.calcX_FM(sbs, q, len(q), pool, len(pool), X)
    ns["Node"] = Node
    NM = ["findX_F0M0", "findV_F0M0", "find_w_F0M0", "isReversed", "getX_FM", "getV_FM", "getH_FM", "reverseAngularVelocity", "reverseSpatialVelocity",
          "calcAcrossJointVelocityJacobian", "calcAcrossJointVelocityJacobianDot"]
    B.add_method(Node, RBN_H, r"Transform findX_F0M0\(const SBTreePositionCache& pc\) const\s*", "findX_F0M0", methods=NM, cxxname="RigidBodyNode::findX_F0M0")
    B.add_method(Node, RBN_H, r"SpatialVec findV_F0M0\(const SBTreePositionCache& pc, const SBTreeVelocityCache& vc\) const\s*", "findV_F0M0", methods=NM, cxxname="RigidBodyNode::findV_F0M0")
    B.add_method(Node, RBN_H, r"Vec3 find_w_F0M0\(const SBTreePositionCache& pc, const SBTreeVelocityCache& vc\) const\s*", "find_w_F0M0", methods=NM, cxxname="RigidBodyNode::find_w_F0M0")
    B.add_method(Node, RBN_H, r"static Vec3 reverseAngularVelocity\(const Rotation& R_AB, const Vec3& w_AB\)\s*", "reverseAngularVelocity", methods=NM, cxxname="RigidBodyNode::reverseAngularVelocity")
    B.add_method(Node, RBN_H, r"static SpatialVec reverseSpatialVelocity\(const Transform& X_AB, const SpatialVec& V_AB\)\s*", "reverseSpatialVelocity", methods=NM, cxxname="RigidBodyNode::reverseSpatialVelocity")
    B.add_function(SPA_H, r"inline SpatialVec reverseRelativeVelocity\s*\(\s*const Transform&\s*X_AB,\s*const SpatialVec&\s*V_AB\)\s*", pyname="reverseRelativeVelocity")
    # default qdot == u family of RigidBodyNodeSpec<dof,...>
    for nm, sig in (("calcQDot", r"void calcQDot\(const SBStateDigest&,\s*const Real\* u, Real\* qdot\) const override\s*"),
                    ("calcQDotDot", r"void calcQDotDot\(const SBStateDigest&,\s*const Real\* udot, Real\* qdotdot\) const override\s*"),
                    ("multiplyByN", r"void multiplyByN\(const SBStateDigest&, bool matrixOnRight,\s*const Real\* in, Real\* out\) const override\s*"),
                    ("multiplyByNInv", r"void multiplyByNInv\(const SBStateDigest&, bool matrixOnRight,\s*const Real\* in, Real\* out\) const override\s*"),
                    ("multiplyByNDot", r"void multiplyByNDot\(const SBStateDigest&, bool matrixOnRight,\s*const Real\* in, Real\* out\) const override\s*")):
        B.add_method(Node, RBNS_H, sig, nm, cxxname="RigidBodyNodeSpec<dof>::" + nm + " (default)")
    # generic reversal of the hinge matrix (RigidBodyNodeSpec.cpp); noR_FM is the template flag of the node
    revpre = lambda b: b
    B.add_method(Node, RBNS_CPP, r"RigidBodyNodeSpec<dof, noR_FM, noX_MB, noR_PF>::calcReverseMobilizerH_FM\(\s*const SBStateDigest& sbs,\s*HType&\s*H_FM\) const\s*", "calcReverseMobilizerH_FM",
                 members=["noR_FM"], methods=NM, extra_pre=lambda b: re.sub(r"\bHType\s+(\w+);", r"HType \1 = HType(self.dof);", b), cxxname="RigidBodyNodeSpec<dof>::calcReverseMobilizerH_FM (default)")
    B.add_method(Node, RBNS_CPP, r"RigidBodyNodeSpec<dof, noR_FM, noX_MB, noR_PF>::calcReverseMobilizerHDot_FM\(\s*const SBStateDigest& sbs,\s*HType&\s*HDot_FM\) const\s*", "calcReverseMobilizerHDot_FM",
                 members=["noR_FM"], methods=NM, extra_pre=lambda b: re.sub(r"\bHType\s+(\w+);", r"HType \1 = HType(self.dof);", b), cxxname="RigidBodyNodeSpec<dof>::calcReverseMobilizerHDot_FM (default)")
    ns["HType"] = HMat

    classes = {}
    for name in mobilizers:
        classes[name] = add_mobilizer(B, Node, name)
    B.dump_sources()
    return B, classes


# file, dof, nq (Euler/angle form), noR_FM template flag, quaternion capable, member data
MOBILIZERS = {
    "Pin":             dict(file="RigidBodyNodeSpec_Pin.h", cls="RBNodeTorsion", dof=1, nq=1, noR_FM=False),
    "Slider":          dict(file="RigidBodyNodeSpec_Slider.h", cls="RBNodeSlider", dof=1, nq=1, noR_FM=True),
    "Screw":           dict(file="RigidBodyNodeSpec_Screw.h", cls="RBNodeScrew", dof=1, nq=1, noR_FM=False, data=["pitch"]),
    "Cylinder":        dict(file="RigidBodyNodeSpec_Cylinder.h", cls="RBNodeCylinder", dof=2, nq=2, noR_FM=False),
    "Universal":       dict(file="RigidBodyNodeSpec_Universal.h", cls="RBNodeUJoint", dof=2, nq=2, noR_FM=False),
    "BendStretch":     dict(file="RigidBodyNodeSpec_PolarCoords.h", cls="RBNodeBendStretch", dof=2, nq=2, noR_FM=False),
    "Planar":          dict(file="RigidBodyNodeSpec_Planar.h", cls="RBNodePlanar", dof=3, nq=3, noR_FM=False),
    "Translation":     dict(file="RigidBodyNodeSpec_Translation.h", cls="RBNodeTranslate", dof=3, nq=3, noR_FM=True),
    "Gimbal":          dict(file="RigidBodyNodeSpec_Gimbal.h", cls="RBNodeGimbal", dof=3, nq=3, noR_FM=False),
    "Bushing":         dict(file="RigidBodyNodeSpec_Bushing.h", cls="RBNodeBushing", dof=6, nq=6, noR_FM=False),
    "SphericalCoords": dict(file="RigidBodyNodeSpec_SphericalCoords.h", cls="RBNodeSphericalCoords", dof=3, nq=3, noR_FM=False,
                            data=["az0", "ze0", "axisT", "signAz", "signZe", "signT"], extra=["calcAzZe", "calcR_FM"]),
    "Ball":            dict(file="RigidBodyNodeSpec_Ball.h", cls="RBNodeBall", dof=3, nq=3, quat=4, noR_FM=False),
    "Free":            dict(file="RigidBodyNodeSpec_Free.h", cls="RBNodeFree", dof=6, nq=6, quat=7, noR_FM=False),
    "Ellipsoid":       dict(file="RigidBodyNodeSpec_Ellipsoid.h", cls="RBNodeEllipsoid", dof=3, nq=3, quat=4, noR_FM=False, data=["semi"]),
}
MEMBER_FUNCS = ["calcQPoolSize", "performQPrecalculations", "calcX_FM", "calcAcrossJointVelocityJacobian", "calcAcrossJointVelocityJacobianDot",
                "calcReverseMobilizerH_FM", "calcReverseMobilizerHDot_FM", "calcQDot", "calcQDotDot", "multiplyByN", "multiplyByNInv", "multiplyByNDot",
                "setQToFitTransformImpl", "setQToFitRotationImpl", "setQToFitTranslationImpl",
                "setUToFitVelocityImpl", "setUToFitAngularVelocityImpl", "setUToFitLinearVelocityImpl"]
REQUIRED = ["calcQPoolSize", "performQPrecalculations", "calcX_FM", "calcAcrossJointVelocityJacobian", "calcAcrossJointVelocityJacobianDot"]


def add_mobilizer(B, Node, name):
    spec = MOBILIZERS[name]
    path = os.path.join(SRC, spec["file"])
    text = blank_comments(open(path).read())
    mcls = re.search(r"\bclass\s+%s\s*:\s*public\s+RigidBodyNodeSpec<\s*(\d)\s*,\s*(true|false)\s*," % spec["cls"], text)
    if not mcls:
        raise ExtractionError("%s: class %s : public RigidBodyNodeSpec<dof, noR_FM, ...> not found" % (path, spec["cls"]))
    if int(mcls.group(1)) != spec["dof"]:
        raise ExtractionError("%s: dof template argument is %s, the check expects %d" % (path, mcls.group(1), spec["dof"]))
    spec = dict(spec, noR_FM=(mcls.group(2) == "true"))       # template flag read from the source
    # enum constants of the class (pool layout) are read from the source
    enums = {}
    for m in re.finditer(r"\benum\s*\{([^}]*)\}", text):
        for item in m.group(1).split(","):
            item = item.strip()
            if not item:
                continue
            k, _, v = item.partition("=")
            if not re.fullmatch(r"\s*\d+\s*", v or ""):
                raise ExtractionError("%s: enum item '%s' is not NAME=integer" % (path, item))
            enums[k.strip()] = int(v)
    cls = type(spec["cls"], (Node,), dict(enums))
    cls.dof, cls.nq, cls.noR_FM, cls.quat = spec["dof"], spec["nq"], spec["noR_FM"], spec.get("quat")
    cls.nq_in_use = lambda self: self.nq if (self.useEuler or not self.quat) else self.quat
    cls.defined = []
    members = list(enums) + list(spec.get("data", []))
    methods = MEMBER_FUNCS + list(spec.get("extra", [])) + ["findX_F0M0", "findV_F0M0", "find_w_F0M0", "calcAcrossJointTransform"]
    B.ctx.extraction.append(dict(function=spec["cls"] + " enum constants", file=path, lines=[0, 0], sha256="", route="read from source", rewrites=[dict(rule="enum NAME=int -> class attribute", hits=len(enums), examples=["%s=%d" % kv for kv in list(enums.items())[:4]])], dropped=[]))
    for fn in MEMBER_FUNCS + list(spec.get("extra", [])):
        rx = r"\b(?:void|int|Vec2|Rotation)\s+%s\s*\([^{;]*?\)\s*const(?:\s+override)?\s*" % fn
        n = len([m for m in re.finditer(rx, text) if _is_def(text, m)])
        if n == 0:
            if fn in REQUIRED:
                raise ExtractionError("%s: required member %s not found" % (path, fn))
            continue
        if n > 1:
            raise ExtractionError("%s: %d definitions of %s" % (path, n, fn))
        B.add_method(cls, path, rx, fn, members=members, methods=methods, cxxname=spec["cls"] + "::" + fn)
        cls.defined.append(fn)
    return cls


def _is_def(text, m):
    ob = text.find("{", m.end() - 1)
    semi = text.find(";", m.end())
    return ob >= 0 and not (0 <= semi < ob)


# ----------------------------------------------------------------------
# the realize sequence of RigidBodyNodeSpec.h::realizePosition/realizeVelocity for ONE node (F,M frames only)
# ----------------------------------------------------------------------
def realize(node, q, u=None, velocity=True):
    """q: list of coordinates (Angle / D); u: list of speeds (D). Re-enacts, for the across-mobilizer quantities only,
       performQPrecalculations; calcX_FM (reversed: X_FM = ~X_MF); H_FM (reversed: calcReverseMobilizerH_FM);
       calcQDot; V_FM = H_FM*u; HDot_FM."""
    sbs = node.sbs
    node.q = list(q)
    node.pool = [None] * node.calcQPoolSize(node)
    node.qerr = [None]
    node.performQPrecalculations(sbs, node.q, len(node.q), node.pool, len(node.pool), node.qerr, 1)
    if node.reversed_:
        X_MF = node.ns_Transform()
        node.calcX_FM(sbs, node.q, len(node.q), node.pool, len(node.pool), X_MF)
        node.X_MF = X_MF
        node.X_FM = ~X_MF
    else:
        X = node.ns_Transform()
        node.calcX_FM(sbs, node.q, len(node.q), node.pool, len(node.pool), X)
        node.X_FM = X
    H = HMat(node.dof)
    if node.reversed_:
        node.calcReverseMobilizerH_FM(sbs, H)
    else:
        node.calcAcrossJointVelocityJacobian(sbs, H)
    node.H_FM = H
    if u is None:
        return node
    node.u = list(u)
    node.qdot = [0] * 8
    node.calcQDot(sbs, node.u, node.qdot)
    node.V_FM = H * node.u
    if velocity:
        HD = HMat(node.dof)
        if node.reversed_:
            node.calcReverseMobilizerHDot_FM(sbs, HD)
        else:
            node.calcAcrossJointVelocityJacobianDot(sbs, HD)
        node.HDot_FM = HD
    return node


def make(B, cls, **params):
    n = cls(**params)
    n.ns_Transform = B.ns["Transform"]
    return n


def vals(x):
    return S.vmap(val, x)


def ders(x):
    return S.vmap(der, x)


def hflat(H, f):
    return Vec([D(f(x)) for x in H.flat()])


# ----------------------------------------------------------------------
# standard symbolic states per mobilizer: (params, q0 list (no rates), u list, udot list, side conditions, documented oracle)
# ----------------------------------------------------------------------
def R3(n): return z3.Real(n)


def quat_R(e):
    q0, q1, q2, q3 = e
    return Mat([[q0*q0+q1*q1-q2*q2-q3*q3, 2*(q1*q2-q0*q3), 2*(q1*q3+q0*q2)],
                [2*(q1*q2+q0*q3), q0*q0-q1*q1+q2*q2-q3*q3, 2*(q2*q3-q0*q1)],
                [2*(q1*q3-q0*q2), 2*(q2*q3+q0*q1), q0*q0-q1*q1-q2*q2+q3*q3]])


KINDS = {  # coordinate kinds: a = angle, x = real (length / quaternion component)
    "Pin": "a", "Slider": "x", "Screw": "a", "Cylinder": "ax", "Universal": "aa", "BendStretch": "ax", "Planar": "axx",
    "Translation": "xxx", "Gimbal": "aaa", "Bushing": "aaaxxx", "SphericalCoords": "aax",
    "Ball:euler": "aaa", "Ball:quat": "xxxx", "Free:euler": "aaaxxx", "Free:quat": "xxxxxxx",
    "Ellipsoid:euler": "aaa", "Ellipsoid:quat": "xxxx",
}
SPHERICAL_OPTIONS = {      # (translation axis, azimuth negated, zenith negated, translation negated); offsets az0, ze0 stay symbolic
    "Mz+++": ("ZAxis", 1, 1, 1), "Mx+-+": ("XAxis", 1, -1, 1), "Mz-+-": ("ZAxis", -1, 1, -1), "Mx--+": ("XAxis", -1, -1, 1),
}


class Scenario:
    """one mobilizer type (+ modelling option) in a fully symbolic state"""
    def __init__(self, B, classes, name, option=None):
        S.reset_env()
        self.B, self.name, self.option = B, name, option
        self.cls = classes[name]
        self.label = name + ("[%s]" % option if option else "")
        key = name + (":" + option if name in ("Ball", "Free", "Ellipsoid") else "")
        self.kinds = KINDS[key]
        self.dof = self.cls.dof
        self.q0 = [qangle("q%d" % i) if k == "a" else D(z3.Real("x_q%d" % i)) for i, k in enumerate(self.kinds)]
        self.u = [z3.Real("u%d" % i) for i in range(self.dof)]
        self.ud = [z3.Real("ud%d" % i) for i in range(self.dof)]
        self.params = {}
        self.extra_side = []
        self.quat = option == "quat"
        if name in ("Ball", "Free", "Ellipsoid"):
            self.params["useEuler"] = not self.quat
        if name == "Screw":
            self.params["pitch"] = D(z3.Real("pitch"))
        if name == "Ellipsoid":
            self.params["semi"] = Vec(*[z3.Real("semi%d" % i) for i in range(3)])
        if name == "SphericalCoords":
            ax, sa, sz, st = SPHERICAL_OPTIONS[option]
            self.params.update(axisT=B.ns[ax], signAz=sa, signZe=sz, signT=st, az0=S.Angle("az0"), ze0=S.Angle("ze0"))
        if self.quat:
            n = val(Vec(*self.q0[:4]).normSqr())
            self.extra_side.append(n > 0)
            self.nsq = n
        elif name in ("Gimbal", "Bushing", "Ball", "Free", "Ellipsoid"):
            self.c1_nonzero = self.q0[1].c != 0       # needed only where qdot = N(q) u divides by cos(q1)

    def node(self, reversed_=False):
        n = make(self.B, self.cls, **self.params)
        n.reversed_ = reversed_
        return n

    def side(self, *more):
        return list(S.ENV.side) + list(self.extra_side) + list(more)

    def pass0(self, reversed_=False, velocity=True):
        """values only"""
        return realize(self.node(reversed_), self.q0, [D(x) for x in self.u], velocity=velocity)

    def pass1(self, n0, reversed_=False, velocity=False):
        """the same state moving with qdot = calcQDot(u) (from pass 0) and udot: dual numbers"""
        q1 = [with_rate(a, val(n0.qdot[i])) for i, a in enumerate(self.q0)]
        u1 = [D(x, xd) for x, xd in zip(self.u, self.ud)]
        return realize(self.node(reversed_), q1, u1, velocity=velocity)

    # ---- documented parameterisation (independent oracle; MobilizedBody_<Type>.h) ----
    def oracle(self, q):
        """q -> (R_FM 3x3, p_FM) as DOCUMENTED, for coordinates q (Angle / D, possibly carrying rates)"""
        nm = self.name
        I = eye(3)
        Z = Vec(0, 0, 0)
        if nm == "Pin":                    # rotation about the common z axis
            return Rz(q[0]), Z
        if nm == "Slider":                 # translation along the common x axis
            return I, Vec(q[0], 0, 0)
        if nm == "Screw":                  # rotation q about z, translation pitch*q along z
            return Rz(q[0]), Vec(0, 0, self.params["pitch"] * D(q[0].v, 0 if q[0].rate is None else q[0].rate))
        if nm == "Cylinder":               # rotation about and translation along the common z axis
            return Rz(q[0]), Vec(0, 0, q[1])
        if nm == "Universal":              # rotation about x, then about the new y
            return Rx(q[0]) * Ry(q[1]), Z
        if nm == "BendStretch":            # rotate about z, then slide along the rotated (M) x axis
            R = Rz(q[0])
            return R, R * Vec(q[1], 0, 0)
        if nm == "Planar":                 # rotation about z; translation along F's x and y
            return Rz(q[0]), Vec(q[1], q[2], 0)
        if nm == "Translation":
            return I, Vec(q[0], q[1], q[2])
        if nm == "Gimbal":                 # body-fixed 1-2-3
            return Rx(q[0]) * Ry(q[1]) * Rz(q[2]), Z
        if nm == "Bushing":                # translate by p_FM (in F), body-fixed 1-2-3 about the new origin
            return Rx(q[0]) * Ry(q[1]) * Rz(q[2]), Vec(q[3], q[4], q[5])
        if nm == "SphericalCoords":        # a = s0*q0+a0 about Fz, z = s1*q1+z0 about the new My, d = s2*q2 along Mx or Mz
            P = self.params
            az = (q[0] if P["signAz"] == 1 else -q[0]) + P["az0"]
            ze = (q[1] if P["signZe"] == 1 else -q[1]) + P["ze0"]
            R = Rz(az) * Ry(ze)
            d = q[2] if P["signT"] == 1 else -q[2]
            return R, R.col(int(P["axisT"])) * d
        if nm in ("Ball", "Free", "Ellipsoid"):
            if self.quat:                  # rotation of the NORMALISED quaternion: R(q/|q|) = Rhom(q)/|q|^2
                e = Vec(*q[:4])
                R = quat_R(e) / e.normSqr()
                k = 4
            else:
                R = Rx(q[0]) * Ry(q[1]) * Rz(q[2])
                k = 3
            if nm == "Ball":
                return R, Z
            if nm == "Free":
                return R, Vec(q[k], q[k + 1], q[k + 2])
            # Ellipsoid: the documented translation is IMPLICIT (M origin on the ellipsoid surface at the point whose surface normal is Mz;
            # (0,0,rz) in the reference configuration) -> clauses in c05.ellipsoid_position, no closed form here
            return R, None
        raise KeyError(nm)

    def documented_qdot(self, q, u):
        """qdot as DOCUMENTED in terms of u: u = qdot except Ball/Free/Ellipsoid where u = w_FM in F (and v_FM in F)"""
        if self.name not in ("Ball", "Free", "Ellipsoid"):
            return None
        return "angular-velocity-speeds"


def vee(Wm):
    """axial vector of a (skew) matrix"""
    return Vec(Wm.m[2][1], Wm.m[0][2], Wm.m[1][0])
