"""C22 - Events are detected, localised and handled in time order.
Back end A (CBMC contracts), route M2: Event::classifyTransition/maskTransition, EventTriggerInfo::calcTransitionMask/
calcTransitionToReport, SimTK::sign, IntegratorRep::estimateRootTime/findEventCandidates/setTriggeredEvents, the event
localisation part of AbstractIntegratorRep::takeOneStep and TimeStepperRep::stepTo are cut from /repo on every run."""
import os, re, json
from vlib import *
from extract import *
from _help_c19c22 import *
import _help_c22b as B
import c19 as C19

PID = "C22"
META = dict(
    category="proof",
    text=("CBMC code contracts on the real text of the event machinery: sign classification (reported trigger is Falling iff the "
          "witness was >0 and is no longer >0 and falling is monitored, Rising iff <0 -> not <0 and rising monitored, never both, none "
          "otherwise; all doubles), estimateRootTime bracket (thorough tier), the loop of IntegratorRep::findEventCandidates over contracted "
          "sequence stubs under a loop invariant with ghost positions (any number of triggers: equal list lengths, exactly the monitored sign "
          "changes, in order, earliestTimeEst == min of the estimates, minWindow <= narrowestWindow <= every candidate's requirement), the event part "
          "of AbstractIntegratorRep::takeOneStep with its localisation loop under a loop invariant (window t0<=tLow<tHigh<=t1, width <= "
          "narrowestWindow, candidates non-empty, pending report time never strictly inside, advanced state backed up to tHigh), and "
          "TimeStepperRep::stepTo against the C19 CONTRACTS of Integrator::stepTo/reinitialize with a ghost call log (stepTo called with "
          "min(nextScheduledReport,time)/min(nextScheduledEvent,time); scheduled ids handled once at t == nextScheduledEvent, triggered ids at the "
          "top of the localised window, reports at t == nextScheduledReport; reinitialize(lowestModified, shouldTerminate) after every handler "
          "before the next stepTo; exit only when the simulation is over or the requested time is reached). 'No crossing missed', System::handleEvents "
          "dispatch and the periodic handlers' time arithmetic are not decided."),
    note=("Trusted: CBMC 6.11 + MiniSat, IEEE model, extractor rule tables (incl. the textual loop-contract transformation of the findEventCandidates loop), "
          "IEEE sign lemmas for the secant quotient/product, MinWindow and bias lemmas. Assumed: contracts of the five System entry points used by the time "
          "stepper (schedule not in the past / consistent with the advanced time, handlers do not move time), finite witness values, viable indices in range, "
          "split completeness link, interpolation/back-up effect on times."),
    technique="CBMC function contracts (dfcc), loop contracts with ghost state (localisation loop, time stepper loop cut at integ->stepTo by contract), textual loop-contract transformation with ghost positions (findEventCandidates), ghost call log, loop-free full-domain harnesses for the sign algebra, bounded refutation companion",
    design_ref="4 C22")
SPEC = os.path.join(VERIF, "specs", PID)
SPEC19 = os.path.join(VERIF, "specs", "C19")
EVENT_CPP = os.path.join(REPO, "SimTKcommon/Simulation/src/Event.cpp")


def flat_event(r):
    r.sub("scope-flatten Event::", r"\bEvent::", "", None, 0)
    r.sub("functional cast Trigger(x)", r"(?<![\w:])Trigger\(", "(Trigger)(", None, 0)


def build_event_unit(ctx):
    parts = ['#include "%s/pre.h"\n' % SPEC19]
    parts.append(cut_enum(EVENT_H, "Trigger", "Event::Trigger", ctx))
    parts.append('#include "%s/event_contracts.h"\n' % SPEC)
    # SimTK::sign(const double&)
    parts.append(cut_inline(ctx, SCALAR_H, r"inline int sign\(const double&\s+x\)\s*", "SimTK::sign(const double&)", "int sign(Real x)"))
    parts.append(cut_inline(ctx, EVENT_H, r"static Trigger classifyTransition\(int before, int after\)\s*", "Event::classifyTransition",
                            "Trigger classifyTransition(int before, int after)"))
    parts.append(cut_inline(ctx, EVENT_H, r"static Trigger maskTransition\(Trigger transition, Trigger mask\)\s*", "Event::maskTransition",
                            "Trigger maskTransition(Trigger transition, Trigger mask)", extra=flat_event))
    def rep_fwd(r):
        r.lit("handle->rep forwarding", "getRep().", "self->", 1)
    for nm, fld, ty in [("shouldTriggerOnRisingSignTransition", "triggerOnRising", "bool"), ("shouldTriggerOnFallingSignTransition", "triggerOnFalling", "bool"),
                        ("getRequiredLocalizationTimeWindow", "localizationWindow", "Real")]:
        parts.append(cut_inline(ctx, EVENT_CPP, ty + r" EventTriggerInfo::" + nm + r"\(\)\s+const\s*", "EventTriggerInfo::" + nm,
                                "static %s %s(const struct EventTriggerInfo* self)" % (ty, nm), extra=rep_fwd))
    parts.append(cut_inline(ctx, EVENT_H, r"Event::Trigger calcTransitionMask\(\) const\s*", "EventTriggerInfo::calcTransitionMask",
                            "Trigger calcTransitionMask(const struct EventTriggerInfo* self)", extra=flat_event,
                            calls=["shouldTriggerOnRisingSignTransition", "shouldTriggerOnFallingSignTransition"]))
    def x_report(r):
        flat_event(r); literal_not(r, 1)
    parts.append(cut_inline(ctx, EVENT_H, r"Event::Trigger calcTransitionToReport\s*\(Event::Trigger transitionSeen\) const\s*", "EventTriggerInfo::calcTransitionToReport",
                            "Trigger calcTransitionToReport(const struct EventTriggerInfo* self, Trigger transitionSeen)", extra=x_report))
    def x_root(r):
        r.lit("symbolic quotient -> trusted sign lemma", "fHigh/(fHigh-bias*fLow)", "vf_secant_fraction(fHigh, fLow, bias)", 1)
        r.lit("symbolic product -> trusted lemma", "x*h", "vf_mul_unit(x, h)", 1)
        r.sub("std::max/min", r"\bstd::(max|min)\(", r"vf_\1(", 3)
        r.sub("functional cast Real(x)", r"(?<![\w:])Real\(", "(Real)(", None, 1)
    parts.append(cut_inline(ctx, INTEGREP_H, r"static Real estimateRootTime\(Real tLow, Real fLow, Real tHigh, Real fHigh,\s*Real bias, Real minWindow\)\s*",
                            "IntegratorRep::estimateRootTime", "Real estimateRootTime(Real tLow, Real fLow, Real tHigh, Real fHigh, Real bias, Real minWindow)", extra=x_root))
    parts.append('#include "%s/event_harness.h"\n' % SPEC)
    # --- findEventCandidates over contracted sequence stubs (loop contract + ghost positions) ---
    parts.append('#include "%s/fec_contracts.h"\n' % SPEC)
    parts.append(B.fec_text(ctx))
    parts.append('#include "%s/fec_harness.h"\n' % SPEC)
    path = os.path.join(ctx.out, "event_unit.c")
    open(path, "w").write("\n".join(parts))
    return path


_head = {}


def shared_head(ctx):
    """C19 head (pre.h, status enums, inline IntegratorRep accessors), cut once per run and shared by the localisation and the time stepper units"""
    if "h" not in _head:
        _head["h"] = C19.common_head(ctx)
    return list(_head["h"])


def build_loc_unit(ctx):
    """event part of takeOneStep (everything behind the step-acceptance loop) + window bookkeeping of setTriggeredEvents"""
    parts = shared_head(ctx)
    parts.append(cut_inline(ctx, INTEGREP_H, r"const State& getInterpolatedState\(\) const\s*", "IntegratorRep::getInterpolatedState",
                            "static const struct State* getInterpolatedState(const struct IntegratorRep* self)", ["interpolatedState"],
                            extra=lambda r: r.sub("reference-return->pointer", r"(?<![\w.>&])interpolatedState\b", "&interpolatedState", 1)))
    parts.append('#include "%s/loc_contracts.h"\n' % SPEC)
    # --- setTriggeredEvents: window bookkeeping statements (the Array_ part behind them is payload) ---
    c = cut_function(INTEGREP_H, r"void setTriggeredEvents\(Real tlo, Real thi,\s*const Array_<EventId>&\s*eventIds,\s*const Array_<Real>& estEventTimes,\s*const Array_<Event::Trigger>& transitionsSeen\)\s*", "IntegratorRep::setTriggeredEvents")
    r = Rewriter("{" + c.body + "}", "IntegratorRep::setTriggeredEvents")
    r.drop("container payload (sorted copies of ids/times/transitions into the member arrays)", r"const int n = eventIds\.size\(\);.*\}\s*\}\s*$", "ghost_triggered_n = n; }", 1, flags=re.S)
    r.sub("State::getTime()->view field", r"advancedState\.getTime\(\)", "advancedState.t", 1)
    r.members(["tPrev", "tLow", "tHigh", "advancedState"])
    ctx.add_function(INTEGREP_H, "IntegratorRep::setTriggeredEvents", c.start, c.end, c.text, "M2", r.dropped, r.log)
    parts.append("void setTriggeredEvents(struct IntegratorRep* self, Real tlo, Real thi, int n)\n" + r.text + "\n")
    # --- takeOneStep, event part ---
    c = cut_function(ABSTRACT_CPP, r"bool AbstractIntegratorRep::takeOneStep\(Real tMax, Real tReport\)\s*", "AbstractIntegratorRep::takeOneStep", expect_total=1)
    body = strip_comments(c.body)
    k = body.find("const Vector& e0 = getPreviousEventTriggers();")
    if k < 0:
        raise ExtractionError("takeOneStep: start of the event part (`const Vector& e0 = getPreviousEventTriggers();`) not found")
    r = Rewriter("{" + body[k:] + "}", "AbstractIntegratorRep::takeOneStep#events")
    D = r.drop
    D("payload", r"const Vector& e0 = getPreviousEventTriggers\(\);")
    r.sub("container access -> contracted stub", r"\be0\.size\(\) == 0", "nEventTriggers(self) == 0", 1)
    D("payload", r"const Vector& e1 = getAdvancedState\(\)\.getEventTriggers\(\);")
    D("payload assert", r"assert\(e0\.size\(\) == e1\.size\(\)[^;]*;")
    r.sub("symbolic product -> trusted lemma", r"SignificantReal \* (std::max\(Real\(1\), getAdvancedTime\(\)\))", r"vf_minwindow(\1)", 1)
    r.sub("container payload -> candidate count", r"Array_<SystemEventTriggerIndex>\s+eventCandidates, newEventCandidates;", "int eventCandidates_n = 0, newEventCandidates_n = 0;", 1)
    D("payload", r"Array_<Event::Trigger>\s+eventCandidateTransitions, newEventCandidateTransitions;")
    D("payload", r"Array_<Real> eventTimeEstimates, newEventTimeEstimates;")
    def fec(a):
        if len(a) != 14:
            raise ExtractionError("findEventCandidates call with %d arguments" % len(a))
        viable = "-1" if a[1].strip() == "0" else "eventCandidates_n"
        return "findEventCandidates_v(self, %s, %s, %s, %s, %s, &%s_n, &%s, &%s)" % (a[3], a[5], a[7], a[8], viable, a[9], a[12], a[13])
    rewrite_call(r, "callee by contract (Array_ payload -> count)", "findEventCandidates", fec, 3)
    r.sub("container access -> count", r"\b(eventCandidates|newEventCandidates)\.empty\(\)", r"(\1_n == 0)", 3)
    D("payload", r"Array_<EventId> ids;", "", 2)
    D("payload", r"findEventIds\(eventCandidates, ids\);", "", 2)
    rewrite_call(r, "window bookkeeping (payload args -> count)", "setTriggeredEvents", lambda a: "setTriggeredEvents(self, %s, %s, eventCandidates_n)" % (a[0], a[1]), 2)
    D("payload", r"Vector eLow = e0, eHigh = e1;")
    D("payload", r"const Vector& eMid = getInterpolatedState\(\)\.getEventTriggers\(\);")
    D("payload", r" eHigh = eMid;")
    D("payload", r" eLow = eMid;")
    r.sub("container payload -> candidate count", r"\beventCandidates = newEventCandidates;", "eventCandidates_n = newEventCandidates_n;", 2)
    D("payload", r"eventTimeEstimates = newEventTimeEstimates;", "", 2)
    D("payload", r"eventCandidateTransitions = newEventCandidateTransitions;", "", 2)
    r.lit("secant bias update -> assumed finite-positive lemma", "bias/2 : bias*2", "vf_bias_half(bias) : vf_bias_double(bias)", 1)
    r.sub("std::max", r"\bstd::max\(", "vf_max(", 1)
    r.sub("functional cast Real(x)", r"(?<![\w:])Real\(", "(Real)(", 1)
    this_calls(r, ["realizeStateDerivatives", "getAdvancedState", "getInterpolatedState", "getAdvancedTime", "createInterpolatedState", "backUpAdvancedStateByInterpolation"])
    r.sub("loop-contract:takeOneStep#localisation do-while", r"\bdo \{",
          "do\n  __CPROVER_assigns(tLow, tHigh, bias, sideTwoItersAgo, sidePrevIter, eventCandidates_n, newEventCandidates_n, earliestTimeEst, narrowestWindow,\n"
          "                    self->interpolatedState.t, ghost_narrowest, ghost_prev_empty, ghost_prev_thigh)\n  __CPROVER_loop_invariant(LOC_INV)\n  {", 1)
    ctx.add_function(ABSTRACT_CPP, "AbstractIntegratorRep::takeOneStep (event detection + localisation part)", c.start, c.end, c.text, "M2 (tail region)", r.dropped, r.log)
    parts.append("bool takeOneStep_events(struct IntegratorRep* self, Real t0, Real t1, Real tReport)\n" + r.text + "\n")
    parts.append("Real ghost_narrowest; int ghost_triggered_n; int ghost_prev_empty; Real ghost_prev_thigh; int ghost_threw; unsigned ghost_steps; int ghost_stepped;\n"
                 "void h_events(void) { struct IntegratorRep* s; Real a, b, c; takeOneStep_events(s, a, b, c); }\n"
                 "void h_setTriggered(void) { struct IntegratorRep* s; Real a, b; int n; setTriggeredEvents(s, a, b, n); }\n")
    path = os.path.join(ctx.out, "loc_unit.c")
    open(path, "w").write("\n".join(parts))
    return path


def main(ctx):
    ctx.level = "proof"
    try:
        ev = build_event_unit(ctx)
        loc = build_loc_unit(ctx)
        ts = B.build_ts_unit(ctx, shared_head(ctx))
        sup = B.build_supplement_unit(ctx, C19)
        sch = B.build_sched_unit(ctx)
    except ExtractionError as e:
        ctx.undecide("extraction: %s" % e)
        return ctx.finish()
    CHK = ["--bounds-check", "--pointer-check", "--div-by-zero-check", "--object-bits", "12"]
    jobs = []

    def J(f, *a, **k):
        jobs.append(lambda: f(ctx, *a, **k))
    def E(name, harness, enforce, replace=(), timeout=300, **k):
        J(cbmc_unit, "event." + name, [ev], harness, enforce=enforce, replace=list(replace), cbmc_args=CHK,
          require_props=[r"postcondition"], function=name, timeout=timeout, **k)
    E("sign", "h_sign", "sign")
    E("classifyTransition", "h_classify", "classifyTransition")
    E("maskTransition", "h_mask", "maskTransition")
    E("calcTransitionMask", "h_calcmask", "calcTransitionMask")
    E("calcTransitionToReport", "h_toreport", "calcTransitionToReport")
    if ctx.tier == "thorough":      # ~5 min of SAT on the double adders of the clamps: thorough tier only (assumed in the quick tier)
        E("estimateRootTime", "h_root", "estimateRootTime", ["vf_secant_fraction", "vf_mul_unit"], timeout=1500)
    J(cbmc_unit, "event.reported_transition", [ev], "h_reported_transition", no_dfcc=True, min_obligations=4,
      function="sign+classifyTransition+maskTransition+calcTransitionMask+calcTransitionToReport (composition used by findEventCandidates)", timeout=300)
    LOCREPL = ["nEventTriggers", "realizeStateDerivatives", "createInterpolatedState", "backUpAdvancedStateByInterpolation",
               "vf_minwindow", "vf_bias_half", "vf_bias_double", "findEventCandidates_v", "setTriggeredEvents"]
    J(cbmc_unit, "localize.takeOneStep_events", [loc], "h_events", enforce="takeOneStep_events", replace=LOCREPL, loop_contracts=True,
      cbmc_args=["--object-bits", "12", "--no-pointer-check", "--no-bounds-check", "--no-signed-overflow-check", "--no-undefined-shift-check", "--no-pointer-primitive-check"], require_props=[r"postcondition", r"loop_invariant_step", r"loop_invariant_base", r"precondition"], min_obligations=30,
      function="AbstractIntegratorRep::takeOneStep (event detection + localisation part)", timeout=900)   # ~240 s on an idle machine; head-room for a loaded one
    J(cbmc_unit, "localize.setTriggeredEvents", [loc], "h_setTriggered", enforce="setTriggeredEvents", cbmc_args=CHK,
      require_props=[r"postcondition"], function="IntegratorRep::setTriggeredEvents (window bookkeeping)", timeout=300)
    # --- findEventCandidates: the real loop over contracted sequence stubs ---
    FECCHK = CHK + ["--no-malloc-may-fail"]      # harness storage: symbolic-size allocations that succeed
    for nm, h, what in (("fec.all", "h_fec_all", "no viable list: all triggers examined"), ("fec.narrow", "h_fec_narrow", "viable list narrowed")):
        J(cbmc_unit, nm, [ev], h, no_dfcc=True, cc_args=["-DFEC_PLAIN"], cbmc_args=FECCHK, min_obligations=40, require_props=[r"findEventCandidates__ind\.assertion", r"fec_induction\.assertion"],
          function="IntegratorRep::findEventCandidates (%s)" % what, timeout=300)
    J(cbmc_unit, "fec.bounded4", [ev], "h_fec_bounded", no_dfcc=True, cc_args=["-DFEC_PLAIN"], cbmc_args=CHK + ["--unwind", "5", "--unwinding-assertions"], min_obligations=8,
      bounded="at most 4 event triggers / 4 viable candidates (concrete arrays, loops unwound with unwinding assertions)",
      function="IntegratorRep::findEventCandidates (bounded refutation companion)", timeout=600)
    J(cover_unit, "fec.cover", [ev], "h_fec_cover", expect_min=4, function="findEventCandidates contract preconditions")
    for nm, h in (("fec.all.cover", "h_fec_all"), ("fec.narrow.cover", "h_fec_narrow")):
        J(cover_unit, nm, [ev], h, cc_args=["-DFEC_PLAIN", "-DFEC_COVER"], cbmc_args=["--no-malloc-may-fail", "--object-bits", "12"], expect_min=6, timeout=300,
          function="findEventCandidates: loop body end and loop exit reachable under the invariant (vacuity guard)")
    # --- TimeStepperRep::stepTo against the C19 contracts of Integrator::stepTo / reinitialize ---
    TSREPL = ["AbstractIntegratorRep_stepTo", "IntegratorRep_reinitialize", "sys_realize", "sys_calcTimeOfNextScheduledEvent", "sys_calcTimeOfNextScheduledReport",
              "sys_reportEvents", "sys_handleEvents", "rep_getTriggeredEvents", "stepTo_supplement"]
    J(cbmc_unit, "timestepper.stepTo", [ts], "h_timestepper", enforce="TimeStepperRep_stepTo", replace=TSREPL, loop_contracts=True,
      cbmc_args=CHK + ["--no-signed-overflow-check"], min_obligations=60, timeout=600, function="TimeStepperRep::stepTo",
      require_props=[r"TimeStepperRep_stepTo\.postcondition", r"loop_invariant_step", r"loop_invariant_base", r"AbstractIntegratorRep_stepTo\.precondition",
                     r"IntegratorRep_reinitialize\.precondition", r"sys_handleEvents\.precondition", r"sys_reportEvents\.precondition",
                     r"sys_calcTimeOfNextScheduledEvent\.precondition", r"TS_stepTo\.assertion", r"TS_reinitialize\.assertion"])
    J(cover_unit, "timestepper.cover", [ts], "h_ts_cover", expect_min=6, function="TimeStepperRep::stepTo precondition (class invariant of stepper + integrator)")
    J(cbmc_unit, "stepto.supplement", [sup], "h_stepTo_supplement", enforce="stepTo_supplement_proof",
      replace=["takeOneStep", "createInterpolatedState", "saveTimeAndStateAsPrevious", "saveStateAndDerivsAsPrevious", "saveStateDerivsAsPrevious", "realizeStateDerivatives", "opaque_autoUpdateDiscreteVariables"],
      loop_contracts=True, cbmc_args=CHK + ["--no-signed-overflow-check"], require_props=[r"stepTo_supplement_proof\.postcondition", r"loop_invariant_step"],
      function="AbstractIntegratorRep::stepTo (supplementary clauses S0,S1 used by the time stepper)", timeout=600)
    # --- System::Guts::calcTimeOfNextScheduledEventImpl / ...ReportImpl: min over the subsystems + exactly the ids scheduled then (finding F9, fixed by 710e963f) ---
    SCHCHK = ["--bounds-check", "--pointer-check", "--object-bits", "12", "--no-malloc-may-fail", "--no-signed-overflow-check"]
    for which, h in (("Event", "h_sched_event"), ("Report", "h_sched_report")):
        J(cbmc_unit, "system.calcTimeOfNextScheduled%s" % which, [sch], h, no_dfcc=True, cbmc_args=SCHCHK, min_obligations=30,
          require_props=[r"calcTimeOfNextScheduled%sImpl__ind\.assertion" % which, r"sched_harness\.assertion"],
          function="System::Guts::calcTimeOfNextScheduled%sImpl" % which, timeout=300)
        J(cover_unit, "system.calcTimeOfNextScheduled%s.cover" % which, [sch], h, cc_args=["-DSCH_COVER"], cbmc_args=["--no-malloc-may-fail", "--object-bits", "12"], expect_min=3, timeout=300,
          function="calcTimeOfNextScheduled%sImpl: loop exit reachable under the invariants with the ghost positions in use (vacuity guard)" % which)
    J(cbmc_unit, "event.split_lemma", [ev], "h_split_lemma", no_dfcc=True, min_obligations=1, function="sign/classify/mask split lemma", timeout=300)
    parallel(jobs)
    ctx.trust("cbmc/goto-cc/goto-instrument 6.11.0 (C front end, dfcc contracts, loop contracts), MiniSat")
    ctx.trust("tools/extract.py + checks/_help_c19c22.py rule tables (extraction_report.json lists every rewrite and dropped token)")
    ctx.trust("CBMC's IEEE-754 binary64 model for comparisons, +, -, *constant, /2")
    ctx.assume("trusted IEEE sign lemmas in estimateRootTime: 0 <= fl(fHigh/(fHigh-fl(bias*fLow))) <= 1 for finite opposite-sign fLow,fHigh and bias>0; 0 <= fl(x*h) <= h for 0<=x<=1")
    ctx.assume("MinWindow = SignificantReal*max(1,tAdvanced) by lemma: >= 2^-50, finite, and max(1,t) <= MinWindow*2^50 (SignificantReal = eps^(7/8) ~ 2e-14 > 2^-50); times in [0, 1e300]")
    ctx.assume("secant bias stays a positive finite double (vf_bias_half/double): under/overflow needs > 1000 consecutive same-side iterations; the assert(bias>0) of estimateRootTime is therefore discharged only modulo this")
    ctx.assume("findEventCandidates seen from takeOneStep through the count abstraction findEventCandidates_v (specs/C22/loc_contracts.h): its requires and its clauses (a)-(d) "
               "(list only narrowed; no candidate -> Infinity; earliest estimate in the bracket, strictly inside when wider than the requirement; narrowestWindow >= minWindow) are the "
               "macros of specs/C22/fec_abs.h and are PROVED on the real findEventCandidates loop as findEventCandidates.abs.a-d in units fec.all / fec.narrow. Still ASSUMED there: "
               "split completeness (sign lemma proved in event.split_lemma; the link 'the viable list is the candidate list of the enclosing bracket' is not), and that the count "
               "handed to the abstraction is the length of the Array_ the real call receives (extractor rule)")
    ctx.assume("findEventCandidates payload: Array_ = (data, length) with push_back never failing (ghost capacity = one element per examined trigger, every push proved inside); "
               "elements of the viable list are trigger indices in [0,nEvents) (assumed pointwise in the accessor stub idx_at; PROVED for every list the function delivers, clause 3); "
               "event trigger values are finite (accessor stub vec_get); accuracyInUse*timeScaleInUse*window is ANY double (over-approximation, no lemma); "
               "estimateRootTime enters by the contract proved in event.estimateRootTime (executable form: assert requires, nondet, assume ensures)")
    ctx.assume("System::Guts::calcTimeOfNextScheduledEvent/ReportImpl: the per-subsystem call delivers a non-NaN time and a list of < 100000 ids (stub); Array_<EventId> = (data, n) over storage "
               "of arbitrary symbolic capacity (clauses are about positions inside it); the State argument and includeCurrentTime are passed through unchanged")
    ctx.assume("TimeStepperRep::stepTo: contracts ASSUMED on the System entry points (specs/C22/ts_pre.h): calcTimeOfNextScheduledEvent/Report answer a non-NaN time >= the queried "
               "state's time, strictly later when the current time is excluded; the event answer is >= the integrator's advanced time (schedule consistency, the assumption C19 puts on its "
               "caller); handleEvents fills a valid status + lowest modified stage, does not move time and does not touch the integrator's bookkeeping; reportEvents/realize touch nothing "
               "in the view. Array_<EventId> values are list tokens. Handler options (constraint tolerance, norm) are payload and dropped")
    ctx.assume("TimeStepperRep::stepTo precondition: class invariant CINV of the integrator (C19), requested time not NaN and >= the advanced time (re-established by the postcondition: holds for "
               "any sequence of non-decreasing requests after initialize()), lastEventTime/lastReportTime are the times scheduled events/reports were last handled (ghost)")
    ctx.assume("Integrator::stepTo / reinitialize enter the time stepper unit ONLY by their C19 contracts (specs/C19/contracts.h) plus the two supplementary clauses of "
               "specs/C22/stepto_supplement.h (exception flag boolean; ReachedScheduledEvent only with scheduledEventTime < reportTime), which are PROVED on the real stepTo body in unit stepto.supplement")
    ctx.assume("createInterpolatedState/backUpAdvancedStateByInterpolation set the interpolated/advanced time to t and require tPrev < tAdvanced, tPrev <= t <= tAdvanced (their real asserts); "
               "attemptDAEStep leaves the advanced state at t1 (precondition of the event part)")
    if ctx.tier != "thorough":
        ctx.assume("quick tier: the contract of estimateRootTime (bracket + strict interior) is discharged only in the thorough tier (about 5 min of SAT on the clamps' double adders)")
    ctx.not_decided += ["that a sign change INSIDE a step is seen at all, and that crossings are reported in time order without skipping persistent ones (needs the trajectory)",
                        "findEventCandidates: that narrowestWindow is ATTAINED by some candidate's requirement (only minWindow <= narrowestWindow <= every requirement is proved; swapping the "
                        "min/max nesting, which always yields minWindow, is consistent with the property text and survives); NaN/infinite witness values",
                        "System::handleEvents / reportEvents dispatch to the handlers, DefaultSystemSubsystem's own scan over its handlers, "
                        "PeriodicEventHandler/PeriodicEventReporter::getNextEventTime (floor of a symbolic quotient and a symbolic product: out of SAT reach): not under contract",
                        "TimeStepperRep::stepTo: termination of its loop (e.g. a mutant that never returns at the requested time is not caught), exceptions thrown by handlers, the returned time "
                        "after the simulation is over (the C19 contract of reinitialize leaves the interpolation flag unspecified there), requests behind the advanced time",
                        "termination of the localisation loop; event-time ordering inside setTriggeredEvents (calcEventOrder)",
                        "trajectory-level: the before-state returned at tLow is re-interpolated after the advanced state was backed up to tHigh, so its witness value need not equal the eLow used "
                        "during localisation (native driver: in about 10% of localised events the witness evaluated on the returned states does not bracket the listed crossing) - outside the contracts"]
    ctx.explanation = ("Proved for all inputs: the classification composition used per trigger (reported Falling iff >0 -> not >0 and falling monitored; Rising iff <0 -> not <0 and rising monitored; "
                       "never both; none otherwise; incl. 0/NaN/inf), each of its five functions against its own contract, the split lemma; the event part of takeOneStep with its localisation "
                       "do-while under a loop invariant (all iterations): reported window t0 <= tLow < tHigh <= t1, tHigh == advanced time after the backup, width <= narrowestWindow, candidates "
                       "non-empty, pending report time never strictly inside, every interpolation request within [tPrev,tAdvanced], setTriggeredEvents' own assert; the window bookkeeping of "
                       "setTriggeredEvents. This discharges the event half of the takeOneStep contract that C19 assumes. "
                       "findEventCandidates (any number of triggers, both uses): the six clauses findEventCandidates.post.1-6 and the count abstraction abs.a-d by a loop invariant over ghost "
                       "positions (base + step + exit), plus a bounded companion (<= 4 triggers, concrete arrays, reference scan). TimeStepperRep::stepTo: every precondition of the C19 contracts "
                       "of stepTo and reinitialize, of the handler/report stubs (owed cause, list, time) and the call-log assertions, the loop invariant and the exit clause. "
                       "System::Guts::calcTimeOfNextScheduledEvent/ReportImpl (any number of subsystems and ids, nested loop invariants with ghost (subsystem, position) pairs): delivered time == min of the "
                       "subsystems' times, delivered ids == exactly the concatenation in subsystem order of the lists of the subsystems scheduled at that time.")
    return ctx.finish(replayer=lambda ob: replay(ctx, ob))


_exe = {}


def replay(ctx, ob):
    if "exe" not in _exe:
        # compiled together with the CURRENT tree's AbstractIntegratorRep.cpp / Integrator.cpp / TimeStepper.cpp (they interpose the copies in the
        # private library build) and including the current IntegratorRep.h, so a mutated tree is replayed without rebuilding the libraries
        _exe["exe"] = native_build(ctx, "c22_replay", os.path.join(VERIF, "replay/c22_replay.cpp"),
                                   extra_srcs=[ABSTRACT_CPP, INTEGRATOR_CPP, TIMESTEPPER_CPP, B.SYSTEM_CPP], libs=True,
                                   extra_inc=[INTEG_SRC, os.path.dirname(B.SYSTEM_CPP)], timeout=900)
    exe = _exe["exe"]
    tries = []
    def go(args, t=300):
        rc, o, e, _ = run([exe] + args, t)
        tries.append(dict(cmd="c22_replay " + " ".join(args), output=(o + e)[-1500:]))
        if "Assertion `" in e:      # an assert of the real code fired on a real run: that is a failing input
            o += "\nREPRODUCED: " + e.strip()[-300:]
        return o
    def hit(o):
        return re.search(r"^REPRODUCED:", o, re.M) is not None
    if ob.unit.startswith("fec."):
        for seed in ("1", "2"):
            if hit(go(["fec", seed, "150"], 300)):
                return dict(tries=tries, counterexample_note="abstract counterexample (ghost positions) in the obligation's trace; native witness found by the reference-scan search"), True
        return dict(tries=tries), False
    if ob.unit.startswith("system.calcTimeOfNextScheduled"):
        return dict(tries=tries, witness_class="ids-of-later-scheduled-event-of-earlier-subsystem-kept"), hit(go(["schedule"], 120))
    if ob.unit.startswith("timestepper."):
        for seed in ("1", "2"):
            o = go(["timestepper", seed, "60"], 60)
            if hit(o):
                return dict(tries=tries), True
        return dict(tries=tries, note="a native run that does not finish within 60 s is recorded as a timeout in `tries` (possible non-termination), not as a reproduction"), False
    if ob.unit.startswith("event."):
        if hit(go(["classify"])):
            return dict(tries=tries), True
    for seed in ("1", "2"):
        if hit(go(["localize", seed, "300"], 600)):
            return dict(tries=tries), True
    return dict(tries=tries), False
