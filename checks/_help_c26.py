"""Helpers for checks/c26.py: route-M2 extraction of Array_<T,X> members (Array.h) and of the pointer wrappers
(ClonePtr.h, CloneOnWritePtr.h, ReferencePtr.h, ResetOnCopy.h, ReinitOnCopy.h) to C units.
Nothing here contains a body from /repo: bodies are cut each run, the tables below are rewrite rules only."""
import os, re
from vlib import *
from extract import *

SPEC = os.path.join(VERIF, "specs", "C26")
INTERNAL = os.path.join(REPO, "SimTKcommon/include/SimTKcommon/internal")
ARRAY_H = os.path.join(INTERNAL, "Array.h")

# ------------------------------------------------------------------------------------------------
# shared rewrite rules
# ------------------------------------------------------------------------------------------------
_COND = r"((?:[^()\";]|\((?:[^()]|\([^()]*\))*\))*?)"       # an argument without string literals, parens nested <= 2


def errchk_rules(r, n_debug=0, n_always=0, ret="", label=""):
    """exception plumbing. SimTK_ERRCHKn(cond, where, fmt, ...) (Debug-build only argument checks) -> proof obligation on the caller;
    SimTK_ERRCHKn_ALWAYS(cond, ...) -> ghost flag + return."""
    if n_debug:
        r.sub("exception plumbing: SimTK_ERRCHK (debug argument check) -> obligation",
              r"SimTK_ERRCHK\d?\(" + _COND + r",\s*(?:\"[^\"]*\"|methodName)\s*,[^;]*;",
              lambda m: 'VERIF_ERRCHK(%s, "%s");' % (m.group(1).strip(), label or r.name), n_debug, flags=re.S)
    if n_always:
        r.sub("exception plumbing: SimTK_ERRCHK_ALWAYS -> ghost flag + return",
              r"SimTK_ERRCHK\d?_ALWAYS\(" + _COND + r",\s*(?:\"[^\"]*\"|methodName)\s*,[^;]*;",
              lambda m: "if (!(%s)) { ghost_threw = 1; return %s; }" % (m.group(1).strip(), ret), n_always, flags=re.S)


ARITY2 = r"\b%s\(((?:[^(),;]|\([^()]*\))+),"      # a call with at least two arguments: name(arg1, ...


def assert_rule(r, n):
    r.sub("assert() -> obligation", r"\bassert\(([^;]*)\);", lambda m: 'VERIF_ASSERT(%s, "%s");' % (m.group(1), r.name), n)


# implicit-this calls (member functions of Array_ / its bases); zero hits are fine (see Rewriter.members: an unrewritten call does not compile)
SELF0 = ["size", "empty", "capacity", "allocated", "isOwner", "back", "cbegin", "cend", "cdata", "psize", "pallocated",
         "incrSize", "decrSize", "deallocateNoDestruct", "clear", "pop_back", "shrink_to_fit"]
SELFN = ["setData", "setSize", "setAllocated", "isGrowthOK", "calcNewCapacityForGrowthBy", "moveOneElement", "moveElementsDown",
         "moveElementsUp", "reserve", "growAtEnd", "growWithGap", "insertGapAt", "erase_range", "erase_one"]
FORWARD = {"begin": "cbegin", "end": "cend", "data": "cdata"}     # Array_::begin() -> ArrayView_::begin() -> ArrayViewConst_::cbegin() etc.


def this_rules(r):
    for a, b in FORWARD.items():
        r.sub("forwarder collapsed: %s() is %s() (this->Base::%s -> const_cast<T*>(this->CBase::%s))" % (a, b, a, b),
              r"(?<![\w.>])%s\(\)" % a, "%s()" % b, None, 0)
    r.sub("implicit-this-call: max_size() -> ArrayIndexTraits<X>::max_size() (model)", r"(?<![\w.>])max_size\(\)", "max_size_()", None, 0)
    r.sub("reference->pointer: &back() (back() returns the element's address here)", r"&back\(\)", "back()", None, 0)
    for nm in SELF0:
        r.sub("implicit-this-call:" + nm, r"(?<![\w.>])%s\(\)" % nm, "%s(self)" % nm, None, 0)
    for nm in SELFN:
        r.sub("implicit-this-call:" + nm, r"(?<![\w.>])%s\((?!self\b|other,)" % nm, "%s(self, " % nm, None, 0)
    r.sub("explicit this-> on helper", r"this->(ull|isSizeOK)\(", r"\1(", None, 0)
    r.sub("implicit-this-call: ullCapacity/ullMaxSize", r"\bull(Capacity|MaxSize)\(\)",
          lambda m: "ull(capacity(self))" if m.group(1) == "Capacity" else "ull(max_size_())", None, 0)
    r.sub("type: T -> Elem", r"\bT\b(?=\s*\*)", "Elem", None, 0)
    r.sub("functional-cast", r"\b(size_type|packed_size_type)\(([^()]*(?:\([^()]*\))?[^()]*)\)", r"(\1)(\2)", None, 0)
    r.members(["pData", "nUsed", "nAllocated"])


class Unit:
    def __init__(self, ctx, path):
        self.ctx, self.src = ctx, path
        self.protos, self.defs = [], []

    def fn(self, anchor, name, header, rules=None, occurrence=1, this=True):
        c = cut_function(self.src, anchor, name, occurrence=occurrence)
        r = Rewriter("{" + c.body + "}", name)
        if rules:
            rules(r)
        if this:
            this_rules(r)
        self.ctx.add_function(self.src, name, c.start, c.end, c.text, "M2", r.dropped, r.log)
        self.protos.append(header + ";")
        self.defs.append("/* %s  (%s:%d-%d) */\n%s\n%s\n" % (name, os.path.basename(self.src), c.start, c.end, header, r.text))
        return r

    def text(self):
        return "\n".join(self.protos) + "\n\n" + "\n".join(self.defs)


# ------------------------------------------------------------------------------------------------
# Array_<T,X>
# ------------------------------------------------------------------------------------------------
LOOPS = {}   # filled by c26.py: name -> loop contract text (spliced only in the *_lc variants)


def build_array_unit(ctx, with_loop_contracts=False):
    u = Unit(ctx, ARRAY_H)
    A = "Array_::"
    V = "ArrayViewConst_::"
    # ---- accessors (ArrayViewConst_: first definition in the file) ----
    u.fn(r"size_type size\(\) const\s*", V + "size", "static size_type size(const struct Arr* self)")
    u.fn(r"bool empty\(\) const\s*", V + "empty", "static bool empty(const struct Arr* self)")
    u.fn(r"size_type capacity\(\) const\s*", V + "capacity", "static size_type capacity(const struct Arr* self)")
    u.fn(r"size_type allocated\(\) const\s*", V + "allocated", "static size_type allocated(const struct Arr* self)")
    u.fn(r"bool isOwner\(\) const\s*", V + "isOwner", "static bool isOwner(const struct Arr* self)")

    def x_back(r):
        errchk_rules(r, n_debug=1)
        r.sub("reference->pointer: return element", r"return pData\[nUsed-1\];", "return &pData[nUsed-1];", 1)
    u.fn(r"SimTK_FORCE_INLINE const T& back\(\) const\s*", V + "back", "static Elem* back(const struct Arr* self)", x_back)
    u.fn(r"const T\* cbegin\(\) const\s*", V + "cbegin", "static Elem* cbegin(const struct Arr* self)")
    u.fn(r"const T\* cend\(\) const\s*", V + "cend", "static Elem* cend(const struct Arr* self)")
    u.fn(r"const T\* cdata\(\) const\s*", V + "cdata", "static Elem* cdata(const struct Arr* self)")
    u.fn(r"packed_size_type psize\(\) const\s*", V + "psize", "static packed_size_type psize(const struct Arr* self)")
    u.fn(r"packed_size_type pallocated\(\) const\s*", V + "pallocated", "static packed_size_type pallocated(const struct Arr* self)")

    def x_setdata(r):
        r.sub("const_cast dropped (C has no const_cast; same pointer)", r"const_cast<T\*>\(p\)", "(Elem*)(p)", 1)
    u.fn(r"void setData\(const T\* p\)\s*", V + "setData", "static void setData(struct Arr* self, const Elem* p)", x_setdata)
    u.fn(r"void setSize\(size_type n\)\s*", V + "setSize", "static void setSize(struct Arr* self, size_type n)")
    u.fn(r"void incrSize\(\)\s*", V + "incrSize", "static void incrSize(struct Arr* self)")
    u.fn(r"void decrSize\(\)\s*", V + "decrSize", "static void decrSize(struct Arr* self)")
    u.fn(r"void setAllocated\(size_type n\)\s*", V + "setAllocated", "static void setAllocated(struct Arr* self, size_type n)")

    # ---- growth policy (same cuts as the dfcc unit of array_growth.h, here against struct Arr with data) ----
    u.fn(r"bool isSizeOK\(S srcSz\) const\s*", V + "isSizeOK", "static bool isSizeOK(unsigned long long srcSz)")
    u.fn(r"bool isGrowthOK\(S n\) const\s*", A + "isGrowthOK", "static bool isGrowthOK(const struct Arr* self, size_type n)")

    def x_min(r):
        r.sub("std::min", r"std::min\(", "vf_min(", 1)
    u.fn(r"size_type minAlloc\(\) const\s*", A + "minAlloc", "static size_type minAlloc(void)", x_min)

    def x_calc(r):
        errchk_rules(r, n_always=1, ret="0")
        r.sub("std::max", r"std::max\(", "vf_max(", 2)
    u.fn(r"size_type calcNewCapacityForGrowthBy\(size_type n, const char\* methodName\) const\s*", A + "calcNewCapacityForGrowthBy",
         "static size_type calcNewCapacityForGrowthBy(const struct Arr* self, size_type n)", x_calc)

    # ---- element primitives: placement new / explicit destructor call -> T's contracted special members ----
    def x_T(n_default=0, n_copy=0, n_move=0, n_dtor=0):
        def f(r):
            if n_default:
                r.sub("T(): placement-new -> contracted stub", r"new\s*\(\s*(\w+(?:\+\+)?)\s*\)\s*T\(\)", r"Elem_default_construct(\1)", n_default)
            if n_move:
                r.sub("T(T&&): placement-new -> contracted stub (rvalue reference -> pointer)",
                      r"new\s*\(\s*(\w+(?:\+\+)?)\s*\)\s*T\(std::move\(\*?(\w+(?:\+\+)?)\)\)", r"Elem_move_construct(\1, \2)", n_move)
            if n_copy:
                r.sub("T(const T&): placement-new -> contracted stub (reference -> pointer)",
                      r"new\s*\(\s*(\w+(?:\+\+)?)\s*\)\s*T\(\*?(\w+(?:\+\+)?)\)", r"Elem_copy_construct(\1, \2)", n_copy)
            if n_dtor:
                r.sub("~T(): explicit destructor call -> contracted stub", r"(\w+(?:\+\+)?)->~T\(\)", r"Elem_destruct(\1)", n_dtor)
        return f

    def lc(name):
        """loop contract splice (only in the loop-contract variant of the unit)"""
        def f(r):
            if with_loop_contracts and name in LOOPS:
                r.splice_loop("loop-contract:" + name, r"\b(while|for)\s*\(", LOOPS[name], 1)
        return f

    def both(*fs):
        def f(r):
            for g in fs:
                g(r)
        return f

    u.fn(r"static void defaultConstruct\(T\* p\)\s*", A + "defaultConstruct(p)", "static void defaultConstruct(Elem* p)", x_T(n_default=1))
    u.fn(r"static void defaultConstruct\(T\* b, const T\* e\)\s*", A + "defaultConstruct(b,e)",
         "static void defaultConstruct_range(Elem* b, const Elem* e)", both(x_T(n_default=1), lc("defaultConstruct_range")))
    u.fn(r"static void fillConstruct\(T\* b, const T\* e, const T& v\)\s*", A + "fillConstruct",
         "static void fillConstruct(Elem* b, const Elem* e, const Elem* v)", both(x_T(n_copy=1), lc("fillConstruct")))
    u.fn(r"static void copyConstruct\(T\* p, const T& v\)\s*", A + "copyConstruct(p,v)", "static void copyConstruct(Elem* p, const Elem* v)", x_T(n_copy=1))
    u.fn(r"static void moveConstruct\(T\* p, T&& v\)\s*", A + "moveConstruct(p,v)", "static void moveConstruct(Elem* p, Elem* v)", x_T(n_move=1))
    u.fn(r"static void moveConstructThenDestructSource\(T\* b, const T\* e, T\* src\)\s*", A + "moveConstructThenDestructSource",
         "static void moveConstructThenDestructSource(Elem* b, const Elem* e, Elem* src)", both(x_T(n_move=1, n_dtor=1), lc("moveConstructThenDestructSource")))
    u.fn(r"static void destruct\(T\* p\)\s*", A + "destruct(p)", "static void destruct(Elem* p)", x_T(n_dtor=1))
    u.fn(r"static void destruct\(T\* b, const T\* e\)\s*", A + "destruct(b,e)", "static void destruct_range(Elem* b, const Elem* e)",
         both(x_T(n_dtor=1), lc("destruct_range")))

    def x_moveone(r):
        assert_rule(r, 2)
        r.sub("rvalue reference -> pointer", r"std::move\(\*from\)", "from", 1)
    u.fn(r"void moveOneElement\(T\* to, T\* from\)\s*", A + "moveOneElement", "static void moveOneElement(struct Arr* self, Elem* to, Elem* from)", x_moveone)
    u.fn(r"void moveElementsDown\(T\* p, size_type n\)\s*", A + "moveElementsDown", "static void moveElementsDown(struct Arr* self, Elem* p, size_type n)",
         both(lambda r: assert_rule(r, 1), lc("moveElementsDown")))
    u.fn(r"void moveElementsUp\(T\* p, size_type n\)\s*", A + "moveElementsUp", "static void moveElementsUp(struct Arr* self, Elem* p, size_type n)",
         both(lambda r: assert_rule(r, 1), lc("moveElementsUp")))
    u.fn(r"void deallocateNoDestruct\(\)\s*", A + "deallocateNoDestruct", "static void deallocateNoDestruct(struct Arr* self)")

    # ---- growth with element moves ----
    def x_setalloc(ret):
        def f(r):
            r.sub("exception plumbing: callee may throw -> evaluate, test ghost flag, then use",
                  r"setAllocated\(calcNewCapacityForGrowthBy\((\w+), methodName\)\);",
                  r"{ size_type verif_nc = calcNewCapacityForGrowthBy(\1); if (ghost_threw) return %s; setAllocated(verif_nc); }" % ret, 1)
        return f

    def x_growgap(r):
        assert_rule(r, 1)
        errchk_rules(r, n_debug=1)
        x_setalloc("0")(r)
    u.fn(r"T\* growWithGap\(T\* gapPos, size_type gapSz, const char\* methodName\)\s*", A + "growWithGap",
         "static Elem* growWithGap(struct Arr* self, Elem* gapPos, size_type gapSz)", x_growgap)

    def x_growend(r):
        assert_rule(r, 1)
        x_setalloc("")(r)
    u.fn(r"void growAtEnd\(size_type n, const char\* methodName\)\s*", A + "growAtEnd", "static void growAtEnd(struct Arr* self, size_type n)", x_growend)

    def x_gap(r):
        errchk_rules(r, n_debug=1, n_always=1, ret="0")
        x_setalloc("0")(r)
    u.fn(r"T\* insertGapAt\(T\* p, size_type n, const char\* methodName\)\s*", A + "insertGapAt",
         "static Elem* insertGapAt(struct Arr* self, Elem* p, size_type n)", x_gap)

    # ---- public mutators ----
    u.fn(r"void swap\(Array_& other\)\s*", A + "swap", "void swap(struct Arr* self, struct Arr* other)",
         lambda r: (r.sub("reference->pointer: other.f() -> f(other)", r"\bother\.(data|size|allocated)\(\)",
                          lambda m: "%s(other)" % {"data": "cdata"}.get(m.group(1), m.group(1)), 3),
                    r.sub("reference->pointer: other.setX(v) -> setX(other, v)", r"\bother\.(setData|setSize|setAllocated)\(", r"\1(other, ", 3)))

    def x_reserve(r):
        errchk_rules(r, n_debug=1)
    u.fn(r"void reserve\(size_type n\)\s*", A + "reserve", "void reserve(struct Arr* self, size_type n)", x_reserve)
    u.fn(r"void shrink_to_fit\(\)\s*", A + "shrink_to_fit", "void shrink_to_fit(struct Arr* self)")

    def x_resize(fill):
        def f(r):
            errchk_rules(r, n_debug=1)
            r.sub("overload by arity: erase(first,last1)", r"\berase\(", "erase_range(", 1)
            r.sub("overload by arity: %s(b,e)" % ("defaultConstruct" if not fill else "fillConstruct"),
                  ARITY2 % "defaultConstruct", r"defaultConstruct_range(\1,", 0 if fill else 1)
        return f
    u.fn(r"void resize\(size_type n\)\s*", A + "resize(n)", "void resize(struct Arr* self, size_type n)", x_resize(False))
    u.fn(r"void resize\(size_type n, const T& initVal\)\s*", A + "resize(n,initVal)",
         "void resize_fill(struct Arr* self, size_type n, const Elem* initVal)", x_resize(True))

    def x_push(kind):
        def f(r):
            r.sub("exception plumbing: methodName argument dropped; callee may throw -> test ghost flag",
                  r"growAtEnd\(1,\s*\"[^\"]*\"\);", "{ growAtEnd(1); if (ghost_threw) return; }", 1)
            if kind == "move":
                r.sub("rvalue reference -> pointer", r"std::move\(value\)", "value", 1)
        return f
    u.fn(r"void push_back\(const T& value\)\s*", A + "push_back(const T&)", "void push_back(struct Arr* self, const Elem* value)", x_push("copy"))
    u.fn(r"void push_back\(T&& value\)\s*", A + "push_back(T&&)", "void push_back_move(struct Arr* self, Elem* value)", x_push("move"))
    u.fn(r"void push_back\(\)\s*", A + "push_back()", "void push_back_default(struct Arr* self)", x_push("default"))

    def x_pop(r):
        errchk_rules(r, n_debug=1)
    u.fn(r"void pop_back\(\)\s*", A + "pop_back", "void pop_back(struct Arr* self)", x_pop)

    def x_erase_range(r):
        errchk_rules(r, n_debug=2)
        r.sub("overload by arity: destruct(b,e)", ARITY2 % "destruct", r"destruct_range(\1,", 1)
    u.fn(r"T\* erase\(T\* first, const T\* last1\)\s*", A + "erase(first,last1)",
         "Elem* erase_range(struct Arr* self, Elem* first, const Elem* last1)", x_erase_range)
    u.fn(r"T\* erase\(T\* p\)\s*", A + "erase(p)", "Elem* erase_one(struct Arr* self, Elem* p)", lambda r: errchk_rules(r, n_debug=2))

    def x_erasefast(r):
        errchk_rules(r, n_debug=2)
    u.fn(r"T\* eraseFast\(T\* p\)\s*", A + "eraseFast", "Elem* eraseFast(struct Arr* self, Elem* p)", x_erasefast)

    def x_clear(r):
        errchk_rules(r, n_debug=1)
        r.sub("overload by arity: destruct(b,e)", ARITY2 % "destruct", r"destruct_range(\1,", 1)
    u.fn(r"void clear\(\)\s*", A + "clear", "void clear(struct Arr* self)", x_clear)

    def x_insert(r):
        r.sub("exception plumbing: methodName argument dropped; callee may throw -> test ghost flag",
              r"T\* const gap = insertGapAt\(p, (\w+), \"[^\"]*\"\);", r"Elem* const gap = insertGapAt(p, \1); if (ghost_threw) return 0;", 1)
    u.fn(r"T\* insert\(T\* p, size_type n, const T& value\)\s*", A + "insert(p,n,value)",
         "Elem* insert_n(struct Arr* self, Elem* p, size_type n, const Elem* value)", x_insert)
    u.fn(r"T\* insert\(T\* p, const T& value\)\s*", A + "insert(p,value)", "Elem* insert_one(struct Arr* self, Elem* p, const Elem* value)", x_insert)
    return u


# ------------------------------------------------------------------------------------------------
# pointer wrappers: ClonePtr / CloneOnWritePtr / ReferencePtr (T := Obj)
# ------------------------------------------------------------------------------------------------
def split_top(s):
    out, depth, cur = [], 0, ""
    for ch in s:
        if ch in "([{<":
            depth += 1
        elif ch in ")]}>":
            depth -= 1
        if ch == "," and depth == 0:
            out.append(cur); cur = ""
        else:
            cur += ch
    if cur.strip():
        out.append(cur)
    return [x.strip() for x in out]


class PtrUnit(Unit):
    """adds the constructor rule: mem-initialiser list -> statements at the top of the body
       member(e) -> member = e;     Class(args) (delegating/base constructor) -> Class(args);   (then rewritten like any call)"""

    def __init__(self, ctx, path, cls, data_members):
        Unit.__init__(self, ctx, path)
        self.cls, self.data = cls, data_members

    def fn(self, anchor, name, header, rules=None, occurrence=1, this=True):
        c = cut_function(self.src, anchor, name, occurrence=occurrence)
        init = ""
        log0 = []
        hd = strip_comments(c.header)
        m = re.search(r"\)\s*(?:noexcept\s*)?:\s*([^:].*)$", hd, re.S)
        if m and re.match(r"\s*(explicit\s+)?~?%s\s*\(" % self.cls, hd):
            items = split_top(m.group(1))
            stm = []
            for it in items:
                mm = re.match(r"(\w+)\s*\((.*)\)$", it, re.S)
                if not mm:
                    raise ExtractionError("%s: cannot parse mem-initialiser '%s'" % (name, it))
                stm.append("%s = %s;" % (mm.group(1), mm.group(2)) if mm.group(1) in self.data else "%s(%s);" % (mm.group(1), mm.group(2)))
            init = " ".join(stm) + " "
            log0.append(dict(rule="constructor mem-initialiser list -> statements (member(e) -> member = e; delegating ctor -> call)",
                             pattern=m.group(1).strip(), replacement=init, hits=len(items), examples=items[:3]))
        r = Rewriter("{" + init + c.body + "}", name)
        r.log += log0
        if rules:
            rules(r)
        self.common(r)
        self.ctx.add_function(self.src, name, c.start, c.end, c.text, "M2", r.dropped, r.log)
        self.protos.append(header + ";")
        self.defs.append("/* %s  (%s:%d-%d) */\n%s\n%s\n" % (name, os.path.basename(self.src), c.start, c.end, header, r.text))
        return r

    def common(self, r):
        pre = self.cls
        r.sub("nullptr -> 0", r"\bnullptr\b", "0", None, 0)
        r.sub("rvalue reference -> pointer: std::move(src)", r"std::move\((\w+)\)", r"\1", None, 0)
        r.sub("reference -> pointer: src.member / other.member", r"\b(src|other)\.(p|count)\b", r"\1->\2", None, 0)
        r.sub("reference -> pointer: src.f() / other.f()", r"\b(src|other)\.(\w+)\(\)", r"%s_\2(\1)" % pre, None, 0)
        r.sub("reference -> pointer: &src != this", r"&src != this", "src != self", None, 0)
        r.sub("reference -> pointer: return *this", r"return \*this;", "return self;", None, 0)
        r.sub("reference -> pointer: &x (const T& x)", r"\(&x\)", "(x)", None, 0)
        r.sub("T::clone() -> contracted stub", r"\b(\w+)->clone\(\)", r"Obj_clone(\1)", None, 0)
        r.sub("delete p (T*) -> contracted stub", r"\bdelete p;", "Obj_delete(p);", None, 0)
        r.sub("delete count (long*) -> contracted stub", r"\bdelete count;", "delete_long(count);", None, 0)
        r.sub("new long(1) -> contracted stub", r"\bnew long\(1\)", "new_long(1)", None, 0)
        r.sub("std::swap", r"std::swap\(", "VF_SWAP(", None, 0)
        r.sub("template argument dropped (U := T)", r"\b(shareWith|moveFrom)<U>\(", r"\1(", None, 0)
        r.sub("type: T -> Obj", r"\bT\b(?=\s*\*)", "Obj", None, 0)
        for nm in self.self0:
            r.sub("implicit-this-call:" + nm, r"(?<![\w.>_])%s\(\)" % nm, "%s_%s(self)" % (pre, nm), None, 0)
        for nm in self.selfn:
            r.sub("implicit-this-call:" + nm, r"(?<![\w.>_])%s\((?!\))" % nm, "%s_%s(self, " % (pre, nm), None, 0)
        r.sub("static helper", r"(?<![\w.>_])cloneOrNull\(", "%s_cloneOrNull(" % pre, None, 0)
        r.sub("delegating constructor -> call", r"(?<![\w.>_])%s\(\);" % pre, "%s_init_default(self);" % pre, None, 0)
        r.sub("delegating constructor -> call", r"(?<![\w.>_])%s\((?!\))" % pre, "%s_init_ptr(self, " % pre, None, 0)
        r.members(self.data)


def build_ptr_unit(ctx):
    parts = []
    # ---------------- ClonePtr ----------------
    u = PtrUnit(ctx, os.path.join(INTERNAL, "ClonePtr.h"), "ClonePtr", ["p"])
    u.self0 = ["reset", "empty", "release", "get", "upd"]
    u.selfn = ["reset"]
    S = "struct ClonePtr"
    u.fn(r"ClonePtr\(\) noexcept", "ClonePtr::ClonePtr()", "void ClonePtr_init_default(%s* self)" % S)
    u.fn(r"explicit ClonePtr\(T\* x\) noexcept", "ClonePtr::ClonePtr(T*)", "void ClonePtr_init_ptr(%s* self, Obj* x)" % S)
    u.fn(r"explicit ClonePtr\(const T\* x\)", "ClonePtr::ClonePtr(const T*)", "void ClonePtr_init_cloneptr(%s* self, const Obj* x)" % S)
    u.fn(r"explicit ClonePtr\(const T& x\)", "ClonePtr::ClonePtr(const T&)", "void ClonePtr_init_cloneref(%s* self, const Obj* x)" % S,
         lambda r: r.sub("overload by argument type: ClonePtr(const T*)", r"ClonePtr\(&x\);", "ClonePtr_init_cloneptr(self, x);", 1))
    u.fn(r"ClonePtr\(const ClonePtr& src\)", "ClonePtr::ClonePtr(const ClonePtr&)", "void ClonePtr_init_copy(%s* self, const %s* src)" % (S, S))
    u.fn(r"ClonePtr\(ClonePtr&& src\) noexcept", "ClonePtr::ClonePtr(ClonePtr&&)", "void ClonePtr_init_move(%s* self, %s* src)" % (S, S))
    u.fn(r"ClonePtr& operator=\(const ClonePtr& src\)\s*", "ClonePtr::operator=(const ClonePtr&)", "%s* ClonePtr_assign_copy(%s* self, const %s* src)" % (S, S, S),
         lambda r: assert_rule(r, 1))
    u.fn(r"ClonePtr& operator=\(ClonePtr&& src\) noexcept\s*", "ClonePtr::operator=(ClonePtr&&)", "%s* ClonePtr_assign_move(%s* self, %s* src)" % (S, S, S),
         lambda r: assert_rule(r, 1))
    u.fn(r"ClonePtr& operator=\(const T& x\)\s*", "ClonePtr::operator=(const T&)", "%s* ClonePtr_assign_cloneref(%s* self, const Obj* x)" % (S, S))
    u.fn(r"ClonePtr& operator=\(T\* x\) noexcept\s*", "ClonePtr::operator=(T*)", "%s* ClonePtr_assign_ptr(%s* self, Obj* x)" % (S, S))
    u.fn(r"~ClonePtr\(\) noexcept\s*", "ClonePtr::~ClonePtr", "void ClonePtr_destroy(%s* self)" % S)
    u.fn(r"const T\* get\(\) const noexcept\s*", "ClonePtr::get", "const Obj* ClonePtr_get(const %s* self)" % S)
    u.fn(r"T\* upd\(\) noexcept\s*", "ClonePtr::upd", "Obj* ClonePtr_upd(%s* self)" % S)
    u.fn(r"void reset\(\) noexcept\s*", "ClonePtr::reset()", "void ClonePtr_reset(%s* self)" % S)
    u.fn(r"void reset\(T\* x\) noexcept\s*", "ClonePtr::reset(T*)", "void ClonePtr_reset_ptr(%s* self, Obj* x)" % S)
    u.fn(r"void swap\(ClonePtr& other\) noexcept\s*", "ClonePtr::swap", "void ClonePtr_swap(%s* self, %s* other)" % (S, S))
    u.fn(r"bool empty\(\) const noexcept\s*", "ClonePtr::empty", "bool ClonePtr_empty(const %s* self)" % S)
    u.fn(r"T\* release\(\) noexcept\s*", "ClonePtr::release", "Obj* ClonePtr_release(%s* self)" % S)
    u.fn(r"static T\* cloneOrNull\(const T\* src\)\s*", "ClonePtr::cloneOrNull", "Obj* ClonePtr_cloneOrNull(const Obj* src)")
    parts.append(u.text().replace("ClonePtr_reset(self, ", "ClonePtr_reset_ptr(self, "))

    # ---------------- CloneOnWritePtr ----------------
    u = PtrUnit(ctx, os.path.join(INTERNAL, "CloneOnWritePtr.h"), "CloneOnWritePtr", ["p", "count"])
    u.self0 = ["reset", "empty", "init", "incr", "decr", "detach", "use_count", "get", "upd"]
    u.selfn = ["reset", "shareWith", "moveFrom"]
    S = "struct CloneOnWritePtr"
    u.fn(r"CloneOnWritePtr\(\) noexcept\s*", "CloneOnWritePtr::CloneOnWritePtr()", "void CloneOnWritePtr_init_default(%s* self)" % S)
    u.fn(r"explicit CloneOnWritePtr\(T\* x\)", "CloneOnWritePtr::CloneOnWritePtr(T*)", "void CloneOnWritePtr_init_ptr(%s* self, Obj* x)" % S)
    u.fn(r"explicit CloneOnWritePtr\(const T\* x\)", "CloneOnWritePtr::CloneOnWritePtr(const T*)",
         "void CloneOnWritePtr_init_cloneptr(%s* self, const Obj* x)" % S)
    u.fn(r"CloneOnWritePtr\(const CloneOnWritePtr& src\) noexcept", "CloneOnWritePtr::CloneOnWritePtr(const CloneOnWritePtr&)",
         "void CloneOnWritePtr_init_copy(%s* self, const %s* src)" % (S, S))
    u.fn(r"CloneOnWritePtr\(CloneOnWritePtr&& src\) noexcept", "CloneOnWritePtr::CloneOnWritePtr(CloneOnWritePtr&&)",
         "void CloneOnWritePtr_init_move(%s* self, %s* src)" % (S, S))
    u.fn(r"CloneOnWritePtr& operator=\(const CloneOnWritePtr& src\) noexcept\s*", "CloneOnWritePtr::operator=(const CloneOnWritePtr&)",
         "%s* CloneOnWritePtr_assign_copy(%s* self, const %s* src)" % (S, S, S))
    u.fn(r"CloneOnWritePtr& operator=\(CloneOnWritePtr&& src\) noexcept\s*", "CloneOnWritePtr::operator=(CloneOnWritePtr&&)",
         "%s* CloneOnWritePtr_assign_move(%s* self, %s* src)" % (S, S, S))
    u.fn(r"CloneOnWritePtr& operator=\(const T& x\)\s*", "CloneOnWritePtr::operator=(const T&)", "%s* CloneOnWritePtr_assign_cloneref(%s* self, const Obj* x)" % (S, S))
    u.fn(r"CloneOnWritePtr& operator=\(T\* x\) noexcept\s*", "CloneOnWritePtr::operator=(T*)", "%s* CloneOnWritePtr_assign_ptr(%s* self, Obj* x)" % (S, S))
    u.fn(r"~CloneOnWritePtr\(\) noexcept\s*", "CloneOnWritePtr::~CloneOnWritePtr", "void CloneOnWritePtr_destroy(%s* self)" % S)
    u.fn(r"const T\* get\(\) const noexcept\s*", "CloneOnWritePtr::get", "const Obj* CloneOnWritePtr_get(const %s* self)" % S)
    u.fn(r"T\* upd\(\)\s*", "CloneOnWritePtr::upd", "Obj* CloneOnWritePtr_upd(%s* self)" % S)
    u.fn(r"void reset\(\) noexcept\s*", "CloneOnWritePtr::reset()", "void CloneOnWritePtr_reset(%s* self)" % S)
    u.fn(r"void reset\(T\* x\)\s*", "CloneOnWritePtr::reset(T*)", "void CloneOnWritePtr_reset_ptr(%s* self, Obj* x)" % S)
    u.fn(r"void swap\(CloneOnWritePtr& other\) noexcept\s*", "CloneOnWritePtr::swap", "void CloneOnWritePtr_swap(%s* self, %s* other)" % (S, S))
    u.fn(r"long use_count\(\) const noexcept\s*", "CloneOnWritePtr::use_count", "long CloneOnWritePtr_use_count(const %s* self)" % S)
    u.fn(r"bool unique\(\) const noexcept\s*", "CloneOnWritePtr::unique", "bool CloneOnWritePtr_unique(const %s* self)" % S)
    u.fn(r"bool empty\(\) const noexcept\s*", "CloneOnWritePtr::empty", "bool CloneOnWritePtr_empty(const %s* self)" % S)
    u.fn(r"T\* release\(\)\s*", "CloneOnWritePtr::release", "Obj* CloneOnWritePtr_release(%s* self)" % S)
    u.fn(r"void detach\(\)\s*", "CloneOnWritePtr::detach", "void CloneOnWritePtr_detach(%s* self)" % S)
    u.fn(r"static T\* cloneOrNull\(const T\* src\)\s*", "CloneOnWritePtr::cloneOrNull", "Obj* CloneOnWritePtr_cloneOrNull(const Obj* src)")
    u.fn(r"void shareWith\(const CloneOnWritePtr<U>& src\) noexcept\s*", "CloneOnWritePtr::shareWith", "void CloneOnWritePtr_shareWith(%s* self, const %s* src)" % (S, S),
         lambda r: assert_rule(r, 1))
    u.fn(r"void moveFrom\(CloneOnWritePtr<U>&& src\) noexcept\s*", "CloneOnWritePtr::moveFrom", "void CloneOnWritePtr_moveFrom(%s* self, %s* src)" % (S, S),
         lambda r: assert_rule(r, 1))
    u.fn(r"long incr\(\) const noexcept\s*", "CloneOnWritePtr::incr", "long CloneOnWritePtr_incr(const %s* self)" % S, lambda r: assert_rule(r, 1))
    u.fn(r"long decr\(\) const noexcept\s*", "CloneOnWritePtr::decr", "long CloneOnWritePtr_decr(const %s* self)" % S, lambda r: assert_rule(r, 1))
    u.fn(r"void init\(\) noexcept\s*", "CloneOnWritePtr::init", "void CloneOnWritePtr_init(%s* self)" % S)
    parts.append(u.text().replace("CloneOnWritePtr_reset(self, ", "CloneOnWritePtr_reset_ptr(self, "))

    # ---------------- ReferencePtr ----------------
    u = PtrUnit(ctx, os.path.join(INTERNAL, "ReferencePtr.h"), "ReferencePtr", ["p"])
    u.self0 = ["reset", "empty", "release", "get"]
    u.selfn = ["reset"]
    S = "struct ReferencePtr"
    u.fn(r"ReferencePtr\(\) noexcept", "ReferencePtr::ReferencePtr()", "void ReferencePtr_init_default(%s* self)" % S)
    u.fn(r"explicit ReferencePtr\(T\* tp\) noexcept", "ReferencePtr::ReferencePtr(T*)", "void ReferencePtr_init_ptr(%s* self, Obj* tp)" % S)
    u.fn(r"ReferencePtr\(const ReferencePtr&(?: src)?\) noexcept", "ReferencePtr::ReferencePtr(const ReferencePtr&)",
         "void ReferencePtr_init_copy(%s* self, const %s* src)" % (S, S))
    u.fn(r"ReferencePtr\(ReferencePtr&& src\) noexcept", "ReferencePtr::ReferencePtr(ReferencePtr&&)",
         "void ReferencePtr_init_move(%s* self, %s* src)" % (S, S))
    u.fn(r"ReferencePtr& operator=\(const ReferencePtr& src\) noexcept\s*", "ReferencePtr::operator=(const ReferencePtr&)",
         "%s* ReferencePtr_assign_copy(%s* self, const %s* src)" % (S, S, S))
    u.fn(r"ReferencePtr& operator=\(ReferencePtr&& src\) noexcept\s*", "ReferencePtr::operator=(ReferencePtr&&)",
         "%s* ReferencePtr_assign_move(%s* self, %s* src)" % (S, S, S))
    u.fn(r"~ReferencePtr\(\) noexcept\s*", "ReferencePtr::~ReferencePtr", "void ReferencePtr_destroy(%s* self)" % S)
    u.fn(r"T\* get\(\) const noexcept\s*", "ReferencePtr::get", "Obj* ReferencePtr_get(const %s* self)" % S)
    u.fn(r"void reset\(T\* tp=nullptr\) noexcept\s*", "ReferencePtr::reset", "void ReferencePtr_reset_ptr(%s* self, Obj* tp)" % S)
    u.fn(r"void swap\(ReferencePtr& other\) noexcept\s*", "ReferencePtr::swap", "void ReferencePtr_swap(%s* self, %s* other)" % (S, S))
    u.fn(r"bool empty\(\) const noexcept\s*", "ReferencePtr::empty", "bool ReferencePtr_empty(const %s* self)" % S)
    u.fn(r"T\* release\(\) noexcept\s*", "ReferencePtr::release", "Obj* ReferencePtr_release(%s* self)" % S)
    parts.append(u.text().replace("ReferencePtr_reset(self)", "ReferencePtr_reset_ptr(self, 0 /* default argument tp=nullptr */)").replace("ReferencePtr_reset(self, ", "ReferencePtr_reset_ptr(self, "))
    return "\n".join(parts)


# ------------------------------------------------------------------------------------------------
# ReinitOnCopyHelper<T,true> / ResetOnCopyHelper<T,true>  (scalar specialisations, T := int)
# ------------------------------------------------------------------------------------------------
def build_reinit_unit(ctx):
    parts = ["struct ReinitOnCopyHelper { int m_value; int m_reinitValue; };  /* T m_value{}; const T m_reinitValue{}; (T := int; const dropped so that the constructors can be written as statements) */",
             "struct ResetOnCopyHelper { int m_value; };"]
    for cls, path, data in (("ReinitOnCopyHelper", os.path.join(INTERNAL, "ReinitOnCopy.h"), ["m_value", "m_reinitValue"]),
                            ("ResetOnCopyHelper", os.path.join(INTERNAL, "ResetOnCopy.h"), ["m_value"])):
        u = PtrUnit(ctx, path, cls, data)
        u.self0, u.selfn = [], []
        S = "struct " + cls
        def rules(r, cls=cls):
            r.sub("rvalue reference -> pointer: std::move(source.member)", r"std::move\(source\.(\w+)\)", r"source->\1", None, 0)
            r.sub("reference -> pointer: source.member", r"\bsource\.(m_value|m_reinitValue)\b", r"source->\1", None, 0)
            r.sub("const T& value -> pointer", r"(?<![\w.>])value\b(?!\s*\()", "(*value)", None, 0)
            r.sub("value initialisation T{} -> 0 (T := int)", r"\bT\{\}", "0", None, 0)
            r.sub("delegating constructor %s(e) -> call of the constructor from T" % cls, r"(?<![\w.>_])%s\((?!\))([^;]*)\);" % cls, r"{ int tmp_ = \1; %s_init_value(self, &tmp_); }" % cls, None, 0)
        # first definitions in each header belong to the <T,true> specialisation (the <T,false> one follows it)
        u.fn(r"explicit %s\(const T& value\)\s*" % cls, cls + "<T,true>::" + cls + "(const T&)", "void %s_init_value(%s* self, const int* value)" % (cls, S), rules)
        if cls == "ReinitOnCopyHelper":
            u.fn(r"%s\(const %s& source\)\s*" % (cls, cls), cls + "<T,true>::" + cls + "(const " + cls + "&)", "void %s_init_copy(%s* self, const %s* source)" % (cls, S, S), rules)
        u.fn(r"%s\(%s&& source\)\s*" % (cls, cls), cls + "<T,true>::" + cls + "(" + cls + "&&)", "void %s_init_move(%s* self, %s* source)" % (cls, S, S), rules)
        u.fn(r"%s& operator=\(%s&& source\)\s*" % (cls, cls), cls + "<T,true>::operator=(" + cls + "&&)", "%s* %s_assign_move(%s* self, %s* source)" % (S, cls, S, S), rules)
        u.fn(r"%s& operator=\(const %s&(?: \w+)?\)\s*" % (cls, cls), cls + "<T,true>::operator=(const " + cls + "&)", "%s* %s_assign_copy(%s* self, const %s* source)" % (S, cls, S, S), rules)
        u.fn(r"%s& operator=\(const T& value\)\s*" % cls, cls + "<T,true>::operator=(const T&)", "%s* %s_assign_value(%s* self, const int* value)" % (S, cls, S), rules)
        u.fn(r"const T& getT\(\) const\s*", cls + "<T,true>::getT", "const int* %s_getT(const %s* self)" % (cls, S),
             lambda r: r.sub("reference -> pointer: return member", r"return m_value;", "return &m_value;", 1), occurrence=2)      # occurrence 1 is the forwarding one-liner of the outer class
        if cls == "ReinitOnCopyHelper":
            u.fn(r"const T& getReinitT\(\) const\s*", cls + "<T,true>::getReinitT", "const int* %s_getReinitT(const %s* self)" % (cls, S),
                 lambda r: r.sub("reference -> pointer: return member", r"return m_reinitValue;", "return &m_reinitValue;", 1), occurrence=2)
        parts.append(u.text())
    return "\n".join(parts)
