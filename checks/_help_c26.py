"""Helpers for checks/c26.py: route-M2 extraction of Array_<T,X> members (Array.h) and of the pointer wrappers
(ClonePtr.h, CloneOnWritePtr.h, ReferencePtr.h, ResetOnCopy.h, ReinitOnCopy.h) to C units.
Nothing here contains a body from /repo: bodies are cut each run, the tables below are rewrite rules only."""
import os, re
from vlib import *
from extract import *

SPEC = os.path.join(VERIF, "specs", "C26")
INTERNAL = os.path.join(REPO, "SimTKcommon/include/SimTKcommon/internal")
ARRAY_H = os.path.join(INTERNAL, "Array.h")

# ------------------------------------------------------------------------------------------------
# shared rewrite rules
# ------------------------------------------------------------------------------------------------
_COND = r"((?:[^()\";]|\((?:[^()]|\([^()]*\))*\))*?)"       # an argument without string literals, parens nested <= 2


def errchk_rules(r, n_debug=0, n_always=0, ret="", label=""):
    """exception plumbing. SimTK_ERRCHKn(cond, where, fmt, ...) (Debug-build only argument checks) -> proof obligation on the caller;
    SimTK_ERRCHKn_ALWAYS(cond, ...) -> ghost flag + return."""
    if n_debug:
        r.sub("exception plumbing: SimTK_ERRCHK (debug argument check) -> obligation",
              r"SimTK_ERRCHK\d?\(" + _COND + r",\s*(?:\"[^\"]*\"|methodName)\s*,[^;]*;",
              lambda m: 'VERIF_ERRCHK(%s, "%s");' % (m.group(1).strip(), label or r.name), n_debug, flags=re.S)
    if n_always:
        r.sub("exception plumbing: SimTK_ERRCHK_ALWAYS -> ghost flag + return",
              r"SimTK_ERRCHK\d?_ALWAYS\(" + _COND + r",\s*(?:\"[^\"]*\"|methodName)\s*,[^;]*;",
              lambda m: "if (!(%s)) { ghost_threw = 1; return %s; }" % (m.group(1).strip(), ret), n_always, flags=re.S)


def assert_rule(r, n):
    r.sub("assert() -> obligation", r"\bassert\(([^;]*)\);", lambda m: 'VERIF_ASSERT(%s, "%s");' % (m.group(1), r.name), n)


# implicit-this calls (member functions of Array_ / its bases); zero hits are fine (see Rewriter.members: an unrewritten call does not compile)
SELF0 = ["size", "empty", "capacity", "allocated", "isOwner", "back", "cbegin", "cend", "cdata", "psize", "pallocated",
         "incrSize", "decrSize", "deallocateNoDestruct", "clear", "pop_back", "shrink_to_fit"]
SELFN = ["setData", "setSize", "setAllocated", "isGrowthOK", "calcNewCapacityForGrowthBy", "moveOneElement", "moveElementsDown",
         "moveElementsUp", "reserve", "growAtEnd", "growWithGap", "insertGapAt", "erase_range", "erase_one"]
FORWARD = {"begin": "cbegin", "end": "cend", "data": "cdata"}     # Array_::begin() -> ArrayView_::begin() -> ArrayViewConst_::cbegin() etc.


def this_rules(r):
    for a, b in FORWARD.items():
        r.sub("forwarder collapsed: %s() is %s() (this->Base::%s -> const_cast<T*>(this->CBase::%s))" % (a, b, a, b),
              r"(?<![\w.>])%s\(\)" % a, "%s()" % b, None, 0)
    r.sub("implicit-this-call: max_size() -> ArrayIndexTraits<X>::max_size() (model)", r"(?<![\w.>])max_size\(\)", "max_size_()", None, 0)
    for nm in SELF0:
        r.sub("implicit-this-call:" + nm, r"(?<![\w.>])%s\(\)" % nm, "%s(self)" % nm, None, 0)
    for nm in SELFN:
        r.sub("implicit-this-call:" + nm, r"(?<![\w.>])%s\((?!self\b|other,)" % nm, "%s(self, " % nm, None, 0)
    r.sub("explicit this-> on helper", r"this->(ull|isSizeOK)\(", r"\1(", None, 0)
    r.sub("implicit-this-call: ullCapacity/ullMaxSize", r"\bull(Capacity|MaxSize)\(\)",
          lambda m: "ull(capacity(self))" if m.group(1) == "Capacity" else "ull(max_size_())", None, 0)
    r.sub("type: T -> Elem", r"\bT\b(?=\s*\*)", "Elem", None, 0)
    r.sub("functional-cast", r"\b(size_type|packed_size_type)\(([^()]*(?:\([^()]*\))?[^()]*)\)", r"(\1)(\2)", None, 0)
    r.members(["pData", "nUsed", "nAllocated"])


class Unit:
    def __init__(self, ctx, path):
        self.ctx, self.src = ctx, path
        self.protos, self.defs = [], []

    def fn(self, anchor, name, header, rules=None, occurrence=1, this=True):
        c = cut_function(self.src, anchor, name, occurrence=occurrence)
        r = Rewriter("{" + c.body + "}", name)
        if rules:
            rules(r)
        if this:
            this_rules(r)
        self.ctx.add_function(self.src, name, c.start, c.end, c.text, "M2", r.dropped, r.log)
        self.protos.append(header + ";")
        self.defs.append("/* %s  (%s:%d-%d) */\n%s\n%s\n" % (name, os.path.basename(self.src), c.start, c.end, header, r.text))
        return r

    def text(self):
        return "\n".join(self.protos) + "\n\n" + "\n".join(self.defs)


# ------------------------------------------------------------------------------------------------
# Array_<T,X>
# ------------------------------------------------------------------------------------------------
LOOPS = {}   # filled by c26.py: name -> loop contract text (spliced only in the *_lc variants)


def build_array_unit(ctx, with_loop_contracts=False):
    u = Unit(ctx, ARRAY_H)
    A = "Array_::"
    V = "ArrayViewConst_::"
    # ---- accessors (ArrayViewConst_: first definition in the file) ----
    u.fn(r"size_type size\(\) const\s*", V + "size", "static size_type size(const struct Arr* self)")
    u.fn(r"bool empty\(\) const\s*", V + "empty", "static bool empty(const struct Arr* self)")
    u.fn(r"size_type capacity\(\) const\s*", V + "capacity", "static size_type capacity(const struct Arr* self)")
    u.fn(r"size_type allocated\(\) const\s*", V + "allocated", "static size_type allocated(const struct Arr* self)")
    u.fn(r"bool isOwner\(\) const\s*", V + "isOwner", "static bool isOwner(const struct Arr* self)")

    def x_back(r):
        errchk_rules(r, n_debug=1)
        r.sub("reference->pointer: return element", r"return pData\[nUsed-1\];", "return &pData[nUsed-1];", 1)
    u.fn(r"SimTK_FORCE_INLINE const T& back\(\) const\s*", V + "back", "static Elem* back(const struct Arr* self)", x_back)
    u.fn(r"const T\* cbegin\(\) const\s*", V + "cbegin", "static Elem* cbegin(const struct Arr* self)")
    u.fn(r"const T\* cend\(\) const\s*", V + "cend", "static Elem* cend(const struct Arr* self)")
    u.fn(r"const T\* cdata\(\) const\s*", V + "cdata", "static Elem* cdata(const struct Arr* self)")
    u.fn(r"packed_size_type psize\(\) const\s*", V + "psize", "static packed_size_type psize(const struct Arr* self)")
    u.fn(r"packed_size_type pallocated\(\) const\s*", V + "pallocated", "static packed_size_type pallocated(const struct Arr* self)")

    def x_setdata(r):
        r.sub("const_cast dropped (C has no const_cast; same pointer)", r"const_cast<T\*>\(p\)", "(Elem*)(p)", 1)
    u.fn(r"void setData\(const T\* p\)\s*", V + "setData", "static void setData(struct Arr* self, const Elem* p)", x_setdata)
    u.fn(r"void setSize\(size_type n\)\s*", V + "setSize", "static void setSize(struct Arr* self, size_type n)")
    u.fn(r"void incrSize\(\)\s*", V + "incrSize", "static void incrSize(struct Arr* self)")
    u.fn(r"void decrSize\(\)\s*", V + "decrSize", "static void decrSize(struct Arr* self)")
    u.fn(r"void setAllocated\(size_type n\)\s*", V + "setAllocated", "static void setAllocated(struct Arr* self, size_type n)")

    # ---- growth policy (same cuts as the dfcc unit of array_growth.h, here against struct Arr with data) ----
    u.fn(r"bool isSizeOK\(S srcSz\) const\s*", V + "isSizeOK", "static bool isSizeOK(unsigned long long srcSz)")
    u.fn(r"bool isGrowthOK\(S n\) const\s*", A + "isGrowthOK", "static bool isGrowthOK(const struct Arr* self, size_type n)")

    def x_min(r):
        r.sub("std::min", r"std::min\(", "vf_min(", 1)
    u.fn(r"size_type minAlloc\(\) const\s*", A + "minAlloc", "static size_type minAlloc(void)", x_min)

    def x_calc(r):
        errchk_rules(r, n_always=1, ret="0")
        r.sub("std::max", r"std::max\(", "vf_max(", 2)
    u.fn(r"size_type calcNewCapacityForGrowthBy\(size_type n, const char\* methodName\) const\s*", A + "calcNewCapacityForGrowthBy",
         "static size_type calcNewCapacityForGrowthBy(const struct Arr* self, size_type n)", x_calc)

    # ---- element primitives: placement new / explicit destructor call -> T's contracted special members ----
    def x_T(n_default=0, n_copy=0, n_move=0, n_dtor=0):
        def f(r):
            if n_default:
                r.sub("T(): placement-new -> contracted stub", r"new\s*\(\s*(\w+(?:\+\+)?)\s*\)\s*T\(\)", r"Elem_default_construct(\1)", n_default)
            if n_move:
                r.sub("T(T&&): placement-new -> contracted stub (rvalue reference -> pointer)",
                      r"new\s*\(\s*(\w+(?:\+\+)?)\s*\)\s*T\(std::move\(\*?(\w+(?:\+\+)?)\)\)", r"Elem_move_construct(\1, \2)", n_move)
            if n_copy:
                r.sub("T(const T&): placement-new -> contracted stub (reference -> pointer)",
                      r"new\s*\(\s*(\w+(?:\+\+)?)\s*\)\s*T\(\*?(\w+(?:\+\+)?)\)", r"Elem_copy_construct(\1, \2)", n_copy)
            if n_dtor:
                r.sub("~T(): explicit destructor call -> contracted stub", r"(\w+(?:\+\+)?)->~T\(\)", r"Elem_destruct(\1)", n_dtor)
        return f

    def lc(name):
        """loop contract splice (only in the loop-contract variant of the unit)"""
        def f(r):
            if with_loop_contracts and name in LOOPS:
                r.splice_loop("loop-contract:" + name, r"\b(while|for)\s*\(", LOOPS[name], 1)
        return f

    def both(*fs):
        def f(r):
            for g in fs:
                g(r)
        return f

    u.fn(r"static void defaultConstruct\(T\* p\)\s*", A + "defaultConstruct(p)", "static void defaultConstruct(Elem* p)", x_T(n_default=1))
    u.fn(r"static void defaultConstruct\(T\* b, const T\* e\)\s*", A + "defaultConstruct(b,e)",
         "static void defaultConstruct_range(Elem* b, const Elem* e)", both(x_T(n_default=1), lc("defaultConstruct_range")))
    u.fn(r"static void fillConstruct\(T\* b, const T\* e, const T& v\)\s*", A + "fillConstruct",
         "static void fillConstruct(Elem* b, const Elem* e, const Elem* v)", both(x_T(n_copy=1), lc("fillConstruct")))
    u.fn(r"static void copyConstruct\(T\* p, const T& v\)\s*", A + "copyConstruct(p,v)", "static void copyConstruct(Elem* p, const Elem* v)", x_T(n_copy=1))
    u.fn(r"static void moveConstruct\(T\* p, T&& v\)\s*", A + "moveConstruct(p,v)", "static void moveConstruct(Elem* p, Elem* v)", x_T(n_move=1))
    u.fn(r"static void moveConstructThenDestructSource\(T\* b, const T\* e, T\* src\)\s*", A + "moveConstructThenDestructSource",
         "static void moveConstructThenDestructSource(Elem* b, const Elem* e, Elem* src)", both(x_T(n_move=1, n_dtor=1), lc("moveConstructThenDestructSource")))
    u.fn(r"static void destruct\(T\* p\)\s*", A + "destruct(p)", "static void destruct(Elem* p)", x_T(n_dtor=1))
    u.fn(r"static void destruct\(T\* b, const T\* e\)\s*", A + "destruct(b,e)", "static void destruct_range(Elem* b, const Elem* e)",
         both(x_T(n_dtor=1), lc("destruct_range")))

    def x_moveone(r):
        assert_rule(r, 2)
        r.sub("rvalue reference -> pointer", r"std::move\(\*from\)", "from", 1)
    u.fn(r"void moveOneElement\(T\* to, T\* from\)\s*", A + "moveOneElement", "static void moveOneElement(struct Arr* self, Elem* to, Elem* from)", x_moveone)
    u.fn(r"void moveElementsDown\(T\* p, size_type n\)\s*", A + "moveElementsDown", "static void moveElementsDown(struct Arr* self, Elem* p, size_type n)",
         both(lambda r: assert_rule(r, 1), lc("moveElementsDown")))
    u.fn(r"void moveElementsUp\(T\* p, size_type n\)\s*", A + "moveElementsUp", "static void moveElementsUp(struct Arr* self, Elem* p, size_type n)",
         both(lambda r: assert_rule(r, 1), lc("moveElementsUp")))
    u.fn(r"void deallocateNoDestruct\(\)\s*", A + "deallocateNoDestruct", "static void deallocateNoDestruct(struct Arr* self)")

    # ---- growth with element moves ----
    def x_setalloc(ret):
        def f(r):
            r.sub("exception plumbing: callee may throw -> evaluate, test ghost flag, then use",
                  r"setAllocated\(calcNewCapacityForGrowthBy\((\w+), methodName\)\);",
                  r"{ size_type verif_nc = calcNewCapacityForGrowthBy(\1); if (ghost_threw) return %s; setAllocated(verif_nc); }" % ret, 1)
        return f

    def x_growgap(r):
        assert_rule(r, 1)
        errchk_rules(r, n_debug=1)
        x_setalloc("0")(r)
    u.fn(r"T\* growWithGap\(T\* gapPos, size_type gapSz, const char\* methodName\)\s*", A + "growWithGap",
         "static Elem* growWithGap(struct Arr* self, Elem* gapPos, size_type gapSz)", x_growgap)

    def x_growend(r):
        assert_rule(r, 1)
        x_setalloc("")(r)
    u.fn(r"void growAtEnd\(size_type n, const char\* methodName\)\s*", A + "growAtEnd", "static void growAtEnd(struct Arr* self, size_type n)", x_growend)

    def x_gap(r):
        errchk_rules(r, n_debug=1, n_always=1, ret="0")
        x_setalloc("0")(r)
    u.fn(r"T\* insertGapAt\(T\* p, size_type n, const char\* methodName\)\s*", A + "insertGapAt",
         "static Elem* insertGapAt(struct Arr* self, Elem* p, size_type n)", x_gap)

    # ---- public mutators ----
    u.fn(r"void swap\(Array_& other\)\s*", A + "swap", "void swap(struct Arr* self, struct Arr* other)",
         lambda r: (r.sub("reference->pointer: other.f() -> f(other)", r"\bother\.(data|size|allocated)\(\)",
                          lambda m: "%s(other)" % {"data": "cdata"}.get(m.group(1), m.group(1)), 3),
                    r.sub("reference->pointer: other.setX(v) -> setX(other, v)", r"\bother\.(setData|setSize|setAllocated)\(", r"\1(other, ", 3)))

    def x_reserve(r):
        errchk_rules(r, n_debug=1)
    u.fn(r"void reserve\(size_type n\)\s*", A + "reserve", "void reserve(struct Arr* self, size_type n)", x_reserve)
    u.fn(r"void shrink_to_fit\(\)\s*", A + "shrink_to_fit", "void shrink_to_fit(struct Arr* self)")

    def x_resize(fill):
        def f(r):
            errchk_rules(r, n_debug=1)
            r.sub("overload by arity: erase(first,last1)", r"\berase\(", "erase_range(", 1)
            r.sub("overload by arity: %s(b,e)" % ("defaultConstruct" if not fill else "fillConstruct"),
                  r"\bdefaultConstruct\(", "defaultConstruct_range(", 0 if fill else 1)
        return f
    u.fn(r"void resize\(size_type n\)\s*", A + "resize(n)", "void resize(struct Arr* self, size_type n)", x_resize(False))
    u.fn(r"void resize\(size_type n, const T& initVal\)\s*", A + "resize(n,initVal)",
         "void resize_fill(struct Arr* self, size_type n, const Elem* initVal)", x_resize(True))

    def x_push(kind):
        def f(r):
            r.sub("exception plumbing: methodName argument dropped; callee may throw -> test ghost flag",
                  r"growAtEnd\(1,\s*\"[^\"]*\"\);", "{ growAtEnd(1); if (ghost_threw) return; }", 1)
            if kind == "move":
                r.sub("rvalue reference -> pointer", r"std::move\(value\)", "value", 1)
        return f
    u.fn(r"void push_back\(const T& value\)\s*", A + "push_back(const T&)", "void push_back(struct Arr* self, const Elem* value)", x_push("copy"))
    u.fn(r"void push_back\(T&& value\)\s*", A + "push_back(T&&)", "void push_back_move(struct Arr* self, Elem* value)", x_push("move"))
    u.fn(r"void push_back\(\)\s*", A + "push_back()", "void push_back_default(struct Arr* self)", x_push("default"))

    def x_pop(r):
        errchk_rules(r, n_debug=1)
        r.sub("reference->pointer: &back()", r"&back\(\)", "back()", 1)
    u.fn(r"void pop_back\(\)\s*", A + "pop_back", "void pop_back(struct Arr* self)", x_pop)

    def x_erase_range(r):
        errchk_rules(r, n_debug=2)
        r.sub("overload by arity: destruct(b,e)", r"\bdestruct\(first, last1\)", "destruct_range(first, last1)", 1)
    u.fn(r"T\* erase\(T\* first, const T\* last1\)\s*", A + "erase(first,last1)",
         "Elem* erase_range(struct Arr* self, Elem* first, const Elem* last1)", x_erase_range)
    u.fn(r"T\* erase\(T\* p\)\s*", A + "erase(p)", "Elem* erase_one(struct Arr* self, Elem* p)", lambda r: errchk_rules(r, n_debug=2))

    def x_erasefast(r):
        errchk_rules(r, n_debug=2)
        r.sub("reference->pointer: &back()", r"&back\(\)", "back()", 1)
    u.fn(r"T\* eraseFast\(T\* p\)\s*", A + "eraseFast", "Elem* eraseFast(struct Arr* self, Elem* p)", x_erasefast)

    def x_clear(r):
        errchk_rules(r, n_debug=1)
        r.sub("overload by arity: destruct(b,e)", r"\bdestruct\(begin\(\), end\(\)\)", "destruct_range(begin(), end())", 1)
    u.fn(r"void clear\(\)\s*", A + "clear", "void clear(struct Arr* self)", x_clear)

    def x_insert(r):
        r.sub("exception plumbing: methodName argument dropped; callee may throw -> test ghost flag",
              r"T\* const gap = insertGapAt\(p, (\w+), \"[^\"]*\"\);", r"Elem* const gap = insertGapAt(p, \1); if (ghost_threw) return 0;", 1)
    u.fn(r"T\* insert\(T\* p, size_type n, const T& value\)\s*", A + "insert(p,n,value)",
         "Elem* insert_n(struct Arr* self, Elem* p, size_type n, const Elem* value)", x_insert)
    u.fn(r"T\* insert\(T\* p, const T& value\)\s*", A + "insert(p,value)", "Elem* insert_one(struct Arr* self, Elem* p, const Elem* value)", x_insert)
    return u
