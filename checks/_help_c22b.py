"""C22, second part: route-M2 cuts of IntegratorRep::findEventCandidates (IntegratorRep.h) and TimeStepperRep::stepTo
(TimeStepper.cpp). Only rewrite rules from the closed list of DESIGN 2.2; every rule is must-fire and logged."""
import os, re
from vlib import REPO, VERIF
from extract import (cut_function, Rewriter, ExtractionError, blank_comments, match_brace)
from _help_c18 import loop_to_induction
from _help_c19c22 import (INTEGREP_H, INTEGRATOR_CPP, INTEGRATOR_H, TIMESTEPPER_CPP, rewrite_call, this_calls, literal_not, split_args)

SPEC = os.path.join(VERIF, "specs", "C22")
FEC_SIG = ("void findEventCandidates(const struct IntegratorRep* self, int nEvents, const struct IdxSeq* viableCandidates, "
           "const struct TrigSeq* viableCandidateTransitions,\n                         Real tLow, const struct Vector* eLow, Real tHigh, const struct Vector* eHigh, "
           "Real bias, Real minWindow,\n                         struct IdxSeq* candidates, struct RealSeq* timeEstimates, struct TrigSeq* transitions, "
           "Real* earliestTimeEst, Real* narrowestWindow)")


def splice_body_hooks(r, rule, loop_rx, begin, end):
    """ghost statements (assign ghost variables only) at the first and last position of a loop body; located by brace matching"""
    blank = blank_comments(r.text)
    ms = list(re.finditer(loop_rx, blank))
    if len(ms) != 1:
        raise ExtractionError("%s: ghost-hook rule '%s' /%s/ matched %d times, expected 1" % (r.name, rule, loop_rx, len(ms)))
    op = blank.find("(", ms[0].start())
    cp = match_brace(blank, op)
    k = cp + 1
    while blank[k].isspace():
        k += 1
    if blank[k] != "{":
        raise ExtractionError("%s: ghost-hook rule '%s': loop body is not a block" % (r.name, rule))
    e = match_brace(blank, k)
    r.text = r.text[:k + 1] + " " + begin + "\n" + r.text[k + 1:e] + " " + end + "\n" + r.text[e:]
    r.log.append(dict(rule=rule, pattern=loop_rx, replacement="ghost statements %s ... %s at the ends of the loop body" % (begin, end), hits=1, examples=[blank[ms[0].start():cp + 1][:80]]))
    return r


def fec_text(ctx):
    """IntegratorRep::findEventCandidates -> C function over contracted sequence stubs"""
    c = cut_function(INTEGREP_H, r"void findEventCandidates\s*\(int nEvents,[^{]*\)\s*const\s*", "IntegratorRep::findEventCandidates", expect_total=1)
    r = Rewriter("{" + c.body + "}", "IntegratorRep::findEventCandidates")
    S = r.sub
    S("container->stub: size()", r"\bviableCandidates->size\(\)", "idx_size(viableCandidates)", 1)
    S("container->stub: size()", r"\bviableCandidateTransitions->size\(\)", "trig_size(viableCandidateTransitions)", 1)
    S("container->stub: clear()", r"\bcandidates\.clear\(\);", "idx_clear(candidates);", 1)
    S("container->stub: clear()", r"\btimeEstimates\.clear\(\);", "real_clear(timeEstimates);", 1)
    S("container->stub: clear()", r"\btransitions\.clear\(\);", "trig_clear(transitions);", 1)
    r.lit("container->contracted stub: (*viableCandidates)[i]", "(*viableCandidates)[i]", "idx_at(viableCandidates, i)", 1)
    S("functional cast SystemEventTriggerIndex(i)", r"(?<![\w:])SystemEventTriggerIndex\(i\)", "(int)(i)", 1)
    S("index type -> int", r"\bconst SystemEventTriggerIndex e\b", "const int e", 1)
    S("scope-flatten Event::", r"\bEvent::", "", 4)
    S("container->contracted stub: Vector[e]", r"\b(eLow|eHigh)\[(\w+)\]", r"vec_get(\1, \2)", 4)
    S("member array + method call -> stub + function", r"\beventTriggerInfo\[(\w+)\]\.(calcTransitionMask|getRequiredLocalizationTimeWindow)\(\)", r"\2(eti_at(self, \1))", 2)   # index kept as written (a wrong index must reach the verifier)
    S("member array + method call -> stub + function", r"\beventTriggerInfo\[(\w+)\]\.calcTransitionToReport\(transitionSeen\)", r"calcTransitionToReport(eti_at(self, \1), transitionSeen)", 1)
    S("symbolic product -> unconstrained value (over-approximation)", r"\baccuracyInUse\*timeScaleInUse\*(getRequiredLocalizationTimeWindow\(eti_at\(self, \w+\)\))",
      r"vf_mul3(self->accuracyInUse, self->timeScaleInUse, \1)", 1)
    S("std::max/min", r"\bstd::(max|min)\(", r"vf_\1(", 3)
    S("container->stub: push_back", r"\bcandidates\.push_back\(", "idx_push(candidates, ", 1)
    S("container->stub: push_back", r"\btimeEstimates\.push_back\(", "real_push(timeEstimates, ", 1)
    S("container->stub: push_back", r"\btransitions\.push_back\(", "trig_push(transitions, ", 1)
    S("container->stub: back()", r"\btimeEstimates\.back\(\)", "real_back(timeEstimates)", 1)
    S("callee by contract (dfcc: replaced by the contract proved in event.estimateRootTime; bounded companion: executable form of it)",
      r"(?<![\w.>])estimateRootTime\(", "FEC_ESTIMATE(", 1)
    S("references -> pointers", r"(?<![\w.>*])(earliestTimeEst|narrowestWindow)\b", r"(*\1)", 6)
    splice_body_hooks(r, "ghost hooks (assign ghost variables only)", r"\bfor\s*\(int i=0; i<nCandidates; \+\+i\)", "FEC_ITER_BEGIN(i)", "FEC_ITER_END(i)")
    plain = r.text      # the loop as it is: bounded refutation companion (unwound)
    loop_to_induction(r, "loop-contract:findEventCandidates#loop1 (base/havoc/step form; invariant FEC_LOOP_INV in specs/C22/fec_contracts.h)",
                      r"\bfor\s*\(int i=0; i<nCandidates; \+\+i\)", "FEC", "")
    ctx.add_function(INTEGREP_H, "IntegratorRep::findEventCandidates", c.start, c.end, c.text, "M2", r.dropped, r.log)
    return ("#ifdef FEC_PLAIN\n#define FEC_ESTIMATE estimateRootTime_model\nReal estimateRootTime_model(Real, Real, Real, Real, Real, Real);\n"
            "#else\n#define FEC_ESTIMATE estimateRootTime\n#endif\n" + FEC_SIG + "\n" + plain + "\n"
            + "/* the same text with its loop in base/havoc/step form */\n" + FEC_SIG.replace("findEventCandidates(", "findEventCandidates__ind(") + "\n" + r.text + "\n")


# ------------------------------------------------------------------------------------------------------------------
# TimeStepperRep::stepTo
# ------------------------------------------------------------------------------------------------------------------
EVENT_H = os.path.join(REPO, "SimTKcommon/Simulation/include/SimTKcommon/internal/Event.h")
STAGE_H = os.path.join(REPO, "SimTKcommon/Simulation/include/SimTKcommon/internal/Stage.h")


def stage_value(name):
    src = blank_comments(open(STAGE_H).read())
    m = re.search(r"\b%s\s*=\s*(\d+)\s*," % name, src)
    if not m:
        raise ExtractionError("Stage::%s enumerator not found in Stage.h" % name)
    return int(m.group(1))


def cut_enum_renamed(ctx, path, anchor, label, cname, renames):
    """cut `enum NAME {...}` verbatim, scope-flattening the listed enumerators (they would clash in C's single namespace)"""
    c = cut_function(path, anchor, label)
    r = Rewriter(c.text, label)
    for old, new in renames:
        r.sub("scope-flatten enumerator", r"\b%s\b" % old, new, 1)
    r.sub("enum tag", anchor.strip().replace(r"\s*", ""), "enum " + cname, 1)
    ctx.add_function(path, label, c.start, c.end, c.text, "M2 (verbatim enum)", [], r.log)
    return r.text + ";\n"


def _one(ctx, path, anchor, label, header, rules, occurrence=1):
    c = cut_function(path, anchor, label, occurrence=occurrence)
    r = Rewriter("{" + c.body + "}", label)
    rules(r)
    ctx.add_function(path, label, c.start, c.end, c.text, "M2", r.dropped, r.log)
    return header + "\n" + r.text + "\n"


def forwarders_text(ctx):
    """the Integrator handle methods TimeStepperRep::stepTo uses: one-line forwards to the rep (rule: handle->rep forwarding)"""
    out = []
    def fwd0(r):
        r.sub("handle->rep forwarding", r"\b(?:get|upd)Rep\(\)\.(\w+)\(\)", r"\1(self)", 1)
    out.append(_one(ctx, INTEGREP_H, r"State& updAdvancedState\(\)\s*", "IntegratorRep::updAdvancedState", "static struct State* updAdvancedState(struct IntegratorRep* self)",
                    lambda r: (r.sub("reference-return->pointer", r"(?<![\w.>&])advancedState\b", "&self->advancedState", 1))))
    out.append(_one(ctx, INTEGRATOR_CPP, r"const State& Integrator::getState\(\) const\s*", "Integrator::getState", "static const struct State* Integrator_getState(const struct IntegratorRep* self)", fwd0))
    out.append(_one(ctx, INTEGRATOR_CPP, r"const State& Integrator::getAdvancedState\(\) const\s*", "Integrator::getAdvancedState", "static const struct State* Integrator_getAdvancedState(const struct IntegratorRep* self)", fwd0))
    out.append(_one(ctx, INTEGRATOR_CPP, r"State& Integrator::updAdvancedState\(\)\s*", "Integrator::updAdvancedState", "static struct State* Integrator_updAdvancedState(struct IntegratorRep* self)", fwd0))
    out.append(_one(ctx, INTEGRATOR_CPP, r"bool Integrator::isSimulationOver\(\) const\s*", "Integrator::isSimulationOver", "static bool Integrator_isSimulationOver(const struct IntegratorRep* self)", fwd0))
    def getTime(r):
        r.sub("implicit this + State::getTime()->view field", r"\bgetState\(\)\.getTime\(\)", "Integrator_getState(self)->t", 1)
    out.append(_one(ctx, INTEGRATOR_H, r"Real\s+getTime\(\) const\s*", "Integrator::getTime", "static Real Integrator_getTime(const struct IntegratorRep* self)", getTime))
    out.append(_one(ctx, INTEGRATOR_CPP, r"Integrator::stepTo\(Real reportTime, Real advanceLimit\)\s*", "Integrator::stepTo",
                    "static SuccessfulStepStatus Integrator_stepTo(struct IntegratorRep* self, Real reportTime, Real advanceLimit)",
                    lambda r: r.lit("handle->rep forwarding (callee BY CONTRACT: C19)", "updRep().stepTo(", "AbstractIntegratorRep_stepTo(self, ", 1)))
    out.append(_one(ctx, INTEGRATOR_CPP, r"void Integrator::reinitialize\(Stage g, bool shouldTerminate\)\s*", "Integrator::reinitialize",
                    "static void Integrator_reinitialize(struct IntegratorRep* self, int g, bool shouldTerminate)",
                    lambda r: r.lit("handle->rep forwarding (callee BY CONTRACT: C19)", "updRep().reinitialize(", "IntegratorRep_reinitialize(self, ", 1)))
    def trig(r):
        r.sub("handle->rep forwarding", r"\bgetRep\(\)\.getStepCommunicationStatus\(\)", "getStepCommunicationStatus(self)", 1)
        r.sub("scope-flatten IntegratorRep::", r"\bIntegratorRep::", "", 1)
        rewrite_call(r, "exception-plumbing: SimTK_THROW2 -> ghost flag", "SimTK_THROW2", lambda a: "{ ghost_threw = 1; return IDS_EMPTY; }", 1)
        r.sub("handle->rep forwarding (payload -> list token)", r"\bgetRep\(\)\.getTriggeredEvents\(\)", "rep_getTriggeredEvents(self)", 1)
    out.append(_one(ctx, INTEGRATOR_CPP, r"Integrator::getTriggeredEvents\(\) const\s*", "Integrator::getTriggeredEvents",
                    "static EventIdList Integrator_getTriggeredEvents(const struct IntegratorRep* self)", trig))
    return "\n".join(out)


def results_text(ctx):
    out = []
    mem = lambda r: r.members(["m_exitStatus", "m_lowestModifiedStage"])
    def valid(r):
        r.sub("scope-flatten enumerator", r"\bInvalid\b", "Status_Invalid", 1); mem(r)
    out.append(_one(ctx, EVENT_H, r"bool\s+isValid\(\)\s+const\s*", "HandleEventsResults::isValid", "static bool isValid(const struct HandleEventsResults* self)", valid, occurrence=2))
    out.append(_one(ctx, EVENT_H, r"Status\s+getExitStatus\(\)\s+const\s*", "HandleEventsResults::getExitStatus", "static int getExitStatus(const struct HandleEventsResults* self)", mem))
    def low(r):
        this_calls(r, ["isValid"]); mem(r)
    out.append(_one(ctx, EVENT_H, r"Stage getLowestModifiedStage\(\) const\s*", "HandleEventsResults::getLowestModifiedStage", "static int getLowestModifiedStage(const struct HandleEventsResults* self)", low))
    return "\n".join(out)


def timestepper_text(ctx):
    c = cut_function(TIMESTEPPER_CPP, r"Integrator::SuccessfulStepStatus TimeStepperRep::stepTo\(Real time\)\s*", "TimeStepperRep::stepTo", expect_total=1)
    r = Rewriter("{" + c.body + "}", "TimeStepperRep::stepTo")
    D, S = r.drop, r.sub
    D("payload: handler options object", r"HandleEventsOptions handleOpts\(integ->getConstraintToleranceInUse\(\)\);")
    D("payload: handler options object", r"if \(integ->isInfinityNormInUse\(\)\)\s*handleOpts\.setOption\(HandleEventsOptions::UseInfinityNorm\);")
    S("container payload -> list tokens", r"Array_<EventId> scheduledEventIds, scheduledReportIds;", "EventIdList scheduledEventIds = IDS_EMPTY, scheduledReportIds = IDS_EMPTY;", 1)
    S("container payload -> list token (empty temporary)", r"Array_<EventId>\(\)", "IDS_EMPTY", 2)
    # the two integrator calls that are under the C19 contracts: through the ghost shims (which call the cut forwarders)
    rewrite_call(r, "handle call -> ghost shim around the cut forwarder Integrator::stepTo (callee BY CONTRACT: C19)", "integ->stepTo", lambda a: "TS_stepTo(self, %s, %s)" % (a[0], a[1]), 1)
    rewrite_call(r, "handle call -> ghost shim around the cut forwarder Integrator::reinitialize (callee BY CONTRACT: C19)", "integ->reinitialize", lambda a: "TS_reinitialize(self, %s, %s)" % (a[0], a[1]), 1)
    S("handle method -> cut forwarder", r"\binteg->(isSimulationOver|getTime|getState|getAdvancedState|updAdvancedState|getTriggeredEvents)\(\)", r"Integrator_\1(self->integ)", None, 10)
    # system entry points by contract
    rewrite_call(r, "opaque statement: system.realize", "system.realize", lambda a: "sys_realize(self, %s, %s)" % (a[0], a[1]), 2)
    rewrite_call(r, "callee by contract: system.calcTimeOfNextScheduledEvent (references -> pointers)", "system.calcTimeOfNextScheduledEvent",
                 lambda a: "sys_calcTimeOfNextScheduledEvent(self, %s, &%s, &%s, %s)" % tuple(a), 1)
    rewrite_call(r, "callee by contract: system.calcTimeOfNextScheduledReport (references -> pointers)", "system.calcTimeOfNextScheduledReport",
                 lambda a: "sys_calcTimeOfNextScheduledReport(self, %s, &%s, &%s, %s)" % tuple(a), 1)
    rewrite_call(r, "callee by contract: system.reportEvents", "system.reportEvents", lambda a: "sys_reportEvents(self, %s, %s, %s)" % tuple(a), 1)
    def he(a):
        if len(a) != 5 or a[3].strip() != "handleOpts" or a[4].strip() != "results":
            raise ExtractionError("system.handleEvents call with unexpected arguments %r" % (a,))
        return "sys_handleEvents(self, %s, %s, %s, &results)" % (a[0], a[1], a[2])
    rewrite_call(r, "callee by contract: system.handleEvents (options payload dropped, reference -> pointer)", "system.handleEvents", he, 4)
    S("results object -> view struct", r"\bHandleEventsResults results;", "struct HandleEventsResults results;", 4)
    S("method call -> cut accessor", r"\bresults\.(getLowestModifiedStage|getExitStatus)\(\)", r"\1(&results)", 8)
    S("scope-flatten HandleEventsResults::", r"\bHandleEventsResults::ShouldTerminate\b", "ShouldTerminate", 4)
    S("scope-flatten Event::Cause::", r"\bEvent::Cause::", "", 5)
    S("scope-flatten Integrator::", r"\bIntegrator::", "", None, 9)
    S("scope-flatten Stage::", r"\bStage::(Time|Report)\b", r"Stage_\1", 3)
    S("Stage -> int (view)", r"\bStage lowestModified\b", "int lowestModified", 1)
    S("std::min", r"\bstd::min\(", "vf_min(", None, 1)
    literal_not(r, 1)
    r.members(["lastEventTime", "lastReportTime", "reportAllSignificantStates"])
    r.splice_loop("loop-contract:TimeStepperRep::stepTo#loop1 (main loop; cut at integ->stepTo by contract)", r"\bwhile\s*\(!Integrator_isSimulationOver\(self->integ\)\)",
                  "  __CPROVER_assigns(TS_ASSIGNS(self), scheduledEventIds, scheduledReportIds)\n  __CPROVER_loop_invariant(TS_INV(self, time))", 1)
    ctx.add_function(TIMESTEPPER_CPP, "TimeStepperRep::stepTo", c.start, c.end, c.text, "M2", r.dropped, r.log)
    return "SuccessfulStepStatus TimeStepperRep_stepTo(struct TimeStepperRep* self, Real time)\n" + r.text + "\n"


def build_ts_unit(ctx, head_parts):
    """head_parts: the C19 head (pre.h, enums, accessors), shared with the localisation unit"""
    spec19 = os.path.join(VERIF, "specs", "C19")
    parts = list(head_parts)
    parts.append("enum { Stage_Time = %d };\n" % stage_value("Time"))
    parts.append('#include "%s/contracts.h"\n' % spec19)
    parts.append(cut_enum_renamed(ctx, EVENT_H, r"enum Num\s*", "Event::Cause::Num", "CauseNum", [("Invalid", "Cause_Invalid")]))
    parts.append(cut_enum_renamed(ctx, EVENT_H, r"enum Status\s*", "HandleEventsResults::Status", "HandleEventsStatus", [("Invalid", "Status_Invalid")]))
    parts.append('#include "%s/ts_pre.h"\n' % SPEC)
    parts.append(forwarders_text(ctx))
    parts.append(results_text(ctx))
    parts.append('#include "%s/ts_contracts.h"\n' % SPEC)
    parts.append(timestepper_text(ctx))
    parts.append('#include "%s/ts_harness.h"\n' % SPEC)
    path = os.path.join(ctx.out, "ts_unit.c")
    open(path, "w").write("\n".join(parts))
    return path


class _QuietCtx:
    """lets a builder of another check (C19) run without registering its functions a second time in this check's evidence"""
    def __init__(self, ctx, keep=()):
        self.out, self._ctx, self._keep = ctx.out, ctx, keep
    def add_function(self, path, name, *a, **k):
        if name in self._keep:
            self._ctx.add_function(path, name, *a, **k)


def build_supplement_unit(ctx, c19mod):
    """C19's stepTo unit (real body of AbstractIntegratorRep::stepTo, cut by checks/c19.py on this run) + a forwarding wrapper that
    carries the two supplementary clauses of specs/C22/stepto_supplement.h"""
    base = c19mod.build_unit(_QuietCtx(ctx, keep=("AbstractIntegratorRep::stepTo",)))
    text = open(base).read()
    text += ('\n#include "%s/stepto_supplement.h"\n' % SPEC
             + "SuccessfulStepStatus stepTo_supplement_proof(struct IntegratorRep* self, Real reportTime, Real scheduledEventTime)\n"
               "__CPROVER_requires(__CPROVER_is_fresh(self, sizeof(*self)))\n"
               "__CPROVER_requires(STEPTO_PRE(self, reportTime, scheduledEventTime))\n"
               "__CPROVER_assigns(STEPTO_ASSIGNS)\n"
               "__CPROVER_ensures(STEPTO_SUPPLEMENT(__CPROVER_return_value, reportTime, scheduledEventTime))\n;\n"
               "SuccessfulStepStatus stepTo_supplement_proof(struct IntegratorRep* self, Real reportTime, Real scheduledEventTime)\n"
               "{ return AbstractIntegratorRep_stepTo(self, reportTime, scheduledEventTime); }\n"
               "int nondet_int(void);\n"
               "void h_stepTo_supplement(void) { struct IntegratorRep* s; Real r, e; ghost_threw = nondet_int(); stepTo_supplement_proof(s, r, e); }\n")
    path = os.path.join(ctx.out, "stepto_supplement_unit.c")
    open(path, "w").write(text)
    return path


# ------------------------------------------------------------------------------------------------------------------
# System::Guts::calcTimeOfNextScheduledEventImpl / calcTimeOfNextScheduledReportImpl
# ------------------------------------------------------------------------------------------------------------------
SYSTEM_CPP = os.path.join(REPO, "SimTKcommon/Simulation/src/System.cpp")


def sched_text(ctx, which):
    """which: 'Event' | 'Report'"""
    nm = "System::Guts::calcTimeOfNextScheduled%sImpl" % which
    c = cut_function(SYSTEM_CPP, r"int System::Guts::calcTimeOfNextScheduled%sImpl\s*\(const State& s, Real& tNextEvent, Array_<EventId>& eventIds,\s*bool includeCurrentTime\) const\s*" % which, nm, expect_total=1)
    r = Rewriter("{" + c.body + "}", nm)
    S = r.sub
    S("references -> pointers", r"(?<![\w.>*])tNextEvent\b", "(*tNextEvent)", 4)
    S("container->stub: clear()", r"\b(eventIds|ids)\.clear\(\);", r"eid_clear(\1);", 3)
    S("local container -> sequence over the harness's backing store", r"Array_<EventId> ids;", "struct EidSeq* ids = &sch_ids_storage;", 1)
    S("index type -> int", r"\bSubsystemIndex sx\(0\)", "int sx = 0", 1)
    S("implicit this (stub)", r"(?<![\w.>])getNumSubsystems\(\)", "getNumSubsystems(self)", 1)
    r.drop("payload: subsystem lookup (the call below names the subsystem by its index)", r"const Subsystem::Guts& sub = getRep\(\)\.subsystems\[sx\]\.getSubsystemGuts\(\);")
    rewrite_call(r, "callee by contract: per-subsystem next scheduled time (references -> pointers)", "sub.calcTimeOfNextScheduled%s" % which,
                 lambda a: "sub_calcTimeOfNext(self, sx, &%s, %s, %s)" % (a[1], a[2], a[3]), 1)
    S("container->stub: size()", r"\bids\.size\(\)", "eid_size(ids)", 1)
    S("container->stub: push_back + operator[] (+ ghost hook: assigns ghost variables only)", r"\beventIds\.push_back\(ids\[i\]\);", "{ eid_push(eventIds, eid_at(ids, i)); SCH_PUSH_HOOK(sx, i) }", 1)
    # ghost hook at the end of the outer loop body, located by brace matching
    splice_body_hooks(r, "ghost hook at the end of the outer loop body (assigns ghost variables only)", r"\bfor\s*\(int sx = 0;", "", "SCH_OUTER_END(sx)")
    loop_to_induction(r, "loop-contract:%s#loop2 (inner; base/havoc/step form; invariant SCH_INNER_INV)" % nm, r"\bfor\s*\(int i = 0;", "SCHIN", "")
    loop_to_induction(r, "loop-contract:%s#loop1 (outer; base/havoc/step form; invariant SCH_OUTER_INV)" % nm, r"\bfor\s*\(int sx = 0;", "SCHOUT", "")
    ctx.add_function(SYSTEM_CPP, nm, c.start, c.end, c.text, "M2", r.dropped, r.log)
    return ("int calcTimeOfNextScheduled%sImpl__ind(const struct SystemGuts* self, const struct State* s, Real* tNextEvent, struct EidSeq* eventIds, bool includeCurrentTime)\n" % which
            + r.text + "\n")


def build_sched_unit(ctx):
    parts = ['#include "%s/pre.h"\n' % os.path.join(VERIF, "specs", "C19"), '#include "%s/sched_contracts.h"\n' % SPEC]
    parts.append(sched_text(ctx, "Event"))
    parts.append(sched_text(ctx, "Report"))
    parts.append('#include "%s/sched_harness.h"\n' % SPEC)
    path = os.path.join(ctx.out, "sched_unit.c")
    open(path, "w").write("\n".join(parts))
    return path
