"""C22, second part: route-M2 cuts of IntegratorRep::findEventCandidates (IntegratorRep.h) and TimeStepperRep::stepTo
(TimeStepper.cpp). Only rewrite rules from the closed list of DESIGN 2.2; every rule is must-fire and logged."""
import os, re
from vlib import REPO, VERIF
from extract import (cut_function, Rewriter, ExtractionError, blank_comments, match_brace)
from _help_c18 import loop_to_induction
from _help_c19c22 import (INTEGREP_H, INTEGRATOR_CPP, INTEGRATOR_H, TIMESTEPPER_CPP, rewrite_call, this_calls, literal_not, split_args)

SPEC = os.path.join(VERIF, "specs", "C22")
FEC_SIG = ("void findEventCandidates(const struct IntegratorRep* self, int nEvents, const struct IdxSeq* viableCandidates, "
           "const struct TrigSeq* viableCandidateTransitions,\n                         Real tLow, const struct Vector* eLow, Real tHigh, const struct Vector* eHigh, "
           "Real bias, Real minWindow,\n                         struct IdxSeq* candidates, struct RealSeq* timeEstimates, struct TrigSeq* transitions, "
           "Real* earliestTimeEst, Real* narrowestWindow)")


def splice_body_hooks(r, rule, loop_rx, begin, end):
    """ghost statements (assign ghost variables only) at the first and last position of a loop body; located by brace matching"""
    blank = blank_comments(r.text)
    ms = list(re.finditer(loop_rx, blank))
    if len(ms) != 1:
        raise ExtractionError("%s: ghost-hook rule '%s' /%s/ matched %d times, expected 1" % (r.name, rule, loop_rx, len(ms)))
    op = blank.find("(", ms[0].start())
    cp = match_brace(blank, op)
    k = cp + 1
    while blank[k].isspace():
        k += 1
    if blank[k] != "{":
        raise ExtractionError("%s: ghost-hook rule '%s': loop body is not a block" % (r.name, rule))
    e = match_brace(blank, k)
    r.text = r.text[:k + 1] + " " + begin + "\n" + r.text[k + 1:e] + " " + end + "\n" + r.text[e:]
    r.log.append(dict(rule=rule, pattern=loop_rx, replacement="ghost statements %s ... %s at the ends of the loop body" % (begin, end), hits=1, examples=[blank[ms[0].start():cp + 1][:80]]))
    return r


def fec_text(ctx):
    """IntegratorRep::findEventCandidates -> C function over contracted sequence stubs"""
    c = cut_function(INTEGREP_H, r"void findEventCandidates\s*\(int nEvents,[^{]*\)\s*const\s*", "IntegratorRep::findEventCandidates", expect_total=1)
    r = Rewriter("{" + c.body + "}", "IntegratorRep::findEventCandidates")
    S = r.sub
    S("container->stub: size()", r"\bviableCandidates->size\(\)", "idx_size(viableCandidates)", 1)
    S("container->stub: size()", r"\bviableCandidateTransitions->size\(\)", "trig_size(viableCandidateTransitions)", 1)
    S("container->stub: clear()", r"\bcandidates\.clear\(\);", "idx_clear(candidates);", 1)
    S("container->stub: clear()", r"\btimeEstimates\.clear\(\);", "real_clear(timeEstimates);", 1)
    S("container->stub: clear()", r"\btransitions\.clear\(\);", "trig_clear(transitions);", 1)
    r.lit("container->contracted stub: (*viableCandidates)[i]", "(*viableCandidates)[i]", "idx_at(viableCandidates, i)", 1)
    S("functional cast SystemEventTriggerIndex(i)", r"(?<![\w:])SystemEventTriggerIndex\(i\)", "(int)(i)", 1)
    S("index type -> int", r"\bconst SystemEventTriggerIndex e\b", "const int e", 1)
    S("scope-flatten Event::", r"\bEvent::", "", 4)
    S("container->contracted stub: Vector[e]", r"\b(eLow|eHigh)\[e\]", r"vec_get(\1, e)", 4)
    S("member array + method call -> stub + function", r"\beventTriggerInfo\[e\]\.(calcTransitionMask|getRequiredLocalizationTimeWindow)\(\)", r"\1(eti_at(self, e))", 2)
    S("member array + method call -> stub + function", r"\beventTriggerInfo\[e\]\.calcTransitionToReport\(transitionSeen\)", "calcTransitionToReport(eti_at(self, e), transitionSeen)", 1)
    S("symbolic product -> unconstrained value (over-approximation)", r"\baccuracyInUse\*timeScaleInUse\*(getRequiredLocalizationTimeWindow\(eti_at\(self, e\)\))",
      r"vf_mul3(self->accuracyInUse, self->timeScaleInUse, \1)", 1)
    S("std::max/min", r"\bstd::(max|min)\(", r"vf_\1(", 3)
    S("container->stub: push_back", r"\bcandidates\.push_back\(", "idx_push(candidates, ", 1)
    S("container->stub: push_back", r"\btimeEstimates\.push_back\(", "real_push(timeEstimates, ", 1)
    S("container->stub: push_back", r"\btransitions\.push_back\(", "trig_push(transitions, ", 1)
    S("container->stub: back()", r"\btimeEstimates\.back\(\)", "real_back(timeEstimates)", 1)
    S("callee by contract (dfcc: replaced by the contract proved in event.estimateRootTime; bounded companion: executable form of it)",
      r"(?<![\w.>])estimateRootTime\(", "FEC_ESTIMATE(", 1)
    S("references -> pointers", r"(?<![\w.>*])(earliestTimeEst|narrowestWindow)\b", r"(*\1)", 6)
    splice_body_hooks(r, "ghost hooks (assign ghost variables only)", r"\bfor\s*\(int i=0; i<nCandidates; \+\+i\)", "FEC_ITER_BEGIN(i)", "FEC_ITER_END(i)")
    plain = r.text      # the loop as it is: bounded refutation companion (unwound)
    loop_to_induction(r, "loop-contract:findEventCandidates#loop1 (base/havoc/step form; invariant FEC_LOOP_INV in specs/C22/fec_contracts.h)",
                      r"\bfor\s*\(int i=0; i<nCandidates; \+\+i\)", "FEC", "")
    ctx.add_function(INTEGREP_H, "IntegratorRep::findEventCandidates", c.start, c.end, c.text, "M2", r.dropped, r.log)
    return ("#ifdef FEC_PLAIN\n#define FEC_ESTIMATE estimateRootTime_model\nReal estimateRootTime_model(Real, Real, Real, Real, Real, Real);\n"
            "#else\n#define FEC_ESTIMATE estimateRootTime\n#endif\n" + FEC_SIG + "\n" + plain + "\n"
            + "/* the same text with its loop in base/havoc/step form */\n" + FEC_SIG.replace("findEventCandidates(", "findEventCandidates__ind(") + "\n" + r.text + "\n")
