// Native replay for the force-caching class invariant (part of C38 / C16): links the private
// library build of the CURRENT tree. Scenario per class for which a state-resident parameter can be
// changed at run time on an element that reports dependsOnlyOnPositions()==true:
//   slider (q=2) with Force::MobilityLinearSpring(k=10,q0=0): realize to Dynamics, record the
//   mobility force; setStiffness(state,100); realize again; compare with a fresh state carrying the
//   same q and parameters. Postcondition (property C38: "changes to an element's parameters ...
//   take effect at the next realization"): the two forces are equal.
//   usage: c38_cache_replay <ImplClassName>
#include "Simbody.h"
#include <cstdio>
#include <cstring>
#include <cmath>
using namespace SimTK;

static Real mobForce(const MultibodySystem& sys, const State& s) {
  sys.realize(s, Stage::Dynamics);
  return sys.getMobilityForces(s, Stage::Dynamics)[0];
}

static int mobilityLinearSpring(bool changeQZero) {
  MultibodySystem system; SimbodyMatterSubsystem matter(system); GeneralForceSubsystem forces(system);
  Body::Rigid body(MassProperties(1.0, Vec3(0), Inertia(1)));
  MobilizedBody::Slider slider(matter.Ground(), Transform(), body, Transform());
  Force::MobilityLinearSpring spring(forces, slider, MobilizerUIndex(0), 10.0, 0.0);
  State s = system.realizeTopology(); system.realizeModel(s);
  slider.setOneQ(s, 0, 2.0);
  Real f1 = mobForce(system, s);
  if (changeQZero) spring.setQZero(s, 1.0); else spring.setStiffness(s, 100.0);
  Real f2 = mobForce(system, s);                 // "next realization" after the parameter change
  State fresh = system.realizeTopology(); system.realizeModel(fresh);
  slider.setOneQ(fresh, 0, 2.0);
  if (changeQZero) spring.setQZero(fresh, 1.0); else spring.setStiffness(fresh, 100.0);
  Real f3 = mobForce(system, fresh);
  printf("MobilityLinearSpring q=2 k=10 q0=0: force %.17g; after %s and re-realizing the same state: %.17g; fresh state with the same values: %.17g\n",
         f1, changeQZero ? "setQZero(1)" : "setStiffness(100)", f2, f3);
  bool ok = (f2 == f3);
  if (!ok) printf("REPRODUCED: stale cached force applied after a parameter change (dependsOnlyOnPositions()==true but the parameter variable does not invalidate Stage::Position)\n");
  return ok ? 0 : 1;
}

int main(int argc, char** argv) {
  if (argc < 2) return 2;
  try {
    if (!strcmp(argv[1], "MobilityLinearSpringImpl")) {
      int a = mobilityLinearSpring(false), b = mobilityLinearSpring(true);
      if (!a && !b) printf("NOT-REPRODUCED\n");
      return a | b;
    }
    printf("no native scenario for class %s (no run-time settable state parameter known to the driver)\nNOT-REPRODUCED\n", argv[1]);
    return 0;
  } catch (const std::exception& e) { printf("exception: %s\nNOT-REPRODUCED\n", e.what()); return 3; }
}
