// Native replay for the C25 BigMatrix storage helpers (MatrixHelperRep_Full.h):
// exercises the public SimTK::Matrix_ API (owners in column and row order, transposed
// views, block views, resizeKeep, contiguous-data access) so that storage-index bugs in
// FullColOrder*/FullRowOrder* helpers show up as wrong element values.
// Build: compile together with <TREE>/SimTKcommon/BigMatrix/src/MatrixHelper.cpp so the
// helper templates are instantiated from the tree under test.
// Usage: c25_helper_replay <seed>
#include "SimTKcommon.h"
#include <cstdio>
#include <cstdlib>
#include <cstdarg>
#include <csignal>
#include <unistd.h>
#include <memory>
#include <string>
#include <vector>
using namespace SimTK;

enum { K_ADDR, K_ROWOWNER, K_RESIZEKEEP, K_CONTIG, K_TBLOCK, K_EXC, NK };
static const char* KN[NK] = { "addr", "rowowner", "resizeKeep", "contig", "tblock", "exception" };
static int  kbad[NK];
static long ncmp = 0;
static char ctx[256] = "";
static void mism(int k, const char* fmt, ...) {
  ++kbad[k]; if (kbad[k] > 12) return;
  printf("MISMATCH %s [%s] ", KN[k], ctx);
  va_list ap; va_start(ap, fmt); vprintf(fmt, ap); va_end(ap); printf("\n");
}

// Every matrix instance gets a fresh tag so a stale read (old buffer, other matrix) is detectable.
static int tagCounter = 0;
static int newTag() { tagCounter = tagCounter % 8999 + 1; return tagCounter; }
static double val(int tag, int i, int j, int k) { return tag*1000.0 + i*100 + j*10 + k + 0.5; }

template <class E> struct EI;
template <> struct EI<double> { enum { NS = 1 }; static const char* name() { return "double"; }
  static double mk(int t, int i, int j) { return val(t,i,j,0); } static double sc(const double& e, int) { return e; } };
template <> struct EI<Vec3> { enum { NS = 3 }; static const char* name() { return "Vec3"; }
  static Vec3 mk(int t, int i, int j) { return Vec3(val(t,i,j,0), val(t,i,j,1), val(t,i,j,2)); } static double sc(const Vec3& e, int k) { return e[k]; } };
template <> struct EI<Row3> { enum { NS = 3 }; static const char* name() { return "Row3"; }
  static Row3 mk(int t, int i, int j) { return Row3(val(t,i,j,0), val(t,i,j,1), val(t,i,j,2)); } static double sc(const Row3& e, int k) { return e[k]; } };

static double herm(const double& e) { return e; }
static Row3 herm(const Vec3& e) { return Row3(e[0],e[1],e[2]); }
static Vec3 herm(const Row3& e) { return Vec3(e[0],e[1],e[2]); }

template <class E> static bool chkE(int kind, const char* what, const E& got, const E& expd, int i, int j) {
  bool ok = true;
  for (int k = 0; k < (int)EI<E>::NS; ++k) {
    ++ncmp; const double g = EI<E>::sc(got,k), x = EI<E>::sc(expd,k);
    if (!(g == x)) { ok = false; mism(kind, "%s at (%d,%d)[%d] got=%.3f expected=%.3f", what, i, j, k, g, x); }
  }
  return ok;
}
static bool chkI(int kind, const char* what, long got, long expd) {
  ++ncmp; if (got != expd) { mism(kind, "%s got=%ld expected=%ld", what, got, expd); return false; } return true;
}

// ---- owners -------------------------------------------------------------------------------------
static MatrixCommitment rowCommit() {
  MatrixCommitment mc; mc.commitStorage(MatrixStorage(MatrixStorage::Full, MatrixStorage::RowOrder)); return mc;
}
enum { O_COL, O_ROWCOMMIT, O_ROWCOPY, O_COLCOPY, NO };
static const char* OKN[NO] = { "colOwner", "rowOwner(commit)", "rowOwner(copy of ~col)", "colOwner(copy of ~row)" };
static bool isRowKind(int ok) { return ok == O_ROWCOMMIT || ok == O_ROWCOPY; }
template <class E> static bool isRowOrder(const MatrixBase<E>& M) {
  return M.getMatrixCharacter().getStorage().getOrder() == MatrixStorage::RowOrder;
}
static bool reported[2][NO];
template <class E> static std::unique_ptr< Matrix_<E> > makeOwner(int ok, int m, int n) {
  typedef typename CNT<E>::THerm EH;
  std::unique_ptr< Matrix_<E> > p;
  switch (ok) {
    case O_COL:       p.reset(new Matrix_<E>(m,n)); break;
    case O_ROWCOMMIT: p.reset(new Matrix_<E>(rowCommit())); p->resize(m,n); break;
    case O_ROWCOPY:   { Matrix_<EH> t(n,m); const Matrix_<EH>& ct = t; p.reset(new Matrix_<E>(~ct)); } break;
    default:          { Matrix_<EH> t(rowCommit()); t.resize(n,m); const Matrix_<EH>& ct = t; p.reset(new Matrix_<E>(~ct)); } break;
  }
  const bool row = isRowOrder(*p);
  bool& rep = reported[EI<E>::NS == 1 ? 0 : 1][ok];
  if (!rep && m >= 2 && n >= 2) { rep = true; printf("INFO %s %s -> storage order %s\n", EI<E>::name(), OKN[ok], row ? "RowOrder" : "ColumnOrder"); }
  ++ncmp;
  // (1 x n owners default to RowOrder and m x 1 to ColumnOrder whatever the construction: only 2-D shapes are checked)
  if (m >= 2 && n >= 2 && row != isRowKind(ok)) mism(K_ROWOWNER, "%s %s %dx%d: storage order is %s", EI<E>::name(), OKN[ok], m, n, row ? "RowOrder" : "ColumnOrder");
  return p;
}
template <class E> static E colElt(const MatrixBase<E>& C, int i, int j) { const VectorView_<E> v = C(j); return v[i]; }
template <class E> static E rowElt(const MatrixBase<E>& C, int i, int j) { const RowVectorView_<E> v = C[i]; return v[j]; }
// reads through CONST transposed views (a non-const temporary view would go through updElt and demand writability)
template <class E> static typename CNT<E>::THerm tElt(const MatrixBase<E>& C, int j, int i) { const MatrixView_<typename CNT<E>::THerm> T = ~C; return T(j,i); }
template <class E> static E ttElt(const MatrixBase<E>& C, int i, int j) { const MatrixView_<typename CNT<E>::THerm> T = ~C; const MatrixView_<E> TT = ~T; return TT(i,j); }
template <class E> static void fill(MatrixBase<E>& M, int tag) {
  for (int i = 0; i < M.nrow(); ++i) for (int j = 0; j < M.ncol(); ++j) M(i,j) = EI<E>::mk(tag,i,j);
}
template <class E> static void chkAll(int kind, const char* what, const MatrixBase<E>& C, int tag) {
  for (int i = 0; i < C.nrow(); ++i) for (int j = 0; j < C.ncol(); ++j) chkE(kind, what, C(i,j), EI<E>::mk(tag,i,j), i, j);
}
// Walk the contiguous data pointer in packed order and compare with operator().
template <class E> static void walk(int kind, const char* what, const MatrixBase<E>& M, bool rowMajor) {
  const int m = M.nrow(), n = M.ncol(), NS = EI<E>::NS;
  const ptrdiff_t len = M.getContiguousScalarDataLength(); ++ncmp;
  if (len != (ptrdiff_t)m*n*NS) { mism(kind, "%s contiguous length (%dx%d) got=%ld expected=%ld", what, m, n, (long)len, (long)m*n*NS); return; }
  if (len == 0) return;
  const double* p = M.getContiguousScalarData();
  for (int i = 0; i < m; ++i) for (int j = 0; j < n; ++j) for (int k = 0; k < NS; ++k) {
    const ptrdiff_t idx = rowMajor ? ((ptrdiff_t)i*n + j)*NS + k : ((ptrdiff_t)j*m + i)*NS + k;
    ++ncmp; const double g = p[idx], x = EI<E>::sc(M(i,j),k);
    if (!(g == x)) mism(kind, "%s packed walk (%s-major, %dx%d) at (%d,%d)[%d] data[%ld] got=%.3f expected=%.3f",
                        what, rowMajor ? "row" : "col", m, n, i, j, k, (long)idx, g, x);
  }
}

// ---- 1. element addressing ----------------------------------------------------------------------
template <class E> static void testAddr(int ok, int m, int n) {
  typedef typename CNT<E>::THerm EH;
  snprintf(ctx, sizeof ctx, "%s %s %dx%d", EI<E>::name(), OKN[ok], m, n);
  std::unique_ptr< Matrix_<E> > P = makeOwner<E>(ok,m,n); Matrix_<E>& M = *P; const Matrix_<E>& C = M;
  if (!chkI(K_ADDR, "nrow", M.nrow(), m) | !chkI(K_ADDR, "ncol", M.ncol(), n)) return;
  int t = newTag(); fill(M,t);
  for (int i = 0; i < m; ++i) for (int j = 0; j < n; ++j) {
    const E x = EI<E>::mk(t,i,j);
    chkE(K_ADDR, "const operator()(i,j)", C(i,j), x, i, j);
    chkE(K_ADDR, "non-const operator()(i,j)", M(i,j), x, i, j);
    chkE(K_ADDR, "getElt(i,j)", C.getElt(i,j), x, i, j);
    chkE(K_ADDR, "column view A(j)[i]", colElt(C,i,j), x, i, j);
    chkE(K_ADDR, "row view A[i][j]", rowElt(C,i,j), x, i, j);
    chkE(K_ADDR, "transposed view (~A)(j,i)", tElt(C,j,i), EI<EH>::mk(t,i,j), i, j);
  }
  t = newTag(); for (int j = 0; j < n; ++j) for (int i = 0; i < m; ++i) M(j)[i] = EI<E>::mk(t,i,j);
  chkAll(K_ADDR, "write via column view, read operator()", C, t);
  t = newTag(); for (int i = 0; i < m; ++i) for (int j = 0; j < n; ++j) M[i][j] = EI<E>::mk(t,i,j);
  chkAll(K_ADDR, "write via row view, read operator()", C, t);
  t = newTag(); for (int i = 0; i < m; ++i) for (int j = 0; j < n; ++j) (~M)(j,i) = EI<EH>::mk(t,i,j);
  chkAll(K_ADDR, "write via (~A)(j,i), read operator()", C, t);
  // double transpose is the original again
  t = newTag(); fill(M,t);
  for (int i = 0; i < m; ++i) for (int j = 0; j < n; ++j) chkE(K_ADDR, "(~~A)(i,j)", ttElt(C,i,j), EI<E>::mk(t,i,j), i, j);
}

// ---- 2. deep copies of transposed views give owners of the other order --------------------------
template <class E> static void testRowOwner(int srcKind, int m, int n) {
  typedef typename CNT<E>::THerm EH;
  snprintf(ctx, sizeof ctx, "%s B(~A), A=%s %dx%d", EI<E>::name(), OKN[srcKind], m, n);
  std::unique_ptr< Matrix_<E> > P = makeOwner<E>(srcKind,m,n); Matrix_<E>& A = *P; const Matrix_<E>& CA = A;
  const int t = newTag(); fill(A,t);
  Matrix_<EH> B(~CA); const Matrix_<EH>& CB = B;
  if (!chkI(K_ROWOWNER, "B.nrow", B.nrow(), n) | !chkI(K_ROWOWNER, "B.ncol", B.ncol(), m)) return;
  chkI(K_ROWOWNER, "B is row order (1) / col order (0)", isRowOrder(B) ? 1 : 0, isRowOrder(A) ? 0 : 1);
  for (int i = 0; i < n; ++i) for (int j = 0; j < m; ++j) chkE(K_ROWOWNER, "B(i,j) vs A(j,i)", CB(i,j), EI<EH>::mk(t,j,i), i, j);
  const int t2 = newTag(); fill(B,t2);
  chkAll(K_ROWOWNER, "B after refill", CB, t2);
  chkAll(K_ROWOWNER, "A must be untouched by writes to deep copy B", CA, t);
  // plain deep copy and assignment keep values
  Matrix_<E> D(CA); chkI(K_ROWOWNER, "copy D(A) keeps order", isRowOrder(D) ? 1 : 0, isRowOrder(A) ? 1 : 0);
  if (chkI(K_ROWOWNER, "D.nrow", D.nrow(), m) & chkI(K_ROWOWNER, "D.ncol", D.ncol(), n)) chkAll(K_ROWOWNER, "copy D(A)", D, t);
  Matrix_<E> F; F = CA;
  if (chkI(K_ROWOWNER, "F.nrow", F.nrow(), m) & chkI(K_ROWOWNER, "F.ncol", F.ncol(), n)) chkAll(K_ROWOWNER, "assigned F = A", F, t);
  Matrix_<EH> G; G = ~CA;
  if (chkI(K_ROWOWNER, "G.nrow", G.nrow(), n) & chkI(K_ROWOWNER, "G.ncol", G.ncol(), m))
    for (int i = 0; i < n; ++i) for (int j = 0; j < m; ++j) chkE(K_ROWOWNER, "assigned G = ~A", G(i,j), EI<EH>::mk(t,j,i), i, j);
}

// ---- 3. resizeKeep ------------------------------------------------------------------------------
static int pickNew(int old, int d) { return d < 0 ? (old > 0 ? rand() % old : 0) : d == 0 ? old : old + 1 + rand() % 3; }
template <class E> static void testResizeKeep(int ok) {
  for (int dr = -1; dr <= 1; ++dr) for (int dc = -1; dc <= 1; ++dc) {
    const int om = (rand() % 8 == 0) ? 0 : 1 + rand() % 6, on = (rand() % 8 == 0) ? 0 : 1 + rand() % 6;
    const int m = pickNew(om,dr), n = pickNew(on,dc);
    snprintf(ctx, sizeof ctx, "%s %s %dx%d -> %dx%d", EI<E>::name(), OKN[ok], om, on, m, n);
    std::unique_ptr< Matrix_<E> > P = makeOwner<E>(ok,om,on); Matrix_<E>& M = *P; const Matrix_<E>& C = M;
    const bool row = isRowOrder(M);
    const int t = newTag(); fill(M,t);
    std::vector<E> saved((size_t)om*on + 1);
    for (int i = 0; i < om; ++i) for (int j = 0; j < on; ++j) saved[(size_t)i*on + j] = C(i,j);
    M.resizeKeep(m,n);
    if (!chkI(K_RESIZEKEEP, "nrow after resizeKeep", M.nrow(), m) | !chkI(K_RESIZEKEEP, "ncol after resizeKeep", M.ncol(), n)) continue;
    chkI(K_RESIZEKEEP, "row order retained", isRowOrder(M) ? 1 : 0, row ? 1 : 0);
    for (int i = 0; i < std::min(m,om); ++i) for (int j = 0; j < std::min(n,on); ++j) {
      chkE(K_RESIZEKEEP, "kept element", C(i,j), saved[(size_t)i*on + j], i, j);
      chkE(K_RESIZEKEEP, "kept element vs pattern", C(i,j), EI<E>::mk(t,i,j), i, j);
    }
    const int t2 = newTag(); fill(M,t2);
    chkAll(K_RESIZEKEEP, "write all/read back after resizeKeep", C, t2);
    for (int i = 0; i < m; ++i) for (int j = 0; j < n; ++j) chkE(K_RESIZEKEEP, "column view after resizeKeep", colElt(C,i,j), EI<E>::mk(t2,i,j), i, j);
    ++ncmp;
    if (!M.hasContiguousData()) mism(K_RESIZEKEEP, "owner not contiguous after resizeKeep");
    else walk(K_RESIZEKEEP, "after resizeKeep", C, row);
    // second resizeKeep back to something else must keep the new values
    const int m2 = rand() % 8, n2 = rand() % 8;
    M.resizeKeep(m2,n2);
    if (!chkI(K_RESIZEKEEP, "nrow after 2nd resizeKeep", M.nrow(), m2) | !chkI(K_RESIZEKEEP, "ncol after 2nd resizeKeep", M.ncol(), n2)) continue;
    for (int i = 0; i < std::min(m,m2); ++i) for (int j = 0; j < std::min(n,n2); ++j)
      chkE(K_RESIZEKEEP, "kept element after 2nd resizeKeep", C(i,j), EI<E>::mk(t2,i,j), i, j);
  }
}

// ---- 4. hasContiguousData -----------------------------------------------------------------------
template <class E> static void testContig(int ok, int m, int n) {
  typedef typename CNT<E>::THerm EH;
  snprintf(ctx, sizeof ctx, "%s %s %dx%d", EI<E>::name(), OKN[ok], m, n);
  std::unique_ptr< Matrix_<E> > P = makeOwner<E>(ok,m,n); Matrix_<E>& M = *P; const Matrix_<E>& C = M;
  const int t = newTag(); fill(M,t);
  const bool row = isRowOrder(M);
  ++ncmp;
  if (!C.hasContiguousData()) mism(K_CONTIG, "owner hasContiguousData()=false");
  else { walk(K_CONTIG, "owner", C, row); chkAll(K_CONTIG, "owner values", C, t); }
  { // whole transposed view of a packed owner is packed too, in the other order
    const MatrixView_<EH> T = ~C; ++ncmp;
    if (!T.hasContiguousData()) mism(K_CONTIG, "~owner hasContiguousData()=false");
    else { chkI(K_CONTIG, "~owner reports the other order", isRowOrder(T) ? 1 : 0, row ? 0 : 1); walk(K_CONTIG, "~owner", T, !row); }
  }
  // block dropping entries along the FAST dimension: not contiguous
  const int nfast = row ? n : m, nslow = row ? m : n;
  if (nslow >= 2 && nfast >= 3) {
    const int nf = 2 + rand() % (nfast - 2), f0 = rand() % (nfast - nf + 1);
    const MatrixView_<E> V = row ? C.block(0,f0,m,nf) : C.block(f0,0,nf,n);
    ++ncmp;
    if (V.hasContiguousData()) mism(K_CONTIG, "block(%s %d..%d of %d, all %s) hasContiguousData()=true", row ? "cols" : "rows", f0, f0+nf-1, nfast, row ? "rows" : "cols");
    for (int i = 0; i < V.nrow(); ++i) for (int j = 0; j < V.ncol(); ++j)
      chkE(K_CONTIG, "non-contiguous block element", V(i,j), row ? EI<E>::mk(t,i,f0+j) : EI<E>::mk(t,f0+i,j), i, j);
    Matrix_<E> D(V); const Matrix_<E>& CD = D; ++ncmp;   // deep copy of a strided view: packed
    if (!CD.hasContiguousData()) mism(K_CONTIG, "deep copy of strided block not contiguous");
    else {
      chkI(K_CONTIG, "deep copy of strided block keeps order", isRowOrder(D) ? 1 : 0, row ? 1 : 0);
      walk(K_CONTIG, "deep copy of strided block", CD, row);
    }
    if (chkI(K_CONTIG, "D.nrow", D.nrow(), V.nrow()) & chkI(K_CONTIG, "D.ncol", D.ncol(), V.ncol()))
      for (int i = 0; i < D.nrow(); ++i) for (int j = 0; j < D.ncol(); ++j)
        chkE(K_CONTIG, "deep copy of strided block element", CD(i,j), row ? EI<E>::mk(t,i,f0+j) : EI<E>::mk(t,f0+i,j), i, j);
  }
  // block dropping entries along the SLOW dimension only: if it claims contiguity, the walk must agree
  if (nslow >= 3 && nfast >= 2) {
    const int ns = 2 + rand() % (nslow - 2), s0 = rand() % (nslow - ns + 1);
    const MatrixView_<E> V = row ? C.block(s0,0,ns,n) : C.block(0,s0,m,ns);
    if (V.hasContiguousData()) walk(K_CONTIG, "slow-dimension block", V, row);
    for (int i = 0; i < V.nrow(); ++i) for (int j = 0; j < V.ncol(); ++j)
      chkE(K_CONTIG, "slow-dimension block element", V(i,j), row ? EI<E>::mk(t,s0+i,j) : EI<E>::mk(t,i,s0+j), i, j);
  }
}

// ---- 5. blocks of transposed matrices, blocks of row-order owners -------------------------------
template <class E> static void checkOutside(const Matrix_<E>& CA, int t, int r0, int c0, int nr, int nc, const char* what) {
  for (int i = 0; i < CA.nrow(); ++i) for (int j = 0; j < CA.ncol(); ++j) {
    const bool inside = i >= r0 && i < r0+nr && j >= c0 && j < c0+nc;
    if (!inside) chkE(K_TBLOCK, what, CA(i,j), EI<E>::mk(t,i,j), i, j);
  }
}
template <class E> static void testTBlock(int ok, int m, int n) {
  typedef typename CNT<E>::THerm EH;
  std::unique_ptr< Matrix_<E> > P = makeOwner<E>(ok,m,n); Matrix_<E>& A = *P; const Matrix_<E>& CA = A;
  int t = newTag(); fill(A,t);
  { // V = (~A)(r0,c0,nr,nc): V(i,j) == A(c0+j, r0+i)
    const int nr = rand() % (n+1), r0 = rand() % (n-nr+1), nc = rand() % (m+1), c0 = rand() % (m-nc+1);
    snprintf(ctx, sizeof ctx, "%s %s %dx%d (~A)(%d,%d,%d,%d)", EI<E>::name(), OKN[ok], m, n, r0, c0, nr, nc);
    const MatrixView_<EH> CV = (~CA).block(r0,c0,nr,nc);
    if (chkI(K_TBLOCK, "view nrow", CV.nrow(), nr) & chkI(K_TBLOCK, "view ncol", CV.ncol(), nc))
      for (int i = 0; i < nr; ++i) for (int j = 0; j < nc; ++j) chkE(K_TBLOCK, "V(i,j) vs A(c0+j,r0+i)", CV(i,j), EI<EH>::mk(t,c0+j,r0+i), i, j);
    Matrix_<EH> Cc(CV); const Matrix_<EH>& CC = Cc;
    if (chkI(K_TBLOCK, "deep copy nrow", CC.nrow(), nr) & chkI(K_TBLOCK, "deep copy ncol", CC.ncol(), nc))
      for (int i = 0; i < nr; ++i) for (int j = 0; j < nc; ++j) chkE(K_TBLOCK, "C(V)(i,j) vs A(c0+j,r0+i)", CC(i,j), EI<EH>::mk(t,c0+j,r0+i), i, j);
    if (CC.nrow() >= 1 && CC.ncol() >= 1) { ++ncmp; if (!CC.hasContiguousData()) mism(K_TBLOCK, "deep copy of view not contiguous"); else walk(K_TBLOCK, "deep copy of view", CC, isRowOrder(Cc)); }
    if (CV.hasContiguousData()) walk(K_TBLOCK, "transposed block claiming contiguity", CV, isRowOrder(CV));
    // fill through a writable view: exactly the viewed elements change
    MatrixView_<EH> V = (~A)(r0,c0,nr,nc);
    const EH fv = EI<EH>::mk(9000,9,9); V.setTo(fv);
    for (int i = 0; i < nr; ++i) for (int j = 0; j < nc; ++j) chkE(K_TBLOCK, "A(c0+j,r0+i) after V.setTo", herm(CA(c0+j,r0+i)), fv, c0+j, r0+i);
    checkOutside(CA, t, c0, r0, nc, nr, "A outside view after V.setTo");
    const int t2 = newTag();
    for (int i = 0; i < nr; ++i) for (int j = 0; j < nc; ++j) V(i,j) = EI<EH>::mk(t2,i,j);
    for (int i = 0; i < nr; ++i) for (int j = 0; j < nc; ++j) chkE(K_TBLOCK, "A(c0+j,r0+i) after V(i,j)=..", herm(CA(c0+j,r0+i)), EI<EH>::mk(t2,i,j), c0+j, r0+i);
    checkOutside(CA, t, c0, r0, nc, nr, "A outside view after V(i,j)=..");
    // matrix assignment into the view
    Matrix_<EH> S(nr,nc); const int t3 = newTag(); fill(S,t3); V = S;
    for (int i = 0; i < nr; ++i) for (int j = 0; j < nc; ++j) chkE(K_TBLOCK, "A(c0+j,r0+i) after V = S", herm(CA(c0+j,r0+i)), EI<EH>::mk(t3,i,j), c0+j, r0+i);
    checkOutside(CA, t, c0, r0, nc, nr, "A outside view after V = S");
  }
  t = newTag(); fill(A,t);
  { // direct block of the owner (row-order owners included), and its transpose
    const int nr = rand() % (m+1), r0 = rand() % (m-nr+1), nc = rand() % (n+1), c0 = rand() % (n-nc+1);
    snprintf(ctx, sizeof ctx, "%s %s %dx%d A(%d,%d,%d,%d)", EI<E>::name(), OKN[ok], m, n, r0, c0, nr, nc);
    const MatrixView_<E> CW = CA.block(r0,c0,nr,nc);
    if (chkI(K_TBLOCK, "block nrow", CW.nrow(), nr) & chkI(K_TBLOCK, "block ncol", CW.ncol(), nc)) {
      for (int i = 0; i < nr; ++i) for (int j = 0; j < nc; ++j) {
        chkE(K_TBLOCK, "W(i,j) vs A(r0+i,c0+j)", CW(i,j), EI<E>::mk(t,r0+i,c0+j), i, j);
        chkE(K_TBLOCK, "(~W)(j,i) vs A(r0+i,c0+j)", tElt(CW,j,i), EI<EH>::mk(t,r0+i,c0+j), i, j);
        chkE(K_TBLOCK, "W(j)[i] vs A(r0+i,c0+j)", colElt(CW,i,j), EI<E>::mk(t,r0+i,c0+j), i, j);
        chkE(K_TBLOCK, "W[i][j] vs A(r0+i,c0+j)", rowElt(CW,i,j), EI<E>::mk(t,r0+i,c0+j), i, j);
      }
      if (nr >= 1 && nc >= 1) { // block of block
        const int br = 1 + rand() % nr, b0 = rand() % (nr-br+1), bc = 1 + rand() % nc, d0 = rand() % (nc-bc+1);
        const MatrixView_<E> BB = CW.block(b0,d0,br,bc);
        for (int i = 0; i < br; ++i) for (int j = 0; j < bc; ++j) chkE(K_TBLOCK, "block of block", BB(i,j), EI<E>::mk(t,r0+b0+i,c0+d0+j), i, j);
      }
    }
    Matrix_<E> D(CW); const Matrix_<E>& CD = D;
    if (chkI(K_TBLOCK, "D(W) nrow", CD.nrow(), nr) & chkI(K_TBLOCK, "D(W) ncol", CD.ncol(), nc))
      for (int i = 0; i < nr; ++i) for (int j = 0; j < nc; ++j) chkE(K_TBLOCK, "D(W)(i,j)", CD(i,j), EI<E>::mk(t,r0+i,c0+j), i, j);
    Matrix_<EH> DT(~CW); const Matrix_<EH>& CDT = DT;
    if (chkI(K_TBLOCK, "DT(~W) nrow", CDT.nrow(), nc) & chkI(K_TBLOCK, "DT(~W) ncol", CDT.ncol(), nr))
      for (int i = 0; i < nr; ++i) for (int j = 0; j < nc; ++j) chkE(K_TBLOCK, "DT(~W)(j,i)", CDT(j,i), EI<EH>::mk(t,r0+i,c0+j), j, i);
    MatrixView_<E> W = A.updBlock(r0,c0,nr,nc);
    const E fv = EI<E>::mk(9001,8,8); W.setTo(fv);
    for (int i = 0; i < nr; ++i) for (int j = 0; j < nc; ++j) chkE(K_TBLOCK, "A(r0+i,c0+j) after W.setTo", CA(r0+i,c0+j), fv, r0+i, c0+j);
    checkOutside(CA, t, r0, c0, nr, nc, "A outside block after W.setTo");
    const int t2 = newTag();
    for (int i = 0; i < nr; ++i) for (int j = 0; j < nc; ++j) (~W)(j,i) = EI<EH>::mk(t2,i,j);
    for (int i = 0; i < nr; ++i) for (int j = 0; j < nc; ++j) chkE(K_TBLOCK, "A(r0+i,c0+j) after (~W)(j,i)=..", CA(r0+i,c0+j), EI<E>::mk(t2,i,j), r0+i, c0+j);
    checkOutside(CA, t, r0, c0, nr, nc, "A outside block after (~W)(j,i)=..");
  }
}

#define GROUP(name, stmt) do { try { stmt; } catch (const std::exception& e) { \
    mism(K_EXC, "exception in %s: %.300s", name, e.what()); } } while (0)

template <class E> static void runAll(int iters) {
  static const int fixed[][2] = { {0,0}, {0,3}, {3,0}, {1,1}, {1,5}, {5,1}, {2,3}, {3,2}, {4,7}, {7,4}, {3,5}, {6,2}, {7,7} };
  const int nfixed = (int)(sizeof fixed / sizeof fixed[0]);
  for (int it = 0; it < iters + nfixed; ++it) for (int ok = 0; ok < NO; ++ok) {
    const int m = it < nfixed ? fixed[it][0] : rand() % 8, n = it < nfixed ? fixed[it][1] : rand() % 8;
    GROUP("addr", testAddr<E>(ok,m,n));
    if (ok <= O_ROWCOMMIT) GROUP("rowowner", testRowOwner<E>(ok,m,n));
    GROUP("resizeKeep", testResizeKeep<E>(ok));
    { int cm = m < 1 ? 1 + rand() % 7 : m, cn = n < 1 ? 1 + rand() % 7 : n;
      if (cm == cn && (it & 1)) cn = cn % 7 + 1;
      GROUP("contig", testContig<E>(ok,cm,cn)); }
    GROUP("tblock", testTBlock<E>(ok,m,n));
  }
}

static std::string failedKinds(int& total) {
  total = 0; std::string kinds;
  for (int k = 0; k < NK; ++k) if (kbad[k]) { total += kbad[k]; if (!kinds.empty()) kinds += ","; kinds += KN[k]; }
  return kinds;
}
// A storage-index bug may corrupt the heap (abort inside malloc/free) or fault: still end with the verdict line.
static void onCrash(int sig) {
  char buf[400]; int total = 0, len = 0;
  for (int k = 0; k < NK; ++k) total += kbad[k];
  len = snprintf(buf, sizeof buf, "MISMATCH exception [%s] fatal signal %d (heap corruption / invalid access)\nREPRODUCED: %d mismatches (crash", ctx, sig, total + 1);
  for (int k = 0; k < NK && len < 360; ++k) if (kbad[k]) len += snprintf(buf + len, sizeof buf - len, ",%s", KN[k]);
  len += snprintf(buf + len, sizeof buf - len, ")\n");
  fflush(stdout); if (write(1, buf, len) < 0) {} _exit(1);
}

int main(int argc, char** argv) {
  signal(SIGABRT, onCrash); signal(SIGSEGV, onCrash); signal(SIGBUS, onCrash); signal(SIGFPE, onCrash);
  const unsigned seed = argc > 1 ? (unsigned)atoi(argv[1]) : 0; srand(seed + 7);
  setvbuf(stdout, 0, _IOLBF, 0);
  runAll<double>(25);
  runAll<Vec3>(25);
  int total = 0; const std::string kinds = failedKinds(total);
  if (total) { printf("REPRODUCED: %d mismatches (%s)\n", total, kinds.c_str()); return 1; }
  printf("NOT-REPRODUCED (%ld)\n", ncmp);
  return 0;
}
