// Native replay for the per-contact Hunt-Crossley law (C37/C13 part B): a sphere (free body) on a
// half-space, random penetration, velocities and materials; the spatial force the REAL element
// produces on the sphere is compared with the documented Hertz/Hunt-Crossley/Hollars law.
#include "Simbody.h"
#include <cstdio>
#include <cstdlib>
#include <cmath>
using namespace SimTK;
static int bad = 0;
static void rep(const char* what, double resid, double tol) { if (!(resid <= tol)) { printf("%-70s residual %.3e MISMATCH\n", what, resid); bad++; } }
int main(int argc, char** argv) {
  unsigned seed = argc>1 ? (unsigned)atoi(argv[1]) : 0; srand(seed+4242);
  auto rnd=[&](){ return 2.0*rand()/RAND_MAX-1.0; };
  try {
    for (int it=0; it<12; ++it) {
      MultibodySystem system; SimbodyMatterSubsystem matter(system);
      GeneralContactSubsystem contacts(system); GeneralForceSubsystem forces(system);
      double rad = 0.5+std::fabs(rnd());
      Body::Rigid body(MassProperties(1.0, Vec3(0), Inertia(1)));
      ContactSetIndex set = contacts.createContactSet();
      MobilizedBody::Free sp(matter.updGround(), Transform(), body, Transform());
      contacts.addBody(set, sp, ContactGeometry::Sphere(rad), Transform());
      contacts.addBody(set, matter.updGround(), ContactGeometry::HalfSpace(), Transform(Rotation(-0.5 * Pi, ZAxis), Vec3(0)));  // y>0 is free space
      HuntCrossleyForce hc(forces, contacts, set);
      double k1=1e3*(1+std::fabs(rnd())), k2=2e3*(1+std::fabs(rnd())), c1=0.2*std::fabs(rnd()), c2=0.3*std::fabs(rnd());
      double us1=0.8+0.2*std::fabs(rnd()), us2=0.7, ud1=0.5, ud2=0.4+0.1*std::fabs(rnd()), uv1=(it%3==0)?0:0.1, uv2=(it%3==0)?0:0.05, vt=0.05;
      if (it%4==1) { us1=us2=ud1=ud2=0; }
      hc.setBodyParameters(ContactSurfaceIndex(0), k1, c1, us1, ud1, uv1);
      hc.setBodyParameters(ContactSurfaceIndex(1), k2, c2, us2, ud2, uv2);
      hc.setTransitionVelocity(vt);
      State st = system.realizeTopology(); system.realizeModel(st);
      double depth = 0.02+0.1*std::fabs(rnd());
      sp.setQToFitTransform(st, Transform(Rotation(rnd()*3, UnitVec3(rnd(),rnd(),rnd()+1.5)), Vec3(rnd(), rad-depth, rnd())));
      Vec3 w(rnd(),rnd(),rnd()), v(0.5*rnd(), (it%5==2? 5.0: 0.3*rnd()), 0.5*rnd());
      sp.setUToFitVelocity(st, SpatialVec(w, v));
      system.realize(st, Stage::Dynamics);
      SpatialVec F = system.getRigidBodyForces(st, Stage::Dynamics)[sp.getMobilizedBodyIndex()];
      // contact geometry as reported by the real contact subsystem (mocked by contract in the proof)
      const Array_<Contact>& cs = contacts.getContacts(st, set);
      if (cs.size() != 1 || !PointContact::isInstance(cs[0])) { printf("unexpected contact set (size %d)\n", (int)cs.size()); continue; }
      const PointContact& pc = static_cast<const PointContact&>(cs[0]);
      int su1 = pc.getSurface1(), su2 = pc.getSurface2();
      double kA = std::pow(su1==0? k1:k2, 2./3.), kB = std::pow(su2==0? k1:k2, 2./3.), cA = su1==0? c1:c2, cB = su2==0? c1:c2;
      Vec3 n = pc.getNormal(); double depthC = pc.getDepth(), radC = pc.getEffectiveRadiusOfCurvature();
      double s1=kB/(kA+kB), kk=kA*s1, cc=cA*s1+cB*(1-s1);
      Vec3 O = sp.getBodyOriginLocation(st);
      Vec3 loc = pc.getLocation() + (depthC*(0.5-s1))*n;
      const MobilizedBody& bA = contacts.getBody(set, ContactSurfaceIndex(su1)); const MobilizedBody& bB = contacts.getBody(set, ContactSurfaceIndex(su2));
      Vec3 vA = bA.findStationVelocityInGround(st, bA.findStationAtGroundPoint(st, loc)), vB = bB.findStationVelocityInGround(st, bB.findStationAtGroundPoint(st, loc));
      Vec3 vrel = vA - vB; depth = depthC; rad = radC;
      double vn = dot(vrel,n); Vec3 vtan = vrel - vn*n; double vs = vtan.norm();
      double fH = (4./3.)*kk*depth*std::sqrt(rad*kk*depth), f = fH*(1+1.5*cc*vn);
      Vec3 force2(0);   // force on body2 (ground)
      if (f > 0) { force2 = f*n;
        if (vs != 0) { auto comb=[](double a,double b){ return (a!=0||b!=0)? 2*a*b/(a+b):0.0; }; double us=comb(us1,us2), ud=comb(ud1,ud2), uv=comb(uv1,uv2), vr=vs/vt;
          force2 += f*(std::min(vr,1.0)*(ud+2*(us-ud)/(1+vr*vr))+uv*vs)*vtan/vs; } }
      bool sphereIsA = bA.getMobilizedBodyIndex()==sp.getMobilizedBodyIndex();
      Vec3 force1 = sphereIsA ? Vec3(-force2) : force2; Vec3 torque1 = (loc - O) % force1;
      double scale = 1+fH;
      rep("force on the sphere == documented law", (F[1]-force1).norm()/scale, 1e-9);
      rep("moment on the sphere == (contact point - origin) x force", (F[0]-torque1).norm()/scale, 1e-9);
      if (f > 0) rep("normal force repulsive (pushes surface2's body along +n, surface1's along -n)", dot(force1, sphereIsA? Vec3(-n):n) > 0 ? 0 : 1, 0);
      rep("pe == 2/5 fH x", std::fabs(hc.calcPotentialEnergyContribution(st) - 0.4*fH*depth)/scale, 1e-9);
    }
  } catch (const std::exception& e) { printf("exception: %s\n", e.what()); return 3; }
  printf(bad ? "REPRODUCED: %d law checks violated natively\n" : "NOT-REPRODUCED (%d)\n", bad);
  return bad?1:0;
}
