// Native replay for the C10 lock units (public API; MobilizedBody.cpp of the CURRENT tree is compiled into this driver).
// mode "lock":   two-pin chain and Ball+Pin chain; lockAt(v != 0, Velocity) [-> unlock] -> lock(Acceleration), and lock(Velocity) at u != 0 -> lock(Acceleration):
//                lock level / lock value / udot of the locked mobilizer must be 0; applying the motion forces to the unlocked system must reproduce the udots;
//                lock(Velocity) records the current u, lock(Position) the current q and zeroes u, lockAt stores v, unlock restores NoLevel; other mobilizer untouched.
// mode "motion": position-level Motion::Custom on a Ball in Euler-angle mode: q, qdot, qdotdot equal the prescription at a few times.
#include "Simbody.h"
#include <cstdio>
#include <cstring>
#include <cmath>
using namespace SimTK;
static int nbad = 0;
#define MISMATCH(...) do { printf("MISMATCH: "); printf(__VA_ARGS__); printf("\n"); nbad++; } while (0)

struct Sys {
  MultibodySystem system; SimbodyMatterSubsystem matter; GeneralForceSubsystem forces; Force::Gravity gravity; Force::DiscreteForces discrete;
  MobilizedBody A, B;
  Sys(bool ball) : matter(system), forces(system), gravity(forces, matter, Vec3(0.3, -9.8, 0.2)), discrete(forces, matter) {
    Body::Rigid body(MassProperties(1.3, Vec3(0.1, -0.4, 0.05), Inertia(1.1, 1.2, 1.3)));
    if (ball) A = MobilizedBody::Ball(matter.Ground(), Transform(Vec3(0)), body, Transform(Vec3(0, 0.5, 0)));
    else      A = MobilizedBody::Pin(matter.Ground(), Transform(Vec3(0)), body, Transform(Vec3(0, 0.5, 0)));
    B = MobilizedBody::Pin(A, Transform(Rotation(0.3, XAxis), Vec3(0, -0.5, 0)), body, Transform(Vec3(0, 0.5, 0)));
  }
  State init() {
    State s = system.realizeTopology(); system.realizeModel(s);
    for (int i = 0; i < s.getNQ(); i++) s.updQ()[i] = 0.2 + 0.15 * i;
    for (int i = 0; i < s.getNU(); i++) s.updU()[i] = 0.7 - 0.4 * i;
    if (s.getNQ() == 5) { Vec4 qn(0.8, 0.2, -0.3, 0.4); qn = qn / qn.norm(); for (int i = 0; i < 4; i++) s.updQ()[i] = qn[i]; }
    return s;
  }
};

static void checkAccLock(const char* what, Sys& S, State& s, const MobilizedBody& M, const MobilizedBody& other) {
  const int u0 = M.getFirstUIndex(s), nu = M.getNumU(s);
  if (M.getLockLevel(s) != Motion::Acceleration) MISMATCH("%s: lock level is %d, not Acceleration", what, (int)M.getLockLevel(s));
  if (other.isLocked(s)) MISMATCH("%s: the other mobilizer became locked", what);
  Vector lv = M.getLockValueAsVector(s);
  if (lv.size() != nu) MISMATCH("%s: lock value has length %d, nu=%d", what, lv.size(), nu);
  for (int i = 0; i < lv.size(); i++) if (lv[i] != 0) MISMATCH("%s: after lock(Acceleration) the recorded udot[%d] is %.17g, documented: 0", what, i, lv[i]);
  S.system.realize(s, Stage::Acceleration);
  const Vector udot = s.getUDot();
  for (int i = 0; i < nu; i++) if (udot[u0 + i] != 0) MISMATCH("%s: udot[%d] of the acceleration-locked mobilizer is %.17g, documented: 0", what, u0 + i, udot[u0 + i]);
  // the reported prescription forces enforce the motion: unlocked system + motion forces as applied mobility forces -> same udot
  Vector f; S.matter.findMotionForces(s, f);
  State s2 = S.init(); s2.updQ() = s.getQ(); s2.updU() = s.getU();
  S.discrete.setAllMobilityForces(s2, -f);   // M udot + tau = f_applied: the motion acts like the applied mobility force -tau
  S.system.realize(s2, Stage::Acceleration);
  for (int i = 0; i < s.getNU(); i++)
    if (std::fabs(s2.getUDot()[i] - udot[i]) > 1e-9 * (1 + std::fabs(udot[i])))
      MISMATCH("%s: unlocked system with the motion forces applied has udot[%d]=%.15g, locked system %.15g", what, i, s2.getUDot()[i], udot[i]);
}

static void lockScenarios(bool ball) {
  const char* nm = ball ? "Ball+Pin" : "Pin+Pin";
  char what[200];
  for (int target = 0; target < 2; target++) {
    for (int variant = 0; variant < 3; variant++) {
      Sys S(ball); State s = S.init();
      const MobilizedBody& M = target ? S.B : S.A; const MobilizedBody& O = target ? S.A : S.B;
      const int nu = M.getNumU(s), u0 = M.getFirstUIndex(s), nq = M.getNumQ(s), q0 = M.getFirstQIndex(s);
      Vector v(nu); for (int i = 0; i < nu; i++) v[i] = 2.5 - 1.25 * i;
      if (variant == 0)      { M.lockAt(s, v, Motion::Velocity); M.unlock(s); snprintf(what, 200, "%s mobod %d: lockAt(2.5,Velocity); unlock; lock(Acceleration)", nm, target); }
      else if (variant == 1) { M.lockAt(s, v, Motion::Acceleration); snprintf(what, 200, "%s mobod %d: lockAt(2.5,Acceleration); lock(Acceleration)", nm, target); }
      else                   { M.lock(s, Motion::Velocity); snprintf(what, 200, "%s mobod %d: lock(Velocity) at u!=0; lock(Acceleration)", nm, target); }
      if (variant == 0 && M.isLocked(s)) MISMATCH("%s: still locked after unlock()", what);
      if (variant == 1) { Vector lv = M.getLockValueAsVector(s); for (int i = 0; i < nu; i++) if (lv.size() != nu || lv[i] != v[i]) MISMATCH("%s: lockAt(v,Acceleration) recorded %.17g, given %.17g", what, lv.size() == nu ? lv[i] : NaN, v[i]); }
      if (variant == 2) { Vector lv = M.getLockValueAsVector(s); for (int i = 0; i < nu; i++) if (lv.size() != nu || lv[i] != s.getU()[u0 + i]) MISMATCH("%s: lock(Velocity) recorded %.17g, current u is %.17g", what, lv.size() == nu ? lv[i] : NaN, s.getU()[u0 + i]); }
      M.lock(s, Motion::Acceleration);
      checkAccLock(what, S, s, M, O);
    }
    // position lock: records current q, zeroes own u, leaves q and the other mobilizer's u alone; lockAt(Position) sets q; unlock -> NoLevel
    Sys S(ball); State s = S.init();
    const MobilizedBody& M = target ? S.B : S.A; const MobilizedBody& O = target ? S.A : S.B;
    const int nu = M.getNumU(s), u0 = M.getFirstUIndex(s), nq = M.getNumQ(s), q0 = M.getFirstQIndex(s);
    const Vector qb = s.getQ(), ub = s.getU();
    M.lock(s, Motion::Position);
    snprintf(what, 200, "%s mobod %d: lock(Position)", nm, target);
    Vector lv = M.getLockValueAsVector(s);
    if (M.getLockLevel(s) != Motion::Position || lv.size() != nq) MISMATCH("%s: level %d, value length %d (nq=%d)", what, (int)M.getLockLevel(s), lv.size(), nq);
    else for (int i = 0; i < nq; i++) if (lv[i] != qb[q0 + i]) MISMATCH("%s: recorded q[%d]=%.17g, current q %.17g", what, i, lv[i], qb[q0 + i]);
    for (int i = 0; i < s.getNU(); i++) { Real e = (i >= u0 && i < u0 + nu) ? 0.0 : ub[i]; if (s.getU()[i] != e) MISMATCH("%s: u[%d]=%.17g expected %.17g", what, i, s.getU()[i], e); }
    for (int i = 0; i < s.getNQ(); i++) if (s.getQ()[i] != qb[i]) MISMATCH("%s: q[%d] changed", what, i);
    M.unlock(s);
    if (M.isLocked(s) || M.getLockLevel(s) != Motion::NoLevel || M.getLockValueAsVector(s).size() != 0) MISMATCH("%s; unlock: still locked (level %d)", what, (int)M.getLockLevel(s));
    if (O.isLocked(s)) MISMATCH("%s: other mobilizer locked", what);
  }
}

// position-level custom motion on a Ball (Euler angles: q = 3 body-fixed XYZ angles, qdot != u)
class EulerMotion : public Motion::Custom::Implementation {
public:
  Motion::Level getLevel(const State&) const override { return Motion::Position; }
  Implementation* clone() const override { return new EulerMotion(*this); }
  static Real a(int i) { return 0.3 + 0.1 * i; } static Real w(int i) { return 1.1 + 0.35 * i; }
  void calcPrescribedPosition(const State& s, int nq, Real* q) const override { for (int i = 0; i < nq; i++) q[i] = a(i) * std::sin(w(i) * s.getTime() + 0.2 * i); }
  void calcPrescribedPositionDot(const State& s, int nq, Real* qd) const override { for (int i = 0; i < nq; i++) qd[i] = a(i) * w(i) * std::cos(w(i) * s.getTime() + 0.2 * i); }
  void calcPrescribedPositionDotDot(const State& s, int nq, Real* qdd) const override { for (int i = 0; i < nq; i++) qdd[i] = -a(i) * w(i) * w(i) * std::sin(w(i) * s.getTime() + 0.2 * i); }
};
static void motionScenario() {
  Sys S(true);
  Motion::Custom mo(S.A, new EulerMotion());
  State s = S.system.realizeTopology(); S.matter.setUseEulerAngles(s, true); S.system.realizeModel(s);
  const Real times[] = {0.0, 0.4, 1.3, 2.9};
  for (Real t : times) {
    s.setTime(t); s.updQ()[3] = 0.3; s.updU()[3] = -0.6;
    S.system.realize(s, Stage::Time); S.system.prescribeQ(s);
    S.system.realize(s, Stage::Position); S.system.prescribeU(s);
    S.system.realize(s, Stage::Acceleration);
    Real q[3], qd[3], qdd[3]; EulerMotion em; em.calcPrescribedPosition(s, 3, q); em.calcPrescribedPositionDot(s, 3, qd); em.calcPrescribedPositionDotDot(s, 3, qdd);
    for (int i = 0; i < 3; i++) {
      if (s.getQ()[i] != q[i]) MISMATCH("Motion::Custom on Ball (Euler), t=%g: q[%d]=%.17g prescribed %.17g", t, i, s.getQ()[i], q[i]);
      if (std::fabs(s.getQDot()[i] - qd[i]) > 1e-10) MISMATCH("Motion::Custom on Ball (Euler), t=%g: qdot[%d]=%.15g prescribed %.15g", t, i, s.getQDot()[i], qd[i]);
      if (std::fabs(s.getQDotDot()[i] - qdd[i]) > 1e-9) MISMATCH("Motion::Custom on Ball (Euler), t=%g: qdotdot[%d]=%.15g prescribed %.15g (udot = N^-1 (qdd - NDot u))", t, i, s.getQDotDot()[i], qdd[i]);
    }
  }
}

int main(int argc, char** argv) {
  const char* mode = argc > 1 ? argv[1] : "all";
  try {
    if (std::strcmp(mode, "motion") != 0) { lockScenarios(false); lockScenarios(true); }
    if (std::strcmp(mode, "lock") != 0) motionScenario();
  } catch (const std::exception& e) { printf("exception: %s\n", e.what()); nbad++; }
  if (nbad) { printf("REPRODUCED: %d mismatches between the documented lock / prescribed-motion behaviour and the library\n", nbad); return 1; }
  printf("NOT-REPRODUCED\n"); return 0;
}
