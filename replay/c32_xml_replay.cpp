// Native replay for the XML-writer part of C32 (checks/part_c32_xml.py).
// The CURRENT tree's tinyxml.cpp, tinyxmlparser.cpp, Xml.cpp and String.cpp are compiled into this driver
// (native_build extra_srcs), so a VERIF_REPO worktree is honoured without rebuilding any library.
//
//   c32_xml_replay <seed> <class> [count]        class: plain | hexref
//        plain : random values over  " ' & < > control characters, '#', 'x', ';', digits, letters, blanks in which
//                every occurrence of the three characters "&#x" is broken up (no hexadecimal pass-through possible)
//        hexref: values that contain "&#x": malformed sequences (must round-trip exactly) and well-formed references such
//                as &#x41; (documented pass-through: written unchanged, expected to be re-read DECODED)
//      (1) TiXmlBase::EncodeString(value, &out, keepQuotes) against the specification encoder written below
//          (strict: concatenation of enc(c); and the clauses "no raw < >", "no raw quote unless keepQuotes",
//           "every & starts one of the five entities or &#xHH; of a control character"),
//      (2) TiXmlAttribute::Print through Xml::Attribute::writeToString: name=D v D with no D inside v,
//      (3) whole documents through the public SimTK::Xml API: elements with attributes and text, written to a
//          string (pretty and compact), re-read, attribute values and element text compared exactly.
//   c32_xml_replay value <C-escaped text>        one value through (1)-(3)
// Output: MISMATCH lines, then "REPRODUCED: ..." or "NOT-REPRODUCED".
#include "SimTKcommon.h"
#include "tinyxml.h"
#include <cstdio>
#include <cstdlib>
#include <cstring>
#include <string>
#include <vector>
using namespace SimTK;

static std::string esc(const std::string& s) {
  std::string r; char b[8];
  for (unsigned char c : s) { if (c < 32 || c > 126 || c == '\\') { snprintf(b, 8, "\\x%02X", c); r += b; } else r += (char)c; }
  return r;
}
static std::string unesc(const char* s) {
  std::string r;
  for (size_t i = 0; s[i]; ++i) {
    if (s[i] == '\\' && s[i+1] == 'x' && isxdigit((unsigned char)s[i+2]) && isxdigit((unsigned char)s[i+3])) {
      char h[3] = {s[i+2], s[i+3], 0}; r += (char)strtol(h, 0, 16); i += 3;
    } else r += s[i];
  }
  return r;
}
// length of a well-formed hexadecimal character reference "&#x<hexdigits>;" at v[i], or 0
static size_t hexRefLen(const std::string& v, size_t i) {
  if (v.compare(i, 3, "&#x") != 0) return 0;
  size_t j = i + 3;
  while (j < v.size() && isxdigit((unsigned char)v[j])) ++j;
  return (j > i + 3 && j < v.size() && v[j] == ';') ? j + 1 - i : 0;
}
// what the READER makes of a value that contains well-formed hexadecimal references (documented TinyXML pass-through:
// such a reference is written unchanged and re-read decoded)
static std::string decodeRefs(const std::string& v) {
  std::string r;
  for (size_t i = 0; i < v.size(); ) {
    size_t n = hexRefLen(v, i);
    if (!n) { r += v[i++]; continue; }
    unsigned long cp = strtoul(v.substr(i + 3, n - 4).c_str(), 0, 16);
    if (cp < 0x80) r += (char)cp;
    else if (cp < 0x800) { r += (char)(0xC0 | (cp >> 6)); r += (char)(0x80 | (cp & 0x3F)); }
    else { r += (char)(0xE0 | (cp >> 12)); r += (char)(0x80 | ((cp >> 6) & 0x3F)); r += (char)(0x80 | (cp & 0x3F)); }
    i += n;
  }
  return r;
}
// specification encoder (from the property: characters needing escapes are escaped, everything else copied;
// documented exception: a well-formed hexadecimal character reference is passed through)
static std::string specEnc(const std::string& v, bool keepQuotes) {
  std::string r; char b[16];
  for (size_t i = 0; i < v.size(); ++i) {
    unsigned char c = v[i];
    size_t n = hexRefLen(v, i);
    if (n) { r += v.substr(i, n); i += n - 1; continue; }
    if (c == '&') r += "&amp;"; else if (c == '<') r += "&lt;"; else if (c == '>') r += "&gt;";
    else if (c == '"' && !keepQuotes) r += "&quot;"; else if (c == '\'' && !keepQuotes) r += "&apos;";
    else if (c < 32) { snprintf(b, 16, "&#x%02X;", (unsigned)c); r += b; }
    else r += (char)c;
  }
  return r;
}
static bool entityAt(const std::string& o, size_t k) {
  static const char* ents[] = {"&amp;", "&lt;", "&gt;", "&quot;", "&apos;"};
  for (auto e : ents) if (o.compare(k, strlen(e), e) == 0) return true;
  return hexRefLen(o, k) > 0;
}
static std::string clauseCheck(const std::string& o, bool keepQuotes) {
  for (size_t k = 0; k < o.size(); ++k) {
    char c = o[k];
    if (c == '<') return "raw '<' in the output";
    if (c == '>') return "raw '>' in the output";
    if (!keepQuotes && c == '"') return "raw '\"' in the output although keepQuotes==false";
    if (!keepQuotes && c == '\'') return "raw ''' in the output although keepQuotes==false";
    if (c == '&' && !entityAt(o, k)) return "'&' in the output that starts neither one of the five entities nor a well-formed &#x<hexdigits>; reference";
  }
  return "";
}

static int nmis = 0;
static std::string firstWhat;
static void mismatch(const std::string& what, const std::string& line) {
  if (nmis < 12) printf("MISMATCH %s: %s\n", what.c_str(), line.c_str());
  if (!nmis) firstWhat = what;
  ++nmis;
}

// (1) EncodeString against the specification
static void checkEncode(const std::string& v) {
  for (int keep = 0; keep < 2; ++keep) {
    String out("@"); TiXmlBase::EncodeString(String(v), &out, keep != 0);
    std::string want = "@" + specEnc(v, keep != 0);
    std::string why = clauseCheck(out.substr(1), keep != 0);
    if (!why.empty()) mismatch("EncodeString clause", "value [" + esc(v) + "] keepQuotes=" + (keep ? "true" : "false") + " -> [" + esc(out) + "]: " + why);
    else if (std::string(out) != want) mismatch("EncodeString value", "value [" + esc(v) + "] keepQuotes=" + (keep ? "true" : "false") + " -> [" + esc(out) + "], specification [" + esc(want) + "]");
  }
}
// (2) attribute text  name=D v D  with no D in v
static void checkAttrPrint(const std::string& v) {
  Xml::Element e("e"); e.setAttributeValue("a", v);
  String out; e.getRequiredAttribute("a").writeToString(out);
  std::string o(out);
  bool ok = o.size() >= 4 && o.compare(0, 2, "a=") == 0 && (o[2] == '"' || o[2] == '\'') && o[o.size()-1] == o[2];
  if (ok) { std::string body = o.substr(3, o.size() - 4); ok = body.find(o[2]) == std::string::npos; }
  if (ok && (o[2] == '"') != (v.find('"') == std::string::npos))
    mismatch("Attribute::Print delimiter convention", "value [" + esc(v) + "] written as [" + esc(o) + "]: double quotes are to be used unless the value contains one");
  if (!ok) mismatch("Attribute::Print delimiter", "value [" + esc(v) + "] written as [" + esc(o) + "]: the chosen delimiter occurs unescaped inside the value text");
}
// (3) documents
struct Item { std::string tag; std::vector<std::pair<std::string, std::string>> attrs; std::string text; };
static void checkDocument(const std::vector<Item>& items) {
  Xml::Document doc; doc.setRootTag("root");
  for (auto& it : items) {
    Xml::Element e(it.tag, it.text);
    for (auto& a : it.attrs) e.setAttributeValue(a.first, a.second);
    doc.getRootElement().appendNode(e);
  }
  for (int compact = 0; compact < 2; ++compact) {
    String out; doc.writeToString(out, compact != 0);
    try {
      Xml::Document d2; d2.readFromString(out);
      Xml::Element root = d2.getRootElement();
      size_t k = 0;
      for (Xml::element_iterator p = root.element_begin(); p != root.element_end(); ++p, ++k) {
        if (k >= items.size()) break;
        const Item& it = items[k];
        for (auto& a : it.attrs) {
          std::string got = p->hasAttribute(a.first) ? std::string(p->getRequiredAttributeValue(a.first)) : std::string("<attribute missing>");
          if (got != decodeRefs(a.second)) mismatch("round trip (attribute)", std::string(compact ? "compact" : "pretty") + " value [" + esc(a.second) + "] re-read as [" + esc(got) + "]");
        }
        std::string gt = p->getValue();
        if (gt != decodeRefs(it.text)) mismatch("round trip (element text)", std::string(compact ? "compact" : "pretty") + " text [" + esc(it.text) + "] re-read as [" + esc(gt) + "]");
      }
      if (k != items.size()) mismatch("round trip (structure)", "wrote " + std::to_string(items.size()) + " elements, re-read " + std::to_string(k));
    } catch (const std::exception& ex) {
      std::string vals;
      for (auto& it : items) { for (auto& a : it.attrs) vals += "[" + esc(a.second) + "] "; vals += "[" + esc(it.text) + "] "; }
      std::string w = ex.what(); size_t q = w.find("error '");
      mismatch("round trip (re-read fails)", std::string(compact ? "compact" : "pretty") + " document with values " + vals.substr(0, 300) + "cannot be re-read: " + (q == std::string::npos ? w.substr(0, 120) : w.substr(q, 80)));
    }
  }
}

static unsigned long long rs;
static unsigned rnd() { rs = rs * 6364136223846793005ULL + 1442695040888963407ULL; return (unsigned)(rs >> 33); }
static std::string randomValue(bool hexref, bool forText) {
  static const char special[] = "\"'&<>#x;&\"'<>";
  std::string v; int n = rnd() % 12;
  for (int i = 0; i < n; ++i) {
    unsigned r = rnd() % 10;
    if (r < 4) v += special[rnd() % (sizeof(special) - 1)];
    else if (r < 5) v += (char)(1 + rnd() % 31);
    else if (r < 6) v += (forText ? '_' : ' ');
    else if (r < 7) v += (char)('0' + rnd() % 10);
    else v += (char)('a' + rnd() % 26);
  }
  // break up every "&#x" (plain class)
  for (size_t p; (p = v.find("&#x")) != std::string::npos; ) v[p + 2] = 'y';
  if (hexref) {
    static const char* refs[] = {"&#x41;", "&#x", "&#x3c;", "&#x<", "&#x'\"", "&#xzz;", "&#x41", "&#x>;", "&#x\"a;", "&#x&;", "&#x0041;", "&#x7A;", "&#x;", "&#x4<;"};
    size_t at = v.empty() ? 0 : rnd() % (v.size() + 1);
    v.insert(at, refs[rnd() % 14]);
  }
  return v;
}

int main(int argc, char** argv) {
  if (argc < 3) { fprintf(stderr, "usage: c32_xml_replay <seed> plain|hexref [count] | value <text>\n"); return 2; }
  std::vector<std::string> fixed;
  bool hexref = false; int count = 300;
  if (std::string(argv[1]) == "value") fixed.push_back(unesc(argv[2]));
  else {
    rs = strtoull(argv[1], 0, 10) * 2654435761ULL + 12345;
    hexref = std::string(argv[2]) == "hexref";
    if (argc > 3) count = atoi(argv[3]);
    if (!hexref) { const char* f[] = {"a\"b", "a'b", "both ' and \"", "<&>", "&#65;", "&#", "&", "x\ty\nz", "'", "\"", "'\"", "a&#y41;"}; for (auto s : f) fixed.push_back(s); }
    else { const char* f[] = {"&#x41;", "&#x<a", "a&#xzz", "&#x'\"z", "&#x", "a&#x41", "&#x>b;", "&#x;", "x&#x3C;y"}; for (auto s : f) fixed.push_back(s); }
  }
  size_t nvals = 0;
  for (auto& v : fixed) { checkEncode(v); checkAttrPrint(v); Item it{"e", {{"a", v}}, v}; checkDocument({it}); ++nvals; }
  if (std::string(argv[1]) != "value") {
    for (int d = 0; d < count; ++d) {
      std::vector<Item> items; int ne = 1 + rnd() % 3;
      for (int k = 0; k < ne; ++k) {
        Item it; it.tag = std::string("el") + (char)('a' + k);
        int na = rnd() % 3;
        for (int a = 0; a < na; ++a) it.attrs.push_back({std::string("at") + (char)('a' + a), randomValue(hexref && rnd() % 2, false)});
        it.text = randomValue(hexref && (na == 0 || rnd() % 2), true);
        for (auto& a : it.attrs) { checkEncode(a.second); checkAttrPrint(a.second); ++nvals; }
        checkEncode(it.text); ++nvals;
        items.push_back(it);
      }
      checkDocument(items);
    }
  }
  if (nmis) printf("REPRODUCED: %d mismatches over %zu values (class %s); first kind: %s\n", nmis, nvals, std::string(argv[1]) == "value" ? "value" : argv[2], firstWhat.c_str());
  else printf("NOT-REPRODUCED (%zu values, class %s: EncodeString == specification encoder, attribute delimiters safe, documents re-read exactly)\n", nvals, std::string(argv[1]) == "value" ? "value" : argv[2]);
  return nmis ? 1 : 0;
}
