// Native replay for C44: #includes the REAL PGSImpulseSolver.cpp of the current tree (so the file-local
// kernel functions boundUnilateral/boundScalar/boundVector/boundFriction/doUpdate are callable), evaluates the
// same postconditions as specs/C44 natively on a deterministic witness search (edge values x random values),
// and for the sweep lemma runs the real PGSImpulseSolver::solve on small random contact problems.
//   usage: c44_replay <boundUnilateral|boundScalar|boundVector|boundFriction|doUpdate|sweep> [seed]
// prints "REPRODUCED: ..." with the failing input, or "NOT-REPRODUCED".
#include "Simbody.h"
#include REPO_PGS_CPP
#include <cstdio>
#include <cstdlib>
#include <cstring>
#include <cmath>
#include <random>
#include <vector>
using namespace SimTK;
typedef ImpulseSolver IS;
static const double EDGE[] = {0.0, -0.0, 1.0, -1.0, 5e-324, -5e-324, 1e-200, -1e-200, 0.5, -0.5, 3.0, -4.0, 1e100, -1e100, 1e150, -1e150};
static const int NE = sizeof(EDGE) / sizeof(EDGE[0]);
static std::mt19937_64 rng;
static double rnd() { std::uniform_real_distribution<double> u(-10, 10); return u(rng); }
static double pick(int i) { return i < NE ? EDGE[i] : rnd(); }
static bool bad = false;
#define FAIL(...) do { printf("REPRODUCED: "); printf(__VA_ARGS__); printf("\n"); bad = true; return; } while (0)

static void t_uni() {
  for (int s = 0; s < 2; s++) for (int i = 0; i < NE + 200; i++) {
    double sign = s ? 1.0 : -1.0, o = pick(i), n = o;
    IS::UniCond r = boundUnilateral(sign, n);
    bool ok = sign * n <= 0 && (n == o || n == 0) && (r == IS::UniOff || r == IS::UniActive) && ((r == IS::UniOff) == (n != o))
              && (r != IS::UniOff || n == 0) && ((r == IS::UniActive) == (sign * o <= 0));
    if (!ok) FAIL("boundUnilateral(sign=%g, pi=%.17g) -> pi'=%.17g cond=%d violates sign*pi'<=0 / pi' in {pi,0} / UniOff<=>changed", sign, o, n, (int)r);
  }
}
static void t_scalar() {
  for (int a = 0; a < NE + 10; a++) for (int b = 0; b < NE + 10; b++) for (int c = 0; c < NE + 10; c++) {
    double lb = pick(a), ub = pick(b), o = pick(c), n = o; if (!(lb <= ub)) continue;
    IS::BndCond r = boundScalar(lb, n, ub);
    bool ok = lb <= n && n <= ub && (!(lb <= o && o <= ub) || (n == o && r == IS::Engaged)) && (!(o > ub) || (n == ub && r == IS::SlipHigh)) && (!(o < lb) || (n == lb && r == IS::SlipLow));
    if (!ok) FAIL("boundScalar(lb=%.17g, pi=%.17g, ub=%.17g) -> pi'=%.17g cond=%d violates lb<=pi'<=ub / nearest bound / condition code", lb, o, ub, n, (int)r);
  }
}
static void check_cone(const char* what, double L2, const Array_<MultiplierIndex>& IV, const Vector& o, const Vector& n, IS::FricCond r, int m) {
  double norm2 = 0; for (unsigned i = 0; i < IV.size(); ++i) norm2 += o[IV[i]] * o[IV[i]];
  bool inside = norm2 <= L2;
  if ((r == IS::Rolling) != inside) FAIL("%s: condition code %d but ||pi||^2=%.17g, limit^2=%.17g", what, (int)r, norm2, L2);
  for (int k = 0; k < m; k++) {
    bool in = false; for (unsigned i = 0; i < IV.size(); ++i) in = in || IV[i] == k;
    if ((!in || r == IS::Rolling) && std::memcmp(&o[k], &n[k], 8)) FAIL("%s: pi[%d] changed (%.17g -> %.17g) although %s", what, k, o[k], n[k], in ? "Rolling" : "outside the index set");
    if (in && !((o[k] >= 0 && 0 <= n[k] && n[k] <= o[k]) || (o[k] <= 0 && o[k] <= n[k] && n[k] <= 0))) FAIL("%s: component %d grew or changed sign (%.17g -> %.17g)", what, k, o[k], n[k]);
  }
  if (r == IS::Sliding) { double n2 = 0; for (unsigned i = 0; i < IV.size(); ++i) n2 += n[IV[i]] * n[IV[i]];
    if (!(n2 <= L2 * (1 + 1e-9) + 1e-300)) FAIL("%s: after scaling ||pi'||^2=%.17g exceeds limit^2=%.17g", what, n2, L2); }
}
static void t_vector() {
  const int m = 5;
  for (int it = 0; it < 40000 && !bad; it++) {
    unsigned n = it % 4; Array_<MultiplierIndex> IV; int perm[5] = {0, 1, 2, 3, 4}; std::shuffle(perm, perm + 5, rng);
    for (unsigned i = 0; i < n; i++) IV.push_back(MultiplierIndex(perm[i]));
    Vector o(m); for (int k = 0; k < m; k++) o[k] = pick((int)(rng() % (NE + 8)));
    double L = std::fabs(pick((int)(rng() % (NE + 8)))); Vector nn = o;
    IS::FricCond r = boundVector(L, IV, nn);
    check_cone("boundVector", L * L, IV, o, nn, r, m);
  }
}
static void t_friction() {
  const int m = 6;
  for (int it = 0; it < 40000 && !bad; it++) {
    Array_<int> IN, IF; int perm[6] = {0, 1, 2, 3, 4, 5}; std::shuffle(perm, perm + 6, rng);
    unsigned nN = rng() % 4, nF = rng() % 4; if (nN + nF > 6) continue;
    for (unsigned i = 0; i < nN; i++) IN.push_back(perm[i]); for (unsigned i = 0; i < nF; i++) IF.push_back(perm[nN + i]);
    Vector o(m); for (int k = 0; k < m; k++) o[k] = pick((int)(rng() % (NE + 8)));
    double mu = std::fabs(pick((int)(rng() % (NE + 8)))); if (mu > 1e150) continue; Vector nn = o;
    IS::FricCond r = boundFriction(mu, IN, IF, nn);
    double N2 = 0; for (unsigned i = 0; i < nN; i++) N2 += o[IN[i]] * o[IN[i]];
    Array_<MultiplierIndex> IFm; for (unsigned i = 0; i < nF; i++) IFm.push_back(MultiplierIndex(IF[i]));
    check_cone("boundFriction", mu * mu * N2, IFm, o, nn, r, m);
  }
}
static void t_update() {
  const int m = 4;
  for (int it = 0; it < 20000 && !bad; it++) {
    Matrix A(m, m); Vector D(it % 2 ? m : 0), rhs(m), o(m);
    for (int i = 0; i < m; i++) { rhs[i] = rnd(); o[i] = rnd(); if (D.size()) D[i] = std::fabs(rnd()); for (int j = 0; j < m; j++) A(i, j) = rnd(); }
    Vector n = o; MultiplierIndex row(rng() % m); Real sor = rnd(), rs = rnd();
    Real e2 = doUpdate(row, A, D, rhs, sor, rs, n);
    for (int k = 0; k < m; k++) if (k != row && std::memcmp(&o[k], &n[k], 8)) FAIL("doUpdate(row=%d) changed pi[%d]", (int)row, k);
    if (!(e2 >= 0)) FAIL("doUpdate returned a negative squared error %.17g", e2);
  }
}
// sweep: the real solver on random 2-contact problems; the documented inequalities must hold on return
static void t_sweep() {
  for (int it = 0; it < 3000 && !bad; it++) {
    const int m = 7;   // 0: unconditional, 1: N0, 2,3: F0, 4: N1 (frictionless), 5: bounded, 6: not participating
    Matrix G(m, m); for (int i = 0; i < m; i++) for (int j = 0; j < m; j++) G(i, j) = rnd();
    Matrix A = G * ~G; for (int i = 0; i < m; i++) A(i, i) += 1;
    Vector D(m, 0.0), piE(m, 0.0), verr(m), verrApplied, pi;
    for (int i = 0; i < m; i++) verr[i] = rnd();
    Array_<MultiplierIndex> part; for (int i = 0; i < 6; i++) part.push_back(MultiplierIndex(i));
    Array_<MultiplierIndex> expanding;
    Array_<IS::UncondRT> unc(1); unc[0].m_mults.push_back(MultiplierIndex(0));
    Array_<IS::UniContactRT> uc(2);
    uc[0].m_Nk = MultiplierIndex(1); uc[0].m_sign = (it & 1) ? 1 : -1; uc[0].m_type = IS::Participating; uc[0].m_effMu = std::fabs(rnd()) / 5;
    uc[0].m_Fk.push_back(MultiplierIndex(2)); uc[0].m_Fk.push_back(MultiplierIndex(3));
    uc[1].m_Nk = MultiplierIndex(4); uc[1].m_sign = (it & 2) ? 1 : -1; uc[1].m_type = IS::Participating;
    Array_<IS::UniSpeedRT> us; Array_<IS::BoundedRT> bd; double lb = -std::fabs(rnd()), ub = std::fabs(rnd()); bd.push_back(IS::BoundedRT(MultiplierIndex(5), lb, ub));
    Array_<IS::ConstraintLtdFrictionRT> cl; Array_<IS::StateLtdFrictionRT> sl;
    PGSImpulseSolver pgs(1e-6);
    pgs.solve(0, part, A, D, expanding, piE, verr, verrApplied, pi, unc, uc, us, bd, cl, sl);
    for (int k = 0; k < 2; k++) if (!(uc[k].m_sign * pi[uc[k].m_Nk] <= 0)) FAIL("PGS solve: unilateral normal %d pulls: sign=%g pi=%.17g (problem #%d)", k, uc[k].m_sign, pi[uc[k].m_Nk], it);
    if (!(lb <= pi[5] && pi[5] <= ub)) FAIL("PGS solve: bounded multiplier %.17g outside [%.17g,%.17g] (problem #%d)", pi[5], lb, ub, it);
    double f2 = pi[2] * pi[2] + pi[3] * pi[3], lim = uc[0].m_effMu * std::fabs(pi[1]);
    if (!(f2 <= lim * lim * (1 + 1e-9) + 1e-300)) FAIL("PGS solve: friction outside the cone of the FINAL normal: |f|^2=%.17g (mu*|N|)^2=%.17g (problem #%d)", f2, lim * lim, it);
    if (pi[6] != 0) FAIL("PGS solve: non-participating multiplier changed to %.17g", pi[6]);
  }
}
int main(int argc, char** argv) {
  if (argc < 2) return 2;
  rng.seed(argc > 2 ? strtoull(argv[2], 0, 10) : 12345);
  std::string f = argv[1];
  if (f == "boundUnilateral") t_uni(); else if (f == "boundScalar") t_scalar(); else if (f == "boundVector") t_vector();
  else if (f == "boundFriction") t_friction(); else if (f == "doUpdate") t_update(); else if (f == "sweep") t_sweep(); else return 2;
  if (!bad) printf("NOT-REPRODUCED\n");
  return bad ? 1 : 0;
}
