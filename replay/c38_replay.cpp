// Native replay for C38/C12/C13 (part B): real force elements on random states vs the documented laws,
// power vs -d/dt PE (finite differences along the motion), and action/reaction sums.
#include "Simbody.h"
#include <cstdio>
#include <cstdlib>
#include <cmath>
using namespace SimTK;
static int bad = 0;
static void rep(const char* what, double resid, double tol=1e-8) { if (!(resid <= tol)) { printf("%-72s residual %.3e MISMATCH\n", what, resid); bad++; } }
static double n2(const SpatialVec& a){ return std::sqrt(a[0].normSqr()+a[1].normSqr()); }
int main(int argc, char** argv) {
  unsigned seed = argc>1 ? (unsigned)atoi(argv[1]) : 0; srand(seed+777);
  auto rnd=[&](){ return 2.0*rand()/RAND_MAX-1.0; }; auto rv=[&](){ return Vec3(rnd(),rnd(),rnd()); };
  MultibodySystem sys; SimbodyMatterSubsystem matter(sys); GeneralForceSubsystem forces(sys);
  Body::Rigid body(MassProperties(2.5, Vec3(0.1,-0.2,0.3), UnitInertia(1,1.2,1.4).shiftFromCentroid(Vec3(0.1,-0.2,0.3))));
  MobilizedBody::Free b1(matter.Ground(), Transform(), body, Transform());
  MobilizedBody::Free b2(matter.Ground(), Transform(), body, Transform());
  MobilizedBody::Slider sl(b1, Transform(Vec3(0.2,0,0)), body, Transform());
  Vec3 s1(0.3,-0.1,0.2), s2(-0.2,0.4,0.1); double k=13, x0=0.7, c=2.5, F0=3.1, kq=5, q0=0.3, cq=1.7;
  Force::TwoPointLinearSpring spring(forces,b1,s1,b2,s2,k,x0);
  Force::TwoPointLinearDamper damper(forces,b1,s1,b2,s2,c);
  Force::TwoPointConstantForce tpc(forces,b1,s1,b2,s2,F0);
  Force::MobilityLinearSpring mls(forces,sl,MobilizerQIndex(0),kq,q0);
  Force::MobilityLinearDamper mld(forces,sl,MobilizerUIndex(0),cq);
  Force::MobilityLinearStop stop(forces,sl,MobilizerQIndex(0),20.0,0.5,-0.4,0.6);
  Vec3 g(0.3,-9.1,0.7); Force::UniformGravity ug(forces,matter,g,0.25);
  Force::Gravity grav(forces,matter,UnitVec3(0.1,-1,0.2),9.3,0.4); grav.setDefaultBodyIsExcluded(b2.getMobilizedBodyIndex(),true);
  Force::ConstantForce cf(forces,b1,s1,Vec3(1,2,3)); Force::ConstantTorque ct(forces,b2,Vec3(-1,0.5,2));
  State s = sys.realizeTopology(); sys.realizeModel(s);
  for (int it=0; it<12; ++it) {
    for (int i=0;i<s.getNQ();++i) s.updQ()[i]=rnd(); for (int i=0;i<s.getNU();++i) s.updU()[i]=rnd();
    if (it%3==1) sl.setOneQ(s,0,0.6+std::fabs(rnd())); if (it%3==2) sl.setOneQ(s,0,-0.4-std::fabs(rnd()));
    sys.realize(s, Stage::Velocity);   // normalises quaternions first via prescribe/realize? use as-is
    sys.project(s); sys.realize(s, Stage::Dynamics);
    auto contrib=[&](const Force& f, Vector_<SpatialVec>& bf, Vector& mf){ Vector_<Vec3> pf(0); bf.resize(matter.getNumBodies()); bf=SpatialVec(Vec3(0),Vec3(0)); mf.resize(s.getNU()); mf=0; f.calcForceContribution(s,bf,pf,mf); };
    Vector_<SpatialVec> bf; Vector mf;
    Vec3 P1=b1.findStationLocationInGround(s,s1), P2=b2.findStationLocationInGround(s,s2), r=P2-P1; double d=r.norm(); Vec3 u=r/d;
    Vec3 a1=b1.getBodyRotation(s)*s1, a2=b2.getBodyRotation(s)*s2;
    contrib(spring,bf,mf); Vec3 f1=k*(d-x0)*u;
    rep("TwoPointLinearSpring body1", n2(bf[b1.getMobilizedBodyIndex()]-SpatialVec(a1%f1,f1))); rep("TwoPointLinearSpring body2", n2(bf[b2.getMobilizedBodyIndex()]+SpatialVec(a2%f1,f1)));
    rep("TwoPointLinearSpring PE", std::fabs(spring.calcPotentialEnergyContribution(s)-k*(d-x0)*(d-x0)/2));
    { Vec3 fsum(0), msum(0); for (MobilizedBodyIndex i(0); i<matter.getNumBodies(); ++i){ Vec3 p=matter.getMobilizedBody(i).getBodyOriginLocation(s); fsum+=bf[i][1]; msum+=bf[i][0]+p%bf[i][1]; }
      rep("spring: total force zero", fsum.norm()); rep("spring: total moment zero", msum.norm()); }
    { // power == -dPE/dt by finite difference along the motion
      double P=0; for (MobilizedBodyIndex i(0); i<matter.getNumBodies(); ++i){ const SpatialVec& V=matter.getMobilizedBody(i).getBodyVelocity(s); P+=dot(bf[i][0],V[0])+dot(bf[i][1],V[1]); }
      double h=1e-6; State sp=s, sm=s; sp.updQ()=s.getQ()+h*s.getQDot(); sm.updQ()=s.getQ()-h*s.getQDot(); sys.realize(sp,Stage::Position); sys.realize(sm,Stage::Position);
      double dpe=(spring.calcPotentialEnergyContribution(sp)-spring.calcPotentialEnergyContribution(sm))/(2*h); rep("spring: power == -dPE/dt", std::fabs(P+dpe), 1e-5); }
    contrib(damper,bf,mf); Vec3 vrel=b2.findStationVelocityInGround(s,s2)-b1.findStationVelocityInGround(s,s1); Vec3 fd=c*dot(vrel,u)*u;
    rep("TwoPointLinearDamper body1", n2(bf[b1.getMobilizedBodyIndex()]-SpatialVec(a1%fd,fd))); rep("TwoPointLinearDamper body2", n2(bf[b2.getMobilizedBodyIndex()]+SpatialVec(a2%fd,fd)));
    contrib(tpc,bf,mf); Vec3 f2=F0*u; rep("TwoPointConstantForce body2", n2(bf[b2.getMobilizedBodyIndex()]-SpatialVec(a2%f2,f2))); rep("TwoPointConstantForce body1", n2(bf[b1.getMobilizedBodyIndex()]+SpatialVec(a1%f2,f2)));
    double q=sl.getOneQ(s,0), uu=sl.getOneU(s,0); int ux=sl.getFirstUIndex(s);
    contrib(mls,bf,mf); rep("MobilityLinearSpring", std::fabs(mf[ux]+kq*(q-q0))); rep("MobilityLinearSpring PE", std::fabs(mls.calcPotentialEnergyContribution(s)-kq*(q-q0)*(q-q0)/2));
    contrib(mld,bf,mf); rep("MobilityLinearDamper", std::fabs(mf[ux]+cq*uu));
    contrib(stop,bf,mf); { double want=0, pe=0; if(q>0.6){double x=q-0.6; want=std::min(0.0,-20.0*x*(1+0.5*uu)); pe=10*x*x;} else if(q<-0.4){double x=q+0.4; want=std::max(0.0,-20.0*x*(1-0.5*uu)); pe=10*x*x;}
      rep("MobilityLinearStop force", std::fabs(mf[ux]-want)); rep("MobilityLinearStop PE", std::fabs(stop.calcPotentialEnergyContribution(s)-pe)); }
    contrib(ug,bf,mf); { double pe=0; for (MobilizedBodyIndex i(1); i<matter.getNumBodies(); ++i){ const MobilizedBody& mb=matter.getMobilizedBody(i); double m=mb.getBodyMass(s); Vec3 cg=mb.getBodyRotation(s)*mb.getBodyMassCenterStation(s);
        rep("UniformGravity body", n2(bf[i]-SpatialVec(cg%(m*g),m*g))); pe-=m*(dot(g,mb.getBodyOriginLocation(s)+cg)+0.25);} rep("UniformGravity PE", std::fabs(ug.calcPotentialEnergyContribution(s)-pe)); }
    contrib(grav,bf,mf); { Vec3 gv=9.3*UnitVec3(0.1,-1,0.2); double pe=0; for (MobilizedBodyIndex i(1); i<matter.getNumBodies(); ++i){ const MobilizedBody& mb=matter.getMobilizedBody(i); double m=mb.getBodyMass(s); Vec3 cg=mb.getBodyRotation(s)*mb.getBodyMassCenterStation(s);
        bool ex=(i==b2.getMobilizedBodyIndex()); SpatialVec want = ex? SpatialVec(Vec3(0),Vec3(0)) : SpatialVec(cg%(m*gv),m*gv); rep("Gravity body (excluded -> 0)", n2(bf[i]-want)); if(!ex) pe-=m*(dot(gv,mb.getBodyOriginLocation(s)+cg)+9.3*0.4);} rep("Gravity PE", std::fabs(grav.calcPotentialEnergyContribution(s)-pe)); }
    contrib(cf,bf,mf); rep("ConstantForce", n2(bf[b1.getMobilizedBodyIndex()]-SpatialVec(a1%Vec3(1,2,3),Vec3(1,2,3))));
    contrib(ct,bf,mf); rep("ConstantTorque", n2(bf[b2.getMobilizedBodyIndex()]-SpatialVec(Vec3(-1,0.5,2),Vec3(0))));
  }
  printf(bad ? "REPRODUCED: %d law checks violated natively\n" : "NOT-REPRODUCED (%d)\n", bad);
  return bad?1:0;
}
