// Native replay for the C44 PLUS definite-initialisation contract: HISTORY TEST on the real code.
// The current tree's PLUSImpulseSolver.cpp (+ ImpulseSolver.cpp) is compiled INTO this driver (vlib.native_build extra_srcs),
// so VERIF_REPO scratch worktrees are honoured and the library copy is interposed.
//   usage: c44_plus_replay <solve|bilateral> [seed]
// For random well-posed small problems (m <= 6; unconditional rows, unilateral contacts with / without friction, Known
// (expanding) contacts with non-zero piExpand, Observing contacts, bounded rows, non-participating rows; A = J~J + I, D >= 0)
// solve() is called on a FRESH PLUSImpulseSolver and on a USED one (which solved several different problems before, among them
// problems of the same m with expanders and with more / fewer active constraints). All outputs are compared bit for bit:
// pi, verrStart, verrApplied, piExpand, return value, exception status, the condition / slip fields of the RT arrays.
// prints MISMATCH lines and finally "REPRODUCED: ..." or "NOT-REPRODUCED".
#include "Simbody.h"
#include "simbody/internal/ImpulseSolver.h"
#include "simbody/internal/PLUSImpulseSolver.h"
#include <cstdio>
#include <cstdlib>
#include <cstring>
#include <cmath>
#include <random>
#include <string>
#include <unistd.h>
#include <signal.h>
using namespace SimTK;
typedef ImpulseSolver IS;
static std::mt19937_64 rng;
static double rnd(double a = -1, double b = 1) { std::uniform_real_distribution<double> u(a, b); return u(rng); }
static int irnd(int a, int b) { return a + (int)(rng() % (unsigned long long)(b - a + 1)); }

struct Problem {
  int m;
  Array_<MultiplierIndex> participating, expanding;
  Matrix A; Vector D, piExpand, verrStart, verrApplied;
  Array_<IS::UncondRT> unc; Array_<IS::UniContactRT> uc; Array_<IS::UniSpeedRT> us; Array_<IS::BoundedRT> bd;
  Array_<IS::ConstraintLtdFrictionRT> cl; Array_<IS::StateLtdFrictionRT> sl;
  std::string desc;
};

// kind: 0 random mix, 1 force at least one Known contact with non-zero piExpand, 2 no expanders at all
static Problem make(int m, int kind) {
  Problem P; P.m = m;
  Matrix J(m, m); for (int i = 0; i < m; i++) for (int j = 0; j < m; j++) J(i, j) = rnd();
  P.A = J * ~J; for (int i = 0; i < m; i++) P.A(i, i) += 1.0;
  P.D.resize(m); for (int i = 0; i < m; i++) P.D[i] = (rng() & 1) ? 0.0 : rnd(0, 0.1);
  P.piExpand.resize(m); P.piExpand.setToZero();
  P.verrStart.resize(m); for (int i = 0; i < m; i++) P.verrStart[i] = rnd(-2, 2);
  if (rng() & 1) { P.verrApplied.resize(m); for (int i = 0; i < m; i++) P.verrApplied[i] = rnd(-0.5, 0.5); }
  int r = 0; char buf[200];
  bool needKnown = (kind == 1);
  while (r < m) {
    int left = m - r, what = irnd(0, 5);
    if (needKnown) what = 2;
    if (what == 0) { // unconditional set of 1..2 rows
      int k = std::min(left, irnd(1, 2)); IS::UncondRT u; for (int i = 0; i < k; i++) { u.m_mults.push_back(MultiplierIndex(r)); P.participating.push_back(MultiplierIndex(r)); r++; }
      P.unc.push_back(u); P.desc += "U" + std::to_string(k) + " ";
    } else if (what == 1 || what == 2 || what == 3) { // unilateral contact
      bool fric = left >= 3 && (rng() % 3 != 0);
      IS::UniContactRT c; c.m_sign = (rng() & 1) ? 1.0 : -1.0; c.m_Nk = MultiplierIndex(r); c.m_effCOR = 0; c.m_ucx = UnilateralContactIndex((int)P.uc.size());
      int t = what == 2 ? 1 : (what == 3 && rng() % 4 == 0 ? 2 : 0);      // 0 Participating, 1 Known, 2 Observing
      if (kind == 2 && t == 1) t = 0;
      c.m_type = t == 0 ? IS::Participating : t == 1 ? IS::Known : IS::Observing;
      if (t == 0) P.participating.push_back(MultiplierIndex(r));
      if (t == 1) { P.expanding.push_back(MultiplierIndex(r)); P.piExpand[r] = -c.m_sign * rnd(0.2, 1.5); needKnown = false; }
      r++;
      if (fric) { c.m_effMu = rnd(0.05, 0.9); for (int i = 0; i < 2; i++) { c.m_Fk.push_back(MultiplierIndex(r)); if (t != 2) P.participating.push_back(MultiplierIndex(r)); r++; } }
      P.uc.push_back(c); snprintf(buf, sizeof buf, "%s%s ", t == 0 ? "P" : t == 1 ? "K" : "O", fric ? "f" : ""); P.desc += buf;
    } else if (what == 4) { // bounded row
      double lb = -rnd(1e3, 1e4), ub = rnd(1e3, 1e4);   /* wide: PLUS has no release logic for bounded rows (TODO in the source; a violated bound loops forever) */ P.bd.push_back(IS::BoundedRT(MultiplierIndex(r), lb, ub)); P.participating.push_back(MultiplierIndex(r)); r++; P.desc += "B ";
    } else { r++; P.desc += "- "; }   // row not participating
    if (needKnown && r >= m) { needKnown = false; }
  }
  return P;
}

struct Out { bool ret = false; bool threw = false; std::string msg; Vector pi, verr, verrApplied, piExpand; Array_<IS::UniContactRT> uc; Array_<IS::BoundedRT> bd; };

static Out runSolve(const PLUSImpulseSolver& s, const Problem& P0) {
  Problem P = P0; Out o;
  try { o.ret = s.solve(irnd(0, 2), P.participating, P.A, P.D, P.expanding, P.piExpand, P.verrStart, P.verrApplied, o.pi, P.unc, P.uc, P.us, P.bd, P.cl, P.sl); }
  catch (const std::exception& e) { o.threw = true; o.msg = e.what(); }
  o.verr = P.verrStart; o.verrApplied = P.verrApplied; o.piExpand = P.piExpand; o.uc = P.uc; o.bd = P.bd;
  return o;
}
static bool sameD(double a, double b) { return std::memcmp(&a, &b, 8) == 0; }
static int cmpVec(const char* what, const Vector& a, const Vector& b, int prob) {
  if (a.size() != b.size()) { printf("MISMATCH problem %d: %s size fresh=%d used=%d\n", prob, what, a.size(), b.size()); return 1; }
  for (int i = 0; i < a.size(); i++) if (!sameD(a[i], b[i])) { printf("MISMATCH problem %d: %s[%d] fresh=%.17g used=%.17g\n", prob, what, i, a[i], b[i]); return 1; }
  return 0;
}
static int compare(const Out& f, const Out& u, int prob) {
  int bad = 0;
  if (f.threw != u.threw) { printf("MISMATCH problem %d: exception fresh=%d used=%d (%s)\n", prob, f.threw, u.threw, (f.threw ? f.msg : u.msg).substr(0, 120).c_str()); return 1; }
  if (f.threw) return 0;       // both threw: the partial state of the arguments is not compared
  if (f.ret != u.ret) { printf("MISMATCH problem %d: return value fresh=%d used=%d\n", prob, f.ret, u.ret); bad = 1; }
  bad |= cmpVec("pi", f.pi, u.pi, prob); bad |= cmpVec("verrStart", f.verr, u.verr, prob);
  bad |= cmpVec("verrApplied", f.verrApplied, u.verrApplied, prob); bad |= cmpVec("piExpand", f.piExpand, u.piExpand, prob);
  for (unsigned k = 0; k < f.uc.size(); k++) {
    const IS::UniContactRT &a = f.uc[k], &b = u.uc[k];
    if (a.m_contactCond != b.m_contactCond || a.m_frictionCond != b.m_frictionCond || !sameD(a.m_slipMag, b.m_slipMag) || !sameD(a.m_slipVel[0], b.m_slipVel[0]) || !sameD(a.m_slipVel[1], b.m_slipVel[1])) {
      printf("MISMATCH problem %d: uniContact[%u] cond fresh=%d/%d used=%d/%d slipMag fresh=%.17g used=%.17g\n", prob, k, (int)a.m_contactCond, (int)a.m_frictionCond, (int)b.m_contactCond, (int)b.m_frictionCond, a.m_slipMag, b.m_slipMag); bad = 1; }
  }
  for (unsigned k = 0; k < f.bd.size(); k++) if (f.bd[k].m_boundedCond != u.bd[k].m_boundedCond) { printf("MISMATCH problem %d: bounded[%u] cond\n", prob, k); bad = 1; }
  return bad;
}

static const char* g_who = "?";      // which solver object is inside solve() right now
static void onSegv(int) {
  // on the unchanged tree no well-posed problem crashes; a crash means a work member was used before being sized/filled in this call
  printf("REPRODUCED: SIGSEGV inside PLUSImpulseSolver::solve()/solveBilateral() on the %s solver object (a work member is read before it is sized in this call)\n", g_who);
  fflush(stdout); _exit(1);
}
static void onAlarm(int) { printf("NOT-REPRODUCED (time budget exhausted inside a solve)\n"); fflush(stdout); _exit(3); }

static int t_solve() {
  int nbad = 0, ncmp = 0; std::string first;
  for (int it = 0; it < 1500 && nbad < 5; it++) {
    int m = irnd(1, 6);
    Problem P = make(m, it % 3 == 0 ? 2 : 0);
    PLUSImpulseSolver fresh(1e-6), used(1e-6);
    // history of the used object: a few unrelated problems, then one of the SAME m with a Known contact and non-zero piExpand,
    // sometimes one more with more / fewer active constraints
    int nh = irnd(1, 3);
    g_who = "USED (while building its history)";
    for (int h = 0; h < nh; h++) { Problem H = make(irnd(1, 6), 0); runSolve(used, H); }
    { Problem H = make(m, 1); runSolve(used, H); }
    if (rng() & 1) { Problem H = make(m, 0); runSolve(used, H); }
    g_who = "FRESH"; Out f = runSolve(fresh, P);
    g_who = "USED"; Out u = runSolve(used, P);
    ncmp++;
    if (compare(f, u, it)) { nbad++; if (first.empty()) { char b[300]; snprintf(b, sizeof b, "problem %d: m=%d layout [%s] expanders=%d applied=%d", it, m, P.desc.c_str(), (int)P.expanding.size(), P.verrApplied.size() > 0); first = b; } }
  }
  if (nbad) { printf("REPRODUCED: PLUSImpulseSolver::solve() result depends on the solver object's history: %d of %d fresh-vs-used comparisons differ; first: %s\n", nbad, ncmp, first.c_str()); return 1; }
  printf("NOT-REPRODUCED (%d fresh-vs-used comparisons of solve() identical bit for bit)\n", ncmp); return 0;
}

static int t_bilateral() {
  int nbad = 0, ncmp = 0;
  for (int it = 0; it < 1500 && nbad < 5; it++) {
    int m = irnd(1, 6);
    PLUSImpulseSolver fresh(1e-6), used(1e-6);
    for (int h = 0; h < 3; h++) { Problem H = make(h == 2 ? m : irnd(1, 6), h == 2 ? 1 : 0); runSolve(used, H);
      Vector rhs(H.m), pi; for (int i = 0; i < H.m; i++) rhs[i] = rnd(); try { used.solveBilateral(H.participating, H.A, H.D, rhs, pi); } catch (...) {} }
    Problem P = make(m, 0); Vector rhs(m), pf, pu; for (int i = 0; i < m; i++) rhs[i] = rnd();
    bool rf = false, ru = false, tf = false, tu = false;
    try { rf = fresh.solveBilateral(P.participating, P.A, P.D, rhs, pf); } catch (...) { tf = true; }
    try { ru = used.solveBilateral(P.participating, P.A, P.D, rhs, pu); } catch (...) { tu = true; }
    ncmp++;
    if (tf != tu || rf != ru || (!tf && cmpVec("pi (solveBilateral)", pf, pu, it))) nbad++;
  }
  if (nbad) { printf("REPRODUCED: PLUSImpulseSolver::solveBilateral() result depends on the solver object's history: %d of %d comparisons differ\n", nbad, ncmp); return 1; }
  printf("NOT-REPRODUCED (%d fresh-vs-used comparisons of solveBilateral() identical bit for bit)\n", ncmp); return 0;
}

int main(int argc, char** argv) {
  if (argc < 2) return 2;
  rng.seed(argc > 2 ? strtoull(argv[2], 0, 10) : 12345);
  signal(SIGALRM, onAlarm); alarm(100); signal(SIGSEGV, onSegv); signal(SIGBUS, onSegv); signal(SIGFPE, onSegv);
  std::string f = argv[1];
  if (f == "solve") return t_solve();
  if (f == "bilateral") return t_bilateral();
  return 2;
}
