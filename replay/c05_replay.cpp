// Native replay / witness driver for C05 and C03 (per-mobilizer kernel).
// One body per mobilizer type, built through the public MobilizedBody API with identity mobilizer frames on Ground
// (so F = P = G and M = B). At the given (or random) q,u it checks on the REAL code:
//   [X]   getMobilizerTransform(state) == documented parameterisation (written here independently, plain doubles;
//         inverse for a reversed mobilizer)
//   [V]   getMobilizerVelocity(state) == central finite difference of getMobilizerTransform along qdot
//   [A]   getBodyAcceleration == finite difference of getBodyVelocity along (qdot, udot)  (= H udot + HDot u == d/dt (H u))
//   [QDD] getQDotDot == finite difference of getQDot along (qdot, udot)
//   [N]   (checks=N, Ellipsoid) surface normal at the M origin aligned with Mz, as documented
//   [UFIT]/[QFIT] (checks=U / checks=F) setUToFitVelocity / setQToFitTransform round trips on representable targets
//   the other public fit wrappers (RigidBodyNode.h; they reverse the request for a Reverse mobilizer), all through the public MobilizedBody API, Forward or Reverse:
//   [WFIT] (checks=W) setUToFitAngularVelocity(w*) from arbitrary speeds uold: angular part of getMobilizerVelocity afterwards == w*   (w* = angular part at speeds u)
//   [LFIT] (checks=L) setUToFitLinearVelocity(v*) (Free, Bushing, Translation, Slider, Cylinder, Planar): linear part afterwards == v*, angular part unchanged;
//          v* = linear part at (rotational speeds as they are, u elsewhere); for a Reverse mobilizer the rotational speeds are zero (the wrapper assumes w_FM = 0)
//   [RFIT] (checks=R) setQToFitRotation(R_FM(q)) from arbitrary coordinates qold: rotation of getMobilizerTransform afterwards == R_FM(q)
//   [TFIT] (checks=T) setQToFitTranslation(pt) at coordinates q (Free, Bushing, Translation: any pt; Planar: pt in the plane; Slider/Cylinder: pt on the axis):
//          translation of getMobilizerTransform afterwards == pt, rotation unchanged
// MobilizedBody.cpp (the only translation unit that instantiates the inline wrappers) is compiled from the CURRENT tree together with this driver.
// usage: c05_replay <Mobilizer|all> <option|-> <reversed 0/1> <nq> q0..q(nq-1) u0..u(nu-1) [pitch=..] [semi0=..] [az0=..] [ze0=..] [pt0=..] [uold<i>=..] [qold<i>=..] [checks=XVAQUFWLRT]
// prints "REPRODUCED: ..." for every mismatch, "NOT-REPRODUCED" if everything agrees.
#include "Simbody.h"
#include <cstdio>
#include <cstdlib>
#include <cstring>
#include <string>
#include <vector>
#include <map>
#include <cmath>
using namespace SimTK;

static Mat33 RX(Real a){Real c=std::cos(a),s=std::sin(a);return Mat33(1,0,0, 0,c,-s, 0,s,c);}
static Mat33 RY(Real a){Real c=std::cos(a),s=std::sin(a);return Mat33(c,0,s, 0,1,0, -s,0,c);}
static Mat33 RZ(Real a){Real c=std::cos(a),s=std::sin(a);return Mat33(c,-s,0, s,c,0, 0,0,1);}
static Mat33 RQ(Vec4 e){ e = e/e.norm(); Real a=e[0],b=e[1],c=e[2],d=e[3];
    return Mat33(a*a+b*b-c*c-d*d, 2*(b*c-a*d), 2*(b*d+a*c),
                 2*(b*c+a*d), a*a-b*b+c*c-d*d, 2*(c*d-a*b),
                 2*(b*d-a*c), 2*(c*d+a*b), a*a-b*b-c*c+d*d);}

static std::string CHECKS = "XVAQ";     // which native checks to run: X V A Q(dd) U(fit) F(q-fit)
static bool want(char c) { return CHECKS.find(c) != std::string::npos; }
struct Params { Real pitch=0.7; Vec3 semi=Vec3(0.5,0.75,1.0); Real az0=0.2, ze0=-0.3; };
static std::map<std::string,Real> EXTRA;      // pt<i>, uold<i>, qold<i> of a counter-model
static Real extra(const std::string& k, int i, Real dflt) { auto it = EXTRA.find(k + std::to_string(i)); return it == EXTRA.end() ? dflt : it->second; }
// speeds that carry the angular velocity, for the mobilizers whose linear-only / translation-only fits are claimed (-1: not claimed)
static int numRotU(const std::string& nm) { return (nm=="Free"||nm=="Bushing") ? 3 : (nm=="Cylinder"||nm=="Planar") ? 1 : (nm=="Translation"||nm=="Slider") ? 0 : -1; }
static Real maxAbsDiff(const Rotation& A, const Rotation& B) { Real e=0; for (int i=0;i<3;++i) for (int j=0;j<3;++j) e = std::max(e, std::abs(Mat33(A)(i,j)-Mat33(B)(i,j))); return e; }

struct Sph { CoordinateAxis ax; int sa, sz, st; Sph():ax(ZAxis),sa(1),sz(1),st(1){} };
static Sph sphOpt(const std::string& o){ Sph s; if (o.size()>=5){ s.ax = (o[1]=='x')?CoordinateAxis(XAxis):CoordinateAxis(ZAxis);
    s.sa = o[2]=='-'?-1:1; s.sz = o[3]=='-'?-1:1; s.st = o[4]=='-'?-1:1; } return s; }

// documented parameterisation  q -> (R_FM, p_FM)   (MobilizedBody_<Type>.h)
static void documented(const std::string& nm, const std::string& opt, const Vector& q, const Params& P, Mat33& R, Vec3& p) {
    R = Mat33(1); p = Vec3(0);
    bool quat = (opt=="quat");
    if      (nm=="Pin")         { R = RZ(q[0]); }
    else if (nm=="Slider")      { p = Vec3(q[0],0,0); }
    else if (nm=="Screw")       { R = RZ(q[0]); p = Vec3(0,0,P.pitch*q[0]); }
    else if (nm=="Cylinder")    { R = RZ(q[0]); p = Vec3(0,0,q[1]); }
    else if (nm=="Universal")   { R = RX(q[0])*RY(q[1]); }
    else if (nm=="BendStretch") { R = RZ(q[0]); p = R*Vec3(q[1],0,0); }
    else if (nm=="Planar")      { R = RZ(q[0]); p = Vec3(q[1],q[2],0); }
    else if (nm=="Translation") { p = Vec3(q[0],q[1],q[2]); }
    else if (nm=="Gimbal")      { R = RX(q[0])*RY(q[1])*RZ(q[2]); }
    else if (nm=="Bushing")     { R = RX(q[0])*RY(q[1])*RZ(q[2]); p = Vec3(q[3],q[4],q[5]); }
    else if (nm=="SphericalCoords") { Sph s = sphOpt(opt); Real a = s.sa*q[0]+P.az0, z = s.sz*q[1]+P.ze0, d = s.st*q[2];
                                  R = RZ(a)*RY(z); p = d*R(int(s.ax)); }
    else if (nm=="Ball" || nm=="Free" || nm=="Ellipsoid") {
        int k;
        if (quat) { R = RQ(Vec4(q[0],q[1],q[2],q[3])); k=4; } else { R = RX(q[0])*RY(q[1])*RZ(q[2]); k=3; }
        if (nm=="Free") p = Vec3(q[k],q[k+1],q[k+2]);
        // Ellipsoid (documented): the point of the ellipsoid surface whose outward surface normal is Mz:  p = A^2 n / sqrt(n' A^2 n), A = diag(radii)
        if (nm=="Ellipsoid") { Vec3 n = R(2); Vec3 a2n(P.semi[0]*P.semi[0]*n[0], P.semi[1]*P.semi[1]*n[1], P.semi[2]*P.semi[2]*n[2]); p = a2n/std::sqrt(dot(n,a2n)); }
    }
}

struct Sys {
    MultibodySystem sys; SimbodyMatterSubsystem matter; GeneralForceSubsystem forces; MobilizedBody mob; State state;
    Sys() : matter(sys), forces(sys) {}
};

static bool build(Sys& S, const std::string& nm, const std::string& opt, bool rev, const Params& P) {
    Body::Rigid body(MassProperties(1.3, Vec3(0.1,-0.2,0.15), Inertia(1.1,1.2,1.3,0.01,0.02,-0.03).shiftFromMassCenter(Vec3(0.1,-0.2,0.15),1.3)));
    MobilizedBody::Direction d = rev ? MobilizedBody::Reverse : MobilizedBody::Forward;
    MobilizedBody& G = S.matter.Ground(); Transform I;
    if      (nm=="Pin")         S.mob = MobilizedBody::Pin(G,I,body,I,d);
    else if (nm=="Slider")      S.mob = MobilizedBody::Slider(G,I,body,I,d);
    else if (nm=="Screw")       S.mob = MobilizedBody::Screw(G,I,body,I,P.pitch,d);
    else if (nm=="Cylinder")    S.mob = MobilizedBody::Cylinder(G,I,body,I,d);
    else if (nm=="Universal")   S.mob = MobilizedBody::Universal(G,I,body,I,d);
    else if (nm=="BendStretch") S.mob = MobilizedBody::BendStretch(G,I,body,I,d);
    else if (nm=="Planar")      S.mob = MobilizedBody::Planar(G,I,body,I,d);
    else if (nm=="Translation") S.mob = MobilizedBody::Translation(G,I,body,I,d);
    else if (nm=="Gimbal")      S.mob = MobilizedBody::Gimbal(G,I,body,I,d);
    else if (nm=="Bushing")     S.mob = MobilizedBody::Bushing(G,I,body,I,d);
    else if (nm=="Ball")        S.mob = MobilizedBody::Ball(G,I,body,I,d);
    else if (nm=="Free")        S.mob = MobilizedBody::Free(G,I,body,I,d);
    else if (nm=="Ellipsoid")   S.mob = MobilizedBody::Ellipsoid(G,I,body,I,P.semi,d);
    else if (nm=="SphericalCoords") { Sph s = sphOpt(opt);
        S.mob = MobilizedBody::SphericalCoords(G,I,body,I,P.az0,s.sa<0,P.ze0,s.sz<0,s.ax,s.st<0,d); }
    else return false;
    Force::UniformGravity(S.forces, S.matter, Vec3(0.3,-9.8,0.5));
    S.sys.realizeTopology();
    S.state = S.sys.getDefaultState();
    if (opt=="euler") S.matter.setUseEulerAngles(S.state, true);
    S.sys.realizeModel(S.state);
    return true;
}

static Vec3 vee(const Mat33& W) { return Vec3(0.5*(W(2,1)-W(1,2)), 0.5*(W(0,2)-W(2,0)), 0.5*(W(1,0)-W(0,1))); }

static int nfail = 0;
static void cmp(const char* what, const std::string& tag, Real err, Real tol) {
    if (!(err <= tol)) { std::printf("REPRODUCED: %s %s mismatch, error %.3e > tol %.1e\n", tag.c_str(), what, err, tol); ++nfail; }
    else std::printf("ok: %s %s error %.2e\n", tag.c_str(), what, err);
}

static void evalAt(Sys& S, const Vector& q, const Vector& u, Transform& X, SpatialVec& Vb, Vector& qdot) {
    S.mob.setQFromVector(S.state, q); S.mob.setUFromVector(S.state, u);
    S.sys.realize(S.state, Stage::Velocity);
    X = S.mob.getMobilizerTransform(S.state); Vb = S.mob.getBodyVelocity(S.state); qdot = S.mob.getQDotAsVector(S.state);
}

static void checkOne(const std::string& nm, const std::string& opt, bool rev, Vector q, Vector u, const Params& P, bool haveState) {
    Sys S;
    if (!build(S, nm, opt, rev, P)) { std::printf("unknown mobilizer %s\n", nm.c_str()); return; }
    const int nq = S.mob.getNumQ(S.state), nu = S.mob.getNumU(S.state);
    std::string tag = nm + "[" + opt + "]" + (rev ? " reversed" : "");
    if (!haveState || q.size()!=nq || u.size()!=nu) {
        q.resize(nq); u.resize(nu);
        for (int i=0;i<nq;++i) q[i] = 0.2 + 0.9*std::sin(1.7*i+0.3+nm.size());
        for (int i=0;i<nu;++i) u[i] = 0.4*std::cos(2.1*i+0.5+nm.size()) + 0.3;
    }
    if (opt=="quat") { Real n=0; for(int i=0;i<4;++i) n+=q[i]*q[i]; if (n<1e-6) q[0]=1; }
    S.mob.setQFromVector(S.state, q); S.mob.setUFromVector(S.state, u);
    S.sys.realize(S.state, Stage::Acceleration);
    const Transform  X = S.mob.getMobilizerTransform(S.state);
    const SpatialVec V = S.mob.getMobilizerVelocity(S.state);
    const SpatialVec A = S.mob.getBodyAcceleration(S.state);
    const Vector qdot = S.mob.getQDotAsVector(S.state), qdd = S.mob.getQDotDotAsVector(S.state), udot = S.mob.getUDotAsVector(S.state);
    if (want('U')) {   // [UFIT] a representable velocity reproduces the speeds
        State s2 = S.state; Vector z(nu); z = 0; S.mob.setUFromVector(s2, z);
        S.mob.setUToFitVelocity(s2, V);
        Vector uf = S.mob.getUAsVector(s2); Real e=0; for (int i=0;i<nu;++i) e = std::max(e, std::abs(uf[i]-u[i]));
        cmp("[UFIT] setUToFitVelocity(getMobilizerVelocity) vs u", tag, e, 1e-9);
        S.sys.realize(s2, Stage::Velocity);
        SpatialVec V2 = S.mob.getMobilizerVelocity(s2);
        cmp("[UFIT] velocity after the fit vs target velocity", tag, (V2[0]-V[0]).norm()+(V2[1]-V[1]).norm(), 1e-9);
    }
    if (want('F')) {   // [QFIT] a representable pose is reproduced
        State s2 = S.state; Vector z(nq); z = 0; if (opt=="quat") z[0]=1; S.mob.setQFromVector(s2, z);
        S.mob.setQToFitTransform(s2, X);
        S.sys.realize(s2, Stage::Position);
        Transform X2 = S.mob.getMobilizerTransform(s2); Real e=0;
        for (int i=0;i<3;++i){ for(int j=0;j<3;++j) e = std::max(e, std::abs(Mat33(X2.R())(i,j)-Mat33(X.R())(i,j))); e = std::max(e, std::abs(X2.p()[i]-X.p()[i])); }
        cmp("[QFIT] transform after setQToFitTransform vs target transform", tag, e, 1e-9);
    }
    if (want('W')) {   // [WFIT] angular-only request from arbitrary speeds
        State s2 = S.state; Vector uo(nu); for (int i=0;i<nu;++i) uo[i] = extra("uold", i, 0.7-0.25*i);
        S.mob.setUFromVector(s2, uo);
        S.mob.setUToFitAngularVelocity(s2, V[0]);
        S.sys.realize(s2, Stage::Velocity);
        SpatialVec V2 = S.mob.getMobilizerVelocity(s2);
        cmp("[WFIT] angular velocity after setUToFitAngularVelocity vs requested w_FM", tag, (V2[0]-V[0]).norm(), 1e-9);
    }
    if (want('L') && numRotU(nm) >= 0) {   // [LFIT] linear-only request; rotational speeds as they are (zero for a reversed mobilizer: the wrapper assumes w_FM = 0)
        const int nr = numRotU(nm);
        Vector uA(nu), uB(nu);
        for (int i=0;i<nu;++i) { Real uo = extra("uold", i, 0.7-0.25*i);
            if (i < nr) uA[i] = uB[i] = (rev ? Real(0) : uo); else { uA[i] = u[i]; uB[i] = uo; } }
        State sA = S.state; S.mob.setUFromVector(sA, uA); S.sys.realize(sA, Stage::Velocity);
        const SpatialVec VA = S.mob.getMobilizerVelocity(sA);
        State sB = S.state; S.mob.setUFromVector(sB, uB);
        S.mob.setUToFitLinearVelocity(sB, VA[1]);
        S.sys.realize(sB, Stage::Velocity);
        const SpatialVec VB = S.mob.getMobilizerVelocity(sB);
        cmp("[LFIT] linear velocity after setUToFitLinearVelocity vs requested v_FM", tag, (VB[1]-VA[1]).norm(), 1e-9);
        cmp("[LFIT] angular velocity unchanged by setUToFitLinearVelocity", tag, (VB[0]-VA[0]).norm(), 1e-9);
    }
    if (want('R')) {   // [RFIT] rotation-only request from arbitrary coordinates
        State s2 = S.state; Vector qo(nq); for (int i=0;i<nq;++i) qo[i] = extra("qold", i, 0.15+0.2*i);
        S.mob.setQFromVector(s2, qo);
        S.mob.setQToFitRotation(s2, X.R());
        S.sys.realize(s2, Stage::Position);
        cmp("[RFIT] rotation after setQToFitRotation vs requested R_FM", tag, maxAbsDiff(S.mob.getMobilizerTransform(s2).R(), X.R()), 1e-9);
    }
    if (want('T') && numRotU(nm) >= 0) {   // [TFIT] translation-only request at the given coordinates (rotational part arbitrary)
        Vec3 pt(extra("pt",0,0.4), extra("pt",1,-0.7), extra("pt",2,0.9));
        if (nm=="Planar") pt[2] = 0; else if (nm=="Slider") pt[1] = pt[2] = 0; else if (nm=="Cylinder") pt[0] = pt[1] = 0;
        State s2 = S.state;
        S.mob.setQToFitTranslation(s2, pt);
        S.sys.realize(s2, Stage::Position);
        const Transform X2 = S.mob.getMobilizerTransform(s2);
        cmp("[TFIT] translation after setQToFitTranslation vs requested p_FM", tag, (X2.p()-pt).norm(), 1e-9);
        cmp("[TFIT] rotation unchanged by setQToFitTranslation", tag, maxAbsDiff(X2.R(), X.R()), 1e-9);
    }
    if (!(want('X')||want('V')||want('A')||want('Q')||want('N'))) return;
    // [X] documented parameterisation
    Mat33 Rd; Vec3 pd; documented(nm, opt, q, P, Rd, pd);
    if (rev) { Mat33 Rt = ~Rd; pd = -(Rt*pd); Rd = Rt; }
    if (nm=="Ellipsoid" && want('N')) {   // [N] documented: the surface normal at the M origin is aligned with Mz
        Real e = 0; for (int i=0;i<3;++i) e = std::max(e, std::abs(X.p()[i]-pd[i]));
        Vec3 g(X.p()[0]/square(P.semi[0]), X.p()[1]/square(P.semi[1]), X.p()[2]/square(P.semi[2]));
        Vec3 mz = rev ? Vec3((~Mat33(X.R()))(2)) : Vec3(Mat33(X.R())(2));
        if (!rev) {
            cmp("[N] p_FM vs the surface point whose normal is Mz (documented)", tag, e, 1e-10);
            cmp("[N] angle (rad) between the surface normal at the M origin and Mz", tag, std::acos(std::min(Real(1), dot(g,mz)/g.norm())), 1e-9);
        }
    }
    Real eX = 0; for (int i=0;i<3;++i){ for(int j=0;j<3;++j) eX = std::max(eX, std::abs(Mat33(X.R())(i,j)-Rd(i,j)));
        if (nm!="Ellipsoid") eX = std::max(eX, std::abs(X.p()[i]-pd[i])); }
    if (nm=="Ellipsoid" && !rev) { Real sum = 0; for (int i=0;i<3;++i) sum += square(X.p()[i]/P.semi[i]); eX = std::max(eX, std::abs(sum-1)); }   // on the surface
    cmp("[X] getMobilizerTransform vs documented parameterisation", tag, eX, 1e-10);
    // proper orthonormal
    Mat33 RRt = Mat33(X.R())*~Mat33(X.R()); Real eO=0; for(int i=0;i<3;++i)for(int j=0;j<3;++j) eO=std::max(eO,std::abs(RRt(i,j)-(i==j)));
    cmp("[X] R_FM orthonormal", tag, eO + std::abs(det(Mat33(X.R()))-1), 1e-10);
    // [V] finite differences along qdot
    const Real h = 1e-5;
    Transform Xp, Xm; SpatialVec Vp, Vm; Vector qdp, qdm;
    evalAt(S, q + h*qdot, u + h*udot, Xp, Vp, qdp);
    evalAt(S, q - h*qdot, u - h*udot, Xm, Vm, qdm);
    Mat33 Rdot = (Mat33(Xp.R()) - Mat33(Xm.R()))/(2*h);
    Vec3 w = vee(Rdot*~Mat33(X.R())), v = (Xp.p()-Xm.p())/(2*h);
    Real scale = 1 + V[0].norm() + V[1].norm();
    cmp("[V] getMobilizerVelocity vs finite difference of getMobilizerTransform along qdot", tag, ((V[0]-w).norm() + (V[1]-v).norm())/scale, 2e-6);
    // [A] d/dt (H u) == H udot + HDot u   (F=G, M=B so V_GB = V_FM, A_GB = d/dt V_GB)
    SpatialVec Afd = (Vp - Vm)/(2*h);
    Real sA = 1 + A[0].norm() + A[1].norm();
    cmp("[A] getBodyAcceleration (H udot + HDot u) vs finite difference of H u", tag, ((A[0]-Afd[0]).norm() + (A[1]-Afd[1]).norm())/sA, 2e-5);
    // [QDD]
    Real eQ = 0, sQ = 1; for (int i=0;i<nq;++i){ eQ = std::max(eQ, std::abs(qdd[i] - (qdp[i]-qdm[i])/(2*h))); sQ += std::abs(qdd[i]); }
    cmp("[QDD] getQDotDot vs finite difference of getQDot", tag, eQ/sQ, 2e-5);
}

int main(int argc, char** argv) {
    Params P;
    std::string nm = argc>1 ? argv[1] : "all", opt = argc>2 ? argv[2] : "-";
    bool rev = argc>3 && std::atoi(argv[3])!=0;
    int nq = argc>4 ? std::atoi(argv[4]) : 0;
    std::vector<Real> nums;
    for (int i=5;i<argc;++i) {
        const char* eq = std::strchr(argv[i], '=');
        if (eq) { std::string k(argv[i], eq-argv[i]); Real x = std::atof(eq+1);
            if (k=="pitch") P.pitch=x; else if (k=="semi0") P.semi[0]=x; else if (k=="semi1") P.semi[1]=x; else if (k=="semi2") P.semi[2]=x;
            else if (k=="az0") P.az0=x; else if (k=="ze0") P.ze0=x; else if (k=="checks") CHECKS = std::string(eq+1);
            else if (k.compare(0,2,"pt")==0 || k.compare(0,4,"uold")==0 || k.compare(0,4,"qold")==0) EXTRA[k] = x; }
        else nums.push_back(std::atof(argv[i]));
    }
    try {
        if (nm=="all") {
            const char* L[][2] = {{"Pin","-"},{"Slider","-"},{"Screw","-"},{"Cylinder","-"},{"Universal","-"},{"BendStretch","-"},{"Planar","-"},{"Translation","-"},
                {"Gimbal","-"},{"Bushing","-"},{"SphericalCoords","Mz+++"},{"SphericalCoords","Mx+-+"},{"SphericalCoords","Mz-+-"},{"SphericalCoords","Mx--+"},
                {"Ball","euler"},{"Ball","quat"},{"Free","euler"},{"Free","quat"},{"Ellipsoid","euler"},{"Ellipsoid","quat"}};
            for (auto& e : L) for (int r=0;r<2;++r) checkOne(e[0], e[1], r!=0, Vector(), Vector(), P, false);
        } else {
            Vector q(nq), u(std::max<int>(0,(int)nums.size()-nq));
            bool have = (int)nums.size() > nq && nq > 0;
            for (int i=0;i<nq && i<(int)nums.size();++i) q[i]=nums[i];
            for (int i=nq;i<(int)nums.size();++i) u[i-nq]=nums[i];
            checkOne(nm, opt, rev, q, u, P, have);
            if (have) checkOne(nm, opt, rev, Vector(), Vector(), P, false);     // fallback witness search at a generic state
        }
    } catch (const std::exception& e) { std::printf("exception: %s\n", e.what()); return 2; }
    std::printf(nfail ? "%d mismatches\n" : "NOT-REPRODUCED (all native checks agree)\n", nfail);
    return 0;
}
