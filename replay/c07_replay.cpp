// Native replay for C07 (per-constraint kernel): builds small systems with each built-in constraint through the
// public API, draws random (generally constraint-VIOLATING) states, and checks on the real compiled code
//   (1) pverr == d/dt perr          (central finite differences along q(t), u(t))
//   (2) aerr  == d/dt verr          (same, with an arbitrary udot)
//   (3) power of the constraint forces for multipliers lambda == + lambda . (verr(u) - verr(0))   [G^T lambda]
//   (4) two-body constraints: forces sum to zero force and zero moment about the Ground origin
// For Ball / Weld (translational rows) / NoSlip1D the code differentiates in the moving base-body frame or holds
// the coincident material points fixed; for those the exact relation proved symbolically by checks/c07.py is
// checked (the residual term is computed from public kinematics) and the strict reading is printed as DEVIATION.
// usage: c07_replay <seed> [strict]     prints MISMATCH lines and a final "REPRODUCED:" line when any claimed relation fails.
#include "Simbody.h"
#include <cstdio>
#include <cstdlib>
#include <cmath>
#include <functional>
#include <string>
using namespace SimTK;
static int bad = 0, deviations = 0, checks = 0;
static bool strictMode = false;
static void rep(const std::string& what, double resid, double tol) {
  ++checks;
  if (!(resid <= tol)) { printf("%-86s residual %.3e MISMATCH\n", what.c_str(), resid); bad++; }
}
static void dev(const std::string& what, double resid, double tol) {
  if (!(resid <= tol)) { printf("%-86s residual %.3e DEVIATION (strict reading of the property, see report)\n", what.c_str(), resid); deviations++; if (strictMode) bad++; }
}
static double rnd() { return 2.0*rand()/RAND_MAX-1.0; }
static Vec3 rv() { return Vec3(rnd(),rnd(),rnd()); }
static double vmax(const Vector& v) { double m=0; for (int i=0;i<v.size();++i) m=std::max(m,std::fabs(v[i])); return m; }

struct Model {
  MultibodySystem sys; SimbodyMatterSubsystem matter; GeneralForceSubsystem forces;
  MobilizedBody b0, b1, b2, b3, pin, slider;
  Model(int config) : matter(sys), forces(sys) {
    Body::Rigid body(MassProperties(2.5, Vec3(0.1,-0.2,0.3), UnitInertia(1,1.2,1.4).shiftFromCentroid(Vec3(0.1,-0.2,0.3))));
    if (config==0) {            // all bodies free on Ground: Ancestor == Ground
      b0 = matter.Ground();
      b1 = MobilizedBody::Free(matter.Ground(), Transform(Vec3(0.3,0,0)), body, Transform());
      b2 = MobilizedBody::Free(matter.Ground(), Transform(Vec3(0,0.4,0)), body, Transform());
      b3 = MobilizedBody::Free(matter.Ground(), Transform(Vec3(0,0,0.5)), body, Transform());
    } else {                    // moving Ancestor: a free body carrying the constrained free bodies
      b0 = MobilizedBody::Free(matter.Ground(), Transform(Vec3(0.1,0.2,0.3)), body, Transform());
      b1 = MobilizedBody::Free(b0, Transform(Vec3(0.3,0,0)), body, Transform());
      b2 = MobilizedBody::Free(b0, Transform(Vec3(0,0.4,0)), body, Transform());
      b3 = MobilizedBody::Free(b0, Transform(Vec3(0,0,0.5)), body, Transform());
    }
    pin = MobilizedBody::Pin(b1, Transform(Rotation(0.3,Vec3(1,2,3)),Vec3(0.2,0,0)), body, Transform());
    slider = MobilizedBody::Slider(b2, Transform(Rotation(-0.4,Vec3(3,1,2)),Vec3(0,0.1,0)), body, Transform());
  }
};

enum Kind { Exact, BallLike, WeldLike, NoSlipLike };

// f(x0,x1,x2) = x0*x1 + sin(x2) - 0.3*x1^2*x2  (nonlinear in every argument; for CoordinateCoupler)
struct FnCC : public Function {
  Real calcValue(const Vector& x) const override { return x[0]*x[1] + std::sin(x[2]) - 0.3*x[1]*x[1]*x[2]; }
  Real calcDerivative(const Array_<int>& c, const Vector& x) const override {
    if (c.size()==1) { switch(c[0]) { case 0: return x[1]; case 1: return x[0]-0.6*x[1]*x[2]; default: return std::cos(x[2])-0.3*x[1]*x[1]; } }
    int i=std::min(c[0],c[1]), j=std::max(c[0],c[1]);
    if (i==0&&j==1) return 1; if (i==1&&j==1) return -0.6*x[2]; if (i==1&&j==2) return -0.6*x[1]; if (i==2&&j==2) return -std::sin(x[2]); return 0;
  }
  int getArgumentSize() const override { return 3; }
  int getMaxDerivativeOrder() const override { return 2; }
};
// f(u0,u1,q) = u0*(1+q^2) - 2*u1 + sin(q)   (affine in the speeds, nonlinear in the coordinate; for SpeedCoupler)
struct FnSC : public Function {
  Real calcValue(const Vector& x) const override { return x[0]*(1+x[2]*x[2]) - 2*x[1] + std::sin(x[2]); }
  Real calcDerivative(const Array_<int>& c, const Vector& x) const override {
    if (c.size()==1) { switch(c[0]) { case 0: return 1+x[2]*x[2]; case 1: return -2; default: return 2*x[0]*x[2]+std::cos(x[2]); } }
    int i=std::min(c[0],c[1]), j=std::max(c[0],c[1]);
    if (i==0&&j==2) return 2*x[2]; if (i==2&&j==2) return 2*x[0]-std::sin(x[2]); return 0;
  }
  int getArgumentSize() const override { return 3; }
  int getMaxDerivativeOrder() const override { return 2; }
};

struct Case { std::string name; Kind kind; std::function<Constraint(Model&)> make; };

static void runCase(const Case& c, int config, unsigned seed, int iters) {
  Model M(config);
  Constraint cons = c.make(M);
  State s = M.sys.realizeTopology(); M.matter.setUseEulerAngles(s,true); M.sys.realizeModel(s);
  const SimbodyMatterSubsystem& matter = M.matter;
  std::string tag = c.name + (config? " [moving ancestor]":" [ancestor Ground]");
  for (int it=0; it<iters; ++it) {
    const int nq=s.getNQ(), nu=s.getNU();
    Vector q(nq), u(nu), udot(nu);
    for (int i=0;i<nq;++i) q[i]=rnd(); for (int i=0;i<nu;++i) { u[i]=rnd(); udot[i]=rnd(); }
    s.setTime(0.37+0.1*it); s.updQ()=q; s.updU()=u; M.sys.realize(s, Stage::Velocity);
    int mp,mv,ma; cons.getNumConstraintEquationsInUse(s,mp,mv,ma); const int m=mp+mv+ma;
    Vector perr = s.getQErr(), verr = s.getUErr(), aerr; matter.calcConstraintAccelerationErrors(s, udot, aerr);
    Vector aerr0; matter.calcConstraintAccelerationErrors(s, Vector(nu,0.0), aerr0);
    Vector qdot = s.getQDot();
    auto at=[&](double h, Vector& pe, Vector& ve){ State t=s; t.setTime(s.getTime()+h); t.updQ()=q+h*qdot; t.updU()=u+h*udot; M.sys.realize(t,Stage::Velocity); pe=t.getQErr(); ve=t.getUErr(); };
    // Richardson-extrapolated central differences
    auto diff=[&](double h, Vector& dp, Vector& dv){ Vector p1,v1,p2,v2; at(h,p1,v1); at(-h,p2,v2); dp=(p1-p2)/(2*h); dv=(v1-v2)/(2*h); };
    Vector dp1,dv1,dp2,dv2; diff(2e-4,dp1,dv1); diff(1e-4,dp2,dv2);
    Vector dperr=(4.0*dp2-dp1)/3.0, dverr=(4.0*dv2-dv1)/3.0;
    const double tol=2e-7;
    // kinematics of the constrained bodies in the ancestor frame A (public API) for the residual terms
    const MobilizedBody& A = cons.getNumConstrainedBodies()? cons.getAncestorMobilizedBody() : (const MobilizedBody&)matter.getGround();
    auto wInA=[&](const MobilizedBody& b){ return b.findBodyAngularVelocityInAnotherBody(s,A); };
    if (mp) {
      Vector strictRes = verr(0,mp)-dperr(0,mp);
      if (c.kind==Exact) rep(tag+": (1) pverr == d/dt perr", vmax(strictRes), tol);
      else if (c.kind==BallLike || c.kind==WeldLike) {
        // exact relation: pverr(trans) == d/dt perr(trans) - w_AB x perr(trans)   (derivative taken in the base body B)
        int off = c.kind==WeldLike? 3:0;
        if (off) rep(tag+": (1) pverr == d/dt perr (orientation rows)", vmax(strictRes(0,3)), tol);
        Vec3 pe(perr[off],perr[off+1],perr[off+2]), ve(verr[off],verr[off+1],verr[off+2]), dpe(dperr[off],dperr[off+1],dperr[off+2]);
        const MobilizedBody& B = cons.getMobilizedBodyFromConstrainedBody(ConstrainedBodyIndex(0));
        Vec3 w = wInA(B);
        rep(tag+": (1') pverr == d/dt perr - w_AB x perr (translational rows, derivative in B)", (ve-(dpe - w%pe)).norm(), tol);
        dev(tag+": (1) pverr == d/dt perr (translational rows, violated perr, rotating base)", (ve-dpe).norm(), tol);
      }
    }
    if (mp+mv) {
      Vector strictRes = aerr(0,mp+mv)-dverr(0,mp+mv);
      if (c.kind==Exact) rep(tag+": (2) aerr == d/dt verr", vmax(strictRes), tol);
      else if (c.kind==BallLike || c.kind==WeldLike) {
        int off = c.kind==WeldLike? 3:0;
        if (off) rep(tag+": (2) aerr == d/dt verr (orientation rows)", vmax(strictRes(0,3)), tol);
        Vec3 ve(verr[off],verr[off+1],verr[off+2]), ae(aerr[off],aerr[off+1],aerr[off+2]), dve(dverr[off],dverr[off+1],dverr[off+2]);
        const MobilizedBody& B = cons.getMobilizedBodyFromConstrainedBody(ConstrainedBodyIndex(0));
        Vec3 w = wInA(B);
        rep(tag+": (2') aerr == d/dt verr + w_AB x verr (translational rows)", (ae-(dve + w%ve)).norm(), tol);
        dev(tag+": (2) aerr == d/dt verr (translational rows, violated verr, rotating base)", (ae-dve).norm(), tol);
      } else if (c.kind==NoSlipLike) {
        // exact relation: d/dt verr == aerr + [w1 x (v_P - v_P1) - w0 x (v_P - v_P0)] . n_A   (P: contact point as a material point of the case,
        // P0/P1: the coincident material points of the two moving bodies; everything measured and expressed in the Ancestor A)
        const MobilizedBody& C = cons.getMobilizedBodyFromConstrainedBody(ConstrainedBodyIndex(0));
        const MobilizedBody& B0 = cons.getMobilizedBodyFromConstrainedBody(ConstrainedBodyIndex(1));
        const MobilizedBody& B1 = cons.getMobilizedBodyFromConstrainedBody(ConstrainedBodyIndex(2));
        const Vec3 P_C(0.3,-0.1,0.2); const UnitVec3 n_C(0.3,-0.5,0.8);      // as constructed in main()
        Vec3 pG = C.findStationLocationInGround(s, P_C);
        Vec3 s0 = B0.findStationAtGroundPoint(s, pG), s1 = B1.findStationAtGroundPoint(s, pG);
        Vec3 vP = C.findStationVelocityInAnotherBody(s, P_C, A), vP0 = B0.findStationVelocityInAnotherBody(s, s0, A), vP1 = B1.findStationVelocityInAnotherBody(s, s1, A);
        Vec3 w0 = wInA(B0), w1 = wInA(B1), nA = C.expressVectorInAnotherBodyFrame(s, Vec3(n_C), A);
        double resid = dot(w1 % (vP - vP1) - w0 % (vP - vP0), nA);
        rep(tag+": (2') d/dt verr == aerr + [w1 x (v_P - v_P1) - w0 x (v_P - v_P0)] . n_A", std::fabs(dverr[0] - (aerr[0] + resid)), tol);
        rep(tag+": (4) verr == (v_P1 - v_P0) . n_A", std::fabs(verr[0] - dot(vP1 - vP0, nA)), 1e-9);
        dev(tag+": (2) aerr == d/dt verr (contact point moving over the wheels)", vmax(strictRes), tol);
      }
    }
    // (3) adjoint forces
    Vector lambda(m); for (int i=0;i<m;++i) lambda[i]=rnd();
    Vector_<SpatialVec> FG; Vector mob; matter.calcConstraintForcesFromMultipliers(s, lambda, FG, mob);
    if (mp+mv) {
      State z=s; z.updU()=0; M.sys.realize(z,Stage::Velocity); Vector verr0=z.getUErr();
      double P=0; for (MobilizedBodyIndex b(0); b<matter.getNumBodies(); ++b){ const SpatialVec& V=matter.getMobilizedBody(b).getBodyVelocity(s); P+=dot(FG[b][0],V[0])+dot(FG[b][1],V[1]); }
      for (int i=0;i<nu;++i) P+=mob[i]*u[i];
      double want=0; for (int i=0;i<mp+mv;++i) want+=lambda[i]*(verr[i]-verr0[i]);
      rep(tag+": (3) power of constraint forces == + lambda . (verr(u)-verr(0))", std::fabs(P-want), 1e-9);
    } else {
      double P=0; for (int i=0;i<nu;++i) P+=mob[i]*udot[i];
      double fb=0; for (MobilizedBodyIndex b(0); b<matter.getNumBodies(); ++b) fb+=FG[b][0].norm()+FG[b][1].norm();
      double want=0; for (int i=0;i<m;++i) want+=lambda[i]*(aerr[i]-aerr0[i]);
      rep(tag+": (3) mobility forces . udot == + lambda . (aerr(udot)-aerr(0)), no body forces", std::fabs(P-want)+fb, 1e-9);
    }
    // (4) Newton's third law
    if (cons.getNumConstrainedBodies()>=2 && cons.getNumConstrainedU(s)==0) {
      Vec3 fsum(0), msum(0);
      for (MobilizedBodyIndex b(0); b<matter.getNumBodies(); ++b){ Vec3 p=matter.getMobilizedBody(b).getBodyOriginLocation(s); fsum+=FG[b][1]; msum+=FG[b][0]+p%FG[b][1]; }
      rep(tag+": (4) constraint forces sum to zero force", fsum.norm(), 1e-9);
      rep(tag+": (4) constraint forces sum to zero moment about the Ground origin", msum.norm(), 1e-9);
    }
  }
}

int main(int argc, char** argv) {
  unsigned seed = argc>1 ? (unsigned)atoi(argv[1]) : 0; srand(seed+4711);
  strictMode = argc>2 && std::string(argv[2])=="strict";
  const Vec3 sB(0.3,-0.1,0.2), sF(-0.2,0.4,0.1);
  const UnitVec3 n(0.3,-0.5,0.8), ax(0.2,0.9,-0.3);
  Rotation RB(0.7,Vec3(1,-2,0.5)), RF(-1.1,Vec3(0.3,0.2,-1));
  std::vector<Case> cases = {
    {"PointInPlane", Exact, [&](Model& M){ return Constraint(Constraint::PointInPlane(M.b1, n, 0.37, M.b2, sF)); }},
    {"PointOnLine", Exact, [&](Model& M){ return Constraint(Constraint::PointOnLine(M.b1, n, sB, M.b2, sF)); }},
    {"Rod", Exact, [&](Model& M){ return Constraint(Constraint::Rod(M.b1, sB, M.b2, sF, 0.8)); }},
    {"ConstantAngle", Exact, [&](Model& M){ return Constraint(Constraint::ConstantAngle(M.b1, n, M.b2, ax, 1.1)); }},
    {"ConstantOrientation", Exact, [&](Model& M){ return Constraint(Constraint::ConstantOrientation(M.b1, RB, M.b2, RF)); }},
    {"Ball", BallLike, [&](Model& M){ return Constraint(Constraint::Ball(M.b1, sB, M.b2, sF)); }},
    {"Weld", WeldLike, [&](Model& M){ return Constraint(Constraint::Weld(M.b1, Transform(RB,sB), M.b2, Transform(RF,sF))); }},
    {"NoSlip1D", NoSlipLike, [&](Model& M){ return Constraint(Constraint::NoSlip1D(M.b3, sB, n, M.b1, M.b2)); }},
    {"ConstantCoordinate", Exact, [&](Model& M){ return Constraint(Constraint::ConstantCoordinate(M.pin, MobilizerQIndex(0), 0.3)); }},
    {"ConstantSpeed", Exact, [&](Model& M){ return Constraint(Constraint::ConstantSpeed(M.slider, MobilizerUIndex(0), -0.7)); }},
    {"CoordinateCoupler", Exact, [&](Model& M){ Array_<MobilizedBodyIndex> b; Array_<MobilizerQIndex> qi; b.push_back(M.pin.getMobilizedBodyIndex()); qi.push_back(MobilizerQIndex(0));
        b.push_back(M.slider.getMobilizedBodyIndex()); qi.push_back(MobilizerQIndex(0)); b.push_back(M.b1.getMobilizedBodyIndex()); qi.push_back(MobilizerQIndex(1));
        return Constraint(Constraint::CoordinateCoupler(M.matter, new FnCC(), b, qi)); }},
    {"SpeedCoupler", Exact, [&](Model& M){ Array_<MobilizedBodyIndex> b, cb; Array_<MobilizerUIndex> ui; Array_<MobilizerQIndex> qi; b.push_back(M.pin.getMobilizedBodyIndex()); ui.push_back(MobilizerUIndex(0));
        b.push_back(M.slider.getMobilizedBodyIndex()); ui.push_back(MobilizerUIndex(0)); cb.push_back(M.b3.getMobilizedBodyIndex()); qi.push_back(MobilizerQIndex(4));
        return Constraint(Constraint::SpeedCoupler(M.matter, new FnSC(), b, ui, cb, qi)); }},
    {"PrescribedMotion", Exact, [&](Model& M){ return Constraint(Constraint::PrescribedMotion(M.matter, new Function::Sinusoid(0.7,1.3,0.2), M.pin.getMobilizedBodyIndex(), MobilizerQIndex(0))); }},
    {"ConstantAcceleration", Exact, [&](Model& M){ return Constraint(Constraint::ConstantAcceleration(M.pin, MobilizerUIndex(0), 1.3)); }},
  };
  for (const Case& c : cases) for (int config=0; config<2; ++config) {
    try { runCase(c, config, seed, 4); }
    catch (const std::exception& e) { printf("%s: EXCEPTION %s\n", c.name.c_str(), e.what()); bad++; }
  }
  printf("c07_replay: %d checks, %d mismatches, %d deviations from the strict reading (reported, not counted)\n", checks, bad, deviations);
  if (bad) { printf("REPRODUCED: %d relation(s) of the derivative hierarchy / adjoint forces fail on the real code\n", bad); return 1; }
  printf("NOT-REPRODUCED\n");
  return 0;
}
