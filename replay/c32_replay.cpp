// Native replay for C32: compiles the REAL String.cpp of the current tree into this driver (the
// rest of SimTKcommon comes from the private library build) and evaluates the postcondition
// "conversion succeeds exactly for strings that denote a value of the requested type apart from
// surrounding white space" on concrete strings, with an oracle that does not use iostreams
// (strtod/strtol on the trimmed text + the documented special literals).
//   usage: c32_replay conv <double|float|bool|int> <text>
//          c32_replay chars
#include <cstdio>
#include <cstdlib>
#include <cstring>
#include <cerrno>
#include <cmath>
#include <string>
#include <sstream>
#include REPO_STRING_CPP
using namespace SimTK;

static std::string trimLower(const std::string& s) {
  size_t a = 0, b = s.size();
  while (a < b && strchr(" \t\n\v\f\r", s[a])) a++;
  while (b > a && strchr(" \t\n\v\f\r", s[b-1])) b--;
  std::string r = s.substr(a, b - a);
  for (auto& c : r) if (c >= 'A' && c <= 'Z') c = (char)(c - 'A' + 'a');
  return r;
}
// 1 valid, 0 invalid, -1 oracle abstains (forms strtod accepts and operator>> does not, overflow)
static int oracleFP(const std::string& raw, int& cls) {
  std::string t = trimLower(raw);
  static const char* sp[] = {"nan","inf","infinity","+inf","+infinity","-inf","-infinity"};
  for (auto l : sp) if (t == l) { cls = 1; return 1; }
  cls = 0;
  if (t.empty()) return 0;
  if (t.find_first_not_of("0123456789+-.e") != std::string::npos) {
    // contains a character no decimal literal has: invalid unless strtod-only syntax (hex, nan(...))
    if (t.find_first_of("xnipa(") != std::string::npos && t.find_first_not_of("0123456789+-.eabcdfxnipty()") == std::string::npos) {
      // could be hex float / inf / nan spelled in a way only strtod knows: still "not a literal operator>> accepts"
    }
    return 0;
  }
  errno = 0; char* end = 0; strtod(t.c_str(), &end);
  if (errno == ERANGE) return -1;
  return (end == t.c_str() + t.size() && end != t.c_str()) ? 1 : 0;
}
static int oracleInt(const std::string& raw, bool asBool) {
  std::string t = trimLower(raw);
  if (asBool && (t == "true" || t == "false")) return 1;
  if (t.empty() || t.find_first_not_of("0123456789+-") != std::string::npos) return 0;
  errno = 0; char* end = 0; long v = strtol(t.c_str(), &end, 10);
  if (errno == ERANGE) return -1;
  if (!(end == t.c_str() + t.size() && end != t.c_str())) return 0;
  if (asBool) return (v == 0 || v == 1) ? 1 : 0;
  return (v >= -2147483647L - 1 && v <= 2147483647L) ? 1 : -1;
}

int main(int argc, char** argv) {
  if (argc < 2) return 2;
  std::string m = argv[1];
  if (m == "conv" && argc >= 4) {
    std::string ty = argv[2]; String s(argv[3]);
    bool got = false; int want = -1; char val[64] = "";
    if (ty == "double") { double d = 0; got = s.tryConvertToDouble(d); int c; want = oracleFP(argv[3], c); snprintf(val, 64, "%.17g", d); }
    else if (ty == "float") { float f = 0; got = s.tryConvertToFloat(f); int c; want = oracleFP(argv[3], c); snprintf(val, 64, "%.9g", (double)f); }
    else if (ty == "bool") { bool b = false; got = s.tryConvertToBool(b); want = oracleInt(argv[3], true); snprintf(val, 64, "%d", (int)b); }
    else if (ty == "int") { int i = 0; got = s.tryConvertTo<int>(i); want = oracleInt(argv[3], false); snprintf(val, 64, "%d", i); }
    else return 2;
    printf("tryConvertTo<%s>(\"%s\") -> %s (out=%s); text %s a valid %s literal apart from surrounding white space\n", ty.c_str(), argv[3],
           got ? "true" : "false", val, want == 1 ? "IS" : want == 0 ? "is NOT" : "(oracle abstains)", ty.c_str());
    if (want < 0 || (int)got == want) { printf("NOT-REPRODUCED\n"); return 0; }
    printf(got ? "REPRODUCED: conversion succeeded although characters trail the literal / text is not a literal\n"
               : "REPRODUCED: conversion failed for a valid literal\n");
    return 1;
  }
  if (m == "chars") {
    const char* tests[] = {"", " ", "  \t\n", "a", " a", "a ", " A b ", "\t\r\n  HeLLo World \v\f", "x\ty", "  +INFINITY  ", "\xC3\x84 \xE9 "};
    bool ok = true;
    for (auto t : tests) {
      std::string in(t);
      String tr = String::trimWhiteSpace(in);
      String cl = String(in).trimWhiteSpace().toLower();
      std::string ref = trimLower(in);
      std::string reft; { size_t a = 0, b = in.size(); while (a < b && strchr(" \t\n\v\f\r", in[a])) a++; while (b > a && strchr(" \t\n\v\f\r", in[b-1])) b--; reft = in.substr(a, b - a); }
      if (std::string(tr) != reft || std::string(cl) != ref) { ok = false; printf("mismatch on \"%s\": trim=\"%s\" clean=\"%s\"\n", t, tr.c_str(), cl.c_str()); }
    }
    printf(ok ? "NOT-REPRODUCED\n" : "REPRODUCED: trimWhiteSpace/toLower differ from the character-level specification\n");
    return ok ? 0 : 1;
  }
  return 2;
}
