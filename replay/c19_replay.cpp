// C19 native replay driver. Compiled by checks/c19.py together with the CURRENT tree's AbstractIntegratorRep.cpp and
// Integrator.cpp (they interpose the copies in the private library build), linked against /verif/.build.
// Modes:
//   refusal            EndOfSimulation, then reinitialize(Stage::Position,false) as TimeStepper does after a Termination
//                      handler, then stepTo again: must throw (finding F6, fixed by 33dc527e)
//   window             witness of open finding F7: report time of a later call strictly inside an earlier-localised window
//   seq <seed> <n>     fallback witness search: n random request sequences on every AbstractIntegratorRep-based integrator,
//                      the C19 postconditions evaluated natively after every call
// Prints "REPRODUCED: <what>" when a postcondition of the property is violated on the real code, "NOT-REPRODUCED" otherwise.
#include "Simbody.h"
#include <cstdio>
#include <cstdlib>
#include <string>
#include <random>
using namespace SimTK;

class Wit : public TriggeredEventHandler {
public:
    Wit(Real c, bool rising, bool falling) : TriggeredEventHandler(Stage::Position), c(c) {
        getTriggerInfo().setTriggerOnRisingSignTransition(rising);
        getTriggerInfo().setTriggerOnFallingSignTransition(falling);
    }
    Real getValue(const State& s) const override { return s.getQ()[0] - c; }
    void handleEvent(State&, Real, bool&) const override {}
    Real c;
};

struct Model {
    MultibodySystem sys; SimbodyMatterSubsystem matter; GeneralForceSubsystem forces;
    Force::UniformGravity* g; MobilizedBody::Pin* pin; State s;
    Model(Real c, bool withEvent = true) : matter(sys), forces(sys) {
        g = new Force::UniformGravity(forces, matter, Vec3(0, -9.8, 0));
        Body::Rigid body(MassProperties(1.0, Vec3(0), Inertia(1)));
        pin = new MobilizedBody::Pin(matter.Ground(), Transform(), body, Transform(Vec3(0, 1, 0)));
        if (withEvent) sys.addEventHandler(new Wit(c, true, true));
        s = sys.realizeTopology(); pin->setQ(s, 1.0);
    }
};

static const char* S(Integrator::SuccessfulStepStatus st) { static std::string s; s = Integrator::getSuccessfulStepStatusString(st); return s.c_str(); }

static int refusal() {
    Model m(0.3);
    RungeKuttaMersonIntegrator integ(m.sys);
    integ.setFinalTime(1.0);
    integ.initialize(m.s);
    int nEnd = 0, calls = 0; bool threw = false;
    for (int i = 0; i < 200 && !threw; i++) {
        Integrator::SuccessfulStepStatus st;
        try { st = integ.stepTo(10.0); calls++; } catch (std::exception& e) { threw = true; break; }
        if (st == Integrator::ReachedEventTrigger) integ.reinitialize(Stage::Report, false);
        if (st == Integrator::EndOfSimulation) {
            nEnd++;
            printf("EndOfSimulation #%d at t=%.17g\n", nEnd, integ.getTime());
            if (nEnd >= 3) break;
            integ.reinitialize(Stage::Position, false);   // what TimeStepperRep::stepTo does after a Termination handler that changed the state
        } else if (nEnd > 0) {
            printf("after EndOfSimulation: stepTo returned %s instead of refusing\n", S(st));
        }
    }
    if (nEnd > 1 || (nEnd == 1 && !threw)) { printf("REPRODUCED: EndOfSimulation returned %d times / stepping not refused after reinitialize()\n", nEnd); return 1; }
    printf("NOT-REPRODUCED (EndOfSimulation once, then stepTo threw)\n");
    return 0;
}

// F7: first run learns the window, second identical run asks for a report at R1 <= tLow, then for R2 inside the window.
static int window() {
    Real tLow = NaN, tHigh = NaN, tStepStart = 0;
    {
        Model m(0.3); RungeKuttaMersonIntegrator integ(m.sys); integ.initialize(m.s);
        for (int i = 0; i < 1000; i++) {
            Real before = integ.getAdvancedTime();
            Integrator::SuccessfulStepStatus st = integ.stepTo(0.6129);       // a report a little before the crossing at ~0.61293
            if (st == Integrator::ReachedReportTime) break;
        }
        printf("run1: ReachedReportTime t=%.17g advanced=%.17g\n", integ.getTime(), integ.getAdvancedTime());
        Integrator::SuccessfulStepStatus st = integ.stepTo(100.0);
        if (st != Integrator::ReachedEventTrigger) { printf("NOT-REPRODUCED (no pending event after the report: %s)\n", S(st)); return 0; }
        Vec2 w = integ.getEventWindow(); tLow = w[0]; tHigh = w[1];
        printf("run1: pending window (%.17g, %.17g]\n", tLow, tHigh);
    }
    int bad = 0;
    {   // (a) later call's report time strictly inside the window that is then reported
        Model m(0.3); RungeKuttaMersonIntegrator integ(m.sys); integ.initialize(m.s);
        for (int i = 0; i < 1000; i++) if (integ.stepTo(0.6129) == Integrator::ReachedReportTime) break;
        const Real R2 = tLow + (tHigh - tLow) / 2;
        Integrator::SuccessfulStepStatus st = integ.stepTo(R2);
        if (st == Integrator::ReachedEventTrigger) {
            Vec2 w = integ.getEventWindow();
            printf("run2: stepTo(%.17g) -> %s window (%.17g, %.17g]\n", R2, S(st), w[0], w[1]);
            if (w[0] < R2 && R2 < w[1]) { printf("REPRODUCED: report time %.17g lies strictly inside the reported event window (%.17g,%.17g] [later-call-report-time-inside-earlier-window]\n", R2, w[0], w[1]); bad++; }
            // (b) after the event return, a report inside the already reported window is delivered as an ordinary report
            integ.reinitialize(Stage::Report, false);
            st = integ.stepTo(R2);
            printf("run2: stepTo(%.17g) again -> %s t=%.17g\n", R2, S(st), integ.getTime());
            if (st == Integrator::ReachedReportTime && w[0] < integ.getTime() && integ.getTime() < w[1])
                printf("REPRODUCED: a state at %.17g strictly inside the reported window is returned as a report [later-call-report-time-inside-earlier-window]\n", integ.getTime());
        } else printf("run2: stepTo(%.17g) -> %s t=%.17g\n", R2, S(st), integ.getTime());
    }
    if (!bad) printf("NOT-REPRODUCED\n");
    return bad;
}

static Integrator* makeInteg(int k, const System& sys) {
    switch (k) {
    case 0: return new RungeKuttaMersonIntegrator(sys);
    case 1: return new RungeKutta3Integrator(sys);
    case 2: return new RungeKutta2Integrator(sys);
    case 3: return new RungeKuttaFeldbergIntegrator(sys);
    case 4: return new VerletIntegrator(sys);
    case 5: return new ExplicitEulerIntegrator(sys);
    case 6: return new SemiExplicitEulerIntegrator(sys, 0.003);
    default: return new SemiExplicitEuler2Integrator(sys);
    }
}

static int seq(unsigned seed, int n) {
    std::mt19937 rng(seed);
    auto U = [&](Real a, Real b) { return a + (b - a) * (Real)(rng() % 1000001) / 1000000.0; };
    int bad = 0;
    for (int it = 0; it < n && bad < 5; it++) {
        Model m(U(-0.8, 0.9), rng() % 4 != 0);
        const int kind = rng() % 8; if (getenv("C19_VERBOSE")) { printf("seq %d kind %d\n", it, kind); fflush(stdout); }
        Integrator* integ = makeInteg(kind, m.sys);
        const Real F = (rng() % 3 == 0) ? -1.0 : U(0.2, 2.0);
        if (F != -1.0) integ->setFinalTime(F);
        if (rng() % 3 == 0) integ->setReturnEveryInternalStep(true);
        if (rng() % 3 == 0) integ->setInternalStepLimit(1 + rng() % 4);
        if (rng() % 4 == 0) integ->setAllowInterpolation(false);
        if (rng() % 3 == 0) integ->setAccuracy(U(1e-6, 1e-1));
        integ->initialize(m.s);
        const Real Finf = (F == -1.0) ? Infinity : F;
        Real R = U(0, 0.3), Sch = (rng() % 2) ? Infinity : U(0, 0.5);
        const Real dR = U(0.0005, 0.3), dS = U(0.001, 0.6);
        bool over = false; int nEnd = 0;
        char ctxs[256];
        for (int c = 0; c < 300; c++) {
            const Real t0 = integ->getTime(), a0 = integ->getAdvancedTime();
            const bool pending = a0 > t0;                   // an internal step (and possibly its event window) predates this call
            if (R < t0) R = t0; if (Sch < a0) Sch = a0;    // preconditions of stepTo (+ schedule consistency)
            if (rng() % 7 == 0) R = Sch;                    // coincident values
            if (rng() % 11 == 0 && Finf < Infinity) R = Finf + ((rng() % 2) ? 0.0 : 0.1);   // at / past final
            if (R < t0) R = t0;
            if (R == Infinity && Sch == Infinity && Finf == Infinity) R = t0 + dR;   // nothing would ever stop the integrator
            Integrator::SuccessfulStepStatus st; bool threw = false;
            try {
                if (rng() % 2) st = integ->stepTo(R, Sch);
                else { st = integ->stepBy(R - t0, Sch - t0); if (t0 + (R - t0) != R || t0 + (Sch - t0) != Sch) { R = t0 + (R - t0); Sch = t0 + (Sch - t0); } }
            } catch (std::exception& e) { threw = true; }
            if (getenv("C19_VERBOSE")) { printf(" call %d R=%g S=%g t0=%g a0=%g\n", c, R, Sch, t0, a0); fflush(stdout); }
            snprintf(ctxs, sizeof ctxs, "[seed %u seq %d call %d integ %d R=%.17g S=%.17g F=%.17g t0=%.17g a0=%.17g]", seed, it, c, kind, R, Sch, F, t0, a0);
            if (over) { if (!threw) { printf("REPRODUCED: stepping not refused after EndOfSimulation %s\n", ctxs); bad++; } break; }
            if (threw) { break; }                            // StepFailed etc: not a C19 matter
            const Real t1 = integ->getTime(), a1 = integ->getAdvancedTime();
            #define BAD(msg) { printf("REPRODUCED: %s: %s t=%.17g adv=%.17g %s\n", msg, S(st), t1, a1, ctxs); bad++; break; }
            if (st != Integrator::StartOfContinuousInterval || true) {
                if (t1 > R || t1 > Sch || t1 > Finf) BAD("returned state later than min(report, scheduled, final)");
            }
            if (t1 < t0) BAD("time decreased");
            if (a1 < a0) BAD("advanced time decreased");
            if (a1 > Sch || a1 > Finf) BAD("advanced state passed a scheduled event or the final time");
            if (st == Integrator::ReachedReportTime && !(t1 == R || (t1 == Finf && Finf < R))) BAD("report stop not exactly at the report time");
            if (st == Integrator::ReachedScheduledEvent && t1 != Sch) BAD("scheduled-event stop not exactly at the scheduled time");
            if (st == Integrator::EndOfSimulation) { nEnd++; over = true; if (t1 != Finf) BAD("EndOfSimulation not at the final time"); if (!integ->isSimulationOver()) BAD("EndOfSimulation but not over"); }
            else if (integ->isSimulationOver()) BAD("simulation over without EndOfSimulation");
            if (st == Integrator::ReachedEventTrigger) {
                Vec2 w = integ->getEventWindow();
                if (!(w[0] == t1 && w[1] == a1 && w[0] < w[1])) BAD("event window is not (returned time, advanced time]");
                if ((w[0] < Sch && Sch < w[1]) || (w[0] < Finf && Finf < w[1])) BAD("scheduled or final time strictly inside the event window");
                if (!pending && w[0] < R && R < w[1]) BAD("report time of the stepping call strictly inside the event window");
            }
            if (st == Integrator::TimeHasAdvanced && t1 != a1) BAD("TimeHasAdvanced not at the advanced time");
            // what a time stepper does next
            if (st == Integrator::ReachedReportTime) R = t1 + dR;
            if (st == Integrator::ReachedScheduledEvent) { integ->reinitialize((rng() % 2) ? Stage::Report : Stage::Position, false); Sch = t1 + dS; }
            if (st == Integrator::ReachedEventTrigger || st == Integrator::TimeHasAdvanced) integ->reinitialize((rng() % 2) ? Stage::Report : Stage::Position, false);
            if (st == Integrator::EndOfSimulation) integ->reinitialize((rng() % 2) ? Stage::Report : Stage::Position, false);
        }
        delete integ;
    }
    if (!bad) printf("NOT-REPRODUCED (%d sequences, all postconditions held)\n", n);
    return bad;
}

int main(int argc, char** argv) {
    try {
        std::string mode = argc > 1 ? argv[1] : "";
        if (mode == "refusal") return refusal() ? 1 : 0;
        if (mode == "window") return window() ? 1 : 0;
        if (mode == "seq") return seq(argc > 2 ? atoi(argv[2]) : 1, argc > 3 ? atoi(argv[3]) : 100) ? 1 : 0;
        if (mode == "t1") { printf("NOT-REPRODUCED (t1 block is internal to takeOneStep; use seq)\n"); return 0; }
        printf("usage: c19_replay refusal|window|seq <seed> <n>\n");
    } catch (std::exception& e) { printf("driver exception: %s\nNOT-REPRODUCED\n", e.what()); }
    return 0;
}
