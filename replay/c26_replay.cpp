// C26 native replay: the REAL headers of the current tree (header-only code), instrumented element type.
//   default mode : exhaustive small scope (capacity <= 6, n <= 3: the CBMC bound) + random operation sequences on Array_<Tracked> against
//                  std::vector<int>, checking after every operation: contents/order, size<=capacity, every element constructed exactly once and
//                  destroyed exactly once (address-keyed life-cycle table), no read of a dead object; then the pointer wrappers
//                  (ClonePtr, CloneOnWritePtr, ReferencePtr, ResetOnCopy, ReinitOnCopy).
//                  Prints "REPRODUCED: ..." for every discrepancy, "NOT-REPRODUCED" otherwise.
//   witness-alias / witness-wrap / witness-growWithGap : native witnesses for the defect candidates reported by checks/c26.py (run in a child process).
#include <cstdio>
#include <cstdlib>
#include <cstring>
#include <vector>
#include <map>
#include <set>
#include <string>
#include <random>
#include <unistd.h>
#include <sys/wait.h>
#include <sstream>
#include <iostream>
#include <istream>
#include <ostream>
#include <iterator>
#include <memory>
#include <algorithm>
#include <type_traits>
#include <utility>
#include <initializer_list>
#include <limits>
#include <typeinfo>
#include <stdexcept>
#include <climits>
#include <cassert>
#include <complex>
#include "SimTKcommon/internal/common.h"
#include "SimTKcommon/internal/ExceptionMacros.h"
#define private public      /* after the standard headers: exposes Array_::growWithGap for the witness only */
#define protected public
#include "SimTKcommon/internal/Array.h"
#include "SimTKcommon/internal/ClonePtr.h"
#include "SimTKcommon/internal/CloneOnWritePtr.h"
#include "SimTKcommon/internal/ReferencePtr.h"
#include "SimTKcommon/internal/ResetOnCopy.h"
#include "SimTKcommon/internal/ReinitOnCopy.h"
#undef private
#undef protected
using namespace SimTK;

static long g_blocks = 0;      // outstanding operator new[] blocks (Array_::allocN uses new unsigned char[], freeN delete[])
void* operator new[](std::size_t n) { void* p = std::malloc(n ? n : 1); if (!p) throw std::bad_alloc(); ++g_blocks; return p; }
void operator delete[](void* p) noexcept { if (p) { --g_blocks; std::free(p); } }
void operator delete[](void* p, std::size_t) noexcept { if (p) { --g_blocks; std::free(p); } }
static int g_fail = 0;
static std::string g_ctx;
static void fail(const std::string& what) {
    if (g_fail < 12) printf("REPRODUCED: %s [%s]\n", what.c_str(), g_ctx.c_str());
    ++g_fail;
}

// ---------------------------------------------------------------- instrumented element
struct Tracked {
    static std::set<const Tracked*> live;
    static long nCtor, nDtor, nCopy, nMove, nDefault;
    int val;
    static void born(const Tracked* p) { if (!live.insert(p).second) fail("element constructed twice at the same address (target was not raw storage)"); ++nCtor; }
    static void check(const Tracked* p, const char* what) { if (!live.count(p)) fail(std::string("read of a dead/raw element: ") + what); }
    Tracked() : val(0) { born(this); ++nDefault; }
    explicit Tracked(int v) : val(v) { born(this); }
    Tracked(const Tracked& s) : val(s.val) { check(&s, "copy source"); born(this); ++nCopy; }
    Tracked(Tracked&& s) noexcept : val(s.val) { check(&s, "move source"); born(this); ++nMove; s.val = -777; }
    Tracked& operator=(const Tracked& s) { check(&s, "assign source"); check(this, "assign target"); val = s.val; return *this; }
    ~Tracked() { if (!live.erase(this)) fail("element destroyed twice / raw slot destroyed"); ++nDtor; val = -999; }
};
std::set<const Tracked*> Tracked::live;
long Tracked::nCtor, Tracked::nDtor, Tracked::nCopy, Tracked::nMove, Tracked::nDefault;

typedef Array_<Tracked> Arr;

static void compare(const Arr& a, const std::vector<int>& m, size_t extraLive) {
    if ((size_t)a.size() != m.size()) { fail("size differs from std::vector model"); return; }
    if (a.size() > a.capacity()) fail("size > capacity");
    for (size_t i = 0; i < m.size(); ++i) {
        if (!Tracked::live.count(&a[i])) fail("slot below size() is not a live element");
        if (a[i].val != m[i]) { fail("element value/order differs from std::vector model"); break; }
    }
    if (Tracked::live.size() != m.size() + extraLive) fail("number of live elements != size() (leak or lost element)");
    if ((a.data() == 0) != (a.capacity() == 0)) fail("data()==0 iff capacity()==0 violated");
    if (g_blocks != (a.data() ? 1 : 0)) fail("storage block leaked or freed twice (outstanding new[] blocks != 1)");
}

static void mk(Arr& a, std::vector<int>& m, unsigned cap, unsigned sz, int base) {
    a.reserve(cap);
    for (unsigned i = 0; i < sz; ++i) { Tracked t(base + (int)i); a.push_back(t); m.push_back(base + (int)i); }
}

static void exhaustive() {
    const unsigned CAPMAX = 6, NMAX = 3;
    for (unsigned cap = 0; cap <= CAPMAX; ++cap) for (unsigned sz = 0; sz <= cap; ++sz) {
        for (unsigned k = 0; k <= sz; ++k) for (unsigned n = 0; n <= NMAX; ++n) {            // insert(p,n,v)
            g_ctx = "insert(p,n,v) cap=" + std::to_string(cap) + " size=" + std::to_string(sz) + " k=" + std::to_string(k) + " n=" + std::to_string(n);
            { Arr a; std::vector<int> m; mk(a, m, cap, sz, 10); Tracked v(99);
              long c0 = Tracked::nCopy, mv0 = Tracked::nMove, d0 = Tracked::nDtor; bool re = sz + n > a.capacity();
              Tracked* r = a.insert(a.begin() + k, n, v); m.insert(m.begin() + k, n, 99);
              compare(a, m, 1); if (r != a.begin() + k) fail("insert return value");
              long moved = n == 0 ? 0 : re ? sz : sz - k;
              if (Tracked::nCopy - c0 != (long)n || Tracked::nMove - mv0 != moved || Tracked::nDtor - d0 != moved) fail("insert: constructor/destructor call counts"); }
            if (Tracked::live.size() != 0) { fail("elements alive after array destruction"); Tracked::live.clear(); }
        }
        for (unsigned k = 0; k <= sz; ++k) {                                                   // insert(p,v)
            g_ctx = "insert(p,v) cap=" + std::to_string(cap) + " size=" + std::to_string(sz) + " k=" + std::to_string(k);
            { Arr a; std::vector<int> m; mk(a, m, cap, sz, 10); Tracked v(98); a.insert(a.begin() + k, v); m.insert(m.begin() + k, 98); compare(a, m, 1); }
            Tracked::live.clear();
        }
        for (unsigned i = 0; i <= sz; ++i) for (unsigned j = i; j <= sz; ++j) {                // erase(first,last)
            g_ctx = "erase(first,last) cap=" + std::to_string(cap) + " size=" + std::to_string(sz) + " i=" + std::to_string(i) + " j=" + std::to_string(j);
            { Arr a; std::vector<int> m; mk(a, m, cap, sz, 20); long d0 = Tracked::nDtor, mv0 = Tracked::nMove;
              Tracked* r = a.erase(a.begin() + i, a.begin() + j); m.erase(m.begin() + i, m.begin() + j); compare(a, m, 0);
              if (r != a.begin() + i) fail("erase return value");
              long moved = j > i ? sz - j : 0;
              if (Tracked::nDtor - d0 != (long)(j - i) + moved || Tracked::nMove - mv0 != moved) fail("erase(first,last): destructor/move counts"); }
            Tracked::live.clear();
        }
        for (unsigned i = 0; i < sz; ++i) {                                                     // erase(p), eraseFast(p)
            g_ctx = "erase(p) cap=" + std::to_string(cap) + " size=" + std::to_string(sz) + " i=" + std::to_string(i);
            { Arr a; std::vector<int> m; mk(a, m, cap, sz, 30); a.erase(a.begin() + i); m.erase(m.begin() + i); compare(a, m, 0); }
            Tracked::live.clear();
            g_ctx = "eraseFast(p) cap=" + std::to_string(cap) + " size=" + std::to_string(sz) + " i=" + std::to_string(i);
            { Arr a; std::vector<int> m; mk(a, m, cap, sz, 30); a.eraseFast(a.begin() + i); m[i] = m.back(); m.pop_back(); compare(a, m, 0); }
            Tracked::live.clear();
        }
        g_ctx = "push_back/pop_back/clear/shrink_to_fit cap=" + std::to_string(cap) + " size=" + std::to_string(sz);
        { Arr a; std::vector<int> m; mk(a, m, cap, sz, 40); unsigned c0 = a.capacity(); Tracked v(97); a.push_back(v); m.push_back(97); compare(a, m, 1);
          if (sz == c0 && a.capacity() <= c0) fail("push_back on a full array did not grow");
          if (sz == c0 && a.capacity() < 2 * c0) fail("push_back growth: capacity must at least double (amortised O(1))");
          a.push_back(Tracked(96)); m.push_back(96); compare(a, m, 1); a.push_back(); m.push_back(0); compare(a, m, 1);
          a.pop_back(); m.pop_back(); compare(a, m, 1); a.shrink_to_fit(); compare(a, m, 1); if (a.capacity() < a.size()) fail("shrink_to_fit below size");
          long d0 = Tracked::nDtor; size_t s0 = a.size(); a.clear(); m.clear(); compare(a, m, 1); if (Tracked::nDtor - d0 != (long)s0) fail("clear: one destructor call per element");
          a.shrink_to_fit(); if (a.data() != 0 || a.capacity() != 0) fail("shrink_to_fit of an empty array must free all heap space"); }
        Tracked::live.clear();
        for (unsigned n = 0; n <= CAPMAX + NMAX; ++n) {                                         // resize / reserve
            g_ctx = "resize/reserve cap=" + std::to_string(cap) + " size=" + std::to_string(sz) + " n=" + std::to_string(n);
            { Arr a; std::vector<int> m; mk(a, m, cap, sz, 50); a.resize(n); m.resize(n, 0); compare(a, m, 0); if (a.capacity() < n) fail("resize: capacity < n"); }
            Tracked::live.clear();
            { Arr a; std::vector<int> m; mk(a, m, cap, sz, 50); Tracked v(95); a.resize(n, v); m.resize(n, 95); compare(a, m, 1); }
            Tracked::live.clear();
            { Arr a; std::vector<int> m; mk(a, m, cap, sz, 50); unsigned c0 = a.capacity(); const Tracked* d0 = a.data(); a.reserve(n); compare(a, m, 0);
              if (a.capacity() < n || a.capacity() < c0) fail("reserve: capacity"); if (n <= c0 && a.data() != d0) fail("reserve within capacity reallocated"); }
            Tracked::live.clear();
        }
        g_ctx = "swap cap=" + std::to_string(cap) + " size=" + std::to_string(sz);
        { Arr a, b; std::vector<int> ma, mb; mk(a, ma, cap, sz, 60); mk(b, mb, 3, 2, 70); long c0 = Tracked::nCtor, d0 = Tracked::nDtor;
          a.swap(b); if (Tracked::nCtor != c0 || Tracked::nDtor != d0) fail("swap called constructors/destructors");
          if ((size_t)a.size() != mb.size() || (size_t)b.size() != ma.size()) fail("swap sizes");
          for (size_t i = 0; i < mb.size() && i < (size_t)a.size(); ++i) if (a[i].val != mb[i]) fail("swap contents");
          for (size_t i = 0; i < ma.size() && i < (size_t)b.size(); ++i) if (b[i].val != ma[i]) fail("swap contents"); }
        Tracked::live.clear();
    }
}

static void randomSequences(unsigned seed, int nseq, int len) {
    std::mt19937 rng(seed);
    for (int s = 0; s < nseq; ++s) {
        { Arr a; std::vector<int> m;
          for (int step = 0; step < len; ++step) {
              int op = rng() % 12; unsigned sz = a.size(); int v = (int)(rng() % 1000);
              g_ctx = "random sequence " + std::to_string(s) + " step " + std::to_string(step) + " op " + std::to_string(op) + " size " + std::to_string(sz);
              switch (op) {
              case 0: { Tracked t(v); a.push_back(t); m.push_back(v); break; }
              case 1: if (sz) { a.pop_back(); m.pop_back(); } break;
              case 2: { unsigned k = rng() % (sz + 1), n = rng() % 5; Tracked t(v); a.insert(a.begin() + k, n, t); m.insert(m.begin() + k, n, v); break; }
              case 3: { unsigned k = rng() % (sz + 1); Tracked t(v); a.insert(a.begin() + k, t); m.insert(m.begin() + k, v); break; }
              case 4: if (sz) { unsigned i = rng() % (sz + 1), j = i + rng() % (sz - i + 1); a.erase(a.begin() + i, a.begin() + j); m.erase(m.begin() + i, m.begin() + j); } break;
              case 5: if (sz) { unsigned i = rng() % sz; a.erase(a.begin() + i); m.erase(m.begin() + i); } break;
              case 6: if (sz) { unsigned i = rng() % sz; a.eraseFast(a.begin() + i); m[i] = m.back(); m.pop_back(); } break;
              case 7: { unsigned n = rng() % 20; a.resize(n); m.resize(n, 0); break; }
              case 8: { unsigned n = rng() % 20; Tracked t(v); a.resize(n, t); m.resize(n, v); break; }
              case 9: a.reserve(rng() % 40); break;
              case 10: a.shrink_to_fit(); break;
              case 11: if (rng() % 8 == 0) { a.clear(); m.clear(); } else { Arr b(a); if ((size_t)b.size() != m.size()) fail("copy constructor size"); a = b; } break;
              }
              compare(a, m, 0);
              if (g_fail) return;
          } }
        if (!Tracked::live.empty()) { fail("elements alive after array destruction"); Tracked::live.clear(); }
    }
}

// ---------------------------------------------------------------- pointer wrappers
struct Obj {
    static long nLive, nClone; int val;
    explicit Obj(int v) : val(v) { ++nLive; }
    Obj(const Obj& o) : val(o.val) { ++nLive; }
    ~Obj() { --nLive; }
    Obj* clone() const { ++nClone; return new Obj(*this); }
};
long Obj::nLive, Obj::nClone;

static void pointerWrappers() {
    g_ctx = "ClonePtr";
    { ClonePtr<Obj> a(new Obj(5)); long c0 = Obj::nClone; ClonePtr<Obj> b(a);
      if (Obj::nClone != c0 + 1 || b.get() == a.get() || b->val != 5) fail("ClonePtr copy must be a distinct object with equal value, immediately");
      b.upd()->val = 6; if (a.get()->val != 5) fail("ClonePtr copies not independent");
      ClonePtr<Obj> c; c = a; if (c.get() == a.get() || c.get()->val != 5) fail("ClonePtr copy assignment");
      c = c; if (c.get()->val != 5) fail("ClonePtr self assignment");
      ClonePtr<Obj> d(std::move(c)); if (!c.empty() || d.get()->val != 5) fail("ClonePtr move"); }
    if (Obj::nLive != 0) fail("ClonePtr leaked or double-deleted an object"); Obj::nLive = 0;
    g_ctx = "CloneOnWritePtr";
    { CloneOnWritePtr<Obj> a(new Obj(7)); long c0 = Obj::nClone; CloneOnWritePtr<Obj> b(a), c; c = a;
      if (Obj::nClone != c0 || b.get() != a.get() || a.use_count() != 3) fail("CloneOnWritePtr copies must share until the first write; use count == number of handles");
      Obj* w = b.upd();
      if (Obj::nClone != c0 + 1 || w == a.get() || w->val != 7 || b.use_count() != 1 || a.use_count() != 2) fail("CloneOnWritePtr still sharing after upd() / wrong use counts");
      w->val = 8; if (a.get()->val != 7 || c.get()->val != 7) fail("CloneOnWritePtr write visible through another handle");
      Obj* w2 = a.upd(); if (w2 == c.get() || a.use_count() != 1 || c.use_count() != 1) fail("CloneOnWritePtr detach of the original");
      long c1 = Obj::nClone; c.upd(); if (Obj::nClone != c1) fail("CloneOnWritePtr cloned although unique");
      CloneOnWritePtr<Obj> d(std::move(c)); if (!c.empty() || d.use_count() != 1) fail("CloneOnWritePtr move");
      d.reset(); if (!d.empty() || d.use_count() != 0) fail("CloneOnWritePtr reset"); }
    if (Obj::nLive != 0) fail("CloneOnWritePtr leaked or double-deleted an object"); Obj::nLive = 0;
    { CloneOnWritePtr<Obj> x(new Obj(1)); { CloneOnWritePtr<Obj> y(x); CloneOnWritePtr<Obj> z; z = x; z.reset(); }
      if (Obj::nLive != 1 || x.use_count() != 1) fail("CloneOnWritePtr: destroying/resetting a sharing handle must only drop the use count"); else if (x.get()->val != 1) fail("CloneOnWritePtr value"); }
    Obj::nLive = 0;
    g_ctx = "ReferencePtr";
    { Obj o(1); ReferencePtr<Obj> r(&o); ReferencePtr<Obj> s(r); if (!s.empty() || r.get() != &o) fail("ReferencePtr copy must be empty, source unchanged");
      ReferencePtr<Obj> t(&o); t = r; if (!t.empty()) fail("ReferencePtr copy assignment must reset the destination");
      ReferencePtr<Obj> u(std::move(r)); if (u.get() != &o || !r.empty()) fail("ReferencePtr move"); }
    g_ctx = "ResetOnCopy";
    { ResetOnCopy<int> a(5); ResetOnCopy<int> b(a); if ((int)b != 0 || (int)a != 5) fail("ResetOnCopy<int> copy must be value-initialised, source unchanged");
      ResetOnCopy<int> c(9); c = a; if ((int)c != 0) fail("ResetOnCopy<int> copy assignment must reset");
      ResetOnCopy<int> d(std::move(a)); if ((int)d != 5) fail("ResetOnCopy<int> move keeps the value");
      ResetOnCopy<std::string> s(std::string("hello")); ResetOnCopy<std::string> t(s); if (!t.getT().empty() || s.getT() != "hello") fail("ResetOnCopy<string> copy must be default-constructed");
      ResetOnCopy<std::string> w(std::string("x")); w = s; if (!w.getT().empty()) fail("ResetOnCopy<string> copy assignment must reset"); }
    g_ctx = "ReinitOnCopy";
    { ReinitOnCopy<int> a(5); a = 6; ReinitOnCopy<int> b(a); if ((int)b != 5 || (int)a != 6) fail("ReinitOnCopy<int> copy must carry the initial value, not the current one");
      ReinitOnCopy<int> c(9); c = 10; c = a; if ((int)c != 9) fail("ReinitOnCopy<int> copy assignment must reinitialise to ITS OWN initial value");
      ReinitOnCopy<std::string> s(std::string("init")); s = std::string("now"); ReinitOnCopy<std::string> t(s); if (t.getT() != "init") fail("ReinitOnCopy<string> copy"); }
}

// ---------------------------------------------------------------- defect witnesses (child process)
static int inChild(void (*f)()) {
    fflush(stdout); pid_t p = fork();
    if (p == 0) { alarm(20); f(); fflush(stdout); _exit(g_fail ? 3 : 0); }
    int st = 0; waitpid(p, &st, 0);
    if (WIFSIGNALED(st)) { printf("child killed by signal %d (last context printed above, if any)\n", WTERMSIG(st)); return 128 + WTERMSIG(st); }
    return WEXITSTATUS(st);
}
static void wAlias() {      // std::vector semantics: v.push_back(v[0]) and v.insert(p, n, v[i]) are valid
    g_ctx = "push_back(a[0]) on a full array";
    { Arr a; a.reserve(4); for (int i = 0; i < 4; ++i) a.push_back(Tracked(i + 1)); a.push_back(a[0]);
      if (a.size() != 5 || a[4].val != 1) fail("push_back(a[0]) with reallocation: new element is not a copy of a[0]"); }
    Tracked::live.clear();
    g_ctx = "insert(begin(), 2, a[2]) within capacity";
    { Arr a; a.reserve(8); for (int i = 0; i < 4; ++i) a.push_back(Tracked(i + 1)); a.insert(a.begin(), 2, a[2]);
      if (a[0].val != 3 || a[1].val != 3) fail("insert(p,n,a[i]): inserted copies differ from the value a[i] had at the call"); }
}
static void wWrap() {       // size()+n wraps in size_type: the max_size check is skipped
    Array_<int> a(10, 1); a.reserve(16);
    try { a.insert(a.end(), 0xFFFFFFFAu, 7); printf("no exception; size now %u\n", (unsigned)a.size()); fail("insert(end(), 0xFFFFFFFA, v) did not throw"); }
    catch (const std::exception& e) { printf("threw as documented: %.60s\n", e.what()); }
}
static void wGrowWithGap() {
    Arr a; for (int i = 0; i < 4; ++i) a.push_back(Tracked(i + 1));
    Tracked* gap = a.growWithGap(a.begin() + 1, 1, "witness");   // leaves size() at 4; elements 1..3 should now live at 2..4
    (void)gap;
    size_t nl = Tracked::live.size();
    if (nl != 4) fail("growWithGap(begin()+1, 1): " + std::to_string(nl) + " live elements instead of 4 (moved past the end of the range)");
}

static void runAll() {
    exhaustive();
    if (!g_fail) randomSequences(12345u, 300, 300);
    if (!g_fail) pointerWrappers();
    if (g_fail) printf("%d discrepancies in total\n", g_fail);
    else printf("NOT-REPRODUCED: Array_<Tracked> agrees with std::vector on the exhaustive small scope (capacity<=6, n<=3) and 300 random sequences of 300 operations; "
                "pointer wrappers behave as specified; constructed=%ld destroyed=%ld\n", Tracked::nCtor, Tracked::nDtor);
}

int main(int argc, char** argv) {
    std::string mode = argc > 1 ? argv[1] : "default";
    if (mode == "witness-alias") { int rc = inChild(wAlias); printf("witness-alias rc=%d\n", rc); return 0; }
    if (mode == "witness-wrap") { int rc = inChild(wWrap); printf("witness-wrap rc=%d (139 = SIGSEGV)\n", rc);
        if (rc >= 128) printf("REPRODUCED: insert(end(), 0xFFFFFFFA, v) on Array_<int> of size 10 crashed (signal %d) instead of throwing the max_size exception\n", rc - 128);
        return 0; }
    if (mode == "witness-growWithGap") { int rc = inChild(wGrowWithGap); printf("witness-growWithGap rc=%d\n", rc); return 0; }
    // the differential run happens in a child process: a crash of the real code (out-of-bounds write, endless move loop) is a reproduction too
    int rc = inChild(runAll);
    if (rc >= 128) printf("REPRODUCED: the real code crashed in the differential run (signal %d; 14 = ran into the 20 s alarm: endless loop)\n", rc - 128);
    return 0;
}
