// C22 native replay driver (compiled with the CURRENT tree's AbstractIntegratorRep.cpp/Integrator.cpp, linked to /verif/.build).
//   classify            exhaustive check of the real sign()/classifyTransition/maskTransition/calcTransitionMask/
//                       calcTransitionToReport composition against the property predicate (values incl. 0, NaN, inf)
//   localize <seed> <n> n random pendulum runs on every AbstractIntegratorRep integrator: on every ReachedEventTrigger the
//                       returned state is at tLow, advanced at tHigh, witness signs at tLow/tHigh bracket a crossing in the
//                       reported (monitored) direction, width <= max(accuracy*timescale*window, SignificantReal*max(1,t))
//   fec <seed> <n>      the real IntegratorRep::findEventCandidates (inline in the CURRENT tree's IntegratorRep.h) on random witness
//                       vectors and trigger settings, first without and then with a viable list, against a reference scan written
//                       from the property text: equal lengths, exactly the monitored sign changes, in order, estimates in the
//                       bracket, earliestTimeEst == min, minWindow <= narrowestWindow <= every candidate's requirement
//   schedule            finding F9: two subsystems with scheduled events at t=5 (earlier subsystem) and t=2: ids delivered for t=2, handler log
//   timestepper <seed> <n>  TimeStepper runs (CURRENT tree's TimeStepper.cpp compiled into the driver) on a force-free pin joint with
//                       a scheduled handler (random times; it teleports q,u), a periodic reporter and a triggered handler, all
//                       logging: every scheduled time handled exactly once at exactly that time, reports exactly at their times,
//                       triggered handler at the top of the localised window, motion after a handler continues from the state
//                       the handler produced, returns never past the requested time
// Prints "REPRODUCED: ..." on a violation, "NOT-REPRODUCED" otherwise.
#include <cstdio>
#include <cstdlib>
#include <cmath>
#include <string>
#include <random>
#include <vector>
#include <algorithm>
#include <sstream>
#include <iostream>
#include <map>
#include <set>
#define private public
#define protected public
#include "Simbody.h"
#include "IntegratorRep.h"
#undef private
#undef protected
using namespace SimTK;

static int classify() {
    const Real vals[] = {-Infinity, -1.0, -1e-300, -0.0, 0.0, 1e-300, 2.0, Infinity, NaN};
    int bad = 0;
    for (Real lo : vals) for (Real hi : vals) for (int r = 0; r < 2; r++) for (int f = 0; f < 2; f++) {
        EventTriggerInfo info; info.setTriggerOnRisingSignTransition(r != 0); info.setTriggerOnFallingSignTransition(f != 0);
        Event::Trigger seen = Event::maskTransition(Event::classifyTransition(sign(lo), sign(hi)), info.calcTransitionMask());
        const bool falling = lo > 0 && !(hi > 0) && f, rising = lo < 0 && !(hi < 0) && r;
        bool ok = (seen != Event::NoEventTrigger) == (falling || rising);
        if (ok && seen != Event::NoEventTrigger) {
            Event::Trigger rep = info.calcTransitionToReport(seen);
            ok = ((rep == Event::Falling) == falling) && ((rep == Event::Rising) == rising);
        }
        if (!ok) { printf("REPRODUCED: eLow=%g eHigh=%g rising=%d falling=%d -> seen=%d (expected falling=%d rising=%d)\n", lo, hi, r, f, (int)seen, falling, rising); bad++; }
    }
    if (!bad) printf("NOT-REPRODUCED (classification agrees with the property on %d cases)\n", 9 * 9 * 4);
    return bad;
}

struct Wit : public TriggeredEventHandler {
    Wit(Real c, bool r, bool f) : TriggeredEventHandler(Stage::Position), c(c) {
        getTriggerInfo().setTriggerOnRisingSignTransition(r); getTriggerInfo().setTriggerOnFallingSignTransition(f); }
    Real getValue(const State& s) const override { return s.getQ()[0] - c; }
    void handleEvent(State&, Real, bool&) const override {}
    Real c;
};
static Integrator* makeInteg(int k, const System& sys) {
    switch (k) { case 0: return new RungeKuttaMersonIntegrator(sys); case 1: return new RungeKutta3Integrator(sys);
    case 2: return new RungeKutta2Integrator(sys); case 3: return new RungeKuttaFeldbergIntegrator(sys);
    case 4: return new VerletIntegrator(sys); case 5: return new ExplicitEulerIntegrator(sys);
    case 6: return new SemiExplicitEulerIntegrator(sys, 0.003); default: return new SemiExplicitEuler2Integrator(sys); }
}
static int localize(unsigned seed, int n) {
    std::mt19937 rng(seed);
    auto U = [&](Real a, Real b) { return a + (b - a) * (Real)(rng() % 1000001) / 1000000.0; };
    int bad = 0, events = 0, notBracketing = 0;
    for (int it = 0; it < n && bad < 5; it++) {
        MultibodySystem sys; SimbodyMatterSubsystem matter(sys); GeneralForceSubsystem forces(sys);
        Force::UniformGravity g(forces, matter, Vec3(0, -9.8, 0));
        Body::Rigid body(MassProperties(1.0, Vec3(0), Inertia(1)));
        MobilizedBody::Pin pin(matter.Ground(), Transform(), body, Transform(Vec3(0, 1, 0)));
        const Real c = U(-0.9, 0.9); const bool r = rng() % 3 != 0, f = rng() % 3 != 0;
        sys.addEventHandler(new Wit(c, r, f));
        State s = sys.realizeTopology(); pin.setQ(s, 1.0);
        const int kind = rng() % 8;
        Integrator* integ = makeInteg(kind, sys);
        if (rng() % 2) integ->setAccuracy(U(1e-6, 1e-2));
        integ->initialize(s);
        Real R = U(0.01, 0.2); const Real dR = U(0.01, 0.3);
        for (int k = 0; k < 200 && integ->getTime() < 3.0; k++) {
            Integrator::SuccessfulStepStatus st;
            try { st = integ->stepTo(R); } catch (std::exception&) { break; }
            if (st == Integrator::ReachedReportTime) R = integ->getTime() + dR;
            if (st != Integrator::ReachedEventTrigger) continue;
            events++;
            const Vec2 w = integ->getEventWindow();
            const Real vLow = integ->getState().getQ()[0] - c, vHigh = integ->getAdvancedState().getQ()[0] - c;
            const Real tol = std::max(integ->getAccuracyInUse() * sys.getDefaultTimeScale() * 0.1, SignificantReal * std::max(Real(1), w[1]));
            char ctx[200]; snprintf(ctx, sizeof ctx, "[seed %u run %d integ %d c=%.17g window (%.17g,%.17g] vLow=%g vHigh=%g]", seed, it, kind, c, w[0], w[1], vLow, vHigh);
            if (!(w[0] == integ->getTime() && w[1] == integ->getAdvancedTime() && w[0] < w[1])) { printf("REPRODUCED: returned state not the before-state at tLow / advanced not at tHigh %s\n", ctx); bad++; break; }
            if (w[1] - w[0] > tol * (1 + 1e-12)) { printf("REPRODUCED: event window wider than the localisation tolerance %g %s\n", tol, ctx); bad++; break; }
            const Array_<Event::Trigger>& tr = integ->getEventTransitionsSeen();
            if (tr.size() != 1 || integ->getTriggeredEvents().size() != 1) { printf("REPRODUCED: %d events listed for one witness %s\n", (int)tr.size(), ctx); bad++; break; }
            if (!((tr[0] == Event::Falling && f) || (tr[0] == Event::Rising && r))) {
                printf("REPRODUCED: listed transition %s is not in a monitored direction %s\n", Event::eventTriggerString(tr[0]).c_str(), ctx); bad++; break; }
            // INFO only (trajectory-level, outside the contracts): the state returned at tLow is RE-interpolated after the advanced
            // state was backed up to tHigh, so its witness value need not be the eLow the localisation saw
            const bool falling = vLow > 0 && !(vHigh > 0), rising = vLow < 0 && !(vHigh < 0);
            if (!((tr[0] == Event::Falling && falling) || (tr[0] == Event::Rising && rising))) notBracketing++;
            integ->reinitialize(Stage::Report, false);
        }
        delete integ;
    }
    if (!bad) printf("NOT-REPRODUCED (%d runs, %d localised events, all clauses held; INFO: in %d of them the witness evaluated on the returned before-state/advanced state does not bracket the listed crossing)\n", n, events, notBracketing);
    return bad;
}

// ---------------------------------------------------------------------------------------------------------------------
struct Wit2 : public TriggeredEventHandler {
    Wit2(bool r, bool f, Real w) : TriggeredEventHandler(Stage::Position) {
        getTriggerInfo().setTriggerOnRisingSignTransition(r); getTriggerInfo().setTriggerOnFallingSignTransition(f); getTriggerInfo().setRequiredLocalizationTimeWindow(w); }
    Real getValue(const State& s) const override { return 1; }
    void handleEvent(State&, Real, bool&) const override {}
};
static int fecCheck(const IntegratorRep& rep, int nEvents, const Array_<SystemEventTriggerIndex>* viable, const Array_<Event::Trigger>* viableT,
                    Real tLow, const Vector& eLow, Real tHigh, const Vector& eHigh, Real bias, Real minWindow,
                    Array_<SystemEventTriggerIndex>& cand, Array_<Event::Trigger>& trans, const char* ctx) {
    Array_<Real> times; Real earliest = NaN, narrowest = NaN;
    rep.findEventCandidates(nEvents, viable, viableT, tLow, eLow, tHigh, eHigh, bias, minWindow, cand, times, trans, earliest, narrowest);
    std::vector<int> expIdx; std::vector<Event::Trigger> expTr;
    const int nScan = viable ? (int)viable->size() : nEvents;
    Real req = Infinity;
    for (int j = 0; j < nScan; j++) {
        const int e = viable ? (int)(*viable)[j] : j;
        const EventTriggerInfo& info = rep.eventTriggerInfo[e];
        const bool falling = eLow[e] > 0 && !(eHigh[e] > 0) && info.shouldTriggerOnFallingSignTransition(), rising = eLow[e] < 0 && !(eHigh[e] < 0) && info.shouldTriggerOnRisingSignTransition();
        if (falling || rising) { expIdx.push_back(e); expTr.push_back(falling ? Event::Falling : Event::Rising);
            req = std::min(req, std::max(rep.accuracyInUse * rep.timeScaleInUse * info.getRequiredLocalizationTimeWindow(), minWindow)); }
    }
    std::string why;
    if (cand.size() != times.size() || times.size() != trans.size()) why = "the three lists differ in length";
    else if (cand.size() != expIdx.size()) why = "number of candidates differs from the number of monitored sign changes";
    else {
        Real mn = Infinity;
        for (unsigned k = 0; k < cand.size() && why.empty(); k++) {
            if ((int)cand[k] != expIdx[k]) why = "candidate index/order differs from the scan of the examined list";
            else if (trans[k] != expTr[k]) why = "reported direction differs";
            else if (!(tLow <= times[k] && times[k] <= tHigh)) why = "estimate outside the bracket";
            mn = std::min(mn, times[k]);
        }
        if (why.empty() && !(earliest == mn)) why = "earliestTimeEst is not the minimum of the estimates";
        if (why.empty() && !(cand.empty() ? narrowest == Infinity : (narrowest >= minWindow && narrowest <= req))) why = "narrowestWindow outside [minWindow, smallest requirement]";
    }
    if (!why.empty()) { printf("REPRODUCED: findEventCandidates: %s %s (n=%d expected %d, earliest=%.17g narrowest=%g)\n", why.c_str(), ctx, (int)cand.size(), (int)expIdx.size(), earliest, narrowest); return 1; }
    return 0;
}
static int fec(unsigned seed, int n) {
    std::mt19937 rng(seed);
    const Real vals[] = {-2.0, -1e-9, 0.0, 1e-9, 3.0};
    int bad = 0, calls = 0;
    for (int it = 0; it < n && bad < 3; it++) {
        MultibodySystem sys; SimbodyMatterSubsystem matter(sys);
        Body::Rigid body(MassProperties(1.0, Vec3(0), Inertia(1)));
        MobilizedBody::Pin pin(matter.Ground(), Transform(), body, Transform(Vec3(0, 1, 0)));
        const int m = 1 + rng() % 6;
        for (int k = 0; k < m; k++) sys.addEventHandler(new Wit2(rng() % 3 != 0, rng() % 3 != 0, 0.01 * (1 + rng() % 50)));
        State s = sys.realizeTopology();
        RungeKuttaMersonIntegrator integ(sys); integ.initialize(s);
        const IntegratorRep& rep = integ.getRep();
        const int nEvents = (int)rep.eventTriggerInfo.size();
        for (int rep_ = 0; rep_ < 20 && bad < 3; rep_++) {
            Vector a(nEvents), b(nEvents), c(nEvents);
            for (int k = 0; k < nEvents; k++) { a[k] = vals[rng() % 5]; b[k] = vals[rng() % 5]; c[k] = vals[rng() % 5]; }
            const Real tLow = 0.25 * (rng() % 8), tHigh = tLow + 0.001 * (1 + rng() % 1000), bias = (rng() % 3 == 0) ? 0.5 : (rng() % 2 ? 1.0 : 2.0), minWindow = 1e-13;
            char ctx[200]; snprintf(ctx, sizeof ctx, "[seed %u system %d case %d, %d triggers, bracket (%g,%g]]", seed, it, rep_, nEvents, tLow, tHigh);
            Array_<SystemEventTriggerIndex> c1, c2; Array_<Event::Trigger> t1, t2;
            bad += fecCheck(rep, nEvents, 0, 0, tLow, a, tHigh, c, bias, minWindow, c1, t1, ctx); calls++;
            if (!c1.empty()) { bad += fecCheck(rep, nEvents, &c1, &t1, tLow, a, (tLow + tHigh) / 2, b, bias, minWindow, c2, t2, ctx); calls++; }
        }
    }
    if (!bad) printf("NOT-REPRODUCED (%d findEventCandidates calls agree with the reference scan)\n", calls);
    return bad;
}

// ---------------------------------------------------------------------------------------------------------------------
struct TSLog { std::vector<Real> sched, report, trigAdv; std::vector<std::pair<Real, Vec2> > teleports; Real lastTeleT = -1, lastQ = 0, lastU = 0; };
struct SchedH : public ScheduledEventHandler {
    SchedH(std::vector<Real> t, TSLog* log, std::mt19937* rng) : times(t), log(log), rng(rng) {}
    Real getNextEventTime(const State& s, bool includeCurrentTime) const override {
        for (Real t : times) if (t > s.getTime() || (includeCurrentTime && t == s.getTime())) return t;
        return Infinity; }
    void handleEvent(State& s, Real, bool&) const override {
        log->sched.push_back(s.getTime());
        const Real q = 0.001 * (Real)((*rng)() % 1000), u = 0.5 + 0.001 * (Real)((*rng)() % 1000);
        s.updQ()[0] = q; s.updU()[0] = u; log->lastTeleT = s.getTime(); log->lastQ = q; log->lastU = u; }
    std::vector<Real> times; TSLog* log; std::mt19937* rng;
};
struct PerR : public PeriodicEventReporter {
    PerR(Real h, TSLog* log) : PeriodicEventReporter(h), log(log) {}
    void handleEvent(const State& s) const override { log->report.push_back(s.getTime()); }
    TSLog* log;
};
struct TrigH : public TriggeredEventHandler {
    TrigH(Real c, TSLog* log) : TriggeredEventHandler(Stage::Position), c(c), log(log) {}
    Real getValue(const State& s) const override { return s.getQ()[0] - c; }
    void handleEvent(State& s, Real, bool&) const override { log->trigAdv.push_back(s.getTime()); }
    Real c; TSLog* log;
};
static int timestepper(unsigned seed, int n) {
    std::mt19937 rng(seed);
    int bad = 0, nsched = 0, nrep = 0, ntrig = 0;
    for (int it = 0; it < n && bad < 3; it++) {
        MultibodySystem sys; SimbodyMatterSubsystem matter(sys); GeneralForceSubsystem forces(sys);      // force-free pin: q(t) = q0 + u t
        Body::Rigid body(MassProperties(1.0, Vec3(0), Inertia(1)));
        MobilizedBody::Pin pin(matter.Ground(), Transform(), body, Transform(Vec3(0, 1, 0)));
        TSLog log; std::vector<Real> times; Real t = 0;
        const int ns = 1 + rng() % 4;
        for (int k = 0; k < ns; k++) { t += 0.05 * (1 + rng() % 20); times.push_back(t); }
        const Real h = 0.01 * (5 + rng() % 40), c = 0.3 + 0.01 * (rng() % 100);
        sys.addEventHandler(new SchedH(times, &log, &rng)); sys.addEventReporter(new PerR(h, &log)); sys.addEventHandler(new TrigH(c, &log));
        State s = sys.realizeTopology(); pin.setQ(s, 0.0); pin.setU(s, 1.0);
        log.lastTeleT = 0; log.lastQ = 0; log.lastU = 1;
        const int kind = rng() % 4;
        Integrator* integ = makeInteg(kind, sys);
        TimeStepper ts(sys, *integ); ts.initialize(s);
        Real req = 0; const Real tEnd = times.back() + 0.3;
        char ctx[160]; snprintf(ctx, sizeof ctx, "[seed %u run %d integ %d, %d scheduled times, report period %g]", seed, it, kind, ns, h);
        std::string why;
        for (int k = 0; k < 400 && req < tEnd && why.empty(); k++) {
            req += 0.01 * (1 + rng() % 30);
            Integrator::SuccessfulStepStatus st;
            try { st = ts.stepTo(req); } catch (std::exception& e) { why = std::string("exception: ") + e.what(); break; }
            const Real tn = ts.getState().getTime();
            if (tn > req || integ->getAdvancedTime() > req) why = "returned/advanced state past the requested time";
            else if (st == Integrator::ReachedReportTime && tn != req) why = "ReachedReportTime returned before the requested time";
            else {      // motion continues from the state the last handler produced (force-free: exact up to integration error)
                const Real expect = log.lastQ + log.lastU * (tn - log.lastTeleT);
                if (std::abs(ts.getState().getQ()[0] - expect) > 1e-6) why = "state does not continue from what the last handler produced";
            }
        }
        if (why.empty()) {
            std::vector<Real> expS; for (Real x : times) if (x <= req) expS.push_back(x);      // all scheduled times <= last request... handled at == time
            std::vector<Real> gotS; for (Real x : log.sched) gotS.push_back(x);
            while (!expS.empty() && expS.back() == req && gotS.size() + 1 == expS.size()) expS.pop_back();      // an event exactly at the last request is handled by the next call
            if (gotS != expS) { std::ostringstream o; o << "scheduled handler log differs from the schedule: got"; for (Real x : gotS) o << " " << x; o << " expected"; for (Real x : expS) o << " " << x; why = o.str(); }
        }
        if (why.empty()) {
            long long kk = 0; size_t i = 0;
            for (; i < log.report.size(); i++, kk++) if (log.report[i] != kk * h) { why = "periodic reporter not called exactly at k*interval, once each"; break; }
            if (why.empty() && (kk + 1) * h <= req - h) why = "periodic reports missing";
        }
        for (Real x : log.trigAdv) ntrig++;
        nsched += (int)log.sched.size(); nrep += (int)log.report.size();
        if (!why.empty()) { printf("REPRODUCED: TimeStepper: %s %s\n", why.c_str(), ctx); bad++; }
        delete integ;
    }
    if (!bad) printf("NOT-REPRODUCED (%d runs: %d scheduled handler calls, %d periodic reports, %d triggered handler calls, all at their times)\n", n, nsched, nrep, ntrig);
    return bad;
}

// ---------------------------------------------------------------------------------------------------------------------
// schedule: finding F9. A handler of the DefaultSystemSubsystem scheduled for t=5 plus a user subsystem (later index) whose own
// scheduled event is at t=2: System::calcTimeOfNextScheduledEvent must deliver t=2 with ONE id, and a TimeStepper run to t=3 must
// not invoke the t=5 handler.
struct LateH : public ScheduledEventHandler {
    LateH(Real T, std::vector<Real>* log) : T(T), log(log) {}
    Real getNextEventTime(const State& s, bool inc) const override { return (T > s.getTime() || (inc && T == s.getTime())) ? T : Infinity; }
    void handleEvent(State& s, Real, bool&) const override { log->push_back(s.getTime()); }
    Real T; std::vector<Real>* log;
};
class EarlyGuts : public Subsystem::Guts {
public:
    EarlyGuts() : Subsystem::Guts("early", "0") {}
    EarlyGuts* cloneImpl() const override { return new EarlyGuts(*this); }
    void calcTimeOfNextScheduledEventImpl(const State& s, Real& tNext, Array_<EventId>& ids, bool inc) const override {
        const Real T = 2.0; if (T > s.getTime() || (inc && T == s.getTime())) { tNext = T; ids.push_back(EventId(777)); } }
    void calcTimeOfNextScheduledReportImpl(const State& s, Real& tNext, Array_<EventId>& ids, bool inc) const override {
        const Real T = 2.0; if (T > s.getTime() || (inc && T == s.getTime())) { tNext = T; ids.push_back(EventId(778)); } }
};
class EarlySub : public Subsystem { public: EarlySub(System& sys) { adoptSubsystemGuts(new EarlyGuts()); sys.adoptSubsystem(*this); } };
struct LateR : public ScheduledEventReporter {
    LateR(Real T, std::vector<Real>* log) : T(T), log(log) {}
    Real getNextEventTime(const State& s, bool inc) const override { return (T > s.getTime() || (inc && T == s.getTime())) ? T : Infinity; }
    void handleEvent(const State& s) const override { log->push_back(s.getTime()); }
    Real T; std::vector<Real>* log;
};
static int schedule() {
    MultibodySystem sys; SimbodyMatterSubsystem matter(sys);
    Body::Rigid body(MassProperties(1.0, Vec3(0), Inertia(1)));
    MobilizedBody::Pin pin(matter.Ground(), Transform(), body, Transform(Vec3(0, 1, 0)));
    std::vector<Real> hlog, rlog;
    sys.addEventHandler(new LateH(5.0, &hlog)); sys.addEventReporter(new LateR(5.0, &rlog));
    EarlySub early(sys);
    State s = sys.realizeTopology(); sys.realize(s, Stage::Time);
    Real tE, tR; Array_<EventId> idsE, idsR;
    sys.calcTimeOfNextScheduledEvent(s, tE, idsE, true); sys.calcTimeOfNextScheduledReport(s, tR, idsR, true);
    RungeKuttaMersonIntegrator integ(sys); TimeStepper ts(sys, integ); ts.initialize(s);
    ts.stepTo(3.0);
    int bad = 0;
    if (!(tE == 2.0 && idsE.size() == 1)) { printf("REPRODUCED: calcTimeOfNextScheduledEvent delivers t=%g with %d ids (expected t=2 with the 1 id of the subsystem scheduled then; the id of the t=5 event of an earlier subsystem was not dropped)\n", tE, (int)idsE.size()); bad++; }
    if (!(tR == 2.0 && idsR.size() == 1)) { printf("REPRODUCED: calcTimeOfNextScheduledReport delivers t=%g with %d ids (expected t=2 with 1 id)\n", tR, (int)idsR.size()); bad++; }
    if (!hlog.empty()) { printf("REPRODUCED: TimeStepper::stepTo(3) invoked the handler scheduled for t=5 at t=%g\n", hlog[0]); bad++; }
    if (!rlog.empty()) { printf("REPRODUCED: TimeStepper::stepTo(3) invoked the reporter scheduled for t=5 at t=%g\n", rlog[0]); bad++; }
    if (!bad) printf("NOT-REPRODUCED (t=2 delivered with one id each; the t=5 handler/reporter not invoked before t=3)\n");
    return bad;
}
int main(int argc, char** argv) {
    try {
        std::string mode = argc > 1 ? argv[1] : "";
        if (mode == "classify") return classify() ? 1 : 0;
        if (mode == "localize") return localize(argc > 2 ? atoi(argv[2]) : 1, argc > 3 ? atoi(argv[3]) : 100) ? 1 : 0;
        if (mode == "schedule") return schedule() ? 1 : 0;
        if (mode == "fec") return fec(argc > 2 ? atoi(argv[2]) : 1, argc > 3 ? atoi(argv[3]) : 100) ? 1 : 0;
        if (mode == "timestepper") return timestepper(argc > 2 ? atoi(argv[2]) : 1, argc > 3 ? atoi(argv[3]) : 100) ? 1 : 0;
        printf("usage: c22_replay classify | localize <seed> <n> | fec <seed> <n> | timestepper <seed> <n> | schedule\n");
    } catch (std::exception& e) { printf("driver exception: %s\nNOT-REPRODUCED\n", e.what()); }
    return 0;
}
