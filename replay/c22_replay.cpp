// C22 native replay driver (compiled with the CURRENT tree's AbstractIntegratorRep.cpp/Integrator.cpp, linked to /verif/.build).
//   classify            exhaustive check of the real sign()/classifyTransition/maskTransition/calcTransitionMask/
//                       calcTransitionToReport composition against the property predicate (values incl. 0, NaN, inf)
//   localize <seed> <n> n random pendulum runs on every AbstractIntegratorRep integrator: on every ReachedEventTrigger the
//                       returned state is at tLow, advanced at tHigh, witness signs at tLow/tHigh bracket a crossing in the
//                       reported (monitored) direction, width <= max(accuracy*timescale*window, SignificantReal*max(1,t))
// Prints "REPRODUCED: ..." on a violation, "NOT-REPRODUCED" otherwise.
#include "Simbody.h"
#include <cstdio>
#include <cstdlib>
#include <string>
#include <random>
using namespace SimTK;

static int classify() {
    const Real vals[] = {-Infinity, -1.0, -1e-300, -0.0, 0.0, 1e-300, 2.0, Infinity, NaN};
    int bad = 0;
    for (Real lo : vals) for (Real hi : vals) for (int r = 0; r < 2; r++) for (int f = 0; f < 2; f++) {
        EventTriggerInfo info; info.setTriggerOnRisingSignTransition(r != 0); info.setTriggerOnFallingSignTransition(f != 0);
        Event::Trigger seen = Event::maskTransition(Event::classifyTransition(sign(lo), sign(hi)), info.calcTransitionMask());
        const bool falling = lo > 0 && !(hi > 0) && f, rising = lo < 0 && !(hi < 0) && r;
        bool ok = (seen != Event::NoEventTrigger) == (falling || rising);
        if (ok && seen != Event::NoEventTrigger) {
            Event::Trigger rep = info.calcTransitionToReport(seen);
            ok = ((rep == Event::Falling) == falling) && ((rep == Event::Rising) == rising);
        }
        if (!ok) { printf("REPRODUCED: eLow=%g eHigh=%g rising=%d falling=%d -> seen=%d (expected falling=%d rising=%d)\n", lo, hi, r, f, (int)seen, falling, rising); bad++; }
    }
    if (!bad) printf("NOT-REPRODUCED (classification agrees with the property on %d cases)\n", 9 * 9 * 4);
    return bad;
}

struct Wit : public TriggeredEventHandler {
    Wit(Real c, bool r, bool f) : TriggeredEventHandler(Stage::Position), c(c) {
        getTriggerInfo().setTriggerOnRisingSignTransition(r); getTriggerInfo().setTriggerOnFallingSignTransition(f); }
    Real getValue(const State& s) const override { return s.getQ()[0] - c; }
    void handleEvent(State&, Real, bool&) const override {}
    Real c;
};
static Integrator* makeInteg(int k, const System& sys) {
    switch (k) { case 0: return new RungeKuttaMersonIntegrator(sys); case 1: return new RungeKutta3Integrator(sys);
    case 2: return new RungeKutta2Integrator(sys); case 3: return new RungeKuttaFeldbergIntegrator(sys);
    case 4: return new VerletIntegrator(sys); case 5: return new ExplicitEulerIntegrator(sys);
    case 6: return new SemiExplicitEulerIntegrator(sys, 0.003); default: return new SemiExplicitEuler2Integrator(sys); }
}
static int localize(unsigned seed, int n) {
    std::mt19937 rng(seed);
    auto U = [&](Real a, Real b) { return a + (b - a) * (Real)(rng() % 1000001) / 1000000.0; };
    int bad = 0, events = 0, notBracketing = 0;
    for (int it = 0; it < n && bad < 5; it++) {
        MultibodySystem sys; SimbodyMatterSubsystem matter(sys); GeneralForceSubsystem forces(sys);
        Force::UniformGravity g(forces, matter, Vec3(0, -9.8, 0));
        Body::Rigid body(MassProperties(1.0, Vec3(0), Inertia(1)));
        MobilizedBody::Pin pin(matter.Ground(), Transform(), body, Transform(Vec3(0, 1, 0)));
        const Real c = U(-0.9, 0.9); const bool r = rng() % 3 != 0, f = rng() % 3 != 0;
        sys.addEventHandler(new Wit(c, r, f));
        State s = sys.realizeTopology(); pin.setQ(s, 1.0);
        const int kind = rng() % 8;
        Integrator* integ = makeInteg(kind, sys);
        if (rng() % 2) integ->setAccuracy(U(1e-6, 1e-2));
        integ->initialize(s);
        Real R = U(0.01, 0.2); const Real dR = U(0.01, 0.3);
        for (int k = 0; k < 200 && integ->getTime() < 3.0; k++) {
            Integrator::SuccessfulStepStatus st;
            try { st = integ->stepTo(R); } catch (std::exception&) { break; }
            if (st == Integrator::ReachedReportTime) R = integ->getTime() + dR;
            if (st != Integrator::ReachedEventTrigger) continue;
            events++;
            const Vec2 w = integ->getEventWindow();
            const Real vLow = integ->getState().getQ()[0] - c, vHigh = integ->getAdvancedState().getQ()[0] - c;
            const Real tol = std::max(integ->getAccuracyInUse() * sys.getDefaultTimeScale() * 0.1, SignificantReal * std::max(Real(1), w[1]));
            char ctx[200]; snprintf(ctx, sizeof ctx, "[seed %u run %d integ %d c=%.17g window (%.17g,%.17g] vLow=%g vHigh=%g]", seed, it, kind, c, w[0], w[1], vLow, vHigh);
            if (!(w[0] == integ->getTime() && w[1] == integ->getAdvancedTime() && w[0] < w[1])) { printf("REPRODUCED: returned state not the before-state at tLow / advanced not at tHigh %s\n", ctx); bad++; break; }
            if (w[1] - w[0] > tol * (1 + 1e-12)) { printf("REPRODUCED: event window wider than the localisation tolerance %g %s\n", tol, ctx); bad++; break; }
            const Array_<Event::Trigger>& tr = integ->getEventTransitionsSeen();
            if (tr.size() != 1 || integ->getTriggeredEvents().size() != 1) { printf("REPRODUCED: %d events listed for one witness %s\n", (int)tr.size(), ctx); bad++; break; }
            if (!((tr[0] == Event::Falling && f) || (tr[0] == Event::Rising && r))) {
                printf("REPRODUCED: listed transition %s is not in a monitored direction %s\n", Event::eventTriggerString(tr[0]).c_str(), ctx); bad++; break; }
            // INFO only (trajectory-level, outside the contracts): the state returned at tLow is RE-interpolated after the advanced
            // state was backed up to tHigh, so its witness value need not be the eLow the localisation saw
            const bool falling = vLow > 0 && !(vHigh > 0), rising = vLow < 0 && !(vHigh < 0);
            if (!((tr[0] == Event::Falling && falling) || (tr[0] == Event::Rising && rising))) notBracketing++;
            integ->reinitialize(Stage::Report, false);
        }
        delete integ;
    }
    if (!bad) printf("NOT-REPRODUCED (%d runs, %d localised events, all clauses held; INFO: in %d of them the witness evaluated on the returned before-state/advanced state does not bracket the listed crossing)\n", n, events, notBracketing);
    return bad;
}
int main(int argc, char** argv) {
    try {
        std::string mode = argc > 1 ? argv[1] : "";
        if (mode == "classify") return classify() ? 1 : 0;
        if (mode == "localize") return localize(argc > 2 ? atoi(argv[2]) : 1, argc > 3 ? atoi(argv[3]) : 100) ? 1 : 0;
        printf("usage: c22_replay classify | localize <seed> <n>\n");
    } catch (std::exception& e) { printf("driver exception: %s\nNOT-REPRODUCED\n", e.what()); }
    return 0;
}
