// Native witness search for the ElasticFoundation spring unit of C12 (part_c12_ef).
// Undamped, frictionless ElasticFoundationForce: power delivered == -dPE/dt (PE by central differences along qdot), for
//   (1) a sphere mesh on a Translation mobilizer pressed into a Ground-fixed half-space (the configuration of the contract), and
//   (2) two sphere meshes, BOTH with foundation parameters (the only configuration in which calcForce's areaScale differs from 1).
// Translation-only motion: the gradient of |x - nearest(x)|^2/2 is the displacement for any surface, so the identity is exact up to
// the finite-difference error and to springs entering/leaving contact inside the difference stencil (tolerance 2%).
// ElasticFoundationForce.cpp is compiled from the current tree into this driver.
#include "SimTKsimbody.h"
#include <cstdio>
#include <cmath>
#include <cstdlib>
using namespace SimTK;

static Real peAt(const MultibodySystem& sys, const State& s0, const Vector& q) {
    State s = s0; s.updQ() = q; sys.realize(s, Stage::Dynamics); return sys.calcPotentialEnergy(s);
}
static bool sample(const char* what, const MultibodySystem& sys, const SimbodyMatterSubsystem& matter, State& s) {
    sys.realize(s, Stage::Dynamics);
    const Vector_<SpatialVec>& F = sys.getRigidBodyForces(s, Stage::Dynamics);
    Real power = 0;
    for (MobilizedBodyIndex b(0); b < matter.getNumBodies(); ++b) power += ~F[b] * matter.getMobilizedBody(b).getBodyVelocity(s);
    const Real h = 1e-6; const Vector qd = s.getQDot();
    const Real pedot = (peAt(sys, s, s.getQ() + h*qd) - peAt(sys, s, s.getQ() - h*qd)) / (2*h);
    const Real scale = std::max(std::abs(power), std::abs(pedot));
    if (!(sys.calcPotentialEnergy(s) > 0) || scale < 1e-8) { std::printf("%s: no contact at this sample\n", what); return false; }
    const Real err = std::abs(power + pedot);
    std::printf("%s: power=%.9g  -dPE/dt=%.9g  PE=%.9g  rel.err=%.3e\n", what, power, -pedot, sys.calcPotentialEnergy(s), err/scale);
    if (err > 0.02*scale) {
        std::printf("REPRODUCED: %s: undamped frictionless ElasticFoundationForce delivers power %.9g but -dPE/dt = %.9g (ratio %.4f)\n", what, power, -pedot, -pedot/power);
        return true;
    }
    return false;
}
int main(int argc, char** argv) {
    const unsigned seed = argc > 1 ? (unsigned)std::atoi(argv[1]) : 1u; std::srand(seed);
    auto rnd = [](){ return std::rand() / (Real)RAND_MAX; };
    bool rep = false;
    for (int both = 0; both < 2; ++both) {
        MultibodySystem sys; SimbodyMatterSubsystem matter(sys); GeneralContactSubsystem contacts(sys); GeneralForceSubsystem forces(sys);
        Body::Rigid body(MassProperties(1.0, Vec3(0), Inertia(1)));
        ContactSetIndex set = contacts.createContactSet();
        MobilizedBody::Translation a(matter.updGround(), Transform(), body, Transform());
        MobilizedBody::Translation b(matter.updGround(), Transform(), body, Transform());
        contacts.addBody(set, a, ContactGeometry::TriangleMesh(PolygonalMesh::createSphereMesh(1.0, 3)), Transform());
        if (both) contacts.addBody(set, b, ContactGeometry::TriangleMesh(PolygonalMesh::createSphereMesh(1.4, 3)), Transform());
        else      contacts.addBody(set, matter.updGround(), ContactGeometry::HalfSpace(), Transform(Rotation(-0.5*Pi, ZAxis), Vec3(0)));   // y < 0 occupied
        ElasticFoundationForce ef(forces, contacts, set);
        ef.setBodyParameters(ContactSurfaceIndex(0), 900.0 + 200*rnd(), 0, 0, 0, 0);
        if (both) ef.setBodyParameters(ContactSurfaceIndex(1), 300.0 + 200*rnd(), 0, 0, 0, 0);
        State s = sys.realizeTopology();
        for (int i = 0; i < 8; ++i) {
            if (both) {
                b.setQToFitTranslation(s, Vec3(0.1, -0.2, 0.05)); b.setUToFitLinearVelocity(s, Vec3(-0.1, 0.2, 0.05));
                a.setQToFitTranslation(s, Vec3(0.1 + 0.1*rnd(), 2.15 - 0.25*rnd(), 0.05 - 0.1*rnd()));
            } else
                a.setQToFitTranslation(s, Vec3(0.1*rnd(), 0.95 - 0.3*rnd(), -0.1*rnd()));
            a.setUToFitLinearVelocity(s, Vec3(0.3*rnd() - 0.15, -1.0 + 1.6*rnd(), 0.2*rnd() - 0.1));
            rep = sample(both ? "mesh on mesh (both with parameters)" : "mesh on half-space", sys, matter, s) || rep;
        }
    }
    if (!rep) std::printf("NOT-REPRODUCED\n");
    return 0;
}
