// Native replay for C29: the same identities evaluated on the REAL code (headers from the
// current tree, MassProperties.cpp compiled in) at seeded random points.
#include "SimTKcommon.h"
#include <cstdio>
#include <cstdlib>
#include <cmath>
using namespace SimTK;
static int bad = 0;
static void rep(const char* what, double resid, double tol=1e-9) { if (!(resid <= tol)) { printf("%-64s residual %.3e MISMATCH\n", what, resid); bad++; } }
static double n2(const SpatialVec& a){ return std::sqrt(a[0].normSqr()+a[1].normSqr()); }
static double nm(const Mat33& m){ double s=0; for(int i=0;i<3;i++)for(int j=0;j<3;j++) s+=m(i,j)*m(i,j); return std::sqrt(s); }
int main(int argc, char** argv) {
  try {
  unsigned seed = argc>1 ? (unsigned)atoi(argv[1]) : 0; srand(seed+12345);
  auto rnd=[&](){ return 2.0*rand()/RAND_MAX-1.0; }; auto rv=[&](){ return Vec3(rnd(),rnd(),rnd()); }; auto rsv=[&](){ return SpatialVec(rv(),rv()); };
  for (int it=0; it<20; ++it) {
    SpatialVec V=rsv(), F=rsv(), A=rsv(); Vec3 r=rv(), w=rv(), s=rv(), p=rv();
    rep("shiftVelocityBy def", n2(shiftVelocityBy(V,r)-SpatialVec(V[0],V[1]+V[0]%r)));
    rep("shiftForceBy def", n2(shiftForceBy(F,r)-SpatialVec(F[0]-r%F[1],F[1])));
    rep("shiftAccelerationBy def", n2(shiftAccelerationBy(A,w,r)-SpatialVec(A[0],A[1]+A[0]%r+w%(w%r))));
    rep("velocity round trip", n2(shiftVelocityBy(shiftVelocityBy(V,r),-r)-V)); rep("force round trip", n2(shiftForceBy(shiftForceBy(F,r),-r)-F));
    rep("power invariance", std::fabs(~shiftForceBy(F,r)*shiftVelocityBy(V,r) - ~F*V));
    rep("FromTo velocity", n2(shiftVelocityFromTo(V,p,s)-shiftVelocityBy(V,s-p))); rep("FromTo force", n2(shiftForceFromTo(F,p,s)-shiftForceBy(F,s-p)));
    rep("FromTo accel", n2(shiftAccelerationFromTo(A,w,p,s)-shiftAccelerationBy(A,w,s-p)));
    SpatialVec VA=rsv(), VB=rsv(), AA=rsv(), AB=rsv();
    SpatialVec rel = findRelativeVelocityInF(p,VA,VB);
    rep("relative velocity def", n2(rel-SpatialVec(VB[0]-VA[0], VB[1]-VA[1]-VA[0]%p)));
    { // relative acceleration vs finite difference of relative velocity (derivative taken in A)
      double h=1e-6; Vec3 pd=VB[1]-VA[1];
      SpatialVec r1=findRelativeVelocityInF(p+h*pd, VA+h*AA, VB+h*AB), r0=findRelativeVelocityInF(p-h*pd, VA-h*AA, VB-h*AB);
      SpatialVec dF=(r1-r0)/(2*h); SpatialVec orc(dF[0]-VA[0]%rel[0], dF[1]-VA[0]%rel[1]);
      rep("relative acceleration == d_A/dt relative velocity", n2(findRelativeAccelerationInF(p,VA,AA,VB,AB)-orc), 1e-5); }
    { Rotation R(rnd()*3, UnitVec3(rv())); Transform XAB(R, rv()); Transform XBA = ~XAB; SpatialVec Vab=rsv();
      rep("reverse twice", n2(reverseRelativeVelocity(XBA, reverseRelativeVelocity(XAB,Vab))-Vab));
      rep("reverse in A def", n2(reverseRelativeVelocityInA(XAB,Vab)-SpatialVec(-Vab[0], -(Vab[1]-Vab[0]%XAB.p())))); }
    double m = 0.5+std::fabs(rnd())*3; Vec3 c=rv();
    Mat33 pmo = m*(c.normSqr()*Mat33(1) - Mat33(c*~c));
    rep("Inertia::pointMassAt", nm(Mat33(Inertia::pointMassAt(c,m).toMat33()-pmo)));
    rep("UnitInertia::pointMassAt", nm(Mat33(UnitInertia::pointMassAt(c).toMat33()+crossMat(c)*crossMat(c))));
    Inertia I0(2+std::fabs(rnd()),2+std::fabs(rnd()),2+std::fabs(rnd()), 0.1*rnd(),0.1*rnd(),0.1*rnd());
    rep("parallel axis", nm(Mat33(I0.shiftFromMassCenter(c,m).toMat33()-(I0.toMat33()+pmo))));
    rep("shift to/from inverse", nm(Mat33(I0.shiftFromMassCenter(c,m).shiftToMassCenter(c,m).toMat33()-I0.toMat33())));
    UnitInertia G(1+std::fabs(rnd()),1+std::fabs(rnd()),1+std::fabs(rnd()), 0.05*rnd(),0.05*rnd(),0.05*rnd()); G.shiftFromCentroidInPlace(c);
    SpatialInertia M0(m,c,G); SpatialVec T=rsv(); SpatialVec mom=M0*T;
    Mat33 Io = m*G.toMat33();
    rep("SpatialInertia*V", n2(mom-SpatialVec(Io*T[0]+m*(c%T[1]), m*(T[1]-c%T[0]))));
    SpatialInertia M1=M0.shift(s); SpatialVec V1=shiftVelocityBy(T,s);
    rep("KE invariant under shift", std::fabs(~V1*(M1*V1) - ~T*mom), 1e-8); rep("momentum shifts like a force", n2(M1*V1-shiftForceBy(mom,s)), 1e-8);
    rep("shift com", (M1.getMassCenter()-(c-s)).norm());
    ArticulatedInertia P(M0); ArticulatedInertia Ps=P.shift(s); SpatialVec Z=rsv(); SpatialVec Zs=shiftVelocityBy(Z,-s);
    rep("ABI quadratic form invariant", std::fabs(~Zs*(Ps*Zs) - ~Z*(P*Z)), 1e-8);
    ArticulatedInertia Pi(M0); Pi.shiftInPlace(s); rep("ABI shiftInPlace == shift", n2(Pi*Z-Ps*Z), 1e-9);
    SymMat33 Ms(1.5,0.2,2.5,-0.3,0.4,3.5); rep("cross(v,SymMat)", nm(Mat33(cross(w,Ms)-crossMat(w)*Mat33(Ms))));
    // ---- re-expression, transform, MassProperties (obligations of units massprops.transform / massprops.class) ----
    { Rotation Rb(rnd()*3, UnitVec3(rnd(),rnd(),rnd()+1.5)); Transform Xbc(Rb, s);
      Mat33 Rm = Rb.asMat33();
      Inertia Ire = I0.reexpress(Rb);
      rep("Inertia::reexpress == ~R I R", nm(Mat33(Ire.toMat33() - (~Rm)*I0.toMat33()*Rm)), 1e-9);
      rep("reexpress preserves trace", std::fabs(Ire.toMat33().trace() - I0.toMat33().trace()), 1e-9);
      rep("reexpress preserves determinant", std::fabs(det(Ire.toMat33()) - det(I0.toMat33())), 1e-8);
      SpatialInertia Mt = M0.transform(Xbc);
      rep("SpatialInertia::transform com == ~R (c - s)", (Mt.getMassCenter() - (~Rm)*(c-s)).norm(), 1e-9);
      SpatialVec VB((~Rm)*T[0], (~Rm)*(T[1] + T[0]%s));
      rep("KE invariant under transform", std::fabs(~VB*(Mt*VB) - ~T*mom), 1e-8);
      MassProperties mp(m, c, G);
      MassProperties tp = mp.calcTransformedMassProps(Xbc);
      rep("calcTransformedMassProps com == ~X_BC * c", (tp.getMassCenter() - (~Rm)*(c-s)).norm(), 1e-9);
      rep("calcTransformedMassProps com agrees with SpatialInertia::transform", (tp.getMassCenter() - Mt.getMassCenter()).norm(), 1e-9);
      rep("calcTransformedMassProps inertia agrees with SpatialInertia::transform", nm(Mat33(tp.calcInertia().toMat33() - m*Mt.getUnitInertia().toMat33())), 1e-8);
      rep("calcTransformedMassProps central inertia == ~R Ic R", nm(Mat33(tp.calcCentralInertia().toMat33() - (~Rm)*mp.calcCentralInertia().toMat33()*Rm)), 1e-8);
      MassProperties sp2 = mp.calcShiftedMassProps(s);
      rep("calcShiftedMassProps agrees with SpatialInertia::shift", (sp2.getMassCenter()-M1.getMassCenter()).norm() + nm(Mat33(sp2.calcInertia().toMat33() - m*M1.getUnitInertia().toMat33())), 1e-8);
      MassProperties rp = mp.reexpress(Rb);
      rep("MassProperties::reexpress", (rp.getMassCenter()-(~Rm)*c).norm() + nm(Mat33(rp.getUnitInertia().toMat33() - (~Rm)*G.toMat33()*Rm)), 1e-9);
      SpatialInertia Mb(0.5+std::fabs(rnd()), Vec3(rnd(),rnd(),rnd()), UnitInertia(1.2,1.1,1.3));
      SpatialInertia Msum(M0); Msum += Mb;
      rep("SpatialInertia += : momentum additive", n2(Msum*T - (M0*T + Mb*T)), 1e-8);
      Msum -= Mb; rep("SpatialInertia (a+=b)-=b", n2(Msum*T - M0*T), 1e-8);
    }
    // ---- isValidInertiaMatrix (unit massprops.valid): acceptance within the documented relative slop only ----
    { const double sig = SignificantReal; int wrong = 0;
      double a = 0.05+std::fabs(rnd()), b = 0.05+std::fabs(rnd());
      for (int k=0;k<3;k++) { // triangle inequality violated by 1e-6 of the trace (>> slop): must be rejected; exactly on the boundary: accepted
        Vec3 d; d[k]=a+b; d[(k+1)%3]=a; d[(k+2)%3]=b; double tr=d.sum();
        Vec3 dv=d; dv[k] += 1e-6*std::max(tr,1.0);
        if (Inertia::isValidInertiaMatrix(SymMat33(dv[0],0,dv[1],0,0,dv[2]))) wrong++;
        if (!Inertia::isValidInertiaMatrix(SymMat33(d[0],0,d[1],0,0,d[2]))) wrong++;
        Vec3 dn=d; dn[k] = -1e-9;                                  // negative diagonal: rejected
        if (Inertia::isValidInertiaMatrix(SymMat33(dn[0],0,dn[1],0,0,dn[2]))) wrong++;
      }
      // product of inertia bound: |2 Iyz| <= Ixx + slop
      double x=1+std::fabs(rnd());
      if (Inertia::isValidInertiaMatrix(SymMat33(x,0,2*x,0,0.5*x+1e-6*x,2*x))) wrong++;     // m21 = Iyz -> bounded by d[0]/2
      if (!Inertia::isValidInertiaMatrix(SymMat33(x,0,2*x,0,0.5*x,2*x))) wrong++;
      (void)sig;
      rep("isValidInertiaMatrix accepts/rejects per the documented conditions with slop Significant*max(trace,1)", wrong, 0);
    }
  }
  } catch (const std::exception& e) { printf("REPRODUCED: exception on valid mass properties (identities violated so far: %d): %s\n", bad, e.what()); return 1; }
  printf(bad ? "REPRODUCED: %d identities violated natively\n" : "NOT-REPRODUCED (%d)\n", bad);
  return bad?1:0;
}
