// Native replay for C29: the same identities evaluated on the REAL code (headers from the
// current tree, MassProperties.cpp compiled in) at seeded random points.
#include "SimTKcommon.h"
#include <cstdio>
#include <cstdlib>
#include <cmath>
using namespace SimTK;
static int bad = 0;
static void rep(const char* what, double resid, double tol=1e-9) { if (!(resid <= tol)) { printf("%-64s residual %.3e MISMATCH\n", what, resid); bad++; } }
static double n2(const SpatialVec& a){ return std::sqrt(a[0].normSqr()+a[1].normSqr()); }
static double nm(const Mat33& m){ double s=0; for(int i=0;i<3;i++)for(int j=0;j<3;j++) s+=m(i,j)*m(i,j); return std::sqrt(s); }
int main(int argc, char** argv) {
  unsigned seed = argc>1 ? (unsigned)atoi(argv[1]) : 0; srand(seed+12345);
  auto rnd=[&](){ return 2.0*rand()/RAND_MAX-1.0; }; auto rv=[&](){ return Vec3(rnd(),rnd(),rnd()); }; auto rsv=[&](){ return SpatialVec(rv(),rv()); };
  for (int it=0; it<20; ++it) {
    SpatialVec V=rsv(), F=rsv(), A=rsv(); Vec3 r=rv(), w=rv(), s=rv(), p=rv();
    rep("shiftVelocityBy def", n2(shiftVelocityBy(V,r)-SpatialVec(V[0],V[1]+V[0]%r)));
    rep("shiftForceBy def", n2(shiftForceBy(F,r)-SpatialVec(F[0]-r%F[1],F[1])));
    rep("shiftAccelerationBy def", n2(shiftAccelerationBy(A,w,r)-SpatialVec(A[0],A[1]+A[0]%r+w%(w%r))));
    rep("velocity round trip", n2(shiftVelocityBy(shiftVelocityBy(V,r),-r)-V)); rep("force round trip", n2(shiftForceBy(shiftForceBy(F,r),-r)-F));
    rep("power invariance", std::fabs(~shiftForceBy(F,r)*shiftVelocityBy(V,r) - ~F*V));
    rep("FromTo velocity", n2(shiftVelocityFromTo(V,p,s)-shiftVelocityBy(V,s-p))); rep("FromTo force", n2(shiftForceFromTo(F,p,s)-shiftForceBy(F,s-p)));
    rep("FromTo accel", n2(shiftAccelerationFromTo(A,w,p,s)-shiftAccelerationBy(A,w,s-p)));
    SpatialVec VA=rsv(), VB=rsv(), AA=rsv(), AB=rsv();
    SpatialVec rel = findRelativeVelocityInF(p,VA,VB);
    rep("relative velocity def", n2(rel-SpatialVec(VB[0]-VA[0], VB[1]-VA[1]-VA[0]%p)));
    { // relative acceleration vs finite difference of relative velocity (derivative taken in A)
      double h=1e-6; Vec3 pd=VB[1]-VA[1];
      SpatialVec r1=findRelativeVelocityInF(p+h*pd, VA+h*AA, VB+h*AB), r0=findRelativeVelocityInF(p-h*pd, VA-h*AA, VB-h*AB);
      SpatialVec dF=(r1-r0)/(2*h); SpatialVec orc(dF[0]-VA[0]%rel[0], dF[1]-VA[0]%rel[1]);
      rep("relative acceleration == d_A/dt relative velocity", n2(findRelativeAccelerationInF(p,VA,AA,VB,AB)-orc), 1e-5); }
    { Rotation R(rnd()*3, UnitVec3(rv())); Transform XAB(R, rv()); Transform XBA = ~XAB; SpatialVec Vab=rsv();
      rep("reverse twice", n2(reverseRelativeVelocity(XBA, reverseRelativeVelocity(XAB,Vab))-Vab));
      rep("reverse in A def", n2(reverseRelativeVelocityInA(XAB,Vab)-SpatialVec(-Vab[0], -(Vab[1]-Vab[0]%XAB.p())))); }
    double m = 0.5+std::fabs(rnd())*3; Vec3 c=rv();
    Mat33 pmo = m*(c.normSqr()*Mat33(1) - Mat33(c*~c));
    rep("Inertia::pointMassAt", nm(Mat33(Inertia::pointMassAt(c,m).toMat33()-pmo)));
    rep("UnitInertia::pointMassAt", nm(Mat33(UnitInertia::pointMassAt(c).toMat33()+crossMat(c)*crossMat(c))));
    Inertia I0(2+std::fabs(rnd()),2+std::fabs(rnd()),2+std::fabs(rnd()), 0.1*rnd(),0.1*rnd(),0.1*rnd());
    rep("parallel axis", nm(Mat33(I0.shiftFromMassCenter(c,m).toMat33()-(I0.toMat33()+pmo))));
    rep("shift to/from inverse", nm(Mat33(I0.shiftFromMassCenter(c,m).shiftToMassCenter(c,m).toMat33()-I0.toMat33())));
    UnitInertia G(1+std::fabs(rnd()),1+std::fabs(rnd()),1+std::fabs(rnd()), 0.05*rnd(),0.05*rnd(),0.05*rnd()); G.shiftFromCentroidInPlace(c);
    SpatialInertia M0(m,c,G); SpatialVec T=rsv(); SpatialVec mom=M0*T;
    Mat33 Io = m*G.toMat33();
    rep("SpatialInertia*V", n2(mom-SpatialVec(Io*T[0]+m*(c%T[1]), m*(T[1]-c%T[0]))));
    SpatialInertia M1=M0.shift(s); SpatialVec V1=shiftVelocityBy(T,s);
    rep("KE invariant under shift", std::fabs(~V1*(M1*V1) - ~T*mom), 1e-8); rep("momentum shifts like a force", n2(M1*V1-shiftForceBy(mom,s)), 1e-8);
    rep("shift com", (M1.getMassCenter()-(c-s)).norm());
    ArticulatedInertia P(M0); ArticulatedInertia Ps=P.shift(s); SpatialVec Z=rsv(); SpatialVec Zs=shiftVelocityBy(Z,-s);
    rep("ABI quadratic form invariant", std::fabs(~Zs*(Ps*Zs) - ~Z*(P*Z)), 1e-8);
    ArticulatedInertia Pi(M0); Pi.shiftInPlace(s); rep("ABI shiftInPlace == shift", n2(Pi*Z-Ps*Z), 1e-9);
    SymMat33 Ms(1.5,0.2,2.5,-0.3,0.4,3.5); rep("cross(v,SymMat)", nm(Mat33(cross(w,Ms)-crossMat(w)*Mat33(Ms))));
  }
  printf(bad ? "REPRODUCED: %d identities violated natively\n" : "NOT-REPRODUCED (%d)\n", bad);
  return bad?1:0;
}
