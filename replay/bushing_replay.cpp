// Native replay for Force::LinearBushing (parts of C13 / C12 / C38, units bushing.*): the REAL element
// (Force_LinearBushing.cpp of the CURRENT tree is compiled into this driver) on random two-body systems
// (Free mobilizers; also body1 = Ground, body2 = Ground, both frames on one body) with random frames,
// stiffness, damping and states. Compared with the documented law computed independently below:
//   [law]      getQ/getQDot/getF/PE/power/X_*/body forces vs. the documentation (angles by an independent
//              extraction, qdot by finite differences of q along the motion AND by Kane's formula)
//   [reaction] total force and total moment about the Ground origin of the applied body forces
//   [power]    sum F.V == -(d/dt PE) - sum c qdot^2, d/dt PE by finite differences along the motion
//   [cache]    State-based setters: after a change + re-realize the outputs equal those of a fresh system
//              built with the new parameter; the getters return what was set
// usage: bushing_replay <seed> [focus = all|reaction|power|law|cache]
#include "Simbody.h"
#include <cstdio>
#include <cstdlib>
#include <cmath>
#include <string>
#include <map>
using namespace SimTK;
static std::map<std::string,int> bad;
static void rep(const char* cat, const std::string& what, double resid, double tol) {
  if (!(resid <= tol)) { if (bad[cat] < 12) printf("[%s] %-78s residual %.3e MISMATCH\n", cat, what.c_str(), resid); bad[cat]++; } }
static double n2(const SpatialVec& a){ return std::sqrt(a[0].normSqr()+a[1].normSqr()); }
static double n6(const Vec6& a){ return std::sqrt(a.normSqr()); }
static unsigned long long rs;
static double rnd(){ rs = rs*6364136223846793005ULL + 1442695040888963407ULL; return 2.0*((rs>>11)*(1.0/9007199254740992.0))-1.0; }
static Vec3 rv(){ return Vec3(rnd(),rnd(),rnd()); }
static Transform rX(double ang=3.0){ return Transform(Rotation(ang*rnd(), UnitVec3(rnd(),rnd(),rnd()+1.5)), rv()); }

struct Params { Transform X_B1F, X_B2M; Vec6 k, c; };
struct Sys {
  MultibodySystem sys; SimbodyMatterSubsystem matter; GeneralForceSubsystem forces;
  MobilizedBody::Free b1, b2; Force::LinearBushing bush; MobilizedBody A, B; State s;
  Sys(int kind, const Params& p) : matter(sys), forces(sys) {
    Body::Rigid body(MassProperties(2.5, Vec3(0.1,-0.2,0.3), UnitInertia(1,1.2,1.4).shiftFromCentroid(Vec3(0.1,-0.2,0.3))));
    b1 = MobilizedBody::Free(matter.Ground(), Transform(Vec3(0.1,0.2,-0.1)), body, Transform(Vec3(-0.2,0.1,0.05)));
    b2 = MobilizedBody::Free(matter.Ground(), Transform(Vec3(-0.3,0.1,0.2)), body, Transform(Vec3(0.1,0.1,-0.1)));
    A = (kind==1) ? MobilizedBody(matter.Ground()) : MobilizedBody(b1);
    B = (kind==2) ? MobilizedBody(matter.Ground()) : (kind==3 ? MobilizedBody(b1) : MobilizedBody(b2));
    bush = Force::LinearBushing(forces, A, p.X_B1F, B, p.X_B2M, p.k, p.c);
    s = sys.realizeTopology(); sys.realizeModel(s);
  }
};

// independent angle extraction for R = Rx(q0) Ry(q1) Rz(q2): R02 = s1, R12 = -s0 c1, R22 = c0 c1, R01 = -c1 s2, R00 = c1 c2
static Vec3 anglesXYZ(const Rotation& R){ return Vec3(std::atan2(-R[1][2], R[2][2]), std::asin(R[0][2]), std::atan2(-R[0][1], R[0][0])); }

struct Out { Vec6 q, qd, f; Real pe, pw; Vector_<SpatialVec> bf; Transform X_GF, X_GM, X_FM; SpatialVec F_GM, F_GF; };
static Out eval(Sys& S_, State& s) {
  Out o; S_.sys.realize(s, Stage::Dynamics);
  o.q = S_.bush.getQ(s); o.qd = S_.bush.getQDot(s); o.f = S_.bush.getF(s); o.pe = S_.bush.calcPotentialEnergyContribution(s); o.pw = S_.bush.getPowerDissipation(s);
  Vector_<Vec3> pf(0); Vector mf(s.getNU()); mf = 0; o.bf.resize(S_.matter.getNumBodies()); o.bf = SpatialVec(Vec3(0),Vec3(0));
  S_.bush.calcForceContribution(s, o.bf, pf, mf);
  o.X_GF = S_.bush.getX_GF(s); o.X_GM = S_.bush.getX_GM(s); o.X_FM = S_.bush.getX_FM(s); o.F_GM = S_.bush.getF_GM(s); o.F_GF = S_.bush.getF_GF(s);
  return o;
}
static double diff(const Out& a, const Out& b) {
  double d = n6(a.q-b.q) + n6(a.qd-b.qd) + n6(a.f-b.f) + std::fabs(a.pe-b.pe) + std::fabs(a.pw-b.pw);
  for (int i=0;i<a.bf.size();++i) d += n2(a.bf[i]-b.bf[i]);
  return d;
}

int main(int argc, char** argv) {
  unsigned seed = argc>1 ? (unsigned)atoi(argv[1]) : 0; rs = 88172645463325252ULL + 7919ULL*seed;
  std::string focus = argc>2 ? argv[2] : "all";
  try {
  for (int it=0; it<24; ++it) {
    const int kind = it % 4;                       // 0 two moving bodies, 1 body1 = Ground, 2 body2 = Ground, 3 both frames on body 1
    Params p; p.X_B1F = rX(); p.X_B2M = rX();
    for (int i=0;i<6;++i) { p.k[i] = 5+20*std::fabs(rnd()); p.c[i] = 0.5+3*std::fabs(rnd()); }
    if (it%5==4) p.c = Vec6(0);                    // pure spring: conservative
    // desired relative configuration (moderate angles, away from the singularity)
    Rotation R_FM; R_FM.setRotationToBodyFixedXYZ(Vec3(0.9*rnd(), 0.9*rnd(), 0.9*rnd()));
    Transform X_FM(R_FM, 0.5*rv());
    if (kind==3) p.X_B2M = p.X_B1F * X_FM;
    Sys S_(kind, p); State& s = S_.s;
    Transform X_GB1 = rX(), X_GB2;
    if (kind==1) X_GB1 = Transform();
    if (kind==2) { X_GB2 = Transform(); X_GB1 = (X_GB2*p.X_B2M) * ~X_FM * ~p.X_B1F; }
    else X_GB2 = (X_GB1*p.X_B1F) * X_FM * ~p.X_B2M;
    S_.b1.setQToFitTransform(s, ~S_.b1.getDefaultInboardFrame() * X_GB1 * S_.b1.getDefaultOutboardFrame());
    S_.b2.setQToFitTransform(s, ~S_.b2.getDefaultInboardFrame() * (kind==2||kind==3 ? rX() : X_GB2) * S_.b2.getDefaultOutboardFrame());
    for (int i=0;i<s.getNU();++i) s.updU()[i] = 1.5*rnd();
    Out o = eval(S_, s);
    // ---- documented law, independently ----
    const MobilizedBody &A = S_.A, &B = S_.B;
    const Transform XA = A.getBodyTransform(s), XB = B.getBodyTransform(s);
    const SpatialVec VA = A.getBodyVelocity(s), VB = B.getBodyVelocity(s);
    const Transform X_GF = XA*p.X_B1F, X_GM = XB*p.X_B2M; const Transform X_FMc = ~X_GF*X_GM;
    Vec3 ang = anglesXYZ(X_FMc.R());
    Vec6 q; q.updSubVec<3>(0) = ang; q.updSubVec<3>(3) = X_FMc.p();
    rep("law", "getQ == (body-fixed xyz angles of R_FM, p_FM)", n6(o.q-q), 1e-9);
    rep("law", "getX_GF/getX_GM/getX_FM", (o.X_GF.p()-X_GF.p()).norm()+(o.X_GM.p()-X_GM.p()).norm()+(o.X_FM.p()-X_FMc.p()).norm()
        +(o.X_GF.R().asMat33()-X_GF.R().asMat33()).norm()+(o.X_GM.R().asMat33()-X_GM.R().asMat33()).norm()+(o.X_FM.R().asMat33()-X_FMc.R().asMat33()).norm(), 1e-9);
    // qdot by finite differences of q along the motion
    const double h = 1e-6; State sp = s, sm = s; sp.updQ() = s.getQ()+h*s.getQDot(); sm.updQ() = s.getQ()-h*s.getQDot();
    S_.sys.realize(sp, Stage::Position); S_.sys.realize(sm, Stage::Position);
    Vec6 qd_fd = (S_.bush.getQ(sp)-S_.bush.getQ(sm))/(2*h);
    rep("law", "getQDot == d/dt getQ along the motion (finite differences)", n6(o.qd-qd_fd), 2e-5);
    // qdot by Kane's formula (body-three 1-2-3) from the relative angular velocity expressed in M
    const Vec3 pF_G = XA.R()*p.X_B1F.p(), pM_G = XB.R()*p.X_B2M.p();
    const Vec3 vF = VA[1]+VA[0]%pF_G, vM = VB[1]+VB[0]%pM_G;
    const Vec3 w = ~X_GM.R()*(VB[0]-VA[0]); const double c1=std::cos(ang[1]), s1=std::sin(ang[1]), c2=std::cos(ang[2]), s2=std::sin(ang[2]);
    Vec6 qd; qd[0] = (w[0]*c2-w[1]*s2)/c1; qd[1] = w[0]*s2+w[1]*c2; qd[2] = w[2]-s1*(w[0]*c2-w[1]*s2)/c1;
    qd.updSubVec<3>(3) = ~X_GF.R()*(vM-vF-VA[0]%(X_GM.p()-X_GF.p()));
    rep("law", "getQDot == (N(q) w_FM_M, d/dt p_FM in F)", n6(o.qd-qd), 1e-8);
    Vec6 f; double pe=0, pw=0; for (int i=0;i<6;++i) { f[i] = -(p.k[i]*q[i]+p.c[i]*qd[i]); pe += p.k[i]*q[i]*q[i]/2; pw += p.c[i]*qd[i]*qd[i]; }
    const double sc = 1+n6(f);
    rep("law", "getF == -(k q + c qdot)", n6(o.f-f)/sc, 1e-8);
    rep("law", "potential energy == sum k q^2 / 2", std::fabs(o.pe-pe)/sc, 1e-9);
    rep("law", "getPotentialEnergy == calcPotentialEnergyContribution", std::fabs(S_.bush.getPotentialEnergy(s)-o.pe)/sc, 1e-12);
    rep("law", "power dissipation == sum c qdot^2", std::fabs(o.pw-pw)/sc, 1e-8);
    // moment on body 2 about OM: the moment m with  m . w_FM == f_rot . qdot_rot for all w, i.e. m_M = ~N f_rot
    Mat33 N(c2/c1, -s2/c1, 0,  s2, c2, 0,  -s1*c2/c1, s1*s2/c1, 1);
    const Vec3 m_G = X_GM.R()*(~N*f.getSubVec<3>(0)), fM_G = X_GF.R()*f.getSubVec<3>(3);
    rep("law", "getF_GM == (R_GM ~N f_rot, R_GF f_trans)", n2(o.F_GM-SpatialVec(m_G,fM_G))/sc, 1e-8);
    SpatialVec wantB(m_G+(X_GM.p()-XB.p())%fM_G, fM_G), wantA(-(m_G+(X_GM.p()-XA.p())%fM_G), -fM_G);
    const int ia = A.getMobilizedBodyIndex(), ib = B.getMobilizedBodyIndex();
    if (ia==ib) rep("law", "both frames on one body: net body force == 0", n2(o.bf[ia])/sc, 1e-8);
    else { rep("law", "body force on body 2 == F_GM shifted to its origin", n2(o.bf[ib]-wantB)/sc, 1e-8);
           rep("law", "body force on body 1 == -F_GM shifted to its origin", n2(o.bf[ia]-wantA)/sc, 1e-8); }
    // ---- action-reaction ----
    { Vec3 fs(0), ms(0); for (MobilizedBodyIndex i(0); i<S_.matter.getNumBodies(); ++i) { Vec3 pp = S_.matter.getMobilizedBody(i).getBodyOriginLocation(s); fs += o.bf[i][1]; ms += o.bf[i][0]+pp%o.bf[i][1]; }
      rep("reaction", "total applied force == 0", fs.norm()/sc, 1e-9); rep("reaction", "total applied moment about the Ground origin == 0", ms.norm()/sc, 1e-8); }
    // ---- energy balance ----
    { double P=0; for (MobilizedBodyIndex i(0); i<S_.matter.getNumBodies(); ++i) { const SpatialVec& V = S_.matter.getMobilizedBody(i).getBodyVelocity(s); P += dot(o.bf[i][0],V[0])+dot(o.bf[i][1],V[1]); }
      double dpe = (S_.bush.calcPotentialEnergyContribution(sp)-S_.bush.calcPotentialEnergyContribution(sm))/(2*h);
      rep("power", "sum F.V == -(d/dt PE) - power dissipation (d/dt PE by finite differences)", std::fabs(P+dpe+o.pw)/sc, 5e-5);
      rep("power", "power dissipation >= 0", o.pw < 0 ? -o.pw : 0, 0);
      double fq=0; for (int i=0;i<6;++i) fq += o.f[i]*o.qd[i];
      rep("power", "sum F.V == f . qdot (virtual work)", std::fabs(P-fq)/sc, 1e-8); }
    // ---- request order and velocity-only change ----
    try { State s3 = s; S_.sys.realize(s3, Stage::Velocity); Vec6 qd3 = S_.bush.getQDot(s3); Out o3 = eval(S_, s3);      // velocity entry filled before the force is ever evaluated
      { double d3 = (diff(o3, o)+n6(qd3-o.qd))/sc; rep("cache", "getQDot requested (at Stage::Velocity) before the force: same results", d3==d3 ? d3 : 1e30, 1e-10); }
      State s4 = s; S_.sys.realize(s4, Stage::Position); double pe4 = S_.bush.getPotentialEnergy(s4); Vec6 q4 = S_.bush.getQ(s4); Out o4 = eval(S_, s4);
      { double d4 = (diff(o4, o)+std::fabs(pe4-o.pe)+n6(q4-o.q))/sc; rep("cache", "getPotentialEnergy/getQ requested (at Stage::Position) before the force: same results", d4==d4 ? d4 : 1e30, 1e-10); }
      State s5 = s; eval(S_, s5); for (int i=0;i<s5.getNU();++i) s5.updU()[i] = 1.5*rnd(); Out o5 = eval(S_, s5);
      Sys F_(kind, p); F_.s.updQ() = s5.getQ(); F_.s.updU() = s5.getU(); Out f5 = eval(F_, F_.s);
      rep("cache", "velocity change: next evaluation == fresh system at the new velocities", diff(o5, f5)/sc, 1e-8); }
    catch (const std::exception& e) { std::string m(e.what()); rep("cache", "request order / velocity change threw: " + m.substr(0, 150), 1e30, 0); }
    // ---- State-based setters ----
    for (int which=0; which<4; ++which) try {
      Params p2 = p; State s2 = s; S_.sys.realize(s2, Stage::Dynamics); Out before = eval(S_, s2);
      if (which==0) { for (int i=0;i<6;++i) p2.k[i] = 3+10*std::fabs(rnd()); S_.bush.setStiffness(s2, p2.k); rep("cache", "getStiffness returns what was set", n6(S_.bush.getStiffness(s2)-p2.k), 0); }
      if (which==1) { for (int i=0;i<6;++i) p2.c[i] = 0.3+2*std::fabs(rnd()); S_.bush.setDamping(s2, p2.c); rep("cache", "getDamping returns what was set", n6(S_.bush.getDamping(s2)-p2.c), 0); }
      if (which==2) { p2.X_B1F = Transform(p.X_B1F.R()*Rotation(0.2*rnd(), UnitVec3(rnd(),rnd()+1.2,rnd())), p.X_B1F.p()+0.1*rv()); S_.bush.setFrameOnBody1(s2, p2.X_B1F);
                      rep("cache", "getFrameOnBody1 returns what was set", (S_.bush.getFrameOnBody1(s2).p()-p2.X_B1F.p()).norm()+(S_.bush.getFrameOnBody1(s2).R().asMat33()-p2.X_B1F.R().asMat33()).norm(), 0); }
      if (which==3) { p2.X_B2M = Transform(p.X_B2M.R()*Rotation(0.2*rnd(), UnitVec3(rnd()+1.2,rnd(),rnd())), p.X_B2M.p()+0.1*rv()); S_.bush.setFrameOnBody2(s2, p2.X_B2M);
                      rep("cache", "getFrameOnBody2 returns what was set", (S_.bush.getFrameOnBody2(s2).p()-p2.X_B2M.p()).norm()+(S_.bush.getFrameOnBody2(s2).R().asMat33()-p2.X_B2M.R().asMat33()).norm(), 0); }
      rep("cache", "a State-based setter invalidates Stage::Instance", s2.getSystemStage() < Stage::Instance ? 0 : 1, 0);
      Out after = eval(S_, s2);
      Sys F_(kind, p2); F_.s.updQ() = s.getQ(); F_.s.updU() = s.getU(); Out fresh = eval(F_, F_.s);
      const char* nm[4] = {"setStiffness", "setDamping", "setFrameOnBody1", "setFrameOnBody2"};
      rep("cache", std::string(nm[which]) + ": next evaluation == fresh system built with the new parameter", diff(after, fresh)/sc, 1e-8);
      if (!(kind==3 && which==1)) rep("cache", std::string(nm[which]) + ": the change has an effect at all (sanity of the scenario)", diff(after, before) > 1e-6 ? 0 : 1, 0);
    } catch (const std::exception& e) { std::string m(e.what()); rep("cache", "setter sequence threw: " + m.substr(0, 150), 1e30, 0); }
  }
  } catch (const std::exception& e) { printf("exception: %s\n", e.what()); std::string m(e.what()); rep("law", "evaluation threw: " + m.substr(0, 150), 1e30, 0); }
  int nfocus = 0, ntot = 0;
  for (auto& kv : bad) { ntot += kv.second;
    if (focus=="all" || focus==kv.first || (focus=="law" && kv.first=="power")) nfocus += kv.second; }
  printf("mismatches: law %d, reaction %d, power %d, cache %d\n", bad["law"], bad["reaction"], bad["power"], bad["cache"]);
  if (nfocus) printf("REPRODUCED: %d LinearBushing checks (focus %s) violated natively\n", nfocus, focus.c_str());
  else printf("NOT-REPRODUCED (focus %s; %d mismatches in other categories)\n", focus.c_str(), ntot);
  return nfocus ? 1 : 0;
}
